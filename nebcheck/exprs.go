package main

import (
	"fmt"
	"go/token"
	"go/types"
	"sort"
	"strings"

	"golang.org/x/tools/go/ssa"
)

// exprString renders an SSA value tree canonically (fields by name, parameters by name), so two
// computations can be compared independent of local variable names and statement order.
func exprString(v ssa.Value) string { return exprStringD(v, 0) }

func exprStringD(v ssa.Value, d int) string {
	if v == nil {
		return "nil"
	}
	if d > 12 {
		return "…"
	}
	switch x := v.(type) {
	case *ssa.Const:
		if x.Value == nil {
			return "nil"
		}
		return x.Value.ExactString()
	case *ssa.Parameter:
		return x.Name()
	case *ssa.Global:
		return x.Name()
	case *ssa.FieldAddr:
		return exprStringD(x.X, d+1) + "." + fieldOfAddr(x).Name()
	case *ssa.Field:
		return exprStringD(x.X, d+1) + "." + fieldOfVal(x).Name()
	case *ssa.UnOp:
		if x.Op == token.MUL {
			return exprStringD(x.X, d+1)
		}
		return x.Op.String() + exprStringD(x.X, d+1)
	case *ssa.BinOp:
		a, b := exprStringD(x.X, d+1), exprStringD(x.Y, d+1)
		if (x.Op == token.ADD || x.Op == token.MUL || x.Op == token.OR || x.Op == token.AND || x.Op == token.XOR) && b < a {
			a, b = b, a
		}
		return "(" + a + x.Op.String() + b + ")"
	case *ssa.Convert:
		return exprStringD(x.X, d+1)
	case *ssa.ChangeType:
		return exprStringD(x.X, d+1)
	case *ssa.ChangeInterface:
		return exprStringD(x.X, d+1)
	case *ssa.MakeInterface:
		return exprStringD(x.X, d+1)
	case *ssa.Slice:
		return fmt.Sprintf("%s[%s:%s]", exprStringD(x.X, d+1), optExpr(x.Low, d), optExpr(x.High, d))
	case *ssa.IndexAddr:
		return fmt.Sprintf("%s[%s]", exprStringD(x.X, d+1), exprStringD(x.Index, d+1))
	case *ssa.Index:
		return fmt.Sprintf("%s[%s]", exprStringD(x.X, d+1), exprStringD(x.Index, d+1))
	case *ssa.Extract:
		return fmt.Sprintf("%s#%d", exprStringD(x.Tuple, d+1), x.Index)
	case *ssa.Call:
		var as []string
		for _, a := range callArgs(x) {
			as = append(as, exprStringD(a, d+1))
		}
		name := builtinName(x)
		if name == "" {
			if o := calleeObj(x); o != nil {
				name = o.Name()
			} else {
				name = "dyn"
			}
		}
		return name + "(" + strings.Join(as, ",") + ")"
	case *ssa.Alloc:
		return "local:" + x.Comment
	case *ssa.MakeSlice:
		return "make(" + exprStringD(x.Len, d+1) + ")"
	case *ssa.Phi:
		return "phi:" + x.Comment
	case *ssa.Function:
		return x.Name()
	}
	return v.Name()
}

func optExpr(v ssa.Value, d int) string {
	if v == nil {
		return ""
	}
	return exprStringD(v, d+1)
}

// bufWrite is one write into a byte buffer: at offset Off, from Src.
type bufWrite struct {
	Off, Src string
	SrcVal   ssa.Value
	Instr    ssa.Instruction
}

// bufferWrites lists copy()/element stores whose destination is buf (or a sub-slice of it).
func bufferWrites(fn *ssa.Function, buf ssa.Value) []bufWrite {
	base := func(v ssa.Value) (ssa.Value, string) {
		off := "0"
		for {
			switch x := v.(type) {
			case *ssa.Slice:
				if x.Low != nil {
					off = exprString(x.Low)
				}
				v = x.X
				continue
			}
			return v, off
		}
	}
	var out []bufWrite
	eachInstr(fn, func(in ssa.Instruction) {
		switch x := in.(type) {
		case *ssa.Call:
			if builtinName(x) == "copy" {
				b, off := base(x.Call.Args[0])
				if b == buf {
					out = append(out, bufWrite{Off: off, Src: exprString(x.Call.Args[1]), SrcVal: x.Call.Args[1], Instr: x})
				}
			}
		case *ssa.Store:
			if ia, ok := x.Addr.(*ssa.IndexAddr); ok {
				if b, _ := base(ia.X); b == buf {
					out = append(out, bufWrite{Off: exprString(ia.Index), Src: exprString(x.Val), SrcVal: x.Val, Instr: x})
				}
			}
		}
	})
	sort.Slice(out, func(i, j int) bool { return out[i].Off+out[i].Src < out[j].Off+out[j].Src })
	return out
}

// fieldsIn returns the names of the fields of struct type st appearing in v's backward slice.
func fieldsIn(v ssa.Value, st *types.Named, opts SliceOpts) map[string]bool {
	out := map[string]bool{}
	backSlice(v, opts, func(x ssa.Value) {
		switch f := x.(type) {
		case *ssa.FieldAddr:
			if n := recvNamed(f.X.Type()); n != nil && st != nil && n.Obj() == st.Obj() {
				out[fieldOfAddr(f).Name()] = true
			}
		case *ssa.Field:
			if n := recvNamed(f.X.Type()); n != nil && st != nil && n.Obj() == st.Obj() {
				out[fieldOfVal(f).Name()] = true
			}
		}
	})
	return out
}

// fieldsReadBy: fields of st read (loaded / sliced / passed) anywhere in fn.
func fieldsReadBy(fn *ssa.Function, st *types.Named) map[string]bool {
	out := map[string]bool{}
	eachInstr(fn, func(in ssa.Instruction) {
		switch f := in.(type) {
		case *ssa.FieldAddr:
			if n := recvNamed(f.X.Type()); n != nil && n.Obj() == st.Obj() {
				// a read if some referrer is not a plain Store to it
				if refs := f.Referrers(); refs != nil {
					for _, r := range *refs {
						if s, ok := r.(*ssa.Store); ok && s.Addr == f {
							continue
						}
						out[fieldOfAddr(f).Name()] = true
					}
				}
			}
		case *ssa.Field:
			if n := recvNamed(f.X.Type()); n != nil && n.Obj() == st.Obj() {
				out[fieldOfVal(f).Name()] = true
			}
		}
	})
	return out
}

// fieldsWrittenBy: fields of st stored in fn (including composite literal initialisation).
func fieldsWrittenBy(fn *ssa.Function, st *types.Named) map[string]ssa.Value {
	out := map[string]ssa.Value{}
	eachInstr(fn, func(in ssa.Instruction) {
		s, ok := in.(*ssa.Store)
		if !ok {
			return
		}
		if f, ok := s.Addr.(*ssa.FieldAddr); ok {
			if n := recvNamed(f.X.Type()); n != nil && n.Obj() == st.Obj() {
				out[fieldOfAddr(f).Name()] = s.Val
			}
		}
	})
	return out
}

func structFields(n *types.Named) []string {
	st, ok := n.Underlying().(*types.Struct)
	if !ok {
		return nil
	}
	var out []string
	for i := 0; i < st.NumFields(); i++ {
		out = append(out, st.Field(i).Name())
	}
	return out
}

func setStr(m map[string]bool) string {
	var ks []string
	for k := range m {
		ks = append(ks, k)
	}
	sort.Strings(ks)
	return "{" + strings.Join(ks, ",") + "}"
}

type typesNamed = types.Named

type typesSlice = types.Slice
type typesConst = types.Const

func typesIdentical(a, b types.Type) bool { return types.Identical(a, b) }

func constInt64(k *types.Const) (int64, bool) {
	return constantInt64(k.Val())
}

type typesSignature = types.Signature

type typesVar = types.Var
type typesTuple = types.Tuple
type typesFunc = types.Func

type typesPointer = types.Pointer

func typesUnalias(t types.Type) types.Type { return types.Unalias(t) }

type tokenT = token.Token

const (
	tokEQL = token.EQL
	tokNEQ = token.NEQ
	tokLEQ = token.LEQ
	tokGTR = token.GTR
	tokLSS = token.LSS
	tokGEQ = token.GEQ
)
