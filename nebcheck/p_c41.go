package main

import (
	"fmt"
	"go/token"
	"go/types"

	"golang.org/x/tools/go/ssa"
)

func init() {
	register(&Property{
		ID: "C41", Title: "Route configuration parses exactly",
		Patterns:    []string{"./overlay"},
		Technique:   "no-panic scan of parseRoutes / parseUnsafeRoutes, parse-error discipline for every text parser call (value used, base 10, error tested before any success return), leaf-wise provenance of the numeric settings (MTU, metric, gateway weight) back to a checked int assertion or a checked parse result, CFG range guards (flag-aware, through one level of helper), containment guards before an entry is stored, configuration-key table",
		LevelText:   "Structural necessary conditions on all paths of parseRoutes and parseUnsafeRoutes: no construct can panic on a configuration value; the value result of every strconv / netip parser call is used, decimal, and its error is tested before the function can succeed; Route.MTU, Route.Metric and the gateway weight are, source by source, a constant, the value of an int assertion used only where the assertion held, or a parser's value used only where its error was nil; they pass the range tests (route mtu >= 500; unsafe-route mtu 0 or >= 500; 0 <= metric <= MaxInt32; 1 <= weight <= MaxInt32) before the entry is stored; a route is stored only after some overlay network contained its address with a prefix at least as long, an unsafe route only after every overlay network was found not to contain it; every field is read from its own configuration key.",
		LevelNote:   "Not decided: the containment arithmetic of netip.Prefix.Contains/Bits itself, strconv's and netip's parsing contracts (trusted), what the platform does with an accepted route. The thresholds (500, MaxInt32) are tabled in the checker from the error texts / documentation.",
		Explanation: "K12 over the two parsers and their package-local callees, K1 from each parser call to the success returns, K11 leaf walk with per-phi-edge sinks, K1 range and containment guards with sink = store into the returned []Route / call of routing.NewGateway, K7 key table",
		Run:         runC41,
		Canaries: func(c *Ctx) []Canary {
			return []Canary{
				// F7 re-introductions
				{Name: "metric-parse-discarded", File: "overlay/route.go", Old: "\t\t\tparsedMetric, err := strconv.ParseInt(fmt.Sprintf(\"%v\", rMetric), 10, 32)\n\t\t\tif err != nil {\n\t\t\t\treturn nil, fmt.Errorf(\"entry %v.metric in tun.unsafe_routes is not an integer: %v\", i+1, err)\n\t\t\t}\n\t\t\tmetric = int(parsedMetric)\n", New: "\t\t\t_, err = strconv.ParseInt(fmt.Sprintf(\"%v\", rMetric), 10, 32)\n\t\t\tif err != nil {\n\t\t\t\treturn nil, fmt.Errorf(\"entry %v.metric in tun.unsafe_routes is not an integer: %v\", i+1, err)\n\t\t\t}\n", Rule: "C41.parse-checked"},
				{Name: "weight-parse-discarded", File: "overlay/route.go", Old: "\t\t\t\t\tparsedWeight, err := strconv.ParseInt(fmt.Sprintf(\"%v\", rGatewayWeight), 10, 32)\n\t\t\t\t\tif err != nil {\n\t\t\t\t\t\treturn nil, fmt.Errorf(\"entry .weight in tun.unsafe_routes[%v].via[%v] is not an integer\", i+1, ig+1)\n\t\t\t\t\t}\n\t\t\t\t\tgatewayWeight = int(parsedWeight)\n", New: "\t\t\t\t\t_, err = strconv.ParseInt(fmt.Sprintf(\"%v\", rGatewayWeight), 10, 32)\n\t\t\t\t\tif err != nil {\n\t\t\t\t\t\treturn nil, fmt.Errorf(\"entry .weight in tun.unsafe_routes[%v].via[%v] is not an integer\", i+1, ig+1)\n\t\t\t\t\t}\n", Rule: "C41.value-kept"},
				{Name: "mtu-unchecked-string-assert", File: "overlay/route.go", Old: "\t\t\tmtu, err = strconv.Atoi(fmt.Sprintf(\"%v\", rMtu))\n\t\t\tif err != nil {\n\t\t\t\treturn nil, fmt.Errorf(\"entry %v.mtu in tun.routes is not an integer: %v\", i+1, err)", New: "\t\t\tmtu, err = strconv.Atoi(rMtu.(string))\n\t\t\tif err != nil {\n\t\t\t\treturn nil, fmt.Errorf(\"entry %v.mtu in tun.routes is not an integer: %v\", i+1, err)", Rule: "C41.no-panic"},
				{Name: "via-list-first-element", File: "overlay/route.go", Old: "\t\t\tgateways = make(routing.Gateways, len(via))\n", New: "\t\t\tgateways = make(routing.Gateways, len(via))\n\t\t\t_ = via[0]\n", Rule: "C41.no-panic"},
				// errors and ranges
				{Name: "metric-error-ignored", File: "overlay/route.go", Old: "\t\t\tparsedMetric, err := strconv.ParseInt(fmt.Sprintf(\"%v\", rMetric), 10, 32)\n\t\t\tif err != nil {\n\t\t\t\treturn nil, fmt.Errorf(\"entry %v.metric in tun.unsafe_routes is not an integer: %v\", i+1, err)\n\t\t\t}\n", New: "\t\t\tparsedMetric, _ := strconv.ParseInt(fmt.Sprintf(\"%v\", rMetric), 10, 32)\n", Rule: "C41.parse-checked"},
				{Name: "metric-base-0", File: "overlay/route.go", Old: "strconv.ParseInt(fmt.Sprintf(\"%v\", rMetric), 10, 32)", New: "strconv.ParseInt(fmt.Sprintf(\"%v\", rMetric), 0, 32)", Rule: "C41.parse-checked"},
				{Name: "route-mtu-floor-weakened", File: "overlay/route.go", Old: "\t\tif mtu < 500 {\n\t\t\treturn nil, fmt.Errorf(\"entry %v.mtu in tun.routes is below 500: %v\", i+1, mtu)", New: "\t\tif mtu < 50 {\n\t\t\treturn nil, fmt.Errorf(\"entry %v.mtu in tun.routes is below 500: %v\", i+1, mtu)", Rule: "C41.range"},
				{Name: "unsafe-mtu-range-only-for-strings", File: "overlay/route.go", Old: "\t\t\tif mtu != 0 && mtu < 500 {", New: "\t\t\tif !ok && mtu != 0 && mtu < 500 {", Rule: "C41.range"},
				{Name: "negative-metric-accepted", File: "overlay/route.go", Old: "if metric < 0 || metric > math.MaxInt32 {", New: "if metric > math.MaxInt32 {", Rule: "C41.range"},
				{Name: "zero-weight-accepted", File: "overlay/route.go", Old: "if gatewayWeight < 1 || gatewayWeight > math.MaxInt32 {", New: "if gatewayWeight < 0 || gatewayWeight > math.MaxInt32 {", Rule: "C41.range"},
				// containment
				{Name: "route-shorter-prefix-accepted", File: "overlay/route.go", Old: "if network.Contains(r.Cidr.Addr()) && r.Cidr.Bits() >= network.Bits() {", New: "if network.Contains(r.Cidr.Addr()) {", Rule: "C41.containment"},
				{Name: "route-containment-not-required", File: "overlay/route.go", Old: "\t\tif !found {\n\t\t\treturn nil, fmt.Errorf(\n\t\t\t\t\"entry %v.route in tun.routes is not contained", New: "\t\tif !found && mtu == 0 {\n\t\t\treturn nil, fmt.Errorf(\n\t\t\t\t\"entry %v.route in tun.routes is not contained", Rule: "C41.containment"},
				{Name: "unsafe-route-only-first-network", File: "overlay/route.go", Old: "\t\tfor _, network := range networks {\n\t\t\tif network.Contains(r.Cidr.Addr()) {\n\t\t\t\treturn nil, fmt.Errorf(\n\t\t\t\t\t\"entry %v.route in tun.unsafe_routes is contained", New: "\t\tfor _, network := range networks[:1] {\n\t\t\tif network.Contains(r.Cidr.Addr()) {\n\t\t\t\treturn nil, fmt.Errorf(\n\t\t\t\t\t\"entry %v.route in tun.unsafe_routes is contained", Rule: "C41.containment"},
				// keys
				{Name: "metric-read-from-mtu-key", File: "overlay/route.go", Old: "rMetric, ok := m[\"metric\"]", New: "rMetric, ok := m[\"mtu\"]", Rule: "C41.keys"},
			}
		},
	})
}

// c41Pub is a store of an entry into the returned []Route, with the local Route it copies.
type c41Pub struct {
	sink  Sink
	local *ssa.Alloc
}

func runC41(c *Ctx) {
	c.Rule("C41.no-panic", "K12: parseRoutes / parseUnsafeRoutes (and package-local helpers they call): no single-result assertion, unguarded reflect, unguarded index into a configuration list, or panic()", 2)
	c.Rule("C41.parse-checked", "K1/K12: for every strconv / netip parser call: the parsed value is used (not `_`), ParseInt/ParseUint use base 10, and no success return is reachable from the call without its error having been tested nil", 7)
	c.Rule("C41.value-kept", "K11: Route.MTU, Route.Metric (at the store into the returned slice) and the NewGateway weight are, source by source, a constant, an int assertion's value used only where ok held, or a parser's value used only where its error was nil", 5)
	c.Rule("C41.range", "K1: before the entry is stored / the gateway built: route mtu >= 500; unsafe-route mtu == 0 or >= 500; metric >= 0 and <= MaxInt32; weight >= 1 and <= MaxInt32 (weaker constants or operators do not count)", 8)
	c.Rule("C41.containment", "K1: a route is stored only after a networks[i].Contains(route address) test held together with route bits >= network bits; an unsafe route only after every element of networks failed Contains (loop entered on every path, no exit from inside)", 4)
	c.Rule("C41.keys", "K7: each Route field and each NewGateway argument is read from its own configuration key", 9)

	fnR := c.Func(Ref{"overlay", "", "parseRoutes"})
	fnU := c.Func(Ref{"overlay", "", "parseUnsafeRoutes"})
	route := c.NamedType("overlay", "Route")
	fld := map[string]*typesVar{}
	for _, n := range []string{"MTU", "Metric", "Cidr", "Via", "Install"} {
		fld[n] = c.Field("overlay", "Route", n)
	}
	maxV := c.ConstVal("math", "MaxInt32")
	if fnR == nil || fnU == nil || route == nil || maxV == nil || fld["MTU"] == nil || fld["Metric"] == nil || fld["Cidr"] == nil || fld["Via"] == nil || fld["Install"] == nil {
		return
	}
	maxInt32, _ := constantInt64(maxV)
	refGw := Ref{"routing", "", "NewGateway"}

	c.g4NoPanic("C41.no-panic", g4Closure(fnR, fnU))

	var nm g4Namer
	for _, fn := range g4Closure(fnR, fnU) {
		c.g4ParseDiscipline("C41.parse-checked", fn, g4SuccessReturns(fn), &nm)
	}
	prefixT := fld["Cidr"].Type()
	for _, fn := range []*ssa.Function{fnR, fnU} {
		unsafeRoutes := fn == fnU
		pubs := c41Pubs(fn, route)
		if len(pubs) == 0 {
			c.Unknown("C41.value-kept", fn.Name()+":store", "no store of a Route into the returned slice found: unrecognised shape")
			continue
		}
		var pubSinks []Sink
		for _, p := range pubs {
			pubSinks = append(pubSinks, p.sink)
		}
		fieldVals := func(p c41Pub, f *typesVar) []ssa.Value { return g4FieldVals(p.local, f) }
		lower := func(k int64) func(ssa.Value) Guard {
			return func(v ssa.Value) Guard { return g4Bound(fmt.Sprintf(">= %d", k), g4Same(v), true, k) }
		}
		upper := func(k int64) func(ssa.Value) Guard {
			return func(v ssa.Value) Guard { return g4Bound(fmt.Sprintf("<= %d", k), g4Same(v), false, k) }
		}
		zeroOr := func(k int64) func(ssa.Value) Guard {
			return func(v ssa.Value) Guard {
				return gAny(fmt.Sprintf("== 0 or >= %d", k), gCmp("== 0", g4Same(v), isIntConst(0), mustEqual), lower(k)(v))
			}
		}
		type spec struct {
			what string
			mk   func(ssa.Value) Guard
			ok   func(int64) bool
		}
		// thresholds: 500 is the minimum the parsers document in their error text ("is below 500"); metric and
		// weight are handed to 32-bit kernel / bucket arithmetic ("not in range (0-MaxInt32)" / "(1-MaxInt32)")
		specs := map[string][]spec{
			"MTU":    {{"mtu >= 500", lower(500), func(k int64) bool { return k >= 500 }}},
			"Metric": {{"metric >= 0", lower(0), func(k int64) bool { return k >= 0 }}, {"metric <= MaxInt32", upper(maxInt32), func(k int64) bool { return k <= maxInt32 }}},
			"weight": {{"weight >= 1", lower(1), func(k int64) bool { return k >= 1 }}, {"weight <= MaxInt32", upper(maxInt32), func(k int64) bool { return k <= maxInt32 }}},
		}
		if unsafeRoutes {
			// an unsafe route may leave mtu unset (0 = use the device MTU)
			specs["MTU"] = []spec{{"mtu == 0 or >= 500", zeroOr(500), func(k int64) bool { return k == 0 || k >= 500 }}}
		}
		for pi, p := range pubs {
			for _, n := range []string{"MTU", "Metric"} {
				for vi, v := range fieldVals(p, fld[n]) {
					cons := fmt.Sprintf("%s:Route.%s#%d.%d", fn.Name(), n, pi, vi)
					c.g4KeptValue("C41.value-kept", cons, fn, v, p.sink, 0)
					for _, sp := range specs[n] {
						c.g4Ranged("C41.range", cons+":"+sp.what, fn, v, p.sink, sp.mk, sp.ok, sp.what)
					}
				}
			}
		}
		for gi, ci := range callsIn(fn, refGw) {
			call, ok := ci.(*ssa.Call)
			if !ok {
				continue
			}
			at := Sink{Instr: call, Desc: "routing.NewGateway"}
			cons := fmt.Sprintf("%s:NewGateway#%d:weight", fn.Name(), gi)
			c.g4KeptValue("C41.value-kept", cons, fn, call.Call.Args[1], at, 0)
			for _, sp := range specs["weight"] {
				c.g4Ranged("C41.range", cons+":"+sp.what, fn, call.Call.Args[1], at, sp.mk, sp.ok, sp.what)
			}
		}

		// ---- containment
		// matched by type, not by identity, so that the same test inside an extracted helper is recognised
		networks := fn.Params[1]
		fromNetworks := func(v ssa.Value) bool {
			return derivesFrom(v, sliceLocal, func(x ssa.Value) bool {
				p, ok := x.(*ssa.Parameter)
				return ok && types.Identical(p.Type(), networks.Type())
			})
		}
		fromCidr := func(v ssa.Value) bool {
			return derivesFrom(v, sliceThrough, func(x ssa.Value) bool {
				if loadsField(x, fld["Cidr"]) {
					return true
				}
				if p, ok := x.(*ssa.Parameter); ok && types.Identical(p.Type(), prefixT) {
					return true
				}
				cl, idx := callOf(x)
				return cl != nil && idx == 0 && matchFunc(calleeObj(cl), Ref{"net/netip", "", "ParsePrefix"})
			})
		}
		contains := CallSpec{Refs: []Ref{{"net/netip", "Prefix", "Contains"}}, Args: map[int]func(ssa.Value) bool{0: fromNetworks, 1: fromCidr}}
		if !unsafeRoutes {
			inside := gBool("an overlay network contains the route's address", true, -1, contains)
			bitsOf := func(from func(ssa.Value) bool) func(ssa.Value) bool {
				return func(v ssa.Value) bool {
					cl, _ := callOf(v)
					return cl != nil && matchFunc(calleeObj(cl), Ref{"net/netip", "Prefix", "Bits"}) && from(cl.Call.Args[0])
				}
			}
			longer := gCmp("route prefix length >= network prefix length", bitsOf(fromCidr), bitsOf(fromNetworks), func(op token.Token) (bool, bool) {
				switch op {
				case token.GEQ:
					return true, true
				case token.LSS:
					return true, false
				}
				return false, false
			})
			for pi, p := range pubs {
				c.g4Require("C41.containment", fmt.Sprintf("%s:store#%d<-inside", fn.Name(), pi), fn, p.sink, c.g4Summ(inside), "a route whose address lies in none of the node's overlay networks is accepted")
				c.g4Require("C41.containment", fmt.Sprintf("%s:store#%d<-not-wider", fn.Name(), pi), fn, p.sink, c.g4Summ(longer), "a route wider than the overlay network that holds its address (partly outside it) is accepted")
			}
		} else {
			outside := gBool("the overlay network does not contain the route's address", false, -1, contains)
			loops := findRangeLoops(fn, func(v ssa.Value) bool { return v == ssa.Value(networks) })
			cons := fn.Name() + ":outside-every-network"
			if len(loops) != 1 {
				c.Bad("C41.containment", cons, c.P.Pos(fn.Pos()), fmt.Sprintf("expected one loop over all of the networks parameter before an unsafe route is stored, found %d: an unsafe route inside an overlay network that is not examined is accepted", len(loops)))
			} else {
				c.forAllGuard("C41.containment", cons, fn, loops[0], pubSinks, outside)
				blocked := map[Edge]bool{}
				for _, p := range loops[0].Header.Preds {
					for i, s := range p.Succs {
						if s == loops[0].Header {
							blocked[Edge{p, i}] = true
						}
					}
				}
				r := g4Reach(fn.Blocks[0], blocked)
				okEntered := true
				for _, s := range pubSinks {
					if _, hit := r.blocks[s.Instr.Block()]; hit {
						okEntered = false
						c.Bad("C41.containment", fn.Name()+":outside-loop-entered", c.instrPos(s.Instr), "an unsafe route can be stored without the containment loop having run", c.blockPath(r.blocks, s.Instr.Block())...)
					}
				}
				if okEntered {
					c.OK("C41.containment", fn.Name()+":outside-loop-entered", "the store is only reachable through the loop")
				}
			}
		}

		// ---- keys
		schema := map[string]bool{"mtu": true, "metric": true, "route": true, "via": true, "install": true, "gateway": true, "weight": true} // documented keys of tun.routes / tun.unsafe_routes entries
		want := map[string][]string{"MTU": {"mtu"}, "Metric": {"metric"}, "Cidr": {"route"}, "Install": {"install"}}
		for pi, p := range pubs {
			for _, n := range []string{"MTU", "Metric", "Cidr", "Install", "Via"} {
				got := map[string]bool{}
				vals := fieldVals(p, fld[n])
				nonConst := 0
				for _, v := range vals {
					if _, isC := v.(*ssa.Const); !isC {
						nonConst++
					}
					for k := range g4KeysIn(v, schema) {
						got[k] = true
					}
				}
				if nonConst == 0 {
					continue // field not configurable in this list (constant / unset)
				}
				cons := fmt.Sprintf("%s:Route.%s#%d", fn.Name(), n, pi)
				if n == "Via" {
					okVia := got["via"] && !got["mtu"] && !got["metric"] && !got["route"] && !got["install"]
					c.Check(okVia, "C41.keys", cons, c.instrPos(p.sink.Instr), "read from via", fmt.Sprintf("Route.Via is filled from %s, expected the via key (with its gateway / weight entries)", setStr(got)))
					continue
				}
				c.Check(g4SetEq(got, want[n]...), "C41.keys", cons, c.instrPos(p.sink.Instr), fmt.Sprintf("read from %v", want[n]), fmt.Sprintf("Route.%s is filled from configuration key(s) %s, expected %v: the setting takes another setting's value", n, setStr(got), want[n]))
			}
		}
		for gi, ci := range callsIn(fn, refGw) {
			a := ci.Common().Args
			ka, kw := g4KeysIn(a[0], schema), g4KeysIn(a[1], schema)
			delete(ka, "via") // list entries are reached through the via key
			delete(kw, "via")
			_, constW := a[1].(*ssa.Const)
			okA := len(ka) == 0 || g4SetEq(ka, "gateway")
			okW := (constW && len(kw) == 0) || g4SetEq(kw, "weight")
			c.Check(okA && okW, "C41.keys", fmt.Sprintf("%s:NewGateway#%d", fn.Name(), gi), c.instrPos(ci), "address from via / gateway, weight from weight", fmt.Sprintf("NewGateway is given an address read from %s and a weight read from %s", setStr(ka), setStr(kw)))
		}
	}
}

// c41Pubs: where an entry enters the returned []Route: `routes[i] = r` or `routes = append(routes, r)`,
// with the local Route that is copied.
func c41Pubs(fn *ssa.Function, route *typesNamed) []c41Pub {
	isRoutes := func(t types.Type) bool {
		sl, ok := t.Underlying().(*types.Slice)
		return ok && types.Identical(sl.Elem(), route)
	}
	localOf := func(v ssa.Value) *ssa.Alloc {
		if ld, ok := v.(*ssa.UnOp); ok && ld.Op == token.MUL {
			al, _ := ld.X.(*ssa.Alloc)
			return al
		}
		return nil
	}
	var out []c41Pub
	for _, in := range g4SortedInstrs(fn) {
		switch x := in.(type) {
		case *ssa.Store:
			if ia, ok := x.Addr.(*ssa.IndexAddr); ok && isRoutes(ia.X.Type()) {
				if al := localOf(x.Val); al != nil {
					out = append(out, c41Pub{Sink{Instr: x, Desc: "the store of the entry into the returned []Route"}, al})
				}
			}
		case *ssa.Call:
			if builtinName(x) != "append" || !isRoutes(x.Type()) || len(x.Call.Args) != 2 {
				continue
			}
			if sl, ok := x.Call.Args[1].(*ssa.Slice); ok {
				if arr, ok := sl.X.(*ssa.Alloc); ok {
					for _, sv := range storesInto(arr) {
						if al := localOf(sv); al != nil {
							out = append(out, c41Pub{Sink{Instr: x, Desc: "the append of the entry to the returned []Route"}, al})
						}
					}
				}
			}
		}
	}
	return out
}
