package main

import (
	"fmt"
	"go/token"
	"sort"
	"strings"

	"golang.org/x/tools/go/ssa"
)

var rxTracked = []string{"HostInfo", "HostMap", "RelayState", "connectionManager", "LightHouse", "RemoteList", "HandshakeManager", "HandshakeHostInfo", "relayManager", "ConnectionState", "Bits"}
var rxSinks = []Ref{{"udp", "Conn", "WriteTo"}, {"udp", "Conn", "WriteBatch"}, {"overlay/batch", "MultiCoalescer", "Commit"}, {"overlay/tio", "Queue", "Write"}, {"io", "Writer", "Write"}}

// pre-authentication calls that are effectful by design (one reason each)
var rxPreAuth = map[string]string{
	"HandleIncoming":     "handshake packets are unencrypted by protocol; their effects are governed by C05/C09/C10",
	"handleRecvError":    "RecvError is an unencrypted message type by protocol (listen.accept_recv_error), gated and address-checked",
	"maybeSendRecvError": "stateless reply to an unknown index, rate-governed by listen.send_recv_error",
	"VerifyRelay":        "the authentication step itself (window check/update under decryptLock)",
	"Decrypt":            "the authentication step itself (window check/update under decryptLock)",
}

func authGuards() Guard {
	return gAny("packet authenticated (Decrypt / VerifyRelay returned nil)",
		gErrNil("Decrypt ok", callTo(Ref{"", "ConnectionState", "Decrypt"})),
		gErrNil("VerifyRelay ok", callTo(Ref{"", "ConnectionState", "VerifyRelay"})))
}

// rxEffectCalls lists effectful calls of fn with the reason, excluding the pre-auth table.
func rxEffectCalls(c *Ctx, es *EffectSummary, fn *ssa.Function) (sinks []Sink, names []string) {
	eachInstr(fn, func(in ssa.Instruction) {
		ci, ok := in.(ssa.CallInstruction)
		if !ok {
			return
		}
		o := calleeObj(ci)
		if o == nil {
			return
		}
		if _, pre := rxPreAuth[o.Name()]; pre {
			return
		}
		if r := es.EffectOfCall(ci); r != "" {
			sinks = append(sinks, Sink{Instr: in, Desc: o.Name() + " (" + r + ")"})
			names = append(names, o.Name())
		}
	})
	return
}

func init() {
	register(&Property{
		ID: "C12", Title: "A data packet is delivered at most once",
		Patterns:  []string{"."},
		Technique: "CFG guard reachability (window check, AEAD ok and window test-and-set honoured before success; every effectful handler behind authentication), lock-held dataflow for the replay window, who-may-call tables",
		LevelText: "Structural necessary conditions on all paths: Decrypt and VerifyRelay report success only if the pre-check passed, the AEAD verified and the atomic window Update returned true; every access to the replay window holds decryptLock (except in the constructor before publication); in the receive dispatcher every call that can change tunnel state, write to tun or send is reached only after that success; the relay unwrap re-enters the dispatcher so the inner packet meets the endpoint's own window; delivery to tun happens only through the single commit site.",
		LevelNote: "Not decided: that Bits.Update is a correct test-and-set (C11), memory visibility beyond the mutex. Effect classification is a static over-approximation (writes to fields of the tunnel-state types, socket/tun writes), closed over static callees and module implementations of interfaces.",
		Explanation: "K1 on Decrypt/VerifyRelay and on readOutsidePackets with the effect set computed from the call graph, K3 decryptLock held at every window access, K2 callers of Update/handleOutsideMessagePacket/handleOutsideRelayPacket",
		Run:       runC12,
		Canaries: func(c *Ctx) []Canary {
			return []Canary{
				{Name: "decrypt-ignores-update-result", File: "connection_state.go", Old: "\tresult = cs.window.Update(l, messageCounter)\n\tcs.decryptLock.Unlock()\n\tif !result {\n\t\treturn nil, ErrAlreadySeen\n\t}\n\treturn out, nil", New: "\tcs.window.Update(l, messageCounter)\n\tcs.decryptLock.Unlock()\n\treturn out, nil", Rule: "C12.once"},
				{Name: "check-outside-lock", File: "connection_state.go", Old: "func (cs *ConnectionState) VerifyRelay(l *slog.Logger, messageCounter uint64, packet []byte, nb []byte) error {\n\tcs.decryptLock.Lock()\n\tresult := cs.window.Check(l, messageCounter)\n\tcs.decryptLock.Unlock()", New: "func (cs *ConnectionState) VerifyRelay(l *slog.Logger, messageCounter uint64, packet []byte, nb []byte) error {\n\tresult := cs.window.Check(l, messageCounter)", Rule: "C12.window-lock"},
				{Name: "relay-arm-delivers-without-verify", File: "outside.go", Old: "\t\terr = hostinfo.ConnectionState.VerifyRelay(f.l, h.MessageCounter, packet, rxc.nb)\n\t\tif err != nil {", New: "\t\terr = hostinfo.ConnectionState.VerifyRelay(f.l, h.MessageCounter, packet, rxc.nb)\n\t\tif err != nil && err != ErrAlreadySeen {", Rule: "C12.handlers"},
			}
		},
	})
	register(&Property{
		ID: "C14", Title: "Unauthenticated packets have no effect",
		Patterns:  []string{"."},
		Technique: "CFG guard reachability with an effect set computed over the call graph, provenance of the AEAD associated data and nonce, who-may-tear-down table",
		LevelText: "Structural necessary conditions on all paths of the receive dispatcher: every call that can change tunnel, lighthouse, relay or liveness state, write to the tun device or send a packet is reachable only across the success edge of Decrypt/VerifyRelay (the two unencrypted message types are tabled with their own gates); the AEAD authenticates the very header bytes that were parsed and uses the parsed counter as nonce; tunnel teardown has no caller outside the tabled post-authentication, policy and operator sites.",
		LevelNote: "Not decided: AEAD strength, effects inside third-party metrics/logging. The effect set is an over-approximation by type (fields of the tunnel-state structs), closed over static callees and module implementations of interfaces.",
		Explanation: "K1 with computed effect set on readOutsidePackets/handleOutsideRelayPacket, K11 on DecryptDanger's ad/nonce and on the dispatcher's Decrypt arguments, K2 callers of closeTunnel/HostMap.DeleteHostInfo",
		Run:       runC14,
		Canaries: func(c *Ctx) []Canary {
			return []Canary{
				{Name: "return-moved-into-debug-guard", File: "outside.go", Old: "\t\t\thostinfo.logger(f.l).Debug(\"Failed to decrypt packet\", \"error\", err, \"from\", via, \"header\", h)\n\t\t}\n\t\treturn\n\t}", New: "\t\t\thostinfo.logger(f.l).Debug(\"Failed to decrypt packet\", \"error\", err, \"from\", via, \"header\", h)\n\t\t\treturn\n\t\t}\n\t}", Rule: "C14.effects"},
				{Name: "roam-before-decrypt", File: "outside.go", Old: "\tout, err := hostinfo.ConnectionState.Decrypt(f.l, h.MessageCounter, packet, rxc.nb)\n", New: "\tf.handleHostRoaming(hostinfo, via)\n\tout, err := hostinfo.ConnectionState.Decrypt(f.l, h.MessageCounter, packet, rxc.nb)\n", Rule: "C14.effects"},
				{Name: "recv-error-path-closes-unknown", File: "outside.go", Old: "func (f *Interface) maybeSendRecvError(endpoint netip.AddrPort, index uint32) {\n", New: "func (f *Interface) maybeSendRecvError(endpoint netip.AddrPort, index uint32) {\n\tif hi := f.hostMap.QueryReverseIndex(index); hi != nil {\n\t\tf.closeTunnel(hi)\n\t}\n", Rule: "C14.teardown"},
				{Name: "ad-excludes-header", File: "connection_state.go", Old: "cs.dKey.DecryptDanger(packet[header.Len:header.Len], packet[:header.Len], packet[header.Len:], messageCounter, nb)", New: "cs.dKey.DecryptDanger(packet[header.Len:header.Len], packet[:header.Len-8], packet[header.Len:], messageCounter, nb)", Rule: "C14.aead-binding"},
			}
		},
	})
}

func runC12(c *Ctx) {
	c.Rule("C12.once", "K1: Decrypt / VerifyRelay return success only if window.Check was true, DecryptDanger returned nil and window.Update returned true", 6)
	c.Rule("C12.window-lock", "K3: every call to (*Bits).Check/Update on a ConnectionState's window holds decryptLock, except in the constructor", 4)
	c.Rule("C12.callers", "K2: window.Update is called only from Decrypt, VerifyRelay and the constructor; the message and relay handlers only from the dispatcher", 3)
	c.Rule("C12.handlers", "K1: in readOutsidePackets every effectful call (computed effect set) is reached only after Decrypt/VerifyRelay succeeded; the relay terminal arm re-enters readOutsidePackets", 6)
	c.Rule("C12.tun-commit", "K2: on the receive path packets reach the tun batcher only through handleOutsideMessagePacket", 1)

	for _, name := range []string{"Decrypt", "VerifyRelay"} {
		fn := c.Func(Ref{"", "ConnectionState", name})
		if fn == nil {
			continue
		}
		idx := errResultIndex(fn)
		pMC := fn.Params[2]
		isCounter := func(v ssa.Value) bool { return v == pMC }
		c.requireGuards("C12.once", fn, successReturns(fn, idx), "success-return",
			gBool("window.Check(counter) == true", true, -1, callTo(Ref{"", "Bits", "Check"}).withArg(2, isCounter)),
			gErrNil("DecryptDanger ok", callTo(Ref{"noiseutil", "CipherState", "DecryptDanger"}).withArg(4, isCounter)),
			gBool("window.Update(counter) == true", true, -1, callTo(Ref{"", "Bits", "Update"}).withArg(2, isCounter)),
		)
	}
	// window lock
	funcs := c.moduleFuncs()
	key := lockKey("ConnectionState.decryptLock")
	win := c.Field("", "ConnectionState", "window")
	nAcc := 0
	for _, fn := range funcs {
		if fn.Pkg == nil || fn.Pkg.Pkg.Path() != nebulaMod {
			continue
		}
		var lf *LockFlow
		eachInstr(fn, func(in ssa.Instruction) {
			ci, ok := in.(ssa.CallInstruction)
			if !ok || !matchAny(calleeObj(ci), []Ref{{"", "Bits", "Check"}, {"", "Bits", "Update"}}) {
				return
			}
			recv := callArgs(ci)[0]
			if !loadsField(recv, win) {
				return // a Bits that is not a ConnectionState window
			}
			if c.isTestHelperFile(in) {
				return
			}
			nAcc++
			cons := fmt.Sprintf("%s:%s", fnName(fn), calleeObj(ci).Name())
			// constructor exemption: the ConnectionState is a fresh local allocation
			if root, _ := addrRoot(stripLoad(recv)); isFreshAllocDeep(root) {
				c.OK("C12.window-lock", cons, "ConnectionState not yet published (fresh allocation)")
				return
			}
			if lf == nil {
				lf = lockFlow(fn, nil, nil)
			}
			m, _ := lf.mustAt(in, key)
			c.Check(m == lkW, "C12.window-lock", cons, c.instrPos(in), "decryptLock held", "replay window accessed without decryptLock: two receive routines can both accept one counter")
		})
	}
	// callers
	allowU := map[string]bool{"(*nebula.ConnectionState).Decrypt": true, "(*nebula.ConnectionState).VerifyRelay": true, "nebula.newConnectionStateFromResult": true}
	for _, s := range callersOf(funcs, Ref{"", "Bits", "Update"}) {
		if c.isTestHelperFile(s.Instr) {
			continue
		}
		n := fnName(topFunc(s.Fn))
		c.Check(allowU[n], "C12.callers", "Bits.Update<-"+n, c.instrPos(s.Instr), "tabled", "replay window updated outside Decrypt/VerifyRelay/constructor")
	}
	for _, h := range []string{"handleOutsideMessagePacket", "handleOutsideRelayPacket"} {
		for _, s := range callersOf(funcs, Ref{"", "Interface", h}) {
			if c.isTestHelperFile(s.Instr) {
				continue
			}
			n := fnName(topFunc(s.Fn))
			c.Check(n == "(*nebula.Interface).readOutsidePackets", "C12.callers", h+"<-"+n, c.instrPos(s.Instr), "only the dispatcher", "handler for authenticated packets called from outside the dispatcher (bypasses the replay window)")
		}
	}
	c12Handlers(c, "C12.handlers")
	// tun commit
	n := 0
	for _, s := range callersOf(funcs, Ref{"overlay/batch", "MultiCoalescer", "Commit"}) {
		if c.isTestHelperFile(s.Instr) || s.Fn.Pkg == nil || s.Fn.Pkg.Pkg.Path() != nebulaMod {
			continue
		}
		n++
		nm := fnName(topFunc(s.Fn))
		c.Check(nm == "(*nebula.Interface).handleOutsideMessagePacket", "C12.tun-commit", "Commit<-"+nm, c.instrPos(s.Instr), "single commit site", "received data committed to tun from a second site")
	}
	if n == 0 {
		c.Unknown("C12.tun-commit", "Commit", "commit site not found (batcher interface renamed?)")
	}
}

func stripLoad(v ssa.Value) ssa.Value {
	v = stripValue(v)
	if u, ok := v.(*ssa.UnOp); ok && u.Op == token.MUL {
		return u.X
	}
	return v
}

func isFreshAllocDeep(v ssa.Value) bool {
	switch x := v.(type) {
	case *ssa.Alloc:
		return true
	case *ssa.UnOp:
		return isFreshAllocDeep(x.X)
	}
	return false
}

func c12Handlers(c *Ctx, rule string) {
	fn := c.Func(Ref{"", "Interface", "readOutsidePackets"})
	rel := c.Func(Ref{"", "Interface", "handleOutsideRelayPacket"})
	if fn == nil || rel == nil {
		return
	}
	es := c.newEffects(rxTracked, rxSinks)
	sinks, names := rxEffectCalls(c, es, fn)
	sort.Strings(names)
	c.Note("effect set in readOutsidePackets: %s", strings.Join(names, ", "))
	auth := authGuards()
	for i, s := range sinks {
		ok, _, path := c.mustPass(fn, s, auth)
		cons := fmt.Sprintf("readOutsidePackets:%s#%d", calleeObj(s.Instr.(ssa.CallInstruction)).Name(), i)
		if ok {
			c.OK(rule, cons, "behind authentication: "+s.Desc)
		} else {
			c.Bad(rule, cons, c.instrPos(s.Instr), "effectful call reachable for a packet that was not authenticated: "+s.Desc, path...)
		}
	}
	if len(sinks) < 6 {
		c.Unknown(rule, "effect-set", fmt.Sprintf("only %d effectful calls recognised in the dispatcher (expected >= 6): effect classification no longer sees the handlers", len(sinks)))
	}
	// terminal relay arm re-enters the dispatcher
	rec := callsIn(rel, Ref{"", "Interface", "readOutsidePackets"})
	c.Check(len(rec) >= 1, rule, "relay-terminal-reenters-dispatcher", c.P.Pos(rel.Pos()), "inner packet goes through readOutsidePackets (its own window)", "relayed inner packets no longer re-enter the dispatcher: they would bypass the endpoint's replay window")
}

func runC14(c *Ctx) {
	c.Rule("C14.effects", "K1: in readOutsidePackets every effectful call (effect set computed from the call graph) is reachable only over the success edge of Decrypt/VerifyRelay; pre-auth calls are tabled with a reason", 6)
	c.Rule("C14.aead-binding", "K11: DecryptDanger authenticates packet[:header.Len] (message) / packet[:len-Overhead] (relay) with the counter parameter as nonce; the dispatcher passes the counter parsed from the same packet", 4)
	c.Rule("C14.teardown", "K2: closeTunnel / HostMap.DeleteHostInfo are called only from the tabled sites (authenticated CloseTunnel arm, RecvError handler, connection manager, operator commands)", 4)
	c12Handlers(c, "C14.effects")
	funcs := c.moduleFuncs()
	// handleOutsideRelayPacket is entered only post-auth (callers checked in C12 too)
	for _, s := range callersOf(funcs, Ref{"", "Interface", "handleOutsideRelayPacket"}) {
		if c.isTestHelperFile(s.Instr) {
			continue
		}
		n := fnName(topFunc(s.Fn))
		c.Check(n == "(*nebula.Interface).readOutsidePackets", "C14.effects", "handleOutsideRelayPacket<-"+n, c.instrPos(s.Instr), "only the dispatcher (post VerifyRelay)", "relay handler entered from a site that did not authenticate the packet")
	}
	// AEAD binding
	hdrLen := int64(16)
	if v := c.ConstVal("header", "Len"); v != nil {
		hdrLen, _ = constantInt64(v)
	}
	if fn := c.Func(Ref{"", "ConnectionState", "Decrypt"}); fn != nil {
		pMC, pPkt := fn.Params[2], fn.Params[3]
		for _, ci := range callsIn(fn, Ref{"noiseutil", "CipherState", "DecryptDanger"}) {
			a := callArgs(ci)
			base, lo, hi, ok := sliceConstBounds(a[2])
			okAD := ok && base == pPkt && lo == 0 && int64(hi) == hdrLen
			cb, clo, _, _ := sliceLowConst(a[3])
			okCT := cb == pPkt && int64(clo) == hdrLen
			c.Check(okAD && okCT && a[4] == pMC, "C14.aead-binding", "Decrypt:DecryptDanger-args", c.instrPos(ci), "ad = packet[:header.Len], ciphertext = packet[header.Len:], nonce = messageCounter", "the AEAD call does not authenticate the full header with the header's counter as nonce: ad="+exprString(a[2])+" ct="+exprString(a[3])+" n="+exprString(a[4]))
		}
	}
	if fn := c.Func(Ref{"", "ConnectionState", "VerifyRelay"}); fn != nil {
		pMC, pPkt := fn.Params[2], fn.Params[3]
		for _, ci := range callsIn(fn, Ref{"noiseutil", "CipherState", "DecryptDanger"}) {
			a := callArgs(ci)
			ad, isS := a[2].(*ssa.Slice)
			ct, isC := a[3].(*ssa.Slice)
			ok := isS && isC && ad.X == pPkt && ct.X == pPkt && ad.Low == nil && ct.High == nil && ad.High != nil && ct.Low != nil && exprString(ad.High) == exprString(ct.Low) && a[4] == pMC
			if ok {
				// the split point is len(packet) - Overhead()
				ok = strings.Contains(exprString(ad.High), "len(packet)") && strings.Contains(exprString(ad.High), "Overhead(")
			}
			c.Check(ok, "C14.aead-binding", "VerifyRelay:DecryptDanger-args", c.instrPos(ci), "ad = packet[:len-Overhead], tag = packet[len-Overhead:], nonce = messageCounter", "the relay AEAD call does not cover the whole packet up to the tag with the header's counter as nonce")
		}
	}
	if fn := c.Func(Ref{"", "Interface", "readOutsidePackets"}); fn != nil {
		pPkt := fn.Params[2]
		mcF := c.Field("header", "H", "MessageCounter")
		var parsed ssa.Value
		for _, ci := range callsIn(fn, Ref{"header", "H", "Parse"}) {
			a := callArgs(ci)
			if a[1] == pPkt {
				parsed = a[0]
			}
		}
		c.Check(parsed != nil, "C14.aead-binding", "dispatcher:h.Parse(packet)", c.P.Pos(fn.Pos()), "header parsed from the packet", "the header is not parsed from the received packet")
		for _, ci := range callsIn(fn, Ref{"", "ConnectionState", "Decrypt"}, Ref{"", "ConnectionState", "VerifyRelay"}) {
			a := callArgs(ci)
			okC := loadsField(a[2], mcF) && parsed != nil && derivesFrom(a[2], sliceLocal, func(x ssa.Value) bool { return x == parsed })
			c.Check(okC && a[3] == pPkt, "C14.aead-binding", "dispatcher:"+calleeObj(ci).Name()+"-args", c.instrPos(ci), "counter from the parsed header, same packet", "the dispatcher authenticates with a counter/packet other than the ones it parsed")
		}
		c.requireGuards("C14.aead-binding", fn, callSinks(fn, "auth", callTo(Ref{"", "ConnectionState", "Decrypt"}, Ref{"", "ConnectionState", "VerifyRelay"})), "auth-call", gErrNil("h.Parse ok", callTo(Ref{"header", "H", "Parse"})))
	}
	// teardown callers
	allow := map[string]string{
		"(*nebula.Interface).readOutsidePackets":            "authenticated CloseTunnel arm",
		"(*nebula.Interface).handleRecvError":               "documented unencrypted RecvError (accept_recv_error gate + remote address match)",
		"(*nebula.Interface).closeTunnel":                   "closeTunnel itself calls HostMap.DeleteHostInfo",
		"(*nebula.connectionManager).doTrafficCheck":        "liveness policy (C30)",
		"(*nebula.Control).CloseTunnel":                     "operator command",
		"(*nebula.Control).CloseAllTunnels":                 "operator command",
		"nebula.sshCloseTunnel":                             "operator command over ssh",
		"(*nebula.HostMap).DeleteHostInfo":                  "definition",
	}
	seen := 0
	for _, s := range callersOf(funcs, Ref{"", "Interface", "closeTunnel"}, Ref{"", "HostMap", "DeleteHostInfo"}) {
		if c.isTestHelperFile(s.Instr) || s.Fn.Pkg == nil && s.Fn.Parent() == nil {
			continue
		}
		n := fnName(topFunc(s.Fn))
		seen++
		_, ok := allow[n]
		c.Check(ok, "C14.teardown", calleeName(s)+"<-"+n, c.instrPos(s.Instr), "tabled: "+allow[n], "tunnel teardown called from a site that is not a tabled post-authentication / policy / operator site")
	}
	if seen < 4 {
		c.Unknown("C14.teardown", "callers", "teardown callers not found")
	}
	// the RecvError handler keeps its gates
	if fn := c.Func(Ref{"", "Interface", "handleRecvError"}); fn != nil {
		sinks := callSinks(fn, "closeTunnel", callTo(Ref{"", "Interface", "closeTunnel"}))
		c.requireGuards("C14.teardown", fn, sinks, "closeTunnel", gBool("accept_recv_error allows", true, -1, callTo(Ref{"", "recvErrorConfig", "ShouldRecvError"})))
	}
}

func calleeName(s CallSite) string {
	if ci, ok := s.Instr.(ssa.CallInstruction); ok {
		if o := calleeObj(ci); o != nil {
			return o.Name()
		}
	}
	return "ref"
}

// sliceLowConst: v = Slice(X, lo, _) with a constant low bound.
func sliceLowConst(v ssa.Value) (ssa.Value, int, int, bool) {
	s, ok := v.(*ssa.Slice)
	if !ok || s.Low == nil {
		return nil, 0, 0, false
	}
	lo, k := constInt(s.Low)
	if !k {
		return nil, 0, 0, false
	}
	return s.X, int(lo), 0, true
}
