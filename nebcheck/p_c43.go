package main

import (
	"fmt"
	"go/constant"
	"go/token"
	"go/types"
	"sort"
	"strings"

	"golang.org/x/tools/go/ssa"
)

func init() {
	register(&Property{
		ID: "C43", Title: "Encrypted private keys open only with the right passphrase",
		Patterns:    []string{"./cert"},
		Technique:   "writer/reader banner tables computed by path-sensitive constant propagation (each Marshal*ToPEM / EncryptAndMarshal under every Curve constant, each Unmarshal*FromPEM / DecryptAndUnmarshal under every banner x key length x failure of the nested steps), CFG guard reachability and provenance in aes256Encrypt/aes256Decrypt (AEAD key chain, nonce framing, associated data, plaintext only from a successful Open), field-mapping agreement of the Argon2 parameters written and read",
		LevelText:   "Structural necessary conditions decided on every path: for each key kind and curve the banner written is mapped back to the same curve by the sibling reader, which returns the block bytes unchanged and accepts the curve's key length; no banner is accepted by readers of two kinds and an unknown banner by none; a key of one curve's length is refused under the other curve's banner (this is what refuses a relabelled encrypted key); DecryptAndUnmarshal refuses another algorithm string, a failed parse and a failed decrypt, and decrypts the parsed ciphertext with the caller's passphrase and the parsed KDF parameters; aes256Decrypt returns plaintext only from gcm.Open with err == nil, both directions build the AEAD from aes256DeriveKey(passphrase, params), which feeds the passphrase and the stored salt to Argon2 and regenerates the salt only when there is none; nonce framing and associated data agree between Seal and Open; every Argon2 parameter is written to and read from the same protobuf field, narrowing conversions are range-guarded.",
		LevelNote:   "Not decided: AEAD and KDF behaviour (that a different passphrase, salt or parameter yields a different key, that GCM rejects modified ciphertext), randomness of salt and nonce, protobuf and PEM codec internals, acceptance of non-canonical key lengths. Canonical key lengths per curve are a table in the checker (RFC 7748 / RFC 8032 / SEC1).",
		Explanation: "K7 banner tables by K8 enumeration (absEval with pem/proto/crypto oracles), K1 success-return guard on gcm.Open, K11 provenance chains NewGCM<-NewCipher<-aes256DeriveKey<-(passphrase, params) and Open<-split<-data, K7 join/split framing and Seal/Open associated data, K6/K7 Argon2Parameters <-> RawNebulaArgon2Parameters field mapping with K13 guard on narrowing",
		Run:         runC43,
		Canaries: func(c *Ctx) []Canary {
			return []Canary{
				{Name: "open-error-ignored", File: "cert/crypto.go", Old: "\tplaintext, err := gcm.Open(nil, nonce, ciphertext, nil)\n\tif err != nil {\n\t\treturn nil, fmt.Errorf(\"invalid passphrase or corrupt private key\")\n\t}\n", New: "\tplaintext, _ := gcm.Open(nil, nonce, ciphertext, nil)\n", Rule: "C43.open-guard"},
				{Name: "signing-key-written-under-ecdh-banner", File: "cert/pem.go", Old: "return pem.EncodeToMemory(&pem.Block{Type: ECDSAP256PrivateKeyBanner, Bytes: b})", New: "return pem.EncodeToMemory(&pem.Block{Type: P256PrivateKeyBanner, Bytes: b})", Rule: "C43.pem-roundtrip"},
				{Name: "ecdh-reader-accepts-signing-banner", File: "cert/pem.go", Old: "\tcase P256PrivateKeyBanner:\n\t\texpectedLen = 32", New: "\tcase P256PrivateKeyBanner, ECDSAP256PrivateKeyBanner:\n\t\texpectedLen = 32", Rule: "C43.banner-exclusive"},
				{Name: "decrypted-p256-length-unchecked", File: "cert/crypto.go", Old: "\tcase Curve_P256:\n\t\tif len(bytes) != 32 {\n\t\t\treturn curve, nil, r, fmt.Errorf(\"key was not 32 bytes, is invalid ECDSA P256 private key\")\n\t\t}\n\t}\n\n\treturn curve, bytes, r, nil", New: "\t}\n\n\treturn curve, bytes, r, nil", Rule: "C43.curve-length"},
				{Name: "encrypted-banners-swapped-on-read", File: "cert/crypto.go", Old: "\tcase EncryptedEd25519PrivateKeyBanner:\n\t\tcurve = Curve_CURVE25519\n\tcase EncryptedECDSAP256PrivateKeyBanner:\n\t\tcurve = Curve_P256\n", New: "\tcase EncryptedEd25519PrivateKeyBanner:\n\t\tcurve = Curve_P256\n\tcase EncryptedECDSAP256PrivateKeyBanner:\n\t\tcurve = Curve_CURVE25519\n", Rule: "C43.pem-roundtrip"},
				{Name: "decrypt-with-default-kdf-params", File: "cert/crypto.go", Old: "aes256Decrypt(passphrase, &ned.EncryptionMetadata.Argon2Parameters, ned.Ciphertext)", New: "aes256Decrypt(passphrase, NewArgon2Parameters(64*1024, 4, 1), ned.Ciphertext)", Rule: "C43.decrypt-path"},
				{Name: "any-algorithm-string-accepted", File: "cert/crypto.go", Old: "\tswitch ned.EncryptionMetadata.EncryptionAlgorithm {\n\tcase \"AES-256-GCM\":", New: "\tswitch {\n\tcase ned.EncryptionMetadata.EncryptionAlgorithm != \"\":", Rule: "C43.decrypt-path"},
				{Name: "memory-written-from-iterations", File: "cert/crypto.go", Old: "\t\t\t\tMemory:      kdfParams.Memory,", New: "\t\t\t\tMemory:      kdfParams.Iterations,", Rule: "C43.kdf-params"},
				{Name: "parallelism-range-guard-dropped", File: "cert/crypto.go", Old: "if params.Parallelism <= 0 || params.Parallelism > math.MaxUint8 {", New: "if params.Parallelism <= 0 {", Rule: "C43.kdf-params"},
				{Name: "nonce-appended-after-ciphertext", File: "cert/crypto.go", Old: "return append(nonce, ciphertext...)", New: "return append(ciphertext, nonce...)", Rule: "C43.nonce-framing"},
				{Name: "seal-binds-extra-associated-data", File: "cert/crypto.go", Old: "gcm.Seal(nil, nonce, data, nil)", New: "gcm.Seal(nil, nonce, data, passphrase)", Rule: "C43.nonce-framing"},
				{Name: "salt-regenerated-when-short", File: "cert/crypto.go", Old: "\tif params.salt == nil {\n\t\tparams.salt = make([]byte, 32)", New: "\tif len(params.salt) < 32 {\n\t\tparams.salt = make([]byte, 32)", Rule: "C43.key-derivation"},
				{Name: "key-derived-from-salt-only", File: "cert/crypto.go", Old: "deriveKey(passphrase, 32, params)", New: "deriveKey(params.salt, 32, params)", Rule: "C43.key-derivation"},
			}
		},
	})
}

// c43Kinds: the five key encodings, writer and reader, with the key length each curve's keys have
// (index 0 = Curve_CURVE25519, 1 = Curve_P256). The lengths are facts of the primitives, not of
// nebula: one line of reason each.
var c43Kinds = []struct {
	Name string
	W, R Ref
	Len  [2]int64
	Why  string
}{
	{"ecdh-public", Ref{"cert", "", "MarshalPublicKeyToPEM"}, Ref{"cert", "", "UnmarshalPublicKeyFromPEM"}, [2]int64{32, 65}, "X25519 public key = 32 bytes (RFC 7748); P-256 uncompressed point = 65 bytes (SEC1 2.3.3)"},
	{"signing-public", Ref{"cert", "", "MarshalSigningPublicKeyToPEM"}, Ref{"cert", "", "UnmarshalSigningPublicKeyFromPEM"}, [2]int64{32, 65}, "Ed25519 public key = 32 bytes (RFC 8032); P-256 uncompressed point = 65 bytes"},
	{"ecdh-private", Ref{"cert", "", "MarshalPrivateKeyToPEM"}, Ref{"cert", "", "UnmarshalPrivateKeyFromPEM"}, [2]int64{32, 32}, "X25519 scalar = 32 bytes; P-256 scalar = 32 bytes"},
	{"signing-private", Ref{"cert", "", "MarshalSigningPrivateKeyToPEM"}, Ref{"cert", "", "UnmarshalSigningPrivateKeyFromPEM"}, [2]int64{64, 32}, "ed25519.PrivateKeySize = 64 (seed || public key); P-256 scalar = 32 bytes"},
	{"encrypted-signing-private", Ref{"cert", "", "EncryptAndMarshalSigningPrivateKey"}, Ref{"cert", "", "DecryptAndUnmarshalSigningPrivateKey"}, [2]int64{64, 32}, "the plaintext of the encrypted block is the signing private key"},
}

var c43CurveNames = []string{"Curve_CURVE25519", "Curve_P256"}

const c43NoBanner = "G9 NOT A NEBULA BANNER"

type c43 struct {
	c         *Ctx
	curveT    *types.Named
	errVars   map[string]bool
	parse     *ssa.Function // UnmarshalNebulaEncryptedData
	decrypt   *ssa.Function // aes256Decrypt
	encrypt   *ssa.Function // aes256Encrypt
	blockType *types.Var
	blockData *types.Var
}

func (k *c43) isCurve(t types.Type) bool {
	n := recvNamed(t)
	return n != nil && k.curveT != nil && n.Obj() == k.curveT.Obj()
}

// ---- writers

type c43Written struct {
	Undet  string
	None   bool // returned nil / an error: nothing written for this curve
	Banner string
	Bytes  string // what is stored into pem.Block.Bytes: a parameter name of the writer, "PB" (proto.Marshal), or an expression
	Pos    string
}

type c43Frame struct {
	fn   *ssa.Function
	args []AVal
}

// evalWriter follows the writer under curve == K and reads the pem.Block it hands to
// pem.EncodeToMemory (the block is identified by the address symbol of its allocation).
func (k *c43) evalWriter(fn *ssa.Function, curve int64) c43Written {
	var out c43Written
	blockSym, fail := "", ""
	var stack []c43Frame // in-package helpers being evaluated (a helper may build the block from its parameters)
	var blockFrame *c43Frame
	env := &AbsEnv{MaxSteps: 20000, Params: map[string]AVal{}}
	eff := []string{}
	env.Effects = &eff
	for _, p := range fn.Params {
		if k.isCurve(p.Type()) {
			env.Params[p.Name()] = aInt(curve)
		}
	}
	env.SymCmp = g9SymCmp(nil, map[string]bool{"error!": true}, nil)
	env.Oracle = func(o *types.Func, args []AVal) (AVal, bool) {
		switch {
		case matchFunc(o, Ref{"encoding/pem", "", "EncodeToMemory"}) && len(args) == 1:
			blockSym = args[0].Sym
			if len(stack) > 0 {
				f := stack[len(stack)-1]
				blockFrame = &f
			}
			return aSym("PEM"), true
		case o == fnObj(k.encrypt):
			return AVal{Tup: []AVal{aSym("CT"), {Nil: true}}}, true
		case matchFunc(o, Ref{"google.golang.org/protobuf/proto", "", "Marshal"}):
			return AVal{Tup: []AVal{aSym("PB"), {Nil: true}}}, true
		case matchFunc(o, Ref{"fmt", "", "Errorf"}) || matchFunc(o, Ref{"errors", "", "New"}):
			return aSym("error!"), true
		}
		if f := k.c.P.SSA.FuncValue(o); f != nil && f.Blocks != nil && f.Pkg == fn.Pkg {
			stack = append(stack, c43Frame{f, args})
			r, err := g9SubEval(f, env, args)
			stack = stack[:len(stack)-1]
			if err != "" {
				fail = err
				return AVal{}, false
			}
			return r, true
		}
		return g9Opaque(o, args), true
	}
	res, err := absEval(fn, env)
	if fail != "" {
		err = fail
	}
	if err != "" {
		out.Undet = err
		return out
	}
	// describe a value stored into the block: constants and parameters of a helper are resolved
	// through the helper's call frame
	describe := func(v ssa.Value) AVal {
		v = stripValue(v)
		if s, ok := constString(v); ok {
			return AVal{K: constant.MakeString(s)}
		}
		if p, ok := v.(*ssa.Parameter); ok {
			if p.Parent() == fn {
				return aSym(p.Name())
			}
			if blockFrame != nil && p.Parent() == blockFrame.fn {
				for i, q := range blockFrame.fn.Params {
					if q == p && i < len(blockFrame.args) {
						return blockFrame.args[i]
					}
				}
			}
		}
		if call, idx := callOf(v); call != nil && idx == 0 && matchFunc(calleeObj(call), Ref{"google.golang.org/protobuf/proto", "", "Marshal"}) {
			return aSym("PB")
		}
		return aSym("expr:" + exprString(v))
	}
	if len(res) == 0 || res[0].Sym != "PEM" {
		out.None = true
		return out
	}
	for _, f := range g9PkgFuncs(fn) {
		eachInstr(f, func(in ssa.Instruction) {
			al, ok := in.(*ssa.Alloc)
			if !ok || fmt.Sprintf("&local%p", al) != blockSym {
				return
			}
			out.Pos = k.c.instrPos(al)
			for _, r := range *al.Referrers() {
				fa, ok := r.(*ssa.FieldAddr)
				if !ok {
					continue
				}
				for _, rr := range *fa.Referrers() {
					if st, ok := rr.(*ssa.Store); ok && st.Addr == fa {
						switch fieldOfAddr(fa) {
						case k.blockType:
							if d := describe(st.Val); d.K != nil && d.K.Kind() == constant.String {
								out.Banner = constant.StringVal(d.K)
							}
						case k.blockData:
							out.Bytes = describe(st.Val).String()
						}
					}
				}
			}
		})
	}
	if out.Banner == "" {
		out.Undet = "the pem.Block handed to EncodeToMemory has no constant Type"
	}
	return out
}

// ---- readers

type c43Sc struct {
	Banner           string
	Len              int64
	Algo             string
	ParseErr, DecErr bool
}

type c43Read struct {
	Undet  string
	Accept bool
	Curve  int64
	Key    string
	Calls  []string
	Decode string // argument of pem.Decode
}

func (k *c43) evalReader(fn *ssa.Function, sc c43Sc) c43Read {
	var out c43Read
	fail := ""
	ivs := map[string]g9Iv{"len([KEY])": g9Pt(sc.Len), "len([PLAIN])": g9Pt(sc.Len)}
	env := &AbsEnv{MaxSteps: 20000, Params: map[string]AVal{}}
	eff := []string{}
	env.Effects = &eff
	nb := 0
	for _, p := range fn.Params {
		if g9IsByteSlice(p.Type()) {
			env.Params[p.Name()] = aSym(fmt.Sprintf("P%d", nb))
			nb++
		}
	}
	env.SymCmp = g9SymCmp(ivs, map[string]bool{"&BLOCK": true, "&NED": true, "error!": true}, nil)
	env.Load = func(name string) (AVal, bool) {
		switch name {
		case "BLOCK.Type":
			return AVal{K: constant.MakeString(sc.Banner)}, true
		case "BLOCK.Bytes":
			return aSym("KEY"), true
		case "NED.EncryptionMetadata.EncryptionAlgorithm":
			return AVal{K: constant.MakeString(sc.Algo)}, true
		}
		return AVal{}, false
	}
	env.Oracle = func(o *types.Func, args []AVal) (AVal, bool) {
		strs := func() string {
			var s []string
			for _, a := range args {
				s = append(s, a.String())
			}
			return strings.Join(s, ",")
		}
		switch {
		case matchFunc(o, Ref{"encoding/pem", "", "Decode"}) && len(args) == 1:
			out.Decode = args[0].String()
			return AVal{Tup: []AVal{aSym("&BLOCK"), aSym("REST")}}, true
		case matchFunc(o, Ref{"fmt", "", "Errorf"}) || matchFunc(o, Ref{"errors", "", "New"}):
			return aSym("error!"), true
		case k.parse != nil && o == fnObj(k.parse):
			out.Calls = append(out.Calls, "parse("+strs()+")")
			if sc.ParseErr {
				return AVal{Tup: []AVal{{Nil: true}, aSym("error!")}}, true
			}
			return AVal{Tup: []AVal{aSym("&NED"), {Nil: true}}}, true
		case k.decrypt != nil && o == fnObj(k.decrypt):
			out.Calls = append(out.Calls, "decrypt("+strs()+")")
			if sc.DecErr {
				return AVal{Tup: []AVal{{Nil: true}, aSym("error!")}}, true
			}
			return AVal{Tup: []AVal{aSym("PLAIN"), {Nil: true}}}, true
		}
		if f := k.c.P.SSA.FuncValue(o); f != nil && f.Blocks != nil && f.Pkg == fn.Pkg {
			r, err := g9SubEval(f, env, args)
			if err != "" {
				fail = err
				return AVal{}, false
			}
			return r, true
		}
		return g9Opaque(o, args), true
	}
	res, err := absEval(fn, env)
	if fail != "" {
		err = fail
	}
	if err != "" {
		out.Undet = err
		return out
	}
	ei := errResultIndex(fn)
	rs := fn.Signature.Results()
	if ei < 0 || len(res) != rs.Len() {
		out.Undet = "unexpected result shape"
		return out
	}
	switch r := res[ei]; {
	case r.Nil:
		out.Accept = true
	case r.Sym == "error!" || k.errVars[r.Sym]:
		return out
	default:
		out.Undet = "error result " + r.String() + " is neither nil nor a known error"
		return out
	}
	out.Curve = -1
	for i := 0; i < rs.Len(); i++ {
		switch {
		case k.isCurve(rs.At(i).Type()):
			if v, ok := g9ConstInt(res[i]); ok {
				out.Curve = v
			}
		case g9IsByteSlice(rs.At(i).Type()) && out.Key == "":
			out.Key = res[i].String()
		}
	}
	return out
}

func runC43(c *Ctx) {
	c.Rule("C43.pem-roundtrip", "K7: for each key kind and Curve constant the writer emits a PEM block whose banner the sibling reader maps back to the same curve, accepting the curve's key length and returning the block bytes (the decrypted plaintext) unchanged; the writer stores the caller's key bytes (the protobuf of the ciphertext) in the block", 20)
	c.Rule("C43.banner-exclusive", "K7: every banner written or recognised is accepted by the reader of at most one key kind, the kind that writes it; an unknown banner is accepted by none", 11)
	c.Rule("C43.curve-length", "K1/K8: under the banner of one curve a key with the other curve's length is refused (where the lengths differ); for the encrypted kind this is what refuses a relabelled block, since the banner is not authenticated", 8)
	c.Rule("C43.decrypt-path", "K8/K11: DecryptAndUnmarshal refuses a different algorithm string than EncryptAndMarshal writes, a failed parse and a failed decrypt; it parses the PEM block bytes and decrypts the parsed ciphertext with the caller's passphrase and the parsed Argon2 parameters; the writer encrypts the caller's key with the caller's passphrase and parameters", 9)
	c.Rule("C43.open-guard", "K1/K11: aes256Decrypt returns success only if gcm.Open returned err == nil, and the plaintext returned is Open's result", 2)
	c.Rule("C43.key-derivation", "K11/K1: aes256Encrypt and aes256Decrypt build the AEAD by NewGCM(NewCipher(aes256DeriveKey(passphrase, params))); the derivation feeds the passphrase and params.salt to argon2.IDKey and stores a new salt only if there was none", 6)
	c.Rule("C43.nonce-framing", "K7: the blob is nonce || Seal(nonce, data); Open gets the two parts of the blob split at the same gcm.NonceSize(), guarded against a short blob; Seal and Open use the same associated data", 6)
	c.Rule("C43.kdf-params", "K6/K7/K13: every Argon2Parameters field is written to one RawNebulaArgon2Parameters field and read back from that field into the same Argon2Parameters field; narrowing conversions on the way are range-guarded; algorithm, parameters and ciphertext decoded by UnmarshalNebulaEncryptedData come from the protobuf fields the writer filled", 10)

	k := &c43{c: c, errVars: map[string]bool{}}
	k.curveT = c.NamedType("cert", "Curve")
	k.parse = c.Func(Ref{"cert", "", "UnmarshalNebulaEncryptedData"})
	k.decrypt = c.Func(Ref{"cert", "", "aes256Decrypt"})
	k.encrypt = c.Func(Ref{"cert", "", "aes256Encrypt"})
	k.blockType = c.Field("encoding/pem", "Block", "Type")
	k.blockData = c.Field("encoding/pem", "Block", "Bytes")
	var curves []int64
	for _, n := range c43CurveNames {
		v := c.ConstVal("cert", n)
		if v == nil {
			return
		}
		i, _ := constant.Int64Val(v)
		curves = append(curves, i)
	}
	if k.curveT == nil || k.parse == nil || k.decrypt == nil || k.encrypt == nil || k.blockType == nil || k.blockData == nil {
		return
	}
	tp := c.P.TypesPkg("cert")
	for _, n := range tp.Scope().Names() {
		switch o := tp.Scope().Lookup(n).(type) {
		case *types.Var:
			if isErrorType(o.Type()) {
				k.errVars[n] = true
			}
		case *types.Const:
			// a Curve constant the length table does not know makes the tables incomplete
			if k.isCurve(o.Type()) && n != c43CurveNames[0] && n != c43CurveNames[1] {
				c.Unknown("C43.pem-roundtrip", "curve:"+n, "Curve constant without an entry in the checker's key-length table")
			}
		}
	}
	k.pemTables(curves)
	k.aead()
	k.kdfParams()
}

// pemTables: rules pem-roundtrip, banner-exclusive, curve-length, decrypt-path.
func (k *c43) pemTables(curves []int64) {
	c := k.c
	type kind struct {
		w, r    *ssa.Function
		written map[int64]c43Written
	}
	kinds := make([]kind, len(c43Kinds))
	banners := map[string]string{c43NoBanner: ""} // banner -> kind that writes it
	lens := map[int64]bool{0: true}
	algo := ""
	for i, kd := range c43Kinds {
		kinds[i] = kind{w: c.Func(kd.W), r: c.Func(kd.R), written: map[int64]c43Written{}}
		if kinds[i].w == nil || kinds[i].r == nil {
			return
		}
		for ci, cv := range curves {
			w := k.evalWriter(kinds[i].w, cv)
			kinds[i].written[cv] = w
			if w.Banner != "" {
				banners[w.Banner] = kd.Name
			}
			lens[kd.Len[ci]] = true
		}
		// constants the reader compares with: banners and lengths (and their neighbours)
		for _, f := range g9PkgFuncs(kinds[i].r) {
			if f == k.parse || f == k.decrypt {
				continue
			}
			eachInstr(f, func(in ssa.Instruction) {
				bo, ok := in.(*ssa.BinOp)
				if !ok {
					return
				}
				for _, v := range []ssa.Value{bo.X, bo.Y} {
					if s, ok := constString(v); ok && (bo.Op == token.EQL || bo.Op == token.NEQ) {
						if _, seen := banners[s]; !seen && recvNamed(v.Type()) == nil {
							banners[s] = ""
						}
					} else if n, ok := constInt(v); ok && n > 0 && n < 1<<16 {
						if b, isB := v.Type().Underlying().(*types.Basic); isB && b.Kind() == types.Int {
							lens[n-1], lens[n], lens[n+1] = true, true, true
						}
					}
				}
			})
		}
	}
	// the algorithm string the writer stores
	encW := kinds[len(kinds)-1].w
	if fAlg := c.Field("cert", "RawNebulaEncryptionMetadata", "EncryptionAlgorithm"); fAlg != nil {
		eachInstr(encW, func(in ssa.Instruction) {
			if st, ok := in.(*ssa.Store); ok {
				if fa, ok := st.Addr.(*ssa.FieldAddr); ok && fieldOfAddr(fa) == fAlg {
					algo, _ = constString(st.Val)
				}
			}
		})
	}
	if algo == "" {
		c.Unknown("C43.decrypt-path", "EncryptAndMarshalSigningPrivateKey:algorithm", "the algorithm string written is not a constant store to RawNebulaEncryptionMetadata.EncryptionAlgorithm")
		return
	}
	delete(banners, algo) // a string the decrypting reader compares with, not a banner
	var bl []string
	for b := range banners {
		bl = append(bl, b)
	}
	sort.Strings(bl)
	var ll []int64
	for l := range lens {
		ll = append(ll, l)
	}
	sort.Slice(ll, func(i, j int) bool { return ll[i] < ll[j] })
	c.Note("banners probed: %q; key lengths probed: %v; algorithm written: %q", bl, ll, algo)

	// ---- round trip per kind and curve
	for i, kd := range c43Kinds {
		enc := i == len(c43Kinds)-1
		for ci, cv := range curves {
			cons := kd.Name + ":" + c43CurveNames[ci]
			w := kinds[i].written[cv]
			pos := c.P.Pos(kinds[i].w.Pos())
			switch {
			case w.Undet != "":
				c.Unknown("C43.pem-roundtrip", cons, "writer left the modelled fragment: "+w.Undet)
				continue
			case w.None:
				c.Bad("C43.pem-roundtrip", cons, pos, kd.W.Name+" writes no PEM block for this curve")
				continue
			}
			// what goes into the block
			if enc {
				c.Check(w.Bytes == "PB", "C43.pem-roundtrip", cons+":block-bytes", w.Pos, "the block carries the protobuf of the encrypted data", "the encrypted block carries "+w.Bytes+", not the result of proto.Marshal")
			} else {
				bps := g9ParamsOfType(kinds[i].w, g9IsByteSlice)
				c.Check(len(bps) == 1 && w.Bytes == bps[0].Name(), "C43.pem-roundtrip", cons+":block-bytes", w.Pos, "the block carries the caller's key bytes", "the block carries "+w.Bytes+", not the caller's key bytes unchanged")
			}
			r := k.evalReader(kinds[i].r, c43Sc{Banner: w.Banner, Len: kd.Len[ci], Algo: algo})
			want := "KEY"
			if enc {
				want = "PLAIN"
			}
			switch {
			case r.Undet != "":
				c.Unknown("C43.pem-roundtrip", cons, "reader left the modelled fragment: "+r.Undet)
			case !r.Accept:
				c.Bad("C43.pem-roundtrip", cons, c.P.Pos(kinds[i].r.Pos()), fmt.Sprintf("%s refuses banner %q with a %d-byte key, which %s writes for this curve (%s)", kd.R.Name, w.Banner, kd.Len[ci], kd.W.Name, kd.Why))
			case r.Curve != cv:
				c.Bad("C43.pem-roundtrip", cons, c.P.Pos(kinds[i].r.Pos()), fmt.Sprintf("banner %q written for curve %d is read back as curve %d", w.Banner, cv, r.Curve))
			case r.Key != want:
				c.Bad("C43.pem-roundtrip", cons, c.P.Pos(kinds[i].r.Pos()), fmt.Sprintf("the key returned is %s, not the %s bytes", r.Key, want))
			default:
				c.OK("C43.pem-roundtrip", cons, fmt.Sprintf("banner %q <-> curve %d, %d bytes", w.Banner, cv, kd.Len[ci]))
			}
			// the other curve's key length under this banner
			for cj := range curves {
				if kd.Len[cj] == kd.Len[ci] {
					continue
				}
				r2 := k.evalReader(kinds[i].r, c43Sc{Banner: w.Banner, Len: kd.Len[cj], Algo: algo})
				cons2 := fmt.Sprintf("%s:%s-banner/%s-length", kd.Name, c43CurveNames[ci], c43CurveNames[cj])
				if r2.Undet != "" {
					c.Unknown("C43.curve-length", cons2, r2.Undet)
				} else {
					c.Check(!r2.Accept, "C43.curve-length", cons2, c.P.Pos(kinds[i].r.Pos()), "refused", fmt.Sprintf("a %d-byte key is accepted under banner %q: a %s key relabelled as %s passes", kd.Len[cj], w.Banner, c43CurveNames[cj], c43CurveNames[ci]))
				}
			}
		}
	}
	// ---- exclusivity
	for _, b := range bl {
		var acc []string
		undet := ""
		for i, kd := range c43Kinds {
			for _, l := range ll {
				r := k.evalReader(kinds[i].r, c43Sc{Banner: b, Len: l, Algo: algo})
				if r.Undet != "" {
					undet = kd.R.Name + ": " + r.Undet
				} else if r.Accept {
					acc = append(acc, kd.Name)
					break
				}
			}
		}
		cons := fmt.Sprintf("banner:%q", b)
		writer := banners[b]
		switch {
		case undet != "":
			c.Unknown("C43.banner-exclusive", cons, undet)
		case len(acc) > 1 || (len(acc) == 1 && acc[0] != writer):
			c.Bad("C43.banner-exclusive", cons, c.P.Pos(kinds[0].r.Pos()), fmt.Sprintf("accepted by the readers of %v, written by %q: a key of one kind is read as another", acc, writer))
		default:
			c.OK("C43.banner-exclusive", cons, fmt.Sprintf("accepted only by %v", acc))
		}
	}
	// ---- decrypt path
	dec := kinds[len(kinds)-1].r
	dpos := c.P.Pos(dec.Pos())
	for ci, cv := range curves {
		w := kinds[len(kinds)-1].written[cv]
		if w.Banner == "" {
			continue
		}
		base := c43Sc{Banner: w.Banner, Len: c43Kinds[len(c43Kinds)-1].Len[ci], Algo: algo}
		probe := func(name string, sc c43Sc, ok func(c43Read) bool, bad string) {
			r := k.evalReader(dec, sc)
			cons := "DecryptAndUnmarshal:" + c43CurveNames[ci] + ":" + name
			if r.Undet != "" {
				c.Unknown("C43.decrypt-path", cons, r.Undet)
				return
			}
			c.Check(ok(r), "C43.decrypt-path", cons, dpos, "holds", bad+fmt.Sprintf(" (accepted=%v, calls %v)", r.Accept, r.Calls))
		}
		other, perr, derr := base, base, base
		other.Algo, perr.ParseErr, derr.DecErr = algo+"-G9", true, true
		probe("other-algorithm", other, func(r c43Read) bool { return !r.Accept }, "a block whose algorithm string was altered is accepted")
		probe("parse-error", perr, func(r c43Read) bool { return !r.Accept }, "a block whose encrypted data does not parse is accepted")
		probe("decrypt-error", derr, func(r c43Read) bool { return !r.Accept }, "a key is returned although aes256Decrypt failed (wrong passphrase / altered data)")
		probe("arguments", base, func(r c43Read) bool {
			pass := "P0"
			if r.Decode == "P0" {
				pass = "P1"
			}
			return r.Accept && (r.Decode == "P0" || r.Decode == "P1") && strings.Join(r.Calls, " ") == "parse(KEY) decrypt("+pass+",&NED.EncryptionMetadata.Argon2Parameters,NED.Ciphertext)"
		}, "the block is not decrypted as aes256Decrypt(caller's passphrase, parsed Argon2 parameters, parsed ciphertext) of the parsed PEM block bytes")
	}
	// writer side: aes256Encrypt(passphrase, params, key) with the API's (curve, key, passphrase, params)
	calls := callsIn(encW, Ref{"cert", "", "aes256Encrypt"})
	okW := len(calls) == 1 && len(encW.Params) == 4
	if okW {
		a := calls[0].Common().Args
		okW = a[0] == ssa.Value(encW.Params[2]) && a[1] == ssa.Value(encW.Params[3]) && a[2] == ssa.Value(encW.Params[1])
	}
	c.Check(okW, "C43.decrypt-path", "EncryptAndMarshalSigningPrivateKey:arguments", c.P.Pos(encW.Pos()), "aes256Encrypt(passphrase, kdfParams, key)", "the key is not encrypted as aes256Encrypt(passphrase, kdfParams, key) of the function's own (curve, key, passphrase, kdfParams)")
}

// aeadKeyChain: v = NewGCM(NewCipher(aes256DeriveKey(...))) #0 at each step; returns the derive call.
func (k *c43) aeadKeyChain(v ssa.Value) *ssa.Call {
	for _, r := range []Ref{{"crypto/cipher", "", "NewGCM"}, {"crypto/aes", "", "NewCipher"}} {
		call, idx := callOf(v)
		if call == nil || idx != 0 || !matchFunc(calleeObj(call), r) {
			return nil
		}
		v = call.Call.Args[0]
	}
	call, idx := callOf(v)
	if call == nil || idx != 0 || !matchFunc(calleeObj(call), Ref{"cert", "", "aes256DeriveKey"}) {
		return nil
	}
	return call
}

func c43IsNonceSizeOf(v, aead ssa.Value) bool {
	call, _ := callOf(v)
	return call != nil && call.Call.IsInvoke() && call.Call.Method.Name() == "NonceSize" && call.Call.Value == aead
}

// aead: rules open-guard, key-derivation, nonce-framing.
func (k *c43) aead() {
	c := k.c
	enc, dec := k.encrypt, k.decrypt
	openRef, sealRef := Ref{"crypto/cipher", "AEAD", "Open"}, Ref{"crypto/cipher", "AEAD", "Seal"}
	opens, seals := callsIn(dec, openRef), callsIn(enc, sealRef)
	if len(opens) != 1 || len(seals) != 1 {
		c.Unknown("C43.open-guard", "aes256Decrypt:shape", fmt.Sprintf("expected one AEAD.Open in aes256Decrypt and one AEAD.Seal in aes256Encrypt, found %d/%d", len(opens), len(seals)))
		return
	}
	open, seal := opens[0].(*ssa.Call), seals[0].(*ssa.Call)
	succ := successReturns(dec, 1)
	c.requireGuards("C43.open-guard", dec, succ, "success-return", gErrNil("gcm.Open err == nil", callTo(openRef)))
	okPT := len(succ) > 0
	for _, s := range succ {
		v, idx := callOf(retResult(s.Instr.(*ssa.Return), 0))
		okPT = okPT && v == open && idx == 0
	}
	c.Check(okPT, "C43.open-guard", "aes256Decrypt:plaintext", c.instrPos(open), "the value returned on success is gcm.Open's plaintext", "the bytes returned on success are not the plaintext gcm.Open authenticated")

	// key chain on both sides
	for _, side := range []struct {
		fn   *ssa.Function
		call *ssa.Call
		data ssa.Value // the []byte the AEAD processes must come from the other []byte parameter
	}{{enc, seal, seal.Call.Args[2]}, {dec, open, nil}} {
		name := side.fn.Name()
		dk := k.aeadKeyChain(side.call.Call.Value)
		if dk == nil {
			c.Bad("C43.key-derivation", name+":aead-key", c.instrPos(side.call), "the AEAD is not NewGCM(NewCipher(key)) with key the result of aes256DeriveKey: the passphrase does not determine the key")
			continue
		}
		pass, isP := stripValue(dk.Call.Args[0]).(*ssa.Parameter)
		par, isK := stripValue(dk.Call.Args[1]).(*ssa.Parameter)
		okArgs := isP && isK && g9IsByteSlice(pass.Type()) && !g9IsByteSlice(par.Type())
		if okArgs && side.data != nil {
			okArgs = stripValue(side.data) != ssa.Value(pass) // the plaintext is the other []byte parameter
		}
		c.Check(okArgs, "C43.key-derivation", name+":aead-key", c.instrPos(dk), "key = aes256DeriveKey(passphrase parameter, params parameter)", "aes256DeriveKey is not given the function's passphrase and KDF parameters")
	}
	if d1, d2 := k.aeadKeyChain(seal.Call.Value), k.aeadKeyChain(open.Call.Value); d1 != nil && d2 != nil {
		i1, i2 := -1, -2
		for i, p := range enc.Params {
			if ssa.Value(p) == stripValue(d1.Call.Args[0]) {
				i1 = i
			}
		}
		for i, p := range dec.Params {
			if ssa.Value(p) == stripValue(d2.Call.Args[0]) {
				i2 = i
			}
		}
		c.Check(i1 == i2, "C43.key-derivation", "aes256Encrypt~aes256Decrypt:passphrase-position", c.instrPos(d2), "both sides derive the key from the same parameter position", "encrypt and decrypt take the passphrase from different parameter positions although their callers pass (passphrase, params, data) alike")
	}
	// the derivation itself
	if dk, inner := c.Func(Ref{"cert", "", "aes256DeriveKey"}), c.Func(Ref{"cert", "", "deriveKey"}); dk != nil && inner != nil {
		fSalt := c.Field("cert", "Argon2Parameters", "salt")
		calls := callsIn(dk, Ref{"cert", "", "deriveKey"})
		okD := len(calls) == 1
		if okD {
			a := calls[0].Common().Args
			p0, is0 := stripValue(a[0]).(*ssa.Parameter)
			p2, is2 := stripValue(a[2]).(*ssa.Parameter)
			okD = is0 && is2 && g9IsByteSlice(p0.Type()) && !g9IsByteSlice(p2.Type())
			for _, s := range successReturns(dk, 1) {
				v, idx := callOf(retResult(s.Instr.(*ssa.Return), 0))
				okD = okD && v == calls[0].(*ssa.Call) && idx == 0
			}
		}
		c.Check(okD, "C43.key-derivation", "aes256DeriveKey:delegates", c.P.Pos(dk.Pos()), "returns deriveKey(passphrase, size, params)", "aes256DeriveKey does not return deriveKey(passphrase parameter, size, params parameter)")
		ids := callsIn(inner, Ref{"golang.org/x/crypto/argon2", "", "IDKey"})
		okI := len(ids) == 1 && fSalt != nil
		if okI {
			a := ids[0].Common().Args
			p0, is0 := stripValue(a[0]).(*ssa.Parameter)
			okI = is0 && g9IsByteSlice(p0.Type()) && loadsField(a[1], fSalt)
		}
		c.Check(okI, "C43.key-derivation", "deriveKey:argon2-inputs", c.P.Pos(inner.Pos()), "argon2.IDKey(passphrase, params.salt, ...)", "argon2.IDKey is not fed the passphrase parameter and params.salt: the key does not depend on the passphrase / the stored salt")
		// a new salt only when none is stored (decrypting must use the stored one)
		var sinks []Sink
		eachInstr(dk, func(in ssa.Instruction) {
			if st, ok := in.(*ssa.Store); ok && loadsField(st.Addr, fSalt) {
				sinks = append(sinks, Sink{Instr: st, Desc: "params.salt = ..."})
			}
		})
		if len(sinks) == 0 {
			c.OK("C43.key-derivation", "aes256DeriveKey:salt-kept", "the salt is never overwritten here")
		} else {
			isSalt := func(v ssa.Value) bool { return loadsField(v, fSalt) }
			c.requireGuards("C43.key-derivation", dk, sinks, "salt-store", gAny("no salt stored yet",
				gValNil("salt == nil", isSalt),
				gCmp("len(salt) == 0", isLenOf(isSalt), isIntConst(0), mustEqual)))
		}
	}
	// ---- framing
	joins := callsIn(enc, Ref{"cert", "", "joinNonceCiphertext"})
	splits := callsIn(dec, Ref{"cert", "", "splitNonceCiphertext"})
	if len(joins) != 1 || len(splits) != 1 {
		c.Unknown("C43.nonce-framing", "aes256Encrypt/aes256Decrypt:shape", "expected one joinNonceCiphertext and one splitNonceCiphertext call")
		return
	}
	join, split := joins[0].(*ssa.Call), splits[0].(*ssa.Call)
	nonce := seal.Call.Args[1]
	okJ := join.Call.Args[0] == nonce && join.Call.Args[1] == ssa.Value(seal)
	for _, s := range successReturns(enc, 1) {
		okJ = okJ && stripValue(retResult(s.Instr.(*ssa.Return), 0)) == ssa.Value(join)
	}
	if ms, ok := nonce.(*ssa.MakeSlice); !ok || !c43IsNonceSizeOf(ms.Len, seal.Call.Value) {
		okJ = false
	}
	c.Check(okJ, "C43.nonce-framing", "aes256Encrypt:blob", c.instrPos(join), "returns join(nonce, Seal(nonce, data)) with a NonceSize() nonce", "the blob returned is not joinNonceCiphertext(nonce, gcm.Seal(nil, nonce, data, ad)) with a nonce of gcm.NonceSize() bytes")
	data, isD := stripValue(split.Call.Args[0]).(*ssa.Parameter)
	okS := isD && c43IsNonceSizeOf(split.Call.Args[1], open.Call.Value)
	if d2 := k.aeadKeyChain(open.Call.Value); okS && d2 != nil {
		okS = ssa.Value(data) != stripValue(d2.Call.Args[0])
	}
	for i, a := range []ssa.Value{open.Call.Args[1], open.Call.Args[2]} {
		v, idx := callOf(a)
		okS = okS && v == split && idx == i
	}
	c.Check(okS, "C43.nonce-framing", "aes256Decrypt:blob", c.instrPos(split), "Open(nonce, ct) = split(data, NonceSize())", "gcm.Open is not given the two parts of splitNonceCiphertext(data parameter, gcm.NonceSize())")
	c.Check(isNilConst(seal.Call.Args[3]) && isNilConst(open.Call.Args[3]), "C43.nonce-framing", "Seal~Open:associated-data", c.instrPos(seal), "no associated data on either side", "Seal and Open do not use the same (empty) associated data: nothing encrypted can be opened")
	if jf, sf := c.Func(Ref{"cert", "", "joinNonceCiphertext"}), c.Func(Ref{"cert", "", "splitNonceCiphertext"}); jf != nil && sf != nil {
		okJF := false
		for _, b := range jf.Blocks {
			if ret, ok := b.Instrs[len(b.Instrs)-1].(*ssa.Return); ok {
				call, isC := ret.Results[0].(*ssa.Call)
				okJF = isC && builtinName(call) == "append" && call.Call.Args[0] == ssa.Value(jf.Params[0]) && call.Call.Args[1] == ssa.Value(jf.Params[1])
			}
		}
		c.Check(okJF, "C43.nonce-framing", "joinNonceCiphertext", c.P.Pos(jf.Pos()), "nonce first", "joinNonceCiphertext does not return nonce || ciphertext, which is what splitNonceCiphertext undoes")
		blob, size := ssa.Value(sf.Params[0]), ssa.Value(sf.Params[1])
		succ := successReturns(sf, 2)
		okSF := len(succ) > 0
		for _, s := range succ {
			ret := s.Instr.(*ssa.Return)
			a, isA := ret.Results[0].(*ssa.Slice)
			b, isB := ret.Results[1].(*ssa.Slice)
			okSF = okSF && isA && isB && a.X == blob && a.Low == nil && a.High == size && b.X == blob && b.Low == size && b.High == nil
		}
		c.Check(okSF, "C43.nonce-framing", "splitNonceCiphertext", c.P.Pos(sf.Pos()), "blob[:n], blob[n:]", "splitNonceCiphertext does not return blob[:nonceSize], blob[nonceSize:]")
		c.requireGuards("C43.nonce-framing", sf, succ, "success-return", gCmp("len(blob) >= nonceSize", isLenOf(func(v ssa.Value) bool { return v == blob }), func(v ssa.Value) bool { return v == size }, func(op token.Token) (bool, bool) {
			switch op {
			case token.LSS, token.LEQ:
				return true, false
			case token.GEQ, token.GTR:
				return true, true
			}
			return false, false
		}))
	}
}

// kdfParams: rule kdf-params.
func (k *c43) kdfParams() {
	c := k.c
	goT, rawT := c.NamedType("cert", "Argon2Parameters"), c.NamedType("cert", "RawNebulaArgon2Parameters")
	rawData, rawMeta := c.NamedType("cert", "RawNebulaEncryptedData"), c.NamedType("cert", "RawNebulaEncryptionMetadata")
	nedT, metaT := c.NamedType("cert", "NebulaEncryptedData"), c.NamedType("cert", "NebulaEncryptionMetadata")
	w := c.Func(Ref{"cert", "", "EncryptAndMarshalSigningPrivateKey"})
	r := c.Func(Ref{"cert", "", "unmarshalArgon2Parameters"})
	if goT == nil || rawT == nil || rawData == nil || rawMeta == nil || nedT == nil || metaT == nil || w == nil || r == nil {
		return
	}
	one := func(m map[string]bool) string {
		if len(m) != 1 {
			return ""
		}
		for k := range m {
			return k
		}
		return ""
	}
	wr, rd := fieldsWrittenBy(w, rawT), fieldsWrittenBy(r, goT)
	toRaw := map[string]string{} // Argon2Parameters field -> raw field it is written to
	for rf, v := range wr {
		if src := one(fieldsIn(v, goT, sliceLocal)); src != "" {
			toRaw[src] = rf
		} else {
			c.Bad("C43.kdf-params", "write:"+rf, c.P.Pos(w.Pos()), fmt.Sprintf("RawNebulaArgon2Parameters.%s is not written from exactly one Argon2Parameters field (%s)", rf, setStr(fieldsIn(v, goT, sliceLocal))))
		}
	}
	for _, f := range structFields(goT) {
		cons := "Argon2Parameters." + f
		rf, okW := toRaw[f]
		if !okW {
			c.Bad("C43.kdf-params", cons, c.P.Pos(w.Pos()), "the parameter is not written into the encrypted block: decryption cannot derive the same key")
			continue
		}
		v, okR := rd[f]
		back := ""
		if okR {
			back = one(fieldsIn(v, rawT, sliceLocal))
		}
		c.Check(okR && back == rf, "C43.kdf-params", cons, c.P.Pos(r.Pos()), "written to and read from "+rf, fmt.Sprintf("written to RawNebulaArgon2Parameters.%s but read back from %q", rf, back))
	}
	// narrowing conversions of decoded parameters need a dominating range test
	for f, v := range rd {
		backSlice(v, sliceLocal, func(x ssa.Value) {
			cv, ok := x.(*ssa.Convert)
			if !ok || !g9Narrowing(cv) {
				return
			}
			bits, _ := intWidth(cv.Type())
			max := int64(1)<<bits - 1
			src := cv.X
			var sinks []Sink
			for _, ref := range *cv.Referrers() {
				sinks = append(sinks, Sink{Instr: ref, Desc: "use of the narrowed value"})
			}
			g := Guard{Name: fmt.Sprintf("value <= %d", max), Match: func(cd Cond, _ *ssa.If) (bool, bool) {
				if cd.Kind != CondCmp {
					return false, false
				}
				bo := cd.Base.(*ssa.BinOp)
				op, x, y := bo.Op, bo.X, bo.Y
				if _, isK := constInt(x); isK {
					op, x, y = swapOp(op), y, x
				}
				n, isK := constInt(y)
				if !isK || exprString(x) != exprString(src) {
					return false, false
				}
				if cd.Neg {
					op = negOp(op)
				}
				switch {
				case op == token.GTR && n == max, op == token.GEQ && n == max+1:
					return true, false
				case op == token.LEQ && n == max, op == token.LSS && n == max+1:
					return true, true
				}
				return false, false
			}}
			ok2 := len(sinks) > 0
			for _, s := range sinks {
				if pass, _, _ := c.mustPass(r, s, g); !pass {
					ok2 = false
				}
			}
			c.Check(ok2, "C43.kdf-params", "narrowing:"+f, c.instrPos(cv), fmt.Sprintf("guarded by a test against %d", max), fmt.Sprintf("the decoded value is narrowed to %s without a range test: an altered block whose value differs by a multiple of %d derives the same key and is accepted", cv.Type(), max+1))
		})
	}
	// the envelope: algorithm / parameters / ciphertext
	wm, wd := fieldsWrittenBy(w, rawMeta), fieldsWrittenBy(w, rawData)
	isAllocOf := func(v ssa.Value, t *types.Named) bool {
		al, ok := stripValue(v).(*ssa.Alloc)
		return ok && recvNamed(al.Type()) != nil && recvNamed(al.Type()).Obj() == t.Obj()
	}
	ctCall, ctIdx := callOf(wd["Ciphertext"])
	c.Check(wm["Argon2Parameters"] != nil && isAllocOf(wm["Argon2Parameters"], rawT) && wd["EncryptionMetadata"] != nil && isAllocOf(wd["EncryptionMetadata"], rawMeta) &&
		ctCall != nil && ctIdx == 0 && calleeObj(ctCall) == fnObj(k.encrypt),
		"C43.kdf-params", "EncryptAndMarshal:envelope", c.P.Pos(w.Pos()), "metadata{algorithm, parameters} and ciphertext of aes256Encrypt are nested in the protobuf", "the protobuf written does not nest the Argon2 parameters in the metadata and carry aes256Encrypt's ciphertext")
	rm, rn := fieldsWrittenBy(k.parse, metaT), fieldsWrittenBy(k.parse, nedT)
	okAlg := rm["EncryptionAlgorithm"] != nil && one(fieldsIn(rm["EncryptionAlgorithm"], rawMeta, sliceLocal)) == "EncryptionAlgorithm"
	okCt := rn["Ciphertext"] != nil && one(fieldsIn(rn["Ciphertext"], rawData, sliceLocal)) == "Ciphertext"
	okPar := false
	if v := rm["Argon2Parameters"]; v != nil {
		okPar = derivesFrom(v, sliceLocal, func(x ssa.Value) bool {
			call, idx := callOf(x)
			return call != nil && idx == 0 && calleeObj(call) == fnObj(r) && one(fieldsIn(call.Call.Args[0], rawMeta, sliceLocal)) == "Argon2Parameters"
		})
	}
	pos := c.P.Pos(k.parse.Pos())
	c.Check(okAlg, "C43.kdf-params", "UnmarshalNebulaEncryptedData:algorithm", pos, "from the protobuf's EncryptionAlgorithm", "the algorithm string decoded is not the protobuf's EncryptionAlgorithm")
	c.Check(okCt, "C43.kdf-params", "UnmarshalNebulaEncryptedData:ciphertext", pos, "from the protobuf's Ciphertext", "the ciphertext decoded is not the protobuf's Ciphertext")
	c.Check(okPar, "C43.kdf-params", "UnmarshalNebulaEncryptedData:parameters", pos, "unmarshalArgon2Parameters(protobuf's Argon2Parameters)", "the KDF parameters decoded are not unmarshalArgon2Parameters of the protobuf's Argon2Parameters")
}
