package main

import (
	"fmt"
	"go/constant"
	"go/token"
	"go/types"
	"sort"
	"strings"

	"golang.org/x/tools/go/ssa"
)

func init() {
	register(&Property{
		ID: "C21", Title: "Reject replies are well formed and never answer errors or fragments",
		Patterns:    []string{"./iputil", "."},
		Technique:   "value-set dataflow over the header bytes tested before each builder is reached (version, fragment offset, protocol, ICMP type), write tables of the reply buffer (constant bytes, copies, big-endian puts) compared with the RFC layouts, ordering of checksum zero / compute / store against every other write of the summed region, enumeration of the TCP flag and sequence expressions, length-guard reachability for every access of packet and reply buffer, who-may-call tables, guard reachability for the send-reject flags and the size limit",
		LevelText:   "Structural necessary conditions decided on every path: the reject builders are reached only from CreateRejectPacket, which is reached only from rejectInside/rejectOutside behind the Outbound/InboundSendReject flag; a builder is reached only for the matching IP version, for an unfragmented or first-fragment packet (IPv4: 13 offset bits zero; IPv6: walker error nil and not a non-first fragment), the TCP builder only for protocol 6 and the ICMP builder otherwise; the ICMP builders return a reply only if the original is not an ICMP error message; every builder returns nil unless the reply fits the buffer's capacity and its size is bounded by MaxRejectPacketSize; the reply's version/IHL, protocol/next-header, length field, ICMP type/code (administratively prohibited) and TCP data-offset bytes have their RFC values, every header byte is written, source and destination addresses (and TCP ports) are copied crosswise from the original, the ICMP body starts with the original header, TCP flags and sequence numbers follow the netfilter rule for all flag bytes; each checksum field is zeroed before, computed over the right region with the right pseudo-header after every other write of that region, and stored big-endian at its RFC offset; no access of the original or the reply buffer can be out of range; an empty reply is never sent and rejectOutside sends only replies within the size limit, on the tunnel the packet came from.",
		LevelNote:   "Not decided: the arithmetic of tcpipChecksum and the pseudo-header sums themselves (their call sites, regions, ordering and arguments are); that the quoted original is what the peer expects beyond 'starts with the original header'; IPv4 options in the original are quoted as-is. ICMPv6 error class is taken from RFC 4443 section 2.1 (type < 128), ICMPv4 error types from RFC 1122 (3,4,5,11,12).",
		Explanation: "K2 caller tables, K1 by value sets (dispatch, fragments, ICMP error types), K1 length discipline on packet and out, K7 write-table agreement with the RFC layouts and crossed copies, K4 checksum ordering, K8-style enumeration of TCP flags / sequence numbers, K1 flag and size guards in rejectInside/rejectOutside",
		Run:         runC21,
		Canaries: func(c *Ctx) []Canary {
			return []Canary{
				{Name: "v4-fragment-test-only-low-byte", File: "iputil/packet.go", Old: "if packet[6]&0x1f != 0 || packet[7] != 0 {\n\t\t\treturn nil\n\t\t}\n\t\tswitch packet[9] {", New: "if packet[7] != 0 {\n\t\t\treturn nil\n\t\t}\n\t\tswitch packet[9] {", Rule: "C21.dispatch"},
				{Name: "v6-replies-to-non-first-fragment", File: "iputil/packet.go", Old: "if err != nil || isFragment {\n\t\treturn nil\n\t}\n\tswitch proto {", New: "if err != nil {\n\t\treturn nil\n\t}\n\t_ = isFragment\n\tswitch proto {", Rule: "C21.dispatch"},
				{Name: "v4-answers-icmp-redirect", File: "iputil/packet.go", Old: "icmpType == 3 || icmpType == 4 || icmpType == 5 || icmpType == 11", New: "icmpType == 3 || icmpType == 4 || icmpType == 11", Rule: "C21.no-icmp-error"},
				{Name: "v4-addresses-not-swapped", File: "iputil/packet.go", Old: "\tipHdr[9] = 1  // protocol (icmp)\n\tipHdr[10] = 0 // checksum\n\tipHdr[11] = 0 //  .\n\n\t// Swap dest / src IPs\n\tcopy(ipHdr[12:16], packet[16:20])\n\tcopy(ipHdr[16:20], packet[12:16])", New: "\tipHdr[9] = 1  // protocol (icmp)\n\tipHdr[10] = 0 // checksum\n\tipHdr[11] = 0 //  .\n\n\t// Swap dest / src IPs\n\tcopy(ipHdr[12:16], packet[12:16])\n\tcopy(ipHdr[16:20], packet[16:20])", Rule: "C21.swap"},
				{Name: "v6-tcp-ports-not-swapped", File: "iputil/packet.go", Old: "\ttcpOut := out[ipv6.HeaderLen:]\n\t// Swap dest / src ports\n\tcopy(tcpOut[0:2], tcpIn[2:4])\n\tcopy(tcpOut[2:4], tcpIn[0:2])", New: "\ttcpOut := out[ipv6.HeaderLen:]\n\t// Swap dest / src ports\n\tcopy(tcpOut[0:2], tcpIn[0:2])\n\tcopy(tcpOut[2:4], tcpIn[2:4])", Rule: "C21.swap"},
				{Name: "icmp-checksum-before-body", File: "iputil/packet.go", Old: "\t// Copy original IP header and first 8 bytes as body\n\tcopy(icmpOut[8:], packet[:packetLen])\n\n\t// Calculate checksum\n\tbinary.BigEndian.PutUint16(icmpOut[2:], tcpipChecksum(icmpOut, 0))\n", New: "\t// Calculate checksum\n\tbinary.BigEndian.PutUint16(icmpOut[2:], tcpipChecksum(icmpOut, 0))\n\n\t// Copy original IP header and first 8 bytes as body\n\tcopy(icmpOut[8:], packet[:packetLen])\n", Rule: "C21.checksum"},
				{Name: "v4-tcp-checksum-field-not-zeroed", File: "iputil/packet.go", Old: "\ttcpOut[16] = 0                  // checksum\n\ttcpOut[17] = 0                  //  .\n\ttcpOut[18] = 0                  // URG Pointer\n\ttcpOut[19] = 0                  //  .\n\n\t// Calculate checksum\n\tcsum := ipv4PseudoheaderChecksum", New: "\ttcpOut[18] = 0                  // URG Pointer\n\ttcpOut[19] = 0                  //  .\n\n\t// Calculate checksum\n\tcsum := ipv4PseudoheaderChecksum", Rule: "C21.checksum"},
				{Name: "v6-icmp-pseudo-header-wrong-protocol", File: "iputil/packet.go", Old: "csum := ipv6PseudoheaderChecksum(ipHdr[8:24], ipHdr[24:40], 58, uint32(payloadLen))", New: "csum := ipv6PseudoheaderChecksum(ipHdr[8:24], ipHdr[24:40], 1, uint32(payloadLen))", Rule: "C21.checksum"},
				{Name: "v4-icmp-capacity-test-dropped", File: "iputil/packet.go", Old: "\toutLen := ipv4.HeaderLen + 8 + packetLen\n\tif outLen > cap(out) {\n\t\treturn nil\n\t}\n", New: "\toutLen := ipv4.HeaderLen + 8 + packetLen\n", Rule: "C21.bounds"},
				{Name: "v4-tcp-input-length-test-weakened", File: "iputil/packet.go", Old: "\tif len(packet) < ihl+tcpLen {\n\t\t// We need at least this many bytes for this to be a valid packet\n\t\treturn nil\n\t}", New: "\tif len(packet) < ihl+8 {\n\t\treturn nil\n\t}", Rule: "C21.bounds"},
				{Name: "v4-total-length-is-header-only", File: "iputil/packet.go", Old: "binary.BigEndian.PutUint16(ipHdr[2:], uint16(outLen)) // Total Length\n\n\tipHdr[4] = 0  // id", New: "binary.BigEndian.PutUint16(ipHdr[2:], uint16(ipv4.HeaderLen)) // Total Length\n\n\tipHdr[4] = 0  // id", Rule: "C21.layout"},
				{Name: "v6-icmp-code-no-route", File: "iputil/packet.go", Old: "icmpOut[1] = 1 // code (Communication with destination administratively prohibited)", New: "icmpOut[1] = 0 // code", Rule: "C21.layout"},
				{Name: "tcp-reset-acks-with-syn-ignored", File: "iputil/packet.go", Old: "\tinAck := tcpIn[13]&0b00010000 != 0\n\tif inAck {\n\t\tseq = binary.BigEndian.Uint32(tcpIn[8:])\n\t} else {\n\t\tinSyn := uint32((tcpIn[13] & 0b00000010) >> 1)\n\t\tinFin := uint32(tcpIn[13] & 0b00000001)\n\t\t// seq from the packet + syn + fin + tcp segment length\n\t\tackSeq = binary.BigEndian.Uint32(tcpIn[4:]) + inSyn + inFin", New: "\tinAck := tcpIn[13]&0b00010000 != 0\n\tif inAck {\n\t\tseq = binary.BigEndian.Uint32(tcpIn[8:])\n\t} else {\n\t\tinSyn := uint32((tcpIn[13] & 0b00000010) >> 2)\n\t\tinFin := uint32(tcpIn[13] & 0b00000001)\n\t\t// seq from the packet + syn + fin + tcp segment length\n\t\tackSeq = binary.BigEndian.Uint32(tcpIn[4:]) + inSyn + inFin", Rule: "C21.tcp-reset"},
				{Name: "v6-icmp-reply-up-to-1500", File: "iputil/packet.go", Old: "packetLen := min(len(packet), 1000)", New: "packetLen := min(len(packet), 1500)", Rule: "C21.max-size"},
				{Name: "reject-inside-ignores-flag", File: "inside.go", Old: "\tif !f.firewall.OutboundSendReject {\n\t\treturn\n\t}\n", New: "", Rule: "C21.gated"},
				{Name: "reject-outside-uses-outbound-flag", File: "inside.go", Old: "if !f.firewall.InboundSendReject {", New: "if !f.firewall.OutboundSendReject {", Rule: "C21.gated"},
				{Name: "reject-outside-size-test-dropped", File: "inside.go", Old: "\tif len(out) > iputil.MaxRejectPacketSize {\n\t\tif f.l.Enabled(context.Background(), slog.LevelInfo) {\n\t\t\tf.l.Info(\"rejectOutside: packet too big, not sending\", \"packet\", packet, \"outPacket\", out)\n\t\t}\n\t\treturn\n\t}\n", New: "", Rule: "C21.max-size"},
				{Name: "echo-responder-builds-reject", File: "iputil/packet.go", Old: "func CreateICMPEchoResponse(packet, out []byte) []byte {\n\tif len(packet) < 1 {\n\t\treturn nil\n\t}\n", New: "func CreateICMPEchoResponse(packet, out []byte) []byte {\n\tif len(packet) < 1 {\n\t\treturn nil\n\t}\n\tif len(packet) > 9001 {\n\t\treturn ipv4CreateRejectICMPPacket(packet, out)\n\t}\n", Rule: "C21.callers"},
			}
		},
	})
}

// c21Builder describes one reply builder and the layout an independent decoder expects.
type c21Builder struct {
	ref    Ref
	v6     bool
	tcp    bool
	H      int64 // length of the reply's IP header
	hdrArg int   // index of the parameter holding the original's transport offset (v6); -1: computed IHL
}

var c21Builders = []c21Builder{
	{Ref{"iputil", "", "ipv4CreateRejectICMPPacket"}, false, false, 20, -1},
	{Ref{"iputil", "", "ipv4CreateRejectTCPPacket"}, false, true, 20, -1},
	{Ref{"iputil", "", "ipv6CreateRejectICMPPacket"}, true, false, 40, 3},
	{Ref{"iputil", "", "ipv6CreateRejectTCPPacket"}, true, true, 40, 2},
}

// who may call what (K2): one reason per edge
var c21MayCall = map[string]map[string]string{
	"ipv4CreateRejectICMPPacket": {"CreateRejectPacket": "after the version, length and fragment tests"},
	"ipv4CreateRejectTCPPacket":  {"CreateRejectPacket": "after the version, length and fragment tests"},
	"ipv6CreateRejectPacket":     {"CreateRejectPacket": "after the version and length tests"},
	"ipv6CreateRejectICMPPacket": {"ipv6CreateRejectPacket": "after the extension-header walk (error nil, not a non-first fragment)"},
	"ipv6CreateRejectTCPPacket":  {"ipv6CreateRejectPacket": "after the extension-header walk (error nil, not a non-first fragment)"},
	"CreateRejectPacket":         {"rejectInside": "behind firewall.OutboundSendReject", "rejectOutside": "behind firewall.InboundSendReject"},
}

// ICMP error messages, which must never be answered with an ICMP error
func c21ICMPv4IsError(t int) bool { // RFC 1122 3.2.2: destination unreachable, source quench, redirect, time exceeded, parameter problem
	return t == 3 || t == 4 || t == 5 || t == 11 || t == 12
}
func c21ICMPv6IsError(t int) bool { return t < 128 } // RFC 4443 2.1: error messages have a zero high-order type bit

func runC21(c *Ctx) {
	c.Rule("C21.callers", "K2: the builders are called only by their dispatcher, CreateRejectPacket only by rejectInside / rejectOutside", 7)
	c.Rule("C21.dispatch", "K1/value sets: a builder is reached only for its IP version, for a packet that is not a non-first fragment, the TCP builder only for protocol 6, with the original packet, buffer and transport offset passed unchanged; a non-nil result comes from a builder only", 14)
	c.Rule("C21.no-icmp-error", "K1/value sets: the ICMP builders return a reply only if the original is not an ICMP error message (when its type byte is present)", 2)
	c.Rule("C21.bounds", "K1: every access of the original packet and of the reply buffer in the dispatcher and the builders is preceded by a length / capacity test covering it", 60)
	c.Rule("C21.max-size", "the reply length of every builder is bounded by MaxRejectPacketSize; rejectOutside sends only replies within it", 5)
	c.Rule("C21.layout", "K7: constant header bytes, length field, ICMP type/code, TCP data offset have their RFC values and every byte of the reply headers is written", 28)
	c.Rule("C21.swap", "K7: source/destination addresses and TCP ports are copied crosswise from the original; the ICMP body starts with the original header", 14)
	c.Rule("C21.checksum", "K4: each checksum field is zero before, computed over the right region (with the right pseudo-header) after every other write of that region, and stored big-endian at its RFC offset", 6)
	c.Rule("C21.tcp-reset", "enumeration: RST always set, ACK iff the original had none, seq/ack follow the netfilter rule for all flag and data-offset bytes", 6)
	c.Rule("C21.gated", "K1: rejectInside / rejectOutside build and send a reply only if Outbound / InboundSendReject is set, never send an empty reply, and send the built reply on the tunnel the packet came from", 8)

	disp := c.Func(Ref{"iputil", "", "CreateRejectPacket"})
	disp6 := c.Func(Ref{"iputil", "", "ipv6CreateRejectPacket"})
	maxC := c.ConstVal("iputil", "MaxRejectPacketSize")
	if disp == nil || disp6 == nil || maxC == nil {
		return
	}
	maxSize, _ := constant.Int64Val(maxC)
	c21Callers(c)
	c21Dispatch(c, disp, disp6)
	for _, b := range c21Builders {
		fn := c.Func(b.ref)
		if fn == nil {
			continue
		}
		if len(fn.Params) < 2 || (b.hdrArg >= 0 && len(fn.Params) <= b.hdrArg) {
			c.Unknown("anchor", b.ref.String(), "parameter list changed")
			continue
		}
		c21Builder1(c, b, fn, maxSize)
	}
	c21Gated(c, maxSize)
}

// ---------------------------------------------------------------------------------------

func c21Callers(c *Ctx) {
	funcs := c.moduleFuncs()
	var names []string
	for n := range c21MayCall {
		names = append(names, n)
	}
	sort.Strings(names)
	for _, callee := range names {
		ord := map[string]int{}
		for _, cs := range callersOf(funcs, Ref{"iputil", "", callee}) {
			caller := topFunc(cs.Fn).Name()
			ord[caller]++
			cons := fmt.Sprintf("%s<-%s#%d", callee, caller, ord[caller])
			why, ok := c21MayCall[callee][caller]
			switch {
			case !ok:
				c.Bad("C21.callers", cons, c.instrPos(cs.Instr), fmt.Sprintf("%s is used by %s, outside the dispatch chain: its fragment / version / flag tests are bypassed", callee, fnName(cs.Fn)))
			case cs.Kind != "call":
				c.Bad("C21.callers", cons, c.instrPos(cs.Instr), callee+" escapes as a function value")
			default:
				c.OK("C21.callers", cons, why)
			}
		}
	}
}

// c21IHL: the SSA values of fn equal to (packet[0] & 15) * 4 for every first byte.
func c21IHL(fn *ssa.Function, packet ssa.Value) map[ssa.Value]bool {
	out := map[ssa.Value]bool{}
	b0 := g3IsByteLoad(packet, 0)
	eachInstr(fn, func(in ssa.Instruction) {
		v, ok := in.(ssa.Value)
		if !ok || !g3Mentions(v, b0) {
			return
		}
		if b, isB := v.Type().Underlying().(*types.Basic); !isB || b.Info()&types.IsInteger == 0 {
			return
		}
		for d := int64(0); d < 256; d++ {
			dd := d
			got, ok := g3Eval(v, func(x ssa.Value) (int64, bool) {
				if b0(x) {
					return dd, true
				}
				return 0, false
			})
			if !ok || got != (d&15)*4 {
				return
			}
		}
		out[v] = true
	})
	return out
}

func c21Dispatch(c *Ctx, disp, disp6 *ssa.Function) {
	packet, out := disp.Params[0], disp.Params[1]
	c.g3CheckBounds("C21.bounds", disp, packet, "packet", 0)
	ver := g3ValueSets(disp, g3OneValue(256, g3IsByteLoad(packet, 0)), nil, nil)
	proto := g3ValueSets(disp, g3OneValue(256, g3IsByteLoad(packet, 9)), nil, nil)
	frag := g3ValueSets(disp, g3Domain{N: 65536, Leaf: func(d int, v ssa.Value) (int64, bool) {
		return g3BytesLeaf(packet, nil, func(k int64) (int64, bool) {
			switch k {
			case 6:
				return int64(d >> 8), true
			case 7:
				return int64(d & 255), true
			}
			return 0, false
		})(v)
	}}, nil, nil)
	results := map[ssa.Value]bool{}
	type target struct {
		name   string
		ver    int
		minLen int64
		v4     bool
		tcp    int // 1: only protocol 6; 0: never protocol 6; -1: n/a
	}
	for _, t := range []target{
		{"ipv4CreateRejectTCPPacket", 4, 20, true, 1},
		{"ipv4CreateRejectICMPPacket", 4, 20, true, 0},
		{"ipv6CreateRejectPacket", 6, 40, false, -1},
	} {
		calls := callsIn(disp, Ref{"iputil", "", t.name})
		if len(calls) == 0 {
			c.Unknown("C21.dispatch", "CreateRejectPacket:"+t.name, "no call found")
			continue
		}
		for i, ci := range calls {
			call := ci.(*ssa.Call)
			results[call] = true
			cons := fmt.Sprintf("CreateRejectPacket:%s#%d", t.name, i)
			blk := call.Block()
			if ok, cex := g3All(ver.At(blk, nil), func(b int) bool { return b>>4 == t.ver }); !ok {
				c.Bad("C21.dispatch", cons+":version", c.instrPos(call), fmt.Sprintf("%s is reached for a packet whose first byte is %#02x (IP version %d)", t.name, cex, cex>>4))
			} else {
				c.OK("C21.dispatch", cons+":version", fmt.Sprintf("only IP version %d", t.ver))
			}
			if t.v4 {
				ok, cex := g3All(frag.At(blk, nil), func(d int) bool { return d>>8&0x1f == 0 && d&255 == 0 })
				c.Check(ok, "C21.dispatch", cons+":first-fragment", c.instrPos(call), "only with a zero 13-bit fragment offset",
					fmt.Sprintf("a reply is built for a non-first fragment (flags/offset bytes %#02x %#02x): it carries no transport header to answer", cex>>8, cex&255))
				set := proto.At(blk, nil)
				if t.tcp == 1 {
					ok, cex := g3All(set, func(p int) bool { return p == 6 })
					c.Check(ok && len(set) > 0, "C21.dispatch", cons+":protocol", c.instrPos(call), "only for protocol 6", fmt.Sprintf("a TCP reset is built for protocol %d", cex))
				} else {
					ok, _ := g3All(set, func(p int) bool { return p != 6 })
					c.Check(ok && len(set) > 0, "C21.dispatch", cons+":protocol", c.instrPos(call), "never for protocol 6", "an ICMP error is built for a TCP packet, which is to be answered with a reset")
				}
			}
			same := len(call.Call.Args) == 2 && call.Call.Args[0] == ssa.Value(packet) && call.Call.Args[1] == ssa.Value(out)
			c.Check(same, "C21.dispatch", cons+":args", c.instrPos(call), "original and buffer passed unchanged", t.name+" is not given CreateRejectPacket's own packet and buffer")
			c.g3CheckAccess("C21.bounds", cons+":min-length", disp, packet, "packet", 0, g3Access{Instr: call, Need: g3Lin{K: t.minLen}, What: "call of " + t.name + " (reads the fixed header)"})
		}
	}
	c21OnlyFrom(c, disp, results)

	// ---- IPv6: walker, fragment, protocol
	packet6, out6 := disp6.Params[0], disp6.Params[1]
	wref := Ref{"iputil", "", "IPv6FindUpperProtocol"}
	wcalls := callsIn(disp6, wref)
	if len(wcalls) != 1 || wcalls[0].Common().Args[0] != ssa.Value(packet6) {
		c.Bad("C21.dispatch", "ipv6CreateRejectPacket:walker", c.P.Pos(disp6.Pos()), "the extension-header walker is not called exactly once on the original packet")
		return
	}
	w := wcalls[0].(*ssa.Call)
	extract := func(i int) func(ssa.Value) bool {
		return func(v ssa.Value) bool {
			e, ok := stripValue(v).(*ssa.Extract)
			return ok && e.Tuple == ssa.Value(w) && e.Index == i
		}
	}
	pset := g3ValueSets(disp6, g3OneValue(256, func(v ssa.Value) bool { e, ok := v.(*ssa.Extract); return ok && extract(0)(e) }), nil, nil)
	results6 := map[ssa.Value]bool{}
	for _, t := range []struct {
		name string
		tcp  bool
		args []func(ssa.Value) bool
	}{
		{"ipv6CreateRejectTCPPacket", true, []func(ssa.Value) bool{func(v ssa.Value) bool { return v == ssa.Value(packet6) }, func(v ssa.Value) bool { return v == ssa.Value(out6) }, extract(1)}},
		{"ipv6CreateRejectICMPPacket", false, []func(ssa.Value) bool{func(v ssa.Value) bool { return v == ssa.Value(packet6) }, func(v ssa.Value) bool { return v == ssa.Value(out6) }, extract(0), extract(1)}},
	} {
		calls := callsIn(disp6, Ref{"iputil", "", t.name})
		if len(calls) == 0 {
			c.Unknown("C21.dispatch", "ipv6CreateRejectPacket:"+t.name, "no call found")
			continue
		}
		for i, ci := range calls {
			call := ci.(*ssa.Call)
			results6[call] = true
			cons := fmt.Sprintf("ipv6CreateRejectPacket:%s#%d", t.name, i)
			sink := []Sink{{Instr: call, Desc: t.name}}
			c.requireGuards("C21.dispatch", disp6, sink, fmt.Sprintf("%s#%d", t.name, i),
				gErrNil("walker error is nil", callTo(wref)),
				gValBool("not a non-first fragment", false, extract(2)))
			set := pset.At(call.Block(), nil)
			if t.tcp {
				ok, cex := g3All(set, func(p int) bool { return p == 6 })
				c.Check(ok && len(set) > 0, "C21.dispatch", cons+":protocol", c.instrPos(call), "only for upper-layer protocol 6", fmt.Sprintf("a TCP reset is built for upper-layer protocol %d", cex))
			} else {
				ok, _ := g3All(set, func(p int) bool { return p != 6 })
				c.Check(ok && len(set) > 0, "C21.dispatch", cons+":protocol", c.instrPos(call), "never for protocol 6", "an ICMPv6 error is built for a TCP packet, which is to be answered with a reset")
			}
			same := len(call.Call.Args) == len(t.args)
			for k := range t.args {
				same = same && t.args[k](call.Call.Args[k])
			}
			c.Check(same, "C21.dispatch", cons+":args", c.instrPos(call), "packet, buffer and the walker's protocol/offset passed unchanged", t.name+" is not given the original packet, the buffer and the walker's results")
		}
	}
	c21OnlyFrom(c, disp6, results6)
}

// c21OnlyFrom: every return of fn yields nil or the result of one of the given calls.
func c21OnlyFrom(c *Ctx, fn *ssa.Function, results map[ssa.Value]bool) {
	ok := true
	for _, ret := range g3ReturnsOf(fn) {
		v := retResult(ret, 0)
		if isNilConst(v) || results[v] {
			continue
		}
		ok = false
		c.Bad("C21.dispatch", fnName(fn)+":returns", c.instrPos(ret), "a reply is returned that no builder produced")
	}
	if ok {
		c.OK("C21.dispatch", fnName(fn)+":returns", "every return is nil or a builder's result")
	}
}

// ---------------------------------------------------------------------------------------
// one builder

func c21Builder1(c *Ctx, b c21Builder, fn *ssa.Function, maxSize int64) {
	name := fn.Name()
	packet, out := fn.Params[0], fn.Params[1]
	pre := int64(20) // established by CreateRejectPacket before the call (C21.bounds ...:min-length)
	if b.v6 {
		pre = 40
	}
	var nonneg []ssa.Value // the offset parameter: ipv6CreateRejectPacket passes the walker's offset (C21.dispatch ...:args), never negative
	if b.hdrArg >= 0 {
		nonneg = append(nonneg, fn.Params[b.hdrArg])
	}
	c.g3CheckBounds("C21.bounds", fn, packet, "packet", pre, nonneg...)
	c.g3CheckBounds("C21.bounds", fn, out, "out", 0)

	// the original's transport offset: IHL*4 computed from byte 0 (v4) or the offset parameter (v6)
	isHdr := func(v ssa.Value) bool { return false }
	if b.hdrArg >= 0 {
		p := fn.Params[b.hdrArg]
		isHdr = func(v ssa.Value) bool { return v == ssa.Value(p) }
	} else {
		ihl := c21IHL(fn, packet)
		isHdr = func(v ssa.Value) bool { return ihl[v] }
	}
	atHdr := func(k int64) func(ssa.Value) bool {
		return func(v ssa.Value) bool {
			l, ok := g3ByteLoadOff(v, packet)
			return ok && l.Base != nil && isHdr(l.Base) && l.K == k
		}
	}

	// ---- replies: the non-nil returns; the reply is out[:n]
	var replies []*ssa.Return
	var outLen ssa.Value
	var reply *ssa.Slice
	for _, ret := range g3ReturnsOf(fn) {
		v := retResult(ret, 0)
		if isNilConst(v) {
			continue
		}
		replies = append(replies, ret)
		sl, ok := v.(*ssa.Slice)
		if !ok || sl.X != ssa.Value(out) || sl.High == nil || (sl.Low != nil && !isIntConst(0)(sl.Low)) || (reply != nil && reply != sl) {
			c.Unknown("C21.layout", name+":reply", "the returned reply is not the single re-slice out[:n] of the buffer parameter: unrecognised shape")
			return
		}
		reply, outLen = sl, sl.High
	}
	if reply == nil {
		c.Unknown("C21.layout", name+":reply", "no non-nil return found")
		return
	}

	// ---- never answer an ICMP error
	if !b.tcp {
		c21NoICMPError(c, b, fn, replies, atHdr(0), isHdr)
	}

	// ---- size bound
	if ub, ok := g3UpperBound(outLen, 0); !ok {
		c.Unknown("C21.max-size", name+":length", "no constant upper bound derivable for the reply length "+exprString(outLen))
	} else {
		c.Check(ub <= maxSize, "C21.max-size", name+":length", c.instrPos(reply), fmt.Sprintf("reply length <= %d <= MaxRejectPacketSize %d", ub, maxSize),
			fmt.Sprintf("the reply can be %d bytes long, more than the documented maximum MaxRejectPacketSize = %d", ub, maxSize))
	}

	// ---- write table of the reply
	writes, unknown := g3Writes(fn, out)
	for i, in := range unknown {
		c.Unknown("C21.layout", fmt.Sprintf("%s:write-at-variable-offset#%d", name, i), "a write into the reply at "+c.instrPos(in)+" has no constant offset")
	}
	H := b.H
	fixed := H + 8
	if b.tcp {
		fixed = H + 20
	}
	byteAt := func(off int64) (vals []ssa.Value, w []g3Write) {
		for _, x := range writes {
			if x.Kind == "byte" && x.Lo == off {
				vals = append(vals, x.Val)
				w = append(w, x)
			}
		}
		return
	}
	constByte := func(off, want int64, what string) {
		vals, ws := byteAt(off)
		cons := fmt.Sprintf("%s:byte%d", name, off)
		if len(vals) == 0 {
			c.Bad("C21.layout", cons, c.P.Pos(fn.Pos()), fmt.Sprintf("reply byte %d (%s) is never set as a single byte", off, what))
			return
		}
		for i, v := range vals {
			k, ok := constInt(v)
			if !ok {
				c.Unknown("C21.layout", cons, "not a constant")
				return
			}
			// want >= 0: exactly that value; -1: any non-zero value; -2: MF and offset bits clear (DF may be set)
			if (want >= 0 && k != want) || (want == -1 && k == 0) || (want == -2 && k&0x3f != 0) {
				c.Bad("C21.layout", cons, c.instrPos(ws[i].Instr), fmt.Sprintf("reply byte %d is %d; %s", off, k, what))
				return
			}
		}
		c.OK("C21.layout", cons, what)
	}
	putAt := func(off int64, width int64) *g3Write {
		for i, x := range writes {
			if x.Kind == "put" && x.Lo == off && x.Hi == off+width {
				return &writes[i]
			}
		}
		return nil
	}
	nextHdr := int64(1)
	switch {
	case b.tcp:
		nextHdr = 6
	case b.v6:
		nextHdr = 58
	}
	lenOK := func(w *g3Write, minus int64) bool {
		if w == nil || w.Endian != "BE" {
			return false
		}
		want, got := g3LinOf(stripValue(outLen)), g3LinOf(stripValue(w.Val))
		if cv, ok := stripValue(w.Val).(*ssa.BinOp); ok && cv.Op == token.SUB {
			got = g3LinOf(cv)
		}
		return got.Base == want.Base && got.K == want.K-minus
	}
	if !b.v6 {
		constByte(0, 0x45, "version 4 with IHL 5, the 20-byte header the builder writes")
		constByte(6, -2, "MF clear and fragment offset 0: the reply is not a fragment")
		constByte(7, 0, "fragment offset 0")
		constByte(8, -1, "TTL must be non-zero")
		constByte(9, nextHdr, fmt.Sprintf("protocol %d", nextHdr))
		c.Check(lenOK(putAt(2, 2), 0), "C21.layout", name+":total-length", c.instrPos(reply), "total length = reply length, big-endian at 2:4", "the IPv4 total length field (bytes 2:4, big-endian) is not the length the reply is cut to")
	} else {
		constByte(0, 0x60, "version 6")
		constByte(6, nextHdr, fmt.Sprintf("next header %d", nextHdr))
		constByte(7, -1, "hop limit must be non-zero")
		c.Check(lenOK(putAt(4, 2), 40), "C21.layout", name+":payload-length", c.instrPos(reply), "payload length = reply length - 40, big-endian at 4:6", "the IPv6 payload length field (bytes 4:6, big-endian) is not the reply length minus the 40-byte header")
	}
	if b.tcp {
		constByte(H+12, 0x50, "data offset 5: the 20-byte TCP header the builder writes")
	} else if b.v6 {
		constByte(H, 1, "ICMPv6 type 1 destination unreachable")
		constByte(H+1, 1, "code 1 communication administratively prohibited")
	} else {
		constByte(H, 3, "ICMP type 3 destination unreachable")
		constByte(H+1, 13, "code 13 communication administratively prohibited")
	}
	if !b.tcp {
		for k := H + 4; k < H+8; k++ {
			constByte(k, 0, "unused field of destination unreachable must be zero (RFC 4884: a non-zero length byte announces an extension structure)")
		}
	}
	// coverage: the buffer is reused, so every header byte must be written
	cover := make([]bool, fixed)
	for _, w := range writes {
		hi := w.Hi
		if hi < 0 || hi > fixed {
			hi = fixed
		}
		for k := w.Lo; k >= 0 && k < hi; k++ {
			cover[k] = true
		}
	}
	var holes []string
	for k, ok := range cover {
		if !ok {
			holes = append(holes, fmt.Sprint(k))
		}
	}
	c.Check(len(holes) == 0, "C21.layout", name+":coverage", c.P.Pos(fn.Pos()), fmt.Sprintf("all %d header bytes are written", fixed),
		"reply header bytes "+strings.Join(holes, ",")+" are never written: the reused buffer's previous contents leak into the reply")

	// ---- crossed copies
	src, dst := [2]int64{12, 16}, [2]int64{16, 20}
	if b.v6 {
		src, dst = [2]int64{8, 24}, [2]int64{24, 40}
	}
	copyFrom := func(lo, hi int64) (g3BufRef, bool, *g3Write) {
		for i, w := range writes {
			if w.Kind == "copy" && w.Lo == lo && w.Hi == hi {
				ref, ok := g3ResolveBuf(w.Val, packet)
				return ref, ok, &writes[i]
			}
		}
		return g3BufRef{}, false, nil
	}
	crossed := func(cons string, to, from [2]int64, rel bool, what string) {
		ref, ok, w := copyFrom(to[0], to[1])
		switch {
		case w == nil:
			c.Bad("C21.swap", cons, c.P.Pos(fn.Pos()), fmt.Sprintf("no copy into reply bytes %d:%d (%s)", to[0], to[1], what))
		case !ok:
			c.Bad("C21.swap", cons, c.instrPos(w.Instr), fmt.Sprintf("reply bytes %d:%d (%s) are not copied from the original packet", to[0], to[1], what))
		case rel && (ref.Off.Base == nil || !isHdr(ref.Off.Base) || ref.Off.K != from[0] || ref.Width != from[1]-from[0]):
			c.Bad("C21.swap", cons, c.instrPos(w.Instr), fmt.Sprintf("%s is copied from transport bytes %s (+%d), not from the original's bytes %d:%d", what, ref.Off, ref.Width, from[0], from[1]))
		case !rel && (ref.Off.Base != nil || ref.Off.K != from[0] || ref.Width != from[1]-from[0]):
			c.Bad("C21.swap", cons, c.instrPos(w.Instr), fmt.Sprintf("%s is copied from original bytes %s (+%d), not %d:%d: the reply would not go back to the sender", what, ref.Off, ref.Width, from[0], from[1]))
		default:
			c.OK("C21.swap", cons, fmt.Sprintf("%s <- original %d:%d", what, from[0], from[1]))
		}
	}
	crossed(name+":source-address", src, dst, false, "the reply's source address")
	crossed(name+":destination-address", dst, src, false, "the reply's destination address")
	if b.tcp {
		crossed(name+":source-port", [2]int64{H, H + 2}, [2]int64{2, 4}, true, "the reply's source port")
		crossed(name+":destination-port", [2]int64{H + 2, H + 4}, [2]int64{0, 2}, true, "the reply's destination port")
	} else {
		ref, ok, w := copyFrom(H+8, -1)
		c.Check(w != nil && ok && ref.Off.Base == nil && ref.Off.K == 0, "C21.swap", name+":body", c.P.Pos(fn.Pos()), "the ICMP body is the original packet from its first byte", "the ICMP error body (reply bytes from "+fmt.Sprint(H+8)+") is not a copy of the original packet starting at its IP header")
	}

	// ---- checksums
	type sum struct {
		what     string
		lo, hi   int64 // summed region (hi < 0: to the end)
		field    int64
		pseudo   string // "", or the pseudo-header function
		protoLen bool
	}
	var sums []sum
	if !b.v6 {
		sums = append(sums, sum{"IPv4 header checksum", 0, 20, 10, "", false})
	}
	switch {
	case b.tcp && b.v6:
		sums = append(sums, sum{"TCP checksum", H, -1, H + 16, "ipv6PseudoheaderChecksum", true})
	case b.tcp:
		sums = append(sums, sum{"TCP checksum", H, -1, H + 16, "ipv4PseudoheaderChecksum", true})
	case b.v6:
		sums = append(sums, sum{"ICMPv6 checksum", H, -1, H + 2, "ipv6PseudoheaderChecksum", true})
	default:
		sums = append(sums, sum{"ICMP checksum", H, -1, H + 2, "", false})
	}
	for _, s := range sums {
		cons := name + ":" + s.what
		put := putAt(s.field, 2)
		var call *ssa.Call
		if put != nil {
			call, _ = stripValue(put.Val).(*ssa.Call)
		}
		if put == nil || put.Endian != "BE" || call == nil || !matchFunc(calleeObj(call), Ref{"iputil", "", "tcpipChecksum"}) {
			c.Bad("C21.checksum", cons, c.P.Pos(fn.Pos()), fmt.Sprintf("the %s (reply bytes %d:%d) is not stored big-endian from tcpipChecksum", s.what, s.field, s.field+2))
			continue
		}
		region, ok := g3ResolveBuf(call.Call.Args[0], out)
		end := int64(-1)
		if ok && !region.Open && region.Width >= 0 {
			end = region.Off.K + region.Width
		}
		if b.tcp && end == fixed {
			end = -1 // the TCP region ends with the reply
		}
		if !ok || region.Off.Base != nil || region.Off.K != s.lo || end != s.hi {
			c.Bad("C21.checksum", cons, c.instrPos(call), fmt.Sprintf("the %s is computed over reply bytes %s.., not %d:%d", s.what, region.Off, s.lo, s.hi))
			continue
		}
		first := ssa.Instruction(call)
		problem := ""
		// initial value: zero, or the pseudo-header sum with the reply's protocol and length
		if s.pseudo == "" {
			if k, isK := constInt(call.Call.Args[1]); !isK || k != 0 {
				problem = "the sum does not start from zero"
			}
		} else {
			pc, _ := stripValue(call.Call.Args[1]).(*ssa.Call)
			if pc == nil || !matchFunc(calleeObj(pc), Ref{"iputil", "", s.pseudo}) {
				problem = "the sum does not start from " + s.pseudo
			} else {
				first = pc
				if k, isK := constInt(pc.Call.Args[2]); !isK || k != nextHdr {
					problem = fmt.Sprintf("the pseudo-header carries protocol %s, the reply header says %d", exprString(pc.Call.Args[2]), nextHdr)
				}
				want, got := g3LinOf(stripValue(outLen)), g3LinOf(stripValue(pc.Call.Args[3]))
				if sv, isSub := stripValue(stripValue(pc.Call.Args[3])).(*ssa.BinOp); isSub {
					got = g3LinOf(sv)
				}
				if cv, isC := stripValue(pc.Call.Args[3]).(*ssa.Convert); isC {
					got = g3LinOf(stripValue(stripValue(cv.X)))
					if sv, isSub := stripValue(cv.X).(*ssa.BinOp); isSub {
						got = g3LinOf(sv)
					}
				}
				if got.Base != want.Base || got.K != want.K-H {
					problem = fmt.Sprintf("the pseudo-header length is %s, the reply's upper-layer length is %s-%d", got, want, H)
				}
				for k, rng := range [][2]int64{src, dst} {
					ar, ok := g3ResolveBuf(pc.Call.Args[k], out)
					if !ok || ar.Off.Base != nil || (([2]int64{ar.Off.K, ar.Off.K + ar.Width}) != src && ([2]int64{ar.Off.K, ar.Off.K + ar.Width}) != dst) {
						problem = fmt.Sprintf("pseudo-header address %d is not taken from the reply's address fields %v/%v", k, rng, dst)
					}
				}
			}
		}
		for _, w := range writes {
			if problem != "" {
				break
			}
			inField := w.Lo < s.field+2 && (w.Hi < 0 || w.Hi > s.field)
			inRegion := (s.hi < 0 || w.Lo < s.hi) && (w.Hi < 0 || w.Hi > s.lo)
			if s.pseudo != "" && w.Lo < dst[1] && (w.Hi < 0 || w.Hi > src[0]) {
				inRegion = true // the pseudo-header reads the reply's addresses
			}
			switch {
			case w.Instr == put.Instr:
			case inField && (w.Kind != "byte" || !isIntConst(0)(w.Val)):
				problem = fmt.Sprintf("the checksum field is written with something other than zero before the sum (%s)", c.instrPos(w.Instr))
			case inRegion && g3After(first, w.Instr):
				problem = fmt.Sprintf("reply bytes %d.. are written at %s after the sum was taken: the stored checksum does not cover them", w.Lo, c.instrPos(w.Instr))
			}
		}
		for k := s.field; k < s.field+2 && problem == ""; k++ {
			kk := k
			if av, _ := c.avoidsCut(fn, nil, first, func(in ssa.Instruction) bool {
				for _, w := range writes {
					if w.Instr == in && w.Kind == "byte" && w.Lo == kk && isIntConst(0)(w.Val) {
						return true
					}
				}
				return false
			}); av {
				problem = fmt.Sprintf("checksum byte %d is not zeroed before the sum: the reused buffer's old value is summed in", k)
			}
		}
		c.Check(problem == "", "C21.checksum", cons, c.instrPos(call), fmt.Sprintf("zeroed, summed over %d:%d last, stored at %d", s.lo, s.hi, s.field), "the "+s.what+" would be wrong: "+problem)
	}

	// ---- TCP reset semantics
	if b.tcp {
		c21TCPReset(c, b, fn, packet, isHdr, writes)
	}
}

func c21NoICMPError(c *Ctx, b c21Builder, fn *ssa.Function, replies []*ssa.Return, isType func(ssa.Value) bool, isHdr func(ssa.Value) bool) {
	packet := fn.Params[0]
	icmp, isErr := int64(1), c21ICMPv4IsError
	isProto := g3IsByteLoad(packet, 9)
	if b.v6 {
		icmp, isErr = 58, c21ICMPv6IsError
		p := fn.Params[2]
		isProto = func(v ssa.Value) bool { return v == ssa.Value(p) }
	}
	// consider only executions in which the type byte exists: cut the failing side of the length
	// tests that cover it
	pruned := map[Edge]bool{}
	for _, g := range g3LenGuards(fn, packet) {
		l := g3LinOf(g.Bound)
		if l.Base != nil && isHdr(l.Base) && l.K+g.Plus >= 1 {
			pruned[Edge{g.If.Block(), 1 - g.Pass}] = true
		}
	}
	dom := g3Domain{N: 65536, Leaf: func(d int, v ssa.Value) (int64, bool) {
		switch {
		case isProto(v):
			return int64(d >> 8), true
		case isType(v):
			return int64(d & 255), true
		}
		return 0, false
	}}
	sets := g3ValueSets(fn, dom, nil, pruned)
	for i, ret := range replies {
		cons := fmt.Sprintf("%s:reply#%d", fn.Name(), i)
		set := sets.At(ret.Block(), nil)
		ok, cex := g3All(set, func(d int) bool { return int64(d>>8) != icmp || !isErr(d&255) })
		switch {
		case len(set) == 0:
			c.Unknown("C21.no-icmp-error", cons, "reply not reachable")
		case !ok && len(sets.Open) > 0:
			c.Unknown("C21.no-icmp-error", cons, "a test on the protocol / ICMP type could not be evaluated")
		default:
			c.Check(ok, "C21.no-icmp-error", cons, c.instrPos(ret), "no reply when the original is an ICMP error message",
				fmt.Sprintf("an ICMP error is generated in reply to an ICMP error message (protocol %d, type %d): two such hosts can bounce errors forever (RFC 1122 3.2.2 / RFC 4443 2.4(e))", cex>>8, cex&255))
		}
	}
}

// c21TCPReset: flags, seq and ack of the reset as functions of the original's flag byte (13),
// data-offset byte (12), sequence (4:8) and acknowledgement (8:12) numbers and segment length.
func c21TCPReset(c *Ctx, b c21Builder, fn *ssa.Function, packet ssa.Value, isHdr func(ssa.Value) bool, writes []g3Write) {
	name := fn.Name()
	H := b.H
	var flagsV, seqV, ackV ssa.Value
	for _, w := range writes {
		switch {
		case w.Kind == "byte" && w.Lo == H+13:
			flagsV = w.Val
		case w.Kind == "put" && w.Lo == H+4 && w.Hi == H+8 && w.Endian == "BE":
			seqV = w.Val
		case w.Kind == "put" && w.Lo == H+8 && w.Hi == H+12 && w.Endian == "BE":
			ackV = w.Val
		}
	}
	if flagsV == nil || seqV == nil || ackV == nil {
		c.Bad("C21.tcp-reset", name+":fields", c.P.Pos(fn.Pos()), "the reset's flag byte (13) or its big-endian sequence (4:8) / acknowledgement (8:12) numbers are not written")
		return
	}
	// symbolic inputs S (seq), A (ack), L (segment length incl. header): the outputs must be affine
	// in them; they are then determined by their values at the basis points
	type in struct{ b, d, S, A, L int64 }
	leaf := func(x in) g3Leaf {
		return func(v ssa.Value) (int64, bool) {
			if l, ok := g3ByteLoadOff(v, packet); ok && l.Base != nil && isHdr(l.Base) {
				switch l.K {
				case 13:
					return x.b, true
				case 12:
					return x.d, true
				}
				return 0, false
			}
			call, ok := v.(*ssa.Call)
			if !ok {
				return 0, false
			}
			if builtinName(call) == "len" {
				if ref, ok := g3ResolveBuf(call.Call.Args[0], packet); ok && ref.Open && ref.Off.Base != nil && isHdr(ref.Off.Base) && ref.Off.K == 0 {
					return x.L, true
				}
				return 0, false
			}
			if e, w, put, buf, ok := g3BinaryCall(call); ok && !put && w == 4 && e == "BE" {
				if ref, ok := g3ResolveBuf(buf, packet); ok && ref.Off.Base != nil && isHdr(ref.Off.Base) {
					switch ref.Off.K {
					case 4:
						return x.S, true
					case 8:
						return x.A, true
					}
				}
			}
			return 0, false
		}
	}
	symbolic := func(v ssa.Value) bool { _, ok := leaf(in{})(v); _, isLoad := v.(*ssa.UnOp); return ok && !isLoad }
	for _, o := range []struct {
		n string
		v ssa.Value
	}{{"seq", seqV}, {"ack", ackV}} {
		c.Check(c21Affine(o.v, symbolic, 0), "C21.tcp-reset", name+":"+o.n+":affine", c.P.Pos(fn.Pos()), "built from the original's numbers by addition and subtraction only",
			"the reset's "+o.n+" number applies something other than 32-bit addition/subtraction to the original's sequence numbers or length: unrecognised arithmetic")
	}
	const M = int64(1) << 32
	mod := func(x int64) int64 { return ((x % M) + M) % M }
	bad := map[string]string{}
	for bb := int64(0); bb < 256; bb++ {
		for d := int64(0); d < 256; d++ {
			for _, pt := range [][3]int64{{0, 0, 0}, {1, 0, 0}, {0, 1, 0}, {0, 0, 1}, {7, 11, 13}} {
				x := in{bb, d, pt[0], pt[1], pt[2]}
				wantFlags, wantSeq, wantAck := int64(0x04), x.A, int64(0)
				if bb&0x10 == 0 { // no ACK in the original: ACK what it occupied (nf_reject_ipv4.c)
					wantFlags, wantSeq = 0x14, 0
					wantAck = mod(x.S + (bb >> 1 & 1) + (bb & 1) + x.L - (d>>4)*4)
				}
				for _, o := range []struct {
					n    string
					v    ssa.Value
					want int64
				}{{"flags", flagsV, wantFlags}, {"seq", seqV, wantSeq}, {"ack", ackV, wantAck}} {
					if bad[o.n] != "" {
						continue
					}
					got, ok := g3Eval(o.v, leaf(x))
					if !ok {
						bad[o.n] = "?"
					} else if mod(got) != o.want {
						bad[o.n] = fmt.Sprintf("for an original with flag byte %#02x, data-offset byte %#02x, seq %d, ack %d, segment length %d the reset's %s is %d; the netfilter rule gives %d", bb, d, x.S, x.A, x.L, o.n, mod(got), o.want)
					}
				}
			}
		}
	}
	for _, n := range []string{"flags", "seq", "ack"} {
		switch bad[n] {
		case "":
			c.OK("C21.tcp-reset", name+":"+n, "equals the netfilter rule for all 65536 (flags, data offset) bytes at the basis points of seq/ack/length")
		case "?":
			c.Unknown("C21.tcp-reset", name+":"+n, "expression not evaluable from the original's TCP header")
		default:
			c.Bad("C21.tcp-reset", name+":"+n, c.P.Pos(fn.Pos()), bad[n])
		}
	}
}

// c21Contains: v is computed (through arithmetic, conversions, merges, call arguments) from a
// symbolic leaf.
func c21Contains(v ssa.Value, symbolic func(ssa.Value) bool, seen map[ssa.Value]bool) bool {
	if v == nil || seen[v] {
		return false
	}
	seen[v] = true
	if symbolic(v) {
		return true
	}
	var ops []*ssa.Value
	switch x := v.(type) {
	case *ssa.BinOp, *ssa.Convert, *ssa.ChangeType, *ssa.Phi, *ssa.Call:
		ops = x.(ssa.Instruction).Operands(ops)
	case *ssa.UnOp:
		if x.Op != token.MUL {
			ops = x.Operands(ops)
		}
	}
	for _, o := range ops {
		if o != nil && c21Contains(*o, symbolic, seen) {
			return true
		}
	}
	return false
}

// c21Affine: on every path from a symbolic leaf to v only 32-bit +/-, conversions to 32 bits or
// wider and merges are applied, so v is affine in the symbolic leaves modulo 2^32.
func c21Affine(v ssa.Value, symbolic func(ssa.Value) bool, d int) bool {
	if symbolic(v) || !c21Contains(v, symbolic, map[ssa.Value]bool{}) {
		return true
	}
	if d > 24 {
		return false
	}
	switch x := v.(type) {
	case *ssa.BinOp:
		if w, _ := intWidth(x.Type()); w != 32 || (x.Op != token.ADD && x.Op != token.SUB) {
			return false
		}
		return c21Affine(x.X, symbolic, d+1) && c21Affine(x.Y, symbolic, d+1)
	case *ssa.Convert:
		w, _ := intWidth(x.Type())
		return w >= 32 && c21Affine(x.X, symbolic, d+1)
	case *ssa.Phi:
		for _, e := range x.Edges {
			if e != v && !c21Affine(e, symbolic, d+1) {
				return false
			}
		}
		return true
	}
	return false
}

// ---------------------------------------------------------------------------------------
// rejectInside / rejectOutside

func c21Gated(c *Ctx, maxSize int64) {
	if c.P.SSAPkgs[nebulaMod] == nil {
		c.Unknown("anchor", "nebula", "root package not loaded")
		return
	}
	build := Ref{"iputil", "", "CreateRejectPacket"}
	for _, g := range []struct {
		fn, flag string
		send     CallSpec
		payload  int // index of the payload among callArgs of the send
		why      string
	}{
		{"rejectInside", "OutboundSendReject", callTo(Ref{"overlay/tio", "Queue", "Write"}), 1, "outbound packets are rejected towards the local tun device"},
		{"rejectOutside", "InboundSendReject", callTo(Ref{"", "Interface", "sendNoMetrics"}), 6, "inbound packets are rejected back through the tunnel"},
	} {
		fn := c.Func(Ref{"", "Interface", g.fn})
		flag := c.Field("", "Firewall", g.flag)
		if fn == nil || flag == nil {
			continue
		}
		builds := callSinks(fn, "CreateRejectPacket", callTo(build))
		sends := callSinks(fn, "send", g.send)
		if len(builds) != 1 || len(sends) == 0 {
			c.Unknown("C21.gated", g.fn+":shape", fmt.Sprintf("%d CreateRejectPacket calls and %d sends found (expected 1 and >= 1)", len(builds), len(sends)))
			continue
		}
		enabled := gValBool("firewall."+g.flag+" is set", true, isFieldLoad(flag))
		c.requireGuards("C21.gated", fn, builds, "build", enabled)
		c.requireGuards("C21.gated", fn, sends, "send", enabled)
		bcall := builds[0].Instr.(*ssa.Call)
		c.Check(bcall.Call.Args[0] == ssa.Value(fn.Params[1]), "C21.gated", g.fn+":original", c.instrPos(bcall), "the reply is built from the rejected packet", "CreateRejectPacket is not given the packet that was rejected")
		for i, s := range sends {
			cons := fmt.Sprintf("%s:send#%d", g.fn, i)
			args := callArgs(s.Instr.(ssa.CallInstruction))
			c.Check(g.payload < len(args) && args[g.payload] == ssa.Value(bcall), "C21.gated", cons+":payload", c.instrPos(s.Instr), "sends exactly the built reply", "what is sent is not the reply CreateRejectPacket returned")
			c.g3CheckAccess("C21.gated", cons+":non-empty", fn, bcall, "reply", 0, g3Access{Instr: s.Instr, Need: g3Lin{K: 1}, What: "send (a nil reply means: no reply)"})
			if g.fn == "rejectOutside" {
				same := len(args) > 4 && args[3] == ssa.Value(fn.Params[2]) && args[4] == ssa.Value(fn.Params[3])
				c.Check(same, "C21.gated", cons+":tunnel", c.instrPos(s.Instr), "sent on the connection state / host the packet came from", "the reply is not sent on the tunnel (ConnectionState, HostInfo) rejectOutside was given")
				within := gCmp("len(reply) <= MaxRejectPacketSize", isLenOf(func(v ssa.Value) bool { return v == ssa.Value(bcall) }), isIntConst(maxSize), func(op token.Token) (bool, bool) {
					switch op {
					case token.GTR:
						return true, false
					case token.LEQ:
						return true, true
					}
					return false, false
				})
				c.requireGuards("C21.max-size", fn, []Sink{s}, fmt.Sprintf("send#%d", i), within)
			}
		}
	}
}
