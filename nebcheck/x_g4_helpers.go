package main

import (
	"fmt"
	"go/constant"
	"go/token"
	"go/types"
	"sort"
	"strings"

	"golang.org/x/tools/go/ssa"
)

// Helpers for the configuration-parser properties (C22, C41): flag-aware guard reachability, guards
// seen through one level of helper function, K12 (no panic on configuration values), parse-error
// discipline, leaf-wise value provenance and range guards, configuration-key tables.

// ---------------------------------------------------------------------------------------
// Reachability that understands materialised boolean flags: an `If` whose condition is a phi of
// boolean constants defined in the If's own block (`found := false; for .. { found = true; break };
// if !found`) only takes the branch selected by the edge the block was entered through.

type g4Reached struct {
	blocks map[*ssa.BasicBlock]*ssa.BasicBlock // reached block -> predecessor on a witness path
	edges  map[Edge]bool                       // edges traversed
}

func g4FlagUnder(cond ssa.Value, b *ssa.BasicBlock, pred int) (val, known bool) {
	neg := false
	for {
		u, ok := cond.(*ssa.UnOp)
		if !ok || u.Op != token.NOT {
			break
		}
		neg, cond = !neg, u.X
	}
	phi, ok := cond.(*ssa.Phi)
	if !ok || phi.Block() != b || pred < 0 || pred >= len(phi.Edges) {
		return false, false
	}
	bv, ok := boolConst(phi.Edges[pred])
	if !ok {
		return false, false
	}
	return bv != neg, true
}

func g4Reach(start *ssa.BasicBlock, blocked map[Edge]bool) g4Reached {
	type state struct {
		b    *ssa.BasicBlock
		pred int
	}
	r := g4Reached{blocks: map[*ssa.BasicBlock]*ssa.BasicBlock{start: nil}, edges: map[Edge]bool{}}
	seen := map[state]bool{{start, -1}: true}
	work := []state{{start, -1}}
	for len(work) > 0 {
		st := work[0]
		work = work[1:]
		only := -1
		if n := len(st.b.Instrs); n > 0 {
			if ifi, ok := st.b.Instrs[n-1].(*ssa.If); ok {
				if v, known := g4FlagUnder(ifi.Cond, st.b, st.pred); known {
					only = 1
					if v {
						only = 0
					}
				}
			}
		}
		for i, s := range st.b.Succs {
			if blocked[Edge{st.b, i}] || (only >= 0 && i != only) {
				continue
			}
			r.edges[Edge{st.b, i}] = true
			if _, ok := r.blocks[s]; !ok {
				r.blocks[s] = st.b
			}
			for j, p := range s.Preds {
				if p == st.b && !seen[state{s, j}] {
					seen[state{s, j}] = true
					work = append(work, state{s, j})
				}
			}
		}
	}
	return r
}

// g4MustPass: every path start->sink crosses a pass edge of g (start nil = function entry).
func (c *Ctx) g4MustPass(fn *ssa.Function, start *ssa.BasicBlock, s Sink, g Guard) (bool, int, []string) {
	edges, n := passEdges(fn, g)
	if start == nil {
		start = fn.Blocks[0]
	}
	r := g4Reach(start, edges)
	sb := s.Instr.Block()
	if s.ViaPred != nil {
		for i, su := range s.ViaPred.Succs {
			if su == sb && r.edges[Edge{s.ViaPred, i}] {
				return false, n, append(c.blockPath(r.blocks, s.ViaPred), fmt.Sprintf("b%d", sb.Index))
			}
		}
		return true, n, nil
	}
	if _, ok := r.blocks[sb]; ok {
		return false, n, c.blockPath(r.blocks, sb)
	}
	return true, n, nil
}

// g4Require emits one obligation: sink s is reached only after g passed.
func (c *Ctx) g4Require(rule, construct string, fn *ssa.Function, s Sink, g Guard, why string) bool {
	ok, n, path := c.g4MustPass(fn, nil, s, g)
	if ok {
		c.OK(rule, construct, fmt.Sprintf("every path passes %q (%d test(s))", g.Name, n))
		return true
	}
	c.Bad(rule, construct, c.instrPos(s.Instr), fmt.Sprintf("%s is reachable without the test %q (%d matching test(s) in %s): %s", s.Desc, g.Name, n, fnName(fn), why), path...)
	return false
}

func g4InModule(f *ssa.Function) bool {
	return f != nil && f.Blocks != nil && strings.HasPrefix(pkgPathOf(f), nebulaMod)
}

// g4Summ lifts a context-free guard g (one that matches by field / callee, not by SSA identity)
// through one level of helper: an `If` on the bool / error result of a module function H counts as
// g when every return of H with the passing outcome crossed g inside H.
func (c *Ctx) g4Summ(g Guard) Guard {
	return c.g4SummV(nil, func(ssa.Value) Guard { return g })
}

// g4SummV: same for a guard about one SSA value v: inside the helper the guard is rebuilt on the
// parameter that receives v.
func (c *Ctx) g4SummV(v ssa.Value, mk func(ssa.Value) Guard) Guard {
	direct := mk(v)
	return Guard{Name: direct.Name, Match: func(cd Cond, ifi *ssa.If) (bool, bool) {
		if is, p := direct.Match(cd, ifi); is {
			return is, p
		}
		call, idx := callOf(cd.Base)
		if call == nil {
			return false, false
		}
		h := call.Call.StaticCallee()
		if !g4InModule(h) {
			return false, false
		}
		inner := direct
		if v != nil {
			inner = Guard{}
			for j, a := range call.Call.Args {
				if stripValue(a) == stripValue(v) && j < len(h.Params) {
					inner = mk(h.Params[j])
				}
			}
			if inner.Match == nil {
				return false, false
			}
		}
		if idx < 0 {
			idx = 0
		}
		// a helper written `return a || b`: the returned expression itself is the test
		retExprIs := func(s Sink, want bool) bool {
			ret, ok := s.Instr.(*ssa.Return)
			if !ok || idx >= len(ret.Results) {
				return false
			}
			e := retResult(ret, idx)
			if phi, isPhi := e.(*ssa.Phi); isPhi && phi.Block() == ret.Block() && s.ViaPred != nil {
				for k, p := range phi.Block().Preds {
					if p == s.ViaPred {
						e = phi.Edges[k]
					}
				}
			}
			if _, isC := e.(*ssa.Const); isC {
				return false
			}
			is, passTrue := inner.Match(normCond(e), nil)
			return is && passTrue == want
		}
		all := func(sinks []Sink, want bool) bool {
			for _, s := range sinks {
				if cd.Kind == CondBool && retExprIs(s, want) {
					continue
				}
				if ok, n, _ := c.g4MustPass(h, nil, s, inner); !ok || n == 0 {
					return false
				}
			}
			return len(sinks) > 0
		}
		switch cd.Kind {
		case CondNotNil:
			if isErrorType(cd.Base.Type()) && all(successReturns(h, idx), true) {
				return true, cd.Neg // pass when the helper's error is nil
			}
		case CondBool:
			for _, want := range []bool{true, false} {
				if all(boolReturns(h, idx, want), want) {
					return true, want != cd.Neg
				}
			}
		}
		return false, false
	}}
}

// ---------------------------------------------------------------------------------------
// value predicates / guards

func g4Same(v ssa.Value) func(ssa.Value) bool {
	return func(x ssa.Value) bool { return sameVar(x, v) }
}

func g4IsStrConst(s string) func(ssa.Value) bool {
	return func(v ssa.Value) bool { k, ok := constString(v); return ok && k == s }
}

// g4StrFieldIs: field f (a load of it from any base: the parsers handle one entry at a time) compared with a string constant.
func g4StrFieldIs(name string, f *types.Var, val string, want bool) Guard {
	pass := mustEqual
	if !want {
		pass = mustDiffer
	}
	return gCmp(name, isFieldLoad(f), g4IsStrConst(val), pass)
}

// g4LenOf: len(x), or (reflect.Value).Len(x).
func g4LenOf(inner func(ssa.Value) bool) func(ssa.Value) bool {
	return func(v ssa.Value) bool {
		call, ok := stripValue(v).(*ssa.Call)
		if !ok {
			return false
		}
		if builtinName(call) == "len" {
			return inner(call.Call.Args[0])
		}
		if matchFunc(calleeObj(call), Ref{"reflect", "Value", "Len"}) {
			return inner(call.Call.Args[0])
		}
		return false
	}
}

// g4CmpConst normalises a comparison `v op k` (k an integer constant) for the operand matched by pv.
func g4CmpConst(cd Cond, pv func(ssa.Value) bool) (op token.Token, k int64, ok bool) {
	if cd.Kind != CondCmp {
		return 0, 0, false
	}
	bo := cd.Base.(*ssa.BinOp)
	op = bo.Op
	if kk, isK := constInt(bo.Y); isK && pv(bo.X) {
		k = kk
	} else if kk, isK := constInt(bo.X); isK && pv(bo.Y) {
		k, op = kk, swapOp(op)
	} else {
		return 0, 0, false
	}
	if cd.Neg {
		op = negOp(op)
	}
	return op, k, true
}

// g4Implies: does `v op m` imply v >= k (lower) / v <= k (upper)? nonneg: v is a length.
func g4Implies(op token.Token, m, k int64, lower, nonneg bool) bool {
	if lower {
		switch op {
		case token.GEQ, token.EQL:
			return m >= k
		case token.GTR:
			return m >= k-1
		case token.NEQ:
			return nonneg && m == 0 && k <= 1 // len != 0
		}
		return false
	}
	switch op {
	case token.LEQ, token.EQL:
		return m <= k
	case token.LSS:
		return m <= k+1
	}
	return false
}

// g4Bound: a comparison of the matched value with a constant whose passing outcome implies
// v >= k (lower) or v <= k (upper). A weaker constant or operator is not this guard.
func g4Bound(name string, pv func(ssa.Value) bool, lower bool, k int64) Guard {
	return g4BoundN(name, pv, lower, k, false)
}

func g4BoundN(name string, pv func(ssa.Value) bool, lower bool, k int64, nonneg bool) Guard {
	return Guard{Name: name, Match: func(cd Cond, _ *ssa.If) (bool, bool) {
		op, m, ok := g4CmpConst(cd, pv)
		if !ok {
			return false, false
		}
		if g4Implies(op, m, k, lower, nonneg) {
			return true, true
		}
		if g4Implies(negOp(op), m, k, lower, nonneg) {
			return true, false
		}
		return false, false
	}}
}

// g4ErrNilOf: the error result of this particular call (directly or merged through phis with other
// errors) tested nil.
func g4ErrNilOf(call *ssa.Call) Guard {
	var carries func(v ssa.Value, d int) bool
	carries = func(v ssa.Value, d int) bool {
		v = stripValue(v)
		if cl, _ := callOf(v); cl == call && isErrorType(v.Type()) {
			return true
		}
		if phi, ok := v.(*ssa.Phi); ok && d < 6 {
			for _, e := range phi.Edges {
				if e != v && carries(e, d+1) {
					return true
				}
			}
		}
		return false
	}
	name := "error of " + g4CallName(call) + " == nil"
	return Guard{Name: name, Match: func(cd Cond, _ *ssa.If) (bool, bool) {
		if cd.Kind != CondNotNil || !carries(cd.Base, 0) {
			return false, false
		}
		return true, cd.Neg
	}}
}

func g4CallName(call ssa.CallInstruction) string {
	if o := calleeObj(call); o != nil {
		if o.Pkg() != nil && o.Pkg().Path() != nebulaMod {
			return o.Pkg().Name() + "." + o.Name()
		}
		return o.Name()
	}
	if f := call.Common().StaticCallee(); f != nil {
		return f.Name()
	}
	return "call"
}

// g4AssertOK: the comma-ok result of this type assertion tested true.
func g4AssertOK(ta *ssa.TypeAssert) Guard {
	return gValBool("type assertion ok", true, func(v ssa.Value) bool {
		ex, ok := stripValue(v).(*ssa.Extract)
		return ok && ex.Index == 1 && ex.Tuple == ssa.Value(ta)
	})
}

// ---------------------------------------------------------------------------------------
// ordinal naming of constructs (source order, never lines)

type g4Namer struct{ n map[string]int }

func (g *g4Namer) name(fn *ssa.Function, kind string) string {
	if g.n == nil {
		g.n = map[string]int{}
	}
	k := fnName(fn) + ":" + kind
	g.n[k]++
	return fmt.Sprintf("%s#%d", k, g.n[k]-1)
}

func g4SortedInstrs(fn *ssa.Function) []ssa.Instruction {
	var out []ssa.Instruction
	eachInstr(fn, func(in ssa.Instruction) { out = append(out, in) })
	sort.SliceStable(out, func(i, j int) bool { return out[i].Pos() < out[j].Pos() })
	return out
}

// g4Closure: fns and everything they call statically inside the same package (helpers extracted
// from a parser are analysed with it).
func g4Closure(roots ...*ssa.Function) []*ssa.Function {
	var rs []*ssa.Function
	pkg := ""
	for _, r := range roots {
		if r != nil {
			rs = append(rs, r)
			pkg = pkgPathOf(r)
		}
	}
	return reachableFuncs(rs, func(f *ssa.Function) bool { return pkgPathOf(f) == pkg })
}

// ---------------------------------------------------------------------------------------
// K12: no panic on configuration values.
//
// In the given parser functions every construct that panics for some dynamic value must be fenced:
//   - x.(T) without comma-ok: only after a reflect Kind test on the same x selecting T's kind
//     (YAML values have unnamed basic types, so Kind()==String implies the dynamic type string);
//   - reflect.TypeOf(x).M(): only after x != nil (TypeOf(nil) is a nil Type);
//   - (reflect.Value).Len / Index on ValueOf(x): only after a Kind test on x selecting a kind with
//     a length; Index additionally needs i < Len;
//   - s[i] / s[lo:hi] on a slice of configuration values ([]any) or of pieces of configuration text
//     (strings.Split*): the index is bounded by a test on len(s) passed on every path;
//   - panic(...): never.
func (c *Ctx) g4NoPanic(rule string, fns []*ssa.Function) {
	kindConst := func(name string) int64 {
		if v := c.ConstVal("reflect", name); v != nil {
			k, _ := constantInt64(v)
			return k
		}
		return -1
	}
	kindOfBasic := map[types.BasicKind]string{types.String: "String", types.Int: "Int", types.Bool: "Bool", types.Float64: "Float64", types.Int64: "Int64", types.Uint64: "Uint64"}
	// is v the reflect kind of x?
	isKindOf := func(x ssa.Value) func(ssa.Value) bool {
		return func(v ssa.Value) bool {
			call, ok := stripValue(v).(*ssa.Call)
			if !ok || len(callArgs(call)) == 0 {
				return false
			}
			o := calleeObj(call)
			if o == nil || o.Name() != "Kind" || o.Pkg() == nil || o.Pkg().Path() != "reflect" {
				return false
			}
			src, _ := callOf(callArgs(call)[0])
			if src == nil || !matchAny(calleeObj(src), []Ref{{"reflect", "", "TypeOf"}, {"reflect", "", "ValueOf"}}) {
				return false
			}
			return stripValue(src.Call.Args[0]) == stripValue(x)
		}
	}
	kindGuard := func(x ssa.Value, names ...string) Guard {
		ks := map[int64]bool{}
		for _, n := range names {
			ks[kindConst(n)] = true
		}
		return gCmp("reflect kind of the value is "+strings.Join(names, "/"), isKindOf(x), func(v ssa.Value) bool {
			k, ok := constInt(v)
			return ok && ks[k]
		}, mustEqual)
	}
	// idx < len(coll) on every path (idx constant: a test on len(coll) implying len > idx)
	boundGuard := func(coll, idx ssa.Value) Guard {
		isLen := g4LenOf(func(v ssa.Value) bool { return stripValue(v) == stripValue(coll) })
		if k, ok := constInt(idx); ok {
			return g4BoundN(fmt.Sprintf("length test implying len > %d", k), isLen, true, k+1, true)
		}
		return gCmp("index < len", g4Same(idx), isLen, func(op token.Token) (bool, bool) {
			switch op {
			case token.LSS:
				return true, true
			case token.GEQ:
				return true, false
			}
			return false, false
		})
	}
	configSlice := func(v ssa.Value) bool {
		if b, ok := v.Type().Underlying().(*types.Basic); ok && b.Info()&types.IsString != 0 {
			_, isC := v.(*ssa.Const)
			return !isC // text handled by a configuration parser
		}
		sl, ok := v.Type().Underlying().(*types.Slice)
		if !ok {
			return false
		}
		if types.IsInterface(sl.Elem()) {
			return true // []any: a list taken from the configuration tree
		}
		return derivesFrom(v, sliceLocal, func(x ssa.Value) bool {
			call, _ := x.(*ssa.Call)
			o := calleeObj0(call)
			return o != nil && o.Pkg() != nil && o.Pkg().Path() == "strings" && (strings.HasPrefix(o.Name(), "Split") || o.Name() == "Fields")
		})
	}
	var nm g4Namer
	for _, fn := range fns {
		c.Funcs[fn.String()] = true
		risky := 0
		for _, in := range g4SortedInstrs(fn) {
			at := Sink{Instr: in, Desc: "the construct"}
			switch x := in.(type) {
			case *ssa.Panic:
				risky++
				c.Bad(rule, nm.name(fn, "panic"), c.instrPos(x), "explicit panic in a configuration parser")
			case *ssa.TypeAssert:
				if x.CommaOk {
					continue
				}
				risky++
				cons := nm.name(fn, "assert")
				b, isBasic := x.AssertedType.(*types.Basic)
				if !isBasic || kindOfBasic[b.Kind()] == "" {
					c.Bad(rule, cons, c.instrPos(x), fmt.Sprintf("single-result type assertion .(%s) on a configuration value: panics for any other YAML type", x.AssertedType))
					continue
				}
				c.g4Require(rule, cons, fn, at, kindGuard(x.X, kindOfBasic[b.Kind()]), fmt.Sprintf("the single-result assertion .(%s) panics for any other YAML type", x.AssertedType))
			case *ssa.Call:
				args := callArgs(x)
				// method call on the result of reflect.TypeOf(v)
				if x.Call.IsInvoke() {
					if src, _ := callOf(x.Call.Value); src != nil && matchFunc(calleeObj(src), Ref{"reflect", "", "TypeOf"}) {
						risky++
						v := src.Call.Args[0]
						c.g4Require(rule, nm.name(fn, "reflect.TypeOf."+x.Call.Method.Name()), fn, at,
							gValNotNil("value != nil", func(y ssa.Value) bool { return stripValue(y) == stripValue(v) }),
							"reflect.TypeOf(nil) is a nil Type: calling a method on it panics (YAML `key:` / `key: null`)")
					}
					continue
				}
				o := calleeObj(x)
				if o != nil && (matchFunc(o, Ref{"reflect", "Value", "Len"}) || matchFunc(o, Ref{"reflect", "Value", "Index"})) {
					risky++
					cons := nm.name(fn, "reflect.Value."+o.Name())
					src, _ := callOf(args[0])
					if src == nil || !matchFunc(calleeObj(src), Ref{"reflect", "", "ValueOf"}) {
						c.Unknown(rule, cons, "reflect.Value of unrecognised origin")
						continue
					}
					ok := c.g4Require(rule, cons, fn, at, kindGuard(src.Call.Args[0], "Slice", "Array", "String"), "(reflect.Value)."+o.Name()+" panics for kinds without a length")
					if ok && o.Name() == "Index" {
						c.g4Require(rule, cons+":bound", fn, at, boundGuard(args[0], args[1]), "(reflect.Value).Index panics when out of range")
					}
				}
			case *ssa.IndexAddr:
				if configSlice(x.X) {
					risky++
					c.g4Require(rule, nm.name(fn, "index"), fn, at, boundGuard(x.X, x.Index), "indexing a list/pieces of configuration input panics when it is shorter")
				}
			case *ssa.Index:
				if configSlice(x.X) {
					risky++
					c.g4Require(rule, nm.name(fn, "index"), fn, at, boundGuard(x.X, x.Index), "indexing configuration text panics when it is shorter")
				}
			case *ssa.Slice:
				if !configSlice(x.X) || (x.Low == nil && x.High == nil) {
					continue
				}
				risky++
				cons := nm.name(fn, "slice")
				hi := x.High
				if hi == nil {
					hi = x.Low
				}
				if k, ok := constInt(hi); ok && k > 0 {
					c.g4Require(rule, cons, fn, at, boundGuard(x.X, ssa.NewConst(constant.MakeInt64(k-1), types.Typ[types.Int])), "slicing configuration input panics when it is shorter")
				} else if !ok {
					c.Unknown(rule, cons, "slice of configuration input with a non-constant bound: not decided")
				}
			}
		}
		c.OK(rule, fnName(fn)+":scanned", fmt.Sprintf("%d potentially panicking construct(s), each examined", risky))
	}
}

func calleeObj0(call *ssa.Call) *types.Func {
	if call == nil {
		return nil
	}
	return calleeObj(call)
}

// ---------------------------------------------------------------------------------------
// Parse-error discipline: for each call to a text parser in fn, the value result is used and no
// path from the call to one of the sinks skips the test of its error.

var g4Parsers = []Ref{
	{"strconv", "", "Atoi"}, {"strconv", "", "ParseInt"}, {"strconv", "", "ParseUint"}, {"strconv", "", "ParseBool"}, {"strconv", "", "ParseFloat"},
	{"net/netip", "", "ParseAddr"}, {"net/netip", "", "ParsePrefix"}, {"net/netip", "", "ParseAddrPort"},
}

func g4ErrIndex(call *ssa.Call) int {
	if tup, ok := call.Type().(*types.Tuple); ok {
		for i := tup.Len() - 1; i >= 0; i-- {
			if isErrorType(tup.At(i).Type()) {
				return i
			}
		}
	}
	return -1
}

// g4ValueUsed: tuple element idx of call has a use other than debug references.
func g4ValueUsed(call *ssa.Call, idx int) bool {
	refs := call.Referrers()
	if refs == nil {
		return false
	}
	for _, r := range *refs {
		ex, ok := r.(*ssa.Extract)
		if !ok || ex.Index != idx || ex.Referrers() == nil {
			continue
		}
		for _, u := range *ex.Referrers() {
			if _, dbg := u.(*ssa.DebugRef); !dbg {
				return true
			}
		}
	}
	return false
}

// g4CheckedAfter: from the call, no sink is reachable without crossing the nil edge of a test of the
// call's error.
func (c *Ctx) g4CheckedAfter(rule, construct string, fn *ssa.Function, call *ssa.Call, sinks []Sink, why string) {
	g := g4ErrNilOf(call)
	edges, n := passEdges(fn, g)
	r := g4Reach(call.Block(), edges)
	for _, s := range sinks {
		hit := false
		if s.ViaPred != nil {
			for i, su := range s.ViaPred.Succs {
				hit = hit || (su == s.Instr.Block() && r.edges[Edge{s.ViaPred, i}])
			}
		} else {
			if s.Instr.Block() == call.Block() {
				// later in the call's own block, or the block is re-entered (loop)
				hit = instrIndex(s.Instr) > instrIndex(call)
				for e := range r.edges {
					hit = hit || e.From.Succs[e.Succ] == call.Block()
				}
			} else {
				_, hit = r.blocks[s.Instr.Block()]
			}
		}
		if hit {
			c.Bad(rule, construct, c.instrPos(call), fmt.Sprintf("after %s, %s is reachable without its error having been tested (%d test(s) of this error found): %s", g4CallName(call), s.Desc, n, why), c.blockPath(r.blocks, s.Instr.Block())...)
			return
		}
	}
	c.OK(rule, construct, fmt.Sprintf("error tested on every path to %d sink(s) (%d test(s))", len(sinks), n))
}

// g4ParseDiscipline applies the above to every parser call in fn. Decimal parsers must be base 10.
func (c *Ctx) g4ParseDiscipline(rule string, fn *ssa.Function, sinks []Sink, nm *g4Namer) {
	for _, in := range g4SortedInstrs(fn) {
		call, ok := in.(*ssa.Call)
		if !ok || !matchAny(calleeObj(call), g4Parsers) {
			continue
		}
		o := calleeObj(call)
		cons := nm.name(fn, g4CallName(call))
		if !g4ValueUsed(call, 0) {
			c.Bad(rule, cons, c.instrPos(call), "the value parsed from the configuration text is discarded (only the error is looked at): the setting silently keeps a different value")
			continue
		}
		if o.Name() == "ParseInt" || o.Name() == "ParseUint" {
			if b, ok := constInt(call.Call.Args[1]); !ok || b != 10 {
				c.Bad(rule, cons, c.instrPos(call), "numeric configuration text is not parsed in base 10: other notations would be reinterpreted")
				continue
			}
		}
		c.g4CheckedAfter(rule, cons, fn, call, sinks, "malformed text would be accepted with the parser's zero value")
	}
}

// ---------------------------------------------------------------------------------------
// Leaf-wise walk of a value through phis and conversions, with the sink narrowed to the phi edge a
// leaf arrives through.

func (c *Ctx) g4EachLeaf(v ssa.Value, at Sink, try func(v ssa.Value, at Sink) bool, leaf func(v ssa.Value, at Sink)) {
	seen := map[ssa.Value]bool{}
	var walk func(v ssa.Value, at Sink, d int)
	walk = func(v ssa.Value, at Sink, d int) {
		if try != nil && try(v, at) {
			return
		}
		switch x := v.(type) {
		case *ssa.Phi:
			if seen[x] || d > 8 {
				return
			}
			seen[x] = true
			for k, e := range x.Edges {
				walk(e, Sink{Instr: x, Desc: at.Desc, ViaPred: x.Block().Preds[k]}, d+1)
			}
			return
		case *ssa.Convert:
			walk(x.X, at, d+1)
			return
		case *ssa.ChangeType:
			walk(x.X, at, d+1)
			return
		}
		leaf(v, at)
	}
	walk(v, at, 0)
}

// g4KeptValue: every leaf of v is a constant, the value of a comma-ok type assertion used only
// where ok held, or the value result of a text parser used only where its error was nil (one level
// into module helpers). This is the "int or decimal string" idiom keeping the stated value.
func (c *Ctx) g4KeptValue(rule, construct string, fn *ssa.Function, v ssa.Value, at Sink, depth int) {
	bad, unknown := "", ""
	var badPos ssa.Instruction
	var badPath []string
	c.g4EachLeaf(v, at, nil, func(l ssa.Value, at Sink) {
		if _, isC := l.(*ssa.Const); isC {
			return
		}
		ex, ok := l.(*ssa.Extract)
		if !ok {
			unknown = "source " + l.String() + " is not an assertion / parser result / constant"
			return
		}
		switch t := ex.Tuple.(type) {
		case *ssa.TypeAssert:
			if ex.Index != 0 {
				unknown = "ok flag used as a value"
				return
			}
			if ok, _, path := c.g4MustPass(fn, nil, at, g4AssertOK(t)); !ok {
				bad, badPos, badPath = fmt.Sprintf("the value of the assertion .(%s) is used although the assertion failed (it is the zero value then): a setting given as text does not keep its stated value", t.AssertedType), t, path
			}
		case *ssa.Call:
			if matchAny(calleeObj(t), g4Parsers) {
				if ex.Index != 0 {
					unknown = "non-value result of a parser"
				} else if ok, _, path := c.g4MustPass(fn, nil, at, g4ErrNilOf(t)); !ok {
					bad, badPos, badPath = "the parser's value is used although its error was not tested", t, path
				}
				return
			}
			h := t.Call.StaticCallee()
			if !g4InModule(h) || depth > 0 {
				unknown = "value produced by " + g4CallName(t) + ": not followed"
				return
			}
			if g4ErrIndex(t) >= 0 && ex.Index != g4ErrIndex(t) {
				if ok, _, path := c.g4MustPass(fn, nil, at, g4ErrNilOf(t)); !ok {
					bad, badPos, badPath = "the value returned by "+h.Name()+" is used although its error was not tested", t, path
					return
				}
			}
			for _, b := range h.Blocks {
				if ret, ok := b.Instrs[len(b.Instrs)-1].(*ssa.Return); ok && ex.Index < len(ret.Results) {
					c.g4KeptValue(rule, construct+"/"+h.Name(), h, retResult(ret, ex.Index), Sink{Instr: ret, Desc: "return of " + h.Name()}, depth+1)
				}
			}
		default:
			unknown = "unrecognised tuple source"
		}
	})
	switch {
	case bad != "":
		c.Bad(rule, construct, c.instrPos(badPos), bad, badPath...)
	case unknown != "":
		c.Unknown(rule, construct, unknown)
	default:
		c.OK(rule, construct, "every source is a checked assertion, a checked parse result or a constant")
	}
}

// g4Ranged: v satisfies a range condition at `at`: on every path a guard built by mk on v (or, edge
// by edge, on what v is merged from) passed; constant sources satisfy okConst.
func (c *Ctx) g4Ranged(rule, construct string, fn *ssa.Function, v ssa.Value, at Sink, mk func(ssa.Value) Guard, okConst func(int64) bool, what string) {
	bad := ""
	var path []string
	c.g4EachLeaf(v, at, func(x ssa.Value, at Sink) bool {
		if _, isC := x.(*ssa.Const); isC {
			return false
		}
		ok, n, _ := c.g4MustPass(fn, nil, at, c.g4SummV(x, mk))
		return ok && n > 0
	}, func(l ssa.Value, at Sink) {
		if k, isK := constInt(l); isK {
			if !okConst(k) {
				bad = fmt.Sprintf("the constant %d does not satisfy %s", k, what)
			}
			return
		}
		_, _, p := c.g4MustPass(fn, nil, at, c.g4SummV(l, mk))
		bad, path = fmt.Sprintf("a value not tested for %s reaches %s: an out-of-range setting is accepted", what, at.Desc), p
	})
	if bad != "" {
		c.Bad(rule, construct, c.instrPos(at.Instr), bad, path...)
		return
	}
	c.OK(rule, construct, "every source passed the test "+what)
}

// ---------------------------------------------------------------------------------------
// Configuration keys feeding a value: string constants used as map indexes / helper arguments in
// the backward slice of v, restricted to the schema's key set.

func g4KeysIn(v ssa.Value, schema map[string]bool) map[string]bool {
	out := map[string]bool{}
	add := func(x ssa.Value) {
		if s, ok := constString(x); ok && schema[s] {
			out[s] = true
		}
	}
	backSlice(v, sliceThrough, func(x ssa.Value) {
		switch y := x.(type) {
		case *ssa.Const:
			add(y)
		case *ssa.Lookup:
			add(y.Index)
		}
	})
	return out
}

func g4SetEq(a map[string]bool, b ...string) bool {
	if len(a) != len(b) {
		return false
	}
	for _, k := range b {
		if !a[k] {
			return false
		}
	}
	return true
}

// g4SuccessReturns: returns whose error result is the nil constant.
func g4SuccessReturns(fn *ssa.Function) []Sink {
	idx := errResultIndex(fn)
	var out []Sink
	if idx < 0 {
		return nil
	}
	for _, s := range successReturns(fn, idx) {
		s.Desc = "a success return of " + fn.Name()
		out = append(out, s)
	}
	return out
}

// g4Method resolves a method declared on a named type to its source function (c.Func would hand
// back the synthetic pointer wrapper of a value-receiver method).
func (c *Ctx) g4Method(pkg, recv, name string) *ssa.Function {
	n := c.NamedType(pkg, recv)
	if n == nil {
		return nil
	}
	for i := 0; i < n.NumMethods(); i++ {
		if m := n.Method(i); m.Name() == name {
			if f := c.P.SSA.FuncValue(m); f != nil && f.Blocks != nil {
				c.Funcs[f.String()] = true
				return f
			}
		}
	}
	c.Unknown("anchor", Ref{pkg, recv, name}.String(), "method not found in the current tree (renamed or removed): the rules anchored on it cannot be decided")
	return nil
}

// g4FieldVals: the values assigned to field f of the local struct al, including through whole-value
// copies from composite-literal temporaries (`r := T{F: v}` lowers to a temporary copied into r).
func g4FieldVals(al *ssa.Alloc, f *types.Var) []ssa.Value {
	var out []ssa.Value
	seen := map[*ssa.Alloc]bool{}
	var walk func(a *ssa.Alloc)
	walk = func(a *ssa.Alloc) {
		if a == nil || seen[a] || a.Referrers() == nil {
			return
		}
		seen[a] = true
		for _, r := range *a.Referrers() {
			switch x := r.(type) {
			case *ssa.FieldAddr:
				if x.X != ssa.Value(a) || fieldOfAddr(x) != f || x.Referrers() == nil {
					continue
				}
				for _, u := range *x.Referrers() {
					if st, ok := u.(*ssa.Store); ok && st.Addr == ssa.Value(x) {
						out = append(out, st.Val)
					}
				}
			case *ssa.Store:
				if x.Addr != ssa.Value(a) {
					continue
				}
				if ld, ok := x.Val.(*ssa.UnOp); ok && ld.Op == token.MUL {
					if src, ok := ld.X.(*ssa.Alloc); ok {
						walk(src)
					}
				}
			}
		}
	}
	walk(al)
	return out
}
