package main

import (
	"fmt"
	"go/constant"
	"go/token"
	"go/types"
	"sort"
	"strings"

	"golang.org/x/tools/go/ssa"
)

// Generic helpers added for C20/C21 (packet classification / reject replies). Everything here
// is static: small integer evaluation of SSA expression trees over an enumerated leaf (a header
// byte, a boolean parameter), a forward value-set dataflow that uses it to refine "which values
// can the byte have in this block", linear forms base+k for buffer offsets, and a length-guard
// discharge for buffer reads with stable-predicate case splitting.

// ---------------------------------------------------------------------------------------
// A. integer evaluation of an expression tree

// g3Leaf supplies the value of a leaf (the enumerated quantity); ok=false: not a leaf.
type g3Leaf func(ssa.Value) (int64, bool)

func g3Trunc(x int64, t types.Type) int64 {
	w, unsigned := intWidth(t)
	if w == 0 || w >= 64 {
		return x
	}
	x &= int64(1)<<uint(w) - 1
	if !unsigned && x>>(uint(w)-1)&1 == 1 {
		x -= int64(1) << uint(w)
	}
	return x
}

// g3Eval evaluates v (integers; booleans as 0/1) given the leaf values. Loads, phis with differing
// edges, dynamic calls and anything touching memory are not evaluable. Static calls to loop-free
// module functions are evaluated through the K8 interpreter (absEval) with constant arguments.
func g3Eval(v ssa.Value, leaf g3Leaf) (int64, bool) { return g3EvalD(v, leaf, 0) }

func g3EvalD(v ssa.Value, leaf g3Leaf, d int) (int64, bool) {
	if v == nil || d > 24 {
		return 0, false
	}
	if r, ok := leaf(v); ok {
		return r, true
	}
	switch x := v.(type) {
	case *ssa.Const:
		if x.Value == nil {
			return 0, false
		}
		switch x.Value.Kind() {
		case constant.Bool:
			if constant.BoolVal(x.Value) {
				return 1, true
			}
			return 0, true
		case constant.Int:
			if i, ok := constant.Int64Val(x.Value); ok {
				return i, true
			}
			if u, ok := constant.Uint64Val(x.Value); ok {
				return int64(u), true
			}
		}
		return 0, false
	case *ssa.Convert:
		a, ok := g3EvalD(x.X, leaf, d+1)
		if !ok {
			return 0, false
		}
		if w, _ := intWidth(x.Type()); w == 0 {
			return 0, false // not an integer conversion
		}
		return g3Trunc(a, x.Type()), true
	case *ssa.ChangeType:
		return g3EvalD(x.X, leaf, d+1)
	case *ssa.UnOp:
		a, ok := g3EvalD(x.X, leaf, d+1)
		if !ok || x.Op == token.MUL || x.Op == token.ARROW {
			return 0, false
		}
		switch x.Op {
		case token.NOT:
			return 1 - a, true
		case token.SUB:
			return g3Trunc(-a, x.Type()), true
		case token.XOR:
			return g3Trunc(^a, x.Type()), true
		}
		return 0, false
	case *ssa.BinOp:
		a, ok := g3EvalD(x.X, leaf, d+1)
		if !ok {
			return 0, false
		}
		b, ok := g3EvalD(x.Y, leaf, d+1)
		if !ok {
			return 0, false
		}
		bo := func(c bool) (int64, bool) {
			if c {
				return 1, true
			}
			return 0, true
		}
		var r int64
		switch x.Op {
		case token.EQL:
			return bo(a == b)
		case token.NEQ:
			return bo(a != b)
		case token.LSS:
			return bo(a < b)
		case token.LEQ:
			return bo(a <= b)
		case token.GTR:
			return bo(a > b)
		case token.GEQ:
			return bo(a >= b)
		case token.ADD:
			r = a + b
		case token.SUB:
			r = a - b
		case token.MUL:
			r = a * b
		case token.QUO:
			if b == 0 {
				return 0, false
			}
			r = a / b
		case token.REM:
			if b == 0 {
				return 0, false
			}
			r = a % b
		case token.AND:
			r = a & b
		case token.OR:
			r = a | b
		case token.XOR:
			r = a ^ b
		case token.AND_NOT:
			r = a &^ b
		case token.SHL:
			if b < 0 || b > 62 {
				return 0, false
			}
			r = a << uint(b)
		case token.SHR:
			if b < 0 || b > 63 {
				return 0, false
			}
			r = a >> uint(b)
		default:
			return 0, false
		}
		return g3Trunc(r, x.Type()), true
	case *ssa.Phi:
		// a merge of a loop-free region (the lowering of && / || / ?:-style code): follow the
		// branches from the immediate dominator under the same leaf values
		b := x.Block().Idom()
		for steps := 0; b != nil && steps < 32; steps++ {
			var next *ssa.BasicBlock
			switch t := b.Instrs[len(b.Instrs)-1].(type) {
			case *ssa.If:
				cv, ok := g3EvalD(t.Cond, leaf, d+1)
				if !ok {
					return 0, false
				}
				next = b.Succs[1]
				if cv != 0 {
					next = b.Succs[0]
				}
			case *ssa.Jump:
				next = b.Succs[0]
			default:
				return 0, false
			}
			if next == x.Block() {
				at := -1
				for i, p := range x.Block().Preds {
					if p == b {
						if at >= 0 {
							return 0, false // both arms of b lead here: cannot tell the edges apart
						}
						at = i
					}
				}
				if at < 0 {
					return 0, false
				}
				return g3EvalD(x.Edges[at], leaf, d+1)
			}
			if next.Dominates(b) {
				return 0, false // back edge: not a loop-free merge
			}
			b = next
		}
		return 0, false
	case *ssa.Call:
		var args []int64
		for _, a := range x.Call.Args {
			r, ok := g3EvalD(a, leaf, d+1)
			if !ok {
				return 0, false
			}
			args = append(args, r)
		}
		switch builtinName(x) {
		case "min", "max":
			if len(args) == 0 {
				return 0, false
			}
			r := args[0]
			for _, a := range args[1:] {
				if (builtinName(x) == "min") == (a < r) {
					r = a
				}
			}
			return r, true
		case "":
		default:
			return 0, false
		}
		callee := x.Call.StaticCallee()
		if callee == nil || callee.Blocks == nil || x.Call.IsInvoke() || !strings.HasPrefix(pkgPathOf(callee), nebulaMod) || len(callee.Params) != len(args) {
			return 0, false
		}
		env := &AbsEnv{Params: map[string]AVal{}}
		for i, p := range callee.Params {
			if b, ok := p.Type().Underlying().(*types.Basic); ok && b.Info()&types.IsBoolean != 0 {
				env.Params[p.Name()] = aBool(args[i] != 0)
			} else {
				env.Params[p.Name()] = aInt(args[i])
			}
		}
		res, err := absEval(callee, env)
		if err != "" || len(res) != 1 || !res[0].isConst() {
			return 0, false
		}
		switch res[0].K.Kind() {
		case constant.Bool:
			if constant.BoolVal(res[0].K) {
				return 1, true
			}
			return 0, true
		case constant.Int:
			i, ok := constant.Int64Val(res[0].K)
			return g3Trunc(i, x.Type()), ok
		}
	}
	return 0, false
}

// g3Mentions: the expression tree of v - the part g3Eval can look through: arithmetic,
// conversions, call arguments; not memory, not merges - contains a value for which pred holds.
func g3Mentions(v ssa.Value, pred func(ssa.Value) bool) bool {
	var walk func(x ssa.Value, d int) bool
	walk = func(x ssa.Value, d int) bool {
		if x == nil || d > 24 {
			return false
		}
		if pred(x) {
			return true
		}
		switch y := x.(type) {
		case *ssa.BinOp:
			return walk(y.X, d+1) || walk(y.Y, d+1)
		case *ssa.UnOp:
			return y.Op != token.MUL && walk(y.X, d+1)
		case *ssa.Convert:
			return walk(y.X, d+1)
		case *ssa.ChangeType:
			return walk(y.X, d+1)
		case *ssa.Call:
			for _, a := range y.Call.Args {
				if walk(a, d+1) {
					return true
				}
			}
		}
		return false
	}
	return walk(v, 0)
}

// ---------------------------------------------------------------------------------------
// B. value sets: which values of a tracked quantity are possible on entry to each block

// g3Domain is a finite set of abstract inputs 0..N-1 (one header byte, a pair of bytes, a
// (direction, protocol, fragment) triple ...). Leaf gives the value an SSA value takes under
// element d; ok=false when the SSA value is not one of the tracked quantities.
type g3Domain struct {
	N    int
	Leaf func(d int, v ssa.Value) (int64, bool)
}

// g3OneValue: the domain of a single quantity with values 0..n-1, denoted by the SSA values isV.
func g3OneValue(n int, isV func(ssa.Value) bool) g3Domain {
	return g3Domain{N: n, Leaf: func(d int, v ssa.Value) (int64, bool) {
		if isV(v) {
			return int64(d), true
		}
		return 0, false
	}}
}

type g3Sets struct {
	N    int
	In   map[*ssa.BasicBlock][]bool // missing = unreachable
	Out  map[Edge][]bool
	Open []*ssa.If // tests that mention a tracked quantity but could not be evaluated
}

// g3ValueSets runs a forward dataflow from the entry of fn. When reset is non-nil the quantity is
// (re)defined in that block (a loop-carried phi, loads at a loop-carried offset): on entry to it
// the set is full again. An If whose condition evaluates under element d routes d to that
// successor only; otherwise d flows to both. Edges in pruned are never taken.
func g3ValueSets(fn *ssa.Function, dom g3Domain, reset *ssa.BasicBlock, pruned map[Edge]bool) *g3Sets {
	s := &g3Sets{N: dom.N, In: map[*ssa.BasicBlock][]bool{}, Out: map[Edge][]bool{}}
	full := make([]bool, dom.N)
	for i := range full {
		full[i] = true
	}
	tracked := func(v ssa.Value) bool { _, ok := dom.Leaf(0, v); return ok }
	routes := map[*ssa.BasicBlock][]int8{} // per element: 0 / 1 / -1 both ; nil: condition does not mention the quantity
	done := map[*ssa.BasicBlock]bool{}
	routeOf := func(b *ssa.BasicBlock, ifi *ssa.If) []int8 {
		if done[b] {
			return routes[b]
		}
		done[b] = true
		if !g3Mentions(ifi.Cond, tracked) {
			return nil
		}
		to := make([]int8, dom.N)
		for d := 0; d < dom.N; d++ {
			dd := d
			val, ok := g3Eval(ifi.Cond, func(x ssa.Value) (int64, bool) { return dom.Leaf(dd, x) })
			switch {
			case !ok:
				s.Open = append(s.Open, ifi)
				return nil
			case val != 0:
				to[d] = 0
			default:
				to[d] = 1
			}
		}
		routes[b] = to
		return to
	}
	merge := func(dst *[]bool, src []bool) bool {
		ch := false
		if *dst == nil {
			*dst = make([]bool, dom.N)
		}
		for i, b := range src {
			if b && !(*dst)[i] {
				(*dst)[i] = true
				ch = true
			}
		}
		return ch
	}
	s.In[fn.Blocks[0]] = append([]bool{}, full...)
	work := []*ssa.BasicBlock{fn.Blocks[0]}
	for len(work) > 0 {
		b := work[0]
		work = work[1:]
		in := s.In[b]
		if b == reset {
			in = full
		}
		var ifi *ssa.If
		if len(b.Instrs) > 0 {
			ifi, _ = b.Instrs[len(b.Instrs)-1].(*ssa.If)
		}
		for si, succ := range b.Succs {
			if pruned[Edge{b, si}] {
				continue
			}
			out := in
			if ifi != nil {
				if to := routeOf(b, ifi); to != nil {
					out = make([]bool, dom.N)
					for i, ok := range in {
						if ok && int(to[i]) == si {
							out[i] = true
						}
					}
				}
			}
			e := Edge{b, si}
			eo := s.Out[e]
			merge(&eo, out)
			s.Out[e] = eo
			any := false
			for _, x := range out {
				any = any || x
			}
			if !any {
				continue
			}
			cur, seen := s.In[succ]
			ch := merge(&cur, out)
			s.In[succ] = cur
			if ch || !seen {
				work = append(work, succ)
			}
		}
	}
	if reset != nil {
		if _, ok := s.In[reset]; ok {
			s.In[reset] = append([]bool{}, full...)
		}
	}
	return s
}

// At lists the possible elements on entry to b (arriving from via only, when given).
func (s *g3Sets) At(b *ssa.BasicBlock, via *ssa.BasicBlock) []int {
	set := s.In[b]
	if via != nil {
		set = make([]bool, s.N)
		for i, su := range via.Succs {
			if su == b {
				for k, x := range s.Out[Edge{via, i}] {
					set[k] = set[k] || x
				}
			}
		}
	}
	var out []int
	for i, x := range set {
		if x {
			out = append(out, i)
		}
	}
	return out
}

// g3All: every element of a satisfies in; otherwise the first counterexample.
func g3All(a []int, in func(int) bool) (bool, int) {
	for _, x := range a {
		if !in(x) {
			return false, x
		}
	}
	return true, 0
}

func g3SetStr(a []int) string {
	if len(a) > 12 {
		return fmt.Sprintf("%v…(%d values)", a[:12], len(a))
	}
	return fmt.Sprint(a)
}

// ---------------------------------------------------------------------------------------
// C. linear forms and buffer references

// g3Lin is Base + K (Base nil: the constant K).
type g3Lin struct {
	Base ssa.Value
	K    int64
}

func (l g3Lin) String() string {
	if l.Base == nil {
		return fmt.Sprint(l.K)
	}
	if l.K == 0 {
		return exprString(l.Base)
	}
	return fmt.Sprintf("%s+%d", exprString(l.Base), l.K)
}

func g3LinOf(v ssa.Value) g3Lin {
	if v == nil {
		return g3Lin{}
	}
	if k, ok := constInt(v); ok {
		return g3Lin{K: k}
	}
	if bo, ok := v.(*ssa.BinOp); ok {
		switch bo.Op {
		case token.ADD:
			if k, ok := constInt(bo.Y); ok {
				l := g3LinOf(bo.X)
				return g3Lin{l.Base, l.K + k}
			}
			if k, ok := constInt(bo.X); ok {
				l := g3LinOf(bo.Y)
				return g3Lin{l.Base, l.K + k}
			}
		case token.SUB:
			if k, ok := constInt(bo.Y); ok {
				l := g3LinOf(bo.X)
				return g3Lin{l.Base, l.K - k}
			}
		}
	}
	return g3Lin{Base: v}
}

func g3LinAdd(a, b g3Lin) (g3Lin, bool) {
	switch {
	case a.Base == nil:
		return g3Lin{b.Base, a.K + b.K}, true
	case b.Base == nil:
		return g3Lin{a.Base, a.K + b.K}, true
	}
	return g3Lin{}, false
}

// g3BufRef resolves a slice value to "root[Off:]" (Open) or "root[Off:Off+Width]" (closed, Width
// constant; -1 when the width is not a constant) through chains of slice expressions.
type g3BufRef struct {
	Off   g3Lin
	Open  bool
	Width int64
}

func g3ResolveBuf(v, root ssa.Value) (g3BufRef, bool) {
	if v == root {
		return g3BufRef{Open: true}, true
	}
	sl, ok := v.(*ssa.Slice)
	if !ok || sl.Max != nil {
		return g3BufRef{}, false
	}
	if _, isSlice := sl.X.Type().Underlying().(*types.Slice); !isSlice {
		return g3BufRef{}, false
	}
	in, ok := g3ResolveBuf(sl.X, root)
	if !ok {
		return g3BufRef{}, false
	}
	lo := g3LinOf(sl.Low)
	off, ok := g3LinAdd(in.Off, lo)
	if !ok {
		return g3BufRef{}, false
	}
	out := g3BufRef{Off: off}
	if sl.High == nil {
		out.Open, out.Width = in.Open, in.Width-lo.K
		if !in.Open && (lo.Base != nil || in.Width < 0) {
			out.Width = -1
		}
		return out, true
	}
	hi := g3LinOf(sl.High)
	out.Width = -1
	if hi.Base == lo.Base {
		out.Width = hi.K - lo.K
	}
	return out, true
}

// g3IsByteLoad: v loads root[off] (off constant, through constant-offset sub-slices).
func g3IsByteLoad(root ssa.Value, off int64) func(ssa.Value) bool {
	return func(v ssa.Value) bool {
		o, ok := g3ByteLoadOff(v, root)
		return ok && o.Base == nil && o.K == off
	}
}

// g3ByteLoadOff: v is `*(&s[i])` with s a view of root; returns the offset in root.
func g3ByteLoadOff(v, root ssa.Value) (g3Lin, bool) {
	u, ok := v.(*ssa.UnOp)
	if !ok || u.Op != token.MUL {
		return g3Lin{}, false
	}
	ia, ok := u.X.(*ssa.IndexAddr)
	if !ok {
		return g3Lin{}, false
	}
	ref, ok := g3ResolveBuf(ia.X, root)
	if !ok {
		return g3Lin{}, false
	}
	return g3LinAdd(ref.Off, g3LinOf(ia.Index))
}

// g3BytesLeaf evaluates reads of root relative to base (nil: constant offsets) under an assignment
// of bytes: a byte load root[base+k], or an encoding/binary UintN over root[base+k : base+k+N/8].
func g3BytesLeaf(root, base ssa.Value, get func(k int64) (int64, bool)) g3Leaf {
	return func(x ssa.Value) (int64, bool) {
		if l, is := g3ByteLoadOff(x, root); is {
			if l.Base != base {
				return 0, false
			}
			return get(l.K)
		}
		call, is := x.(*ssa.Call)
		if !is {
			return 0, false
		}
		e, w, put, buf, is := g3BinaryCall(call)
		if !is || put {
			return 0, false
		}
		ref, r := g3ResolveBuf(buf, root)
		if !r || ref.Off.Base != base {
			return 0, false
		}
		var val int64
		for i := 0; i < w; i++ {
			b, ok := get(ref.Off.K + int64(i))
			if !ok {
				return 0, false
			}
			if e == "BE" {
				val = val<<8 | b
			} else {
				val |= b << (8 * uint(i))
			}
		}
		return val, true
	}
}

// g3BinaryCall: call is encoding/binary's <endian>.UintN / PutUintN; returns endian ("BE"/"LE"),
// the byte width, whether it is a Put, and the slice argument.
func g3BinaryCall(call *ssa.Call) (endian string, width int, put bool, buf ssa.Value, ok bool) {
	e, name := endianOf(calleeObj(call))
	if e == "" {
		return "", 0, false, nil, false
	}
	w := widthOfBinaryFn(name)
	args := callArgs(call)
	if w == 0 || len(args) < 2 {
		return "", 0, false, nil, false
	}
	return e, w, strings.HasPrefix(name, "Put"), args[1], true
}

// ---------------------------------------------------------------------------------------
// D. non-negativity (offsets): constants >= 0, conversions from unsigned, len/cap/min of them,
// sums/shifts/products of non-negatives, phis of them (cycles assumed), and call results whose
// callee returns only non-negatives at that result index.

func g3NonNeg(v ssa.Value) bool { return g3NonNegD(v, map[ssa.Value]bool{}, 0) }

func g3NonNegD(v ssa.Value, seen map[ssa.Value]bool, d int) bool {
	if v == nil {
		return true
	}
	if seen[v] {
		return true
	}
	if d > 12 {
		return false
	}
	seen[v] = true
	if _, unsigned := intWidth(v.Type()); unsigned {
		if w, _ := intWidth(v.Type()); w > 0 {
			return true
		}
	}
	switch x := v.(type) {
	case *ssa.Const:
		k, ok := constInt(x)
		return ok && k >= 0
	case *ssa.Convert:
		w, unsigned := intWidth(x.X.Type())
		wo, _ := intWidth(x.Type())
		if unsigned && w < wo {
			return true
		}
		return w <= wo && g3NonNegD(x.X, seen, d+1)
	case *ssa.BinOp:
		switch x.Op {
		case token.ADD, token.MUL, token.SHL, token.SHR, token.AND, token.OR, token.QUO, token.REM:
			return g3NonNegD(x.X, seen, d+1) && (x.Op == token.SHL || x.Op == token.SHR || g3NonNegD(x.Y, seen, d+1))
		}
	case *ssa.Phi:
		for _, e := range x.Edges {
			if !g3NonNegD(e, seen, d+1) {
				return false
			}
		}
		return true
	case *ssa.Call:
		switch builtinName(x) {
		case "len", "cap":
			return true
		case "min", "max":
			for _, a := range x.Call.Args {
				if !g3NonNegD(a, seen, d+1) {
					return false
				}
			}
			return true
		}
	case *ssa.Extract:
		if call, ok := x.Tuple.(*ssa.Call); ok {
			if callee := call.Call.StaticCallee(); callee != nil && callee.Blocks != nil {
				for _, b := range callee.Blocks {
					if ret, ok := b.Instrs[len(b.Instrs)-1].(*ssa.Return); ok && x.Index < len(ret.Results) {
						if !g3NonNegD(retResult(ret, x.Index), seen, d+1) {
							return false
						}
					}
				}
				return true
			}
		}
	}
	return false
}

// ---------------------------------------------------------------------------------------
// E. stable predicates: Ifs that test the same unchanging fact are decided together

type g3PredClass struct {
	Key string
	Ifs []*ssa.If
	Neg []bool // condition true <=> fact false
}

// g3StableKey canonically names a condition built from parameters, constants, loads of fields
// reached from parameters, and arithmetic; anything else is named by its SSA identity (so two Ifs
// on the very same SSA value still correlate). fields collects the fields loaded.
func g3StableKey(v ssa.Value, fields map[*types.Var]bool, d int) string {
	if d > 10 {
		return "v:" + v.Name()
	}
	switch x := v.(type) {
	case *ssa.Const:
		if x.Value != nil {
			return x.Value.ExactString()
		}
		return "nil"
	case *ssa.Parameter:
		return "p:" + x.Name()
	case *ssa.Convert:
		return g3StableKey(x.X, fields, d+1)
	case *ssa.ChangeType:
		return g3StableKey(x.X, fields, d+1)
	case *ssa.UnOp:
		if x.Op == token.MUL {
			if fa, ok := x.X.(*ssa.FieldAddr); ok {
				if root, _ := addrRoot(fa); root != nil {
					if _, isP := root.(*ssa.Parameter); isP {
						p := ""
						for a := ssa.Value(fa); ; {
							f, ok := a.(*ssa.FieldAddr)
							if !ok {
								break
							}
							fields[fieldOfAddr(f)] = true
							p = "." + fieldOfAddr(f).Name() + p
							a = f.X
						}
						return "f:" + root.Name() + p
					}
				}
			}
			return "v:" + v.Name()
		}
		return x.Op.String() + g3StableKey(x.X, fields, d+1)
	case *ssa.BinOp:
		a, b := g3StableKey(x.X, fields, d+1), g3StableKey(x.Y, fields, d+1)
		switch x.Op {
		case token.EQL, token.NEQ, token.ADD, token.MUL, token.AND, token.OR, token.XOR:
			if b < a {
				a, b = b, a
			}
		}
		return "(" + a + x.Op.String() + b + ")"
	}
	return "v:" + v.Name()
}

// g3StablePreds groups the Ifs of fn by the fact they test; only classes with >= 2 tests whose
// fields are not stored (or handed to a callee) after the first test are returned.
func g3StablePreds(fn *ssa.Function) []*g3PredClass {
	byKey := map[string]*g3PredClass{}
	fieldsOf := map[string]map[*types.Var]bool{}
	var order []string
	for _, b := range fn.Blocks {
		if len(b.Instrs) == 0 {
			continue
		}
		ifi, ok := b.Instrs[len(b.Instrs)-1].(*ssa.If)
		if !ok {
			continue
		}
		cd := normCond(ifi.Cond)
		fields := map[*types.Var]bool{}
		key := g3StableKey(cd.Base, fields, 0)
		neg := cd.Neg
		if cd.Kind == CondNotNil {
			key = "nn:" + key
		}
		if bo, ok := cd.Base.(*ssa.BinOp); ok && cd.Kind == CondCmp && (bo.Op == token.NEQ || bo.Op == token.EQL) {
			// a != b is the negation of the fact a == b
			a, b := g3StableKey(bo.X, fields, 1), g3StableKey(bo.Y, fields, 1)
			if b < a {
				a, b = b, a
			}
			key = "(" + a + "==" + b + ")"
			if bo.Op == token.NEQ {
				neg = !neg
			}
		}
		pc := byKey[key]
		if pc == nil {
			pc = &g3PredClass{Key: key}
			byKey[key] = pc
			fieldsOf[key] = fields
			order = append(order, key)
		}
		pc.Ifs = append(pc.Ifs, ifi)
		pc.Neg = append(pc.Neg, neg)
	}
	var out []*g3PredClass
	for _, k := range order {
		pc := byKey[k]
		if len(pc.Ifs) < 2 {
			continue
		}
		stable := true
		if len(fieldsOf[k]) > 0 {
			eachInstr(fn, func(in ssa.Instruction) {
				// the write precedes every test of the class: its block dominates theirs (in the
				// same block it precedes the If, which is the last instruction)
				dominatesAll := func() bool {
					for _, ifi := range pc.Ifs {
						if !in.Block().Dominates(ifi.Block()) {
							return false
						}
					}
					return true
				}
				switch x := in.(type) {
				case *ssa.Store:
					if fa, ok := x.Addr.(*ssa.FieldAddr); ok && fieldsOf[k][fieldOfAddr(fa)] && !dominatesAll() {
						stable = false
					}
				case ssa.CallInstruction:
					for _, a := range callArgs(x) {
						if _, isPtr := a.Type().Underlying().(*types.Pointer); isPtr && !dominatesAll() {
							if _, isP := a.(*ssa.Parameter); isP {
								stable = false
							}
						}
					}
				}
			})
		}
		if stable {
			out = append(out, pc)
		}
	}
	return out
}

// g3Cases enumerates the truth assignments of the classes and yields, for each, the set of CFG
// edges that the assignment rules out.
func g3Cases(classes []*g3PredClass, f func(name string, pruned map[Edge]bool)) {
	if len(classes) > 6 {
		classes = classes[:6]
	}
	for m := 0; m < 1<<uint(len(classes)); m++ {
		pruned := map[Edge]bool{}
		var names []string
		for i, pc := range classes {
			fact := m>>uint(i)&1 == 1
			names = append(names, fmt.Sprintf("%s=%v", pc.Key, fact))
			for j, ifi := range pc.Ifs {
				condTrue := fact != pc.Neg[j]
				if condTrue {
					pruned[Edge{ifi.Block(), 1}] = true
				} else {
					pruned[Edge{ifi.Block(), 0}] = true
				}
			}
		}
		f(strings.Join(names, ","), pruned)
	}
}

// ---------------------------------------------------------------------------------------
// F. buffer accesses and their length guards

// g3Access: an instruction that needs len(root) >= Need.
type g3Access struct {
	Instr ssa.Instruction
	Need  g3Lin
	What  string
}

// g3Accesses lists the index / slice / encoding-binary accesses made in fn through views of root.
// Accesses inside a closed constant-width view at constant offsets within the width are charged
// to the creation of the view. unknown collects accesses whose offset is not base+k.
func g3Accesses(fn *ssa.Function, root ssa.Value) (out []g3Access, unknown []ssa.Instruction) {
	add := func(in ssa.Instruction, ref g3BufRef, rel g3Lin, what string) {
		if !ref.Open && ref.Width >= 0 && rel.Base == nil {
			if rel.K <= ref.Width {
				return // inside the closed view; the view's creation was charged
			}
		}
		need, ok := g3LinAdd(ref.Off, rel)
		if !ok {
			unknown = append(unknown, in)
			return
		}
		out = append(out, g3Access{in, need, what})
	}
	eachInstr(fn, func(in ssa.Instruction) {
		switch x := in.(type) {
		case *ssa.IndexAddr:
			if ref, ok := g3ResolveBuf(x.X, root); ok {
				i := g3LinOf(x.Index)
				add(x, ref, g3Lin{i.Base, i.K + 1}, "index")
			}
		case *ssa.Slice:
			if _, isSlice := x.X.Type().Underlying().(*types.Slice); !isSlice {
				return
			}
			if ref, ok := g3ResolveBuf(x.X, root); ok {
				if x.High != nil {
					add(x, ref, g3LinOf(x.High), "slice-high")
				} else {
					add(x, ref, g3LinOf(x.Low), "slice-low")
				}
			}
		case *ssa.Call:
			if _, w, _, buf, ok := g3BinaryCall(x); ok {
				if ref, ok := g3ResolveBuf(buf, root); ok {
					add(x, ref, g3Lin{K: int64(w)}, calleeObj(x).Name())
				}
			}
		}
	})
	sort.SliceStable(out, func(i, j int) bool { return out[i].Instr.Pos() < out[j].Instr.Pos() })
	return
}

// g3LenGuard: the If tests len(root) against a bound; on the pass edge len(root) >= Bound.
type g3LenGuard struct {
	If    *ssa.If
	Pass  int       // successor index
	Bound ssa.Value // value compared with (may be a phi of linear forms)
	Plus  int64     // len >= Bound + Plus
}

func g3LenGuards(fn *ssa.Function, root ssa.Value) []g3LenGuard {
	isLen := isLenOf(func(v ssa.Value) bool { return v == root })
	var out []g3LenGuard
	for _, b := range fn.Blocks {
		if len(b.Instrs) == 0 {
			continue
		}
		ifi, ok := b.Instrs[len(b.Instrs)-1].(*ssa.If)
		if !ok {
			continue
		}
		cd := normCond(ifi.Cond)
		if cd.Kind != CondCmp {
			continue
		}
		bo := cd.Base.(*ssa.BinOp)
		op, other := bo.Op, bo.Y
		switch {
		case isLen(bo.X):
		case isLen(bo.Y):
			op, other = swapOp(op), bo.X
		default:
			continue
		}
		if cd.Neg {
			op = negOp(op)
		}
		// condition (with negation folded) is: len OP other ; true -> Succs[0]
		g := g3LenGuard{If: ifi, Bound: other}
		switch op {
		case token.LSS: // len < X : false edge gives len >= X
			g.Pass = 1
		case token.GEQ:
			g.Pass = 0
		case token.LEQ: // len <= X : false edge gives len >= X+1
			g.Pass, g.Plus = 1, 1
		case token.GTR:
			g.Pass, g.Plus = 0, 1
		case token.EQL:
			g.Pass = 0
		case token.NEQ:
			g.Pass = 1
		default:
			continue
		}
		if k, isK := constInt(other); isK && k == 0 && (op == token.EQL || op == token.NEQ) {
			// len == 0 fails / len != 0 holds: a length is never negative, so len >= 1
			g.Pass, g.Plus = 1-g.Pass, 1
		}
		out = append(out, g)
	}
	return out
}

// g3ResolveBound gives the weakest linear form the bound value can have when only blocks in
// reach (and edges not pruned) are feasible: a phi resolves to the minimum over feasible edges.
func g3ResolveBound(v ssa.Value, reach map[*ssa.BasicBlock]*ssa.BasicBlock, pruned map[Edge]bool, d int) (g3Lin, bool) {
	phi, ok := v.(*ssa.Phi)
	if !ok || d > 6 {
		return g3LinOf(v), true
	}
	var best g3Lin
	n := 0
	for i, e := range phi.Edges {
		p := phi.Block().Preds[i]
		if _, r := reach[p]; !r {
			continue
		}
		feasible := false
		for si, su := range p.Succs {
			if su == phi.Block() && !pruned[Edge{p, si}] {
				feasible = true
			}
		}
		if !feasible {
			continue
		}
		l, ok := g3ResolveBound(e, reach, pruned, d+1)
		if !ok {
			return g3Lin{}, false
		}
		if n == 0 {
			best = l
		} else {
			if l.Base != best.Base {
				return g3Lin{}, false
			}
			if l.K < best.K {
				best.K = l.K
			}
		}
		n++
	}
	return best, n > 0
}

// g3CheckBounds decides, for every access of fn through root, that each path from entry crosses
// the pass edge of a length test strong enough for it, case-splitting on the stable predicates of
// fn. pre is a lower bound for len(root) established by every caller (0: none). It emits one
// obligation per access: rule@"<fn>:<root>#<ordinal>:<what>".
func (c *Ctx) g3CheckBounds(rule string, fn *ssa.Function, root ssa.Value, rootName string, pre int64, nonneg ...ssa.Value) int {
	accs, unknown := g3Accesses(fn, root)
	for i, in := range unknown {
		c.Unknown(rule, fmt.Sprintf("%s:%s:nonlinear#%d", fnName(fn), rootName, i), "offset of the access at "+c.instrPos(in)+" is not of the form base+constant: cannot decide its bound")
	}
	for i, a := range accs {
		c.g3CheckAccess(rule, fmt.Sprintf("%s:%s#%d:%s", fnName(fn), rootName, i, a.What), fn, root, rootName, pre, a, nonneg...)
	}
	return len(accs)
}

// g3AsMin recognises a two-input merge that is the minimum of its inputs, the lowering of
// `n := a; if b < n { n = b }` (any comparison direction, if/else form included).
func g3AsMin(v ssa.Value) (x, y ssa.Value, ok bool) {
	phi, isPhi := v.(*ssa.Phi)
	if !isPhi || len(phi.Edges) != 2 || g3InLoop(phi) {
		return nil, nil, false
	}
	top := phi.Block().Idom()
	if top == nil || len(top.Instrs) == 0 {
		return nil, nil, false
	}
	ifi, isIf := top.Instrs[len(top.Instrs)-1].(*ssa.If)
	if !isIf {
		return nil, nil, false
	}
	cd := normCond(ifi.Cond)
	bo, isCmp := cd.Base.(*ssa.BinOp)
	if cd.Kind != CondCmp || !isCmp {
		return nil, nil, false
	}
	op := bo.Op
	if cd.Neg {
		op = negOp(op)
	}
	// which input arrives on the condition's true side
	var onTrue, onFalse ssa.Value
	for i, p := range phi.Block().Preds {
		side := -1
		switch {
		case p == top && top.Succs[0] == phi.Block() && top.Succs[1] != phi.Block():
			side = 0
		case p == top && top.Succs[1] == phi.Block() && top.Succs[0] != phi.Block():
			side = 1
		case p != top && top.Succs[0].Dominates(p) && top.Succs[0] != phi.Block():
			side = 0
		case p != top && top.Succs[1].Dominates(p) && top.Succs[1] != phi.Block():
			side = 1
		}
		switch side {
		case 0:
			onTrue = phi.Edges[i]
		case 1:
			onFalse = phi.Edges[i]
		}
	}
	if onTrue == nil || onFalse == nil {
		return nil, nil, false
	}
	lenArg := func(v ssa.Value) ssa.Value { // len(x) / cap(x) of a value that is never re-sliced in place
		if call, ok := v.(*ssa.Call); ok && (builtinName(call) == "len" || builtinName(call) == "cap") {
			return call.Call.Args[0]
		}
		return nil
	}
	same := func(a, b ssa.Value) bool {
		la, lb := g3LinOf(stripValue(a)), g3LinOf(stripValue(b))
		if sameVar(a, b) || (la.Base != nil && la == lb) {
			return true
		}
		ca, cb := lenArg(a), lenArg(b)
		return ca != nil && ca == cb && builtinName(a.(*ssa.Call)) == builtinName(b.(*ssa.Call))
	}
	switch op {
	case token.LSS, token.LEQ: // X < Y: the true side must carry X, the false side Y
		ok = same(onTrue, bo.X) && same(onFalse, bo.Y)
	case token.GTR, token.GEQ: // X > Y: the true side must carry Y
		ok = same(onTrue, bo.Y) && same(onFalse, bo.X)
	}
	return phi.Edges[0], phi.Edges[1], ok
}

// g3ByConstruction: base+k <= len(root) holds without any test: base is min(..., len(root), ...)
// (the builtin or a clamp merge) and k <= 0.
func g3ByConstruction(need g3Lin, root ssa.Value) bool {
	if need.K > 0 || need.Base == nil {
		return false
	}
	isLen := isLenOf(func(v ssa.Value) bool { return v == root })
	var args []ssa.Value
	if call, ok := need.Base.(*ssa.Call); ok && builtinName(call) == "min" {
		args = call.Call.Args
	} else if x, y, ok := g3AsMin(need.Base); ok {
		args = []ssa.Value{x, y}
	}
	for _, a := range args {
		if isLen(a) {
			return true
		}
	}
	return false
}

// g3CheckAccess decides one access (needs len(root) >= a.Need at a.Instr). nonneg lists values
// (parameters) every caller is known to pass non-negative.
func (c *Ctx) g3CheckAccess(rule, cons string, fn *ssa.Function, root ssa.Value, rootName string, pre int64, a g3Access, nonneg ...ssa.Value) {
	v := c.g3AccessVerdict(fn, root, rootName, pre, a, nil, nonneg)
	// a clamped offset that is not a plain minimum: decide each input of the merge on the paths
	// that arrive through its edge
	if phi, ok := a.Need.Base.(*ssa.Phi); ok && v.verdict == Violated && phi.Block().Dominates(a.Instr.Block()) && !g3InLoop(phi) {
		all := true
		for i, e := range phi.Edges {
			sub := g3LinOf(e)
			sub.K += a.Need.K
			others := map[Edge]bool{}
			for j, p := range phi.Block().Preds {
				for si, su := range p.Succs {
					if j != i && su == phi.Block() {
						others[Edge{p, si}] = true
					}
				}
			}
			if c.g3AccessVerdict(fn, root, rootName, pre, g3Access{a.Instr, sub, a.What}, others, nonneg).verdict != Discharged {
				all = false
			}
		}
		if all {
			v = g3Verdict{verdict: Discharged, detail: fmt.Sprintf("needs len >= %s; each input of the merged offset is covered on the paths that carry it", a.Need)}
		}
	}
	switch v.verdict {
	case Discharged:
		c.OK(rule, cons, v.detail)
	case Undecided:
		c.Unknown(rule, cons, v.detail)
	default:
		c.Bad(rule, cons, c.instrPos(a.Instr), v.detail, v.path...)
	}
}

func g3Union(a, b map[Edge]bool) map[Edge]bool {
	out := map[Edge]bool{}
	for e := range a {
		out[e] = true
	}
	for e := range b {
		out[e] = true
	}
	return out
}

// g3InLoop: the phi merges a value carried around a loop (its block dominates one of its
// predecessors).
func g3InLoop(phi *ssa.Phi) bool {
	for _, p := range phi.Block().Preds {
		if phi.Block().Dominates(p) {
			return true
		}
	}
	return false
}

type g3Verdict struct {
	verdict Verdict
	detail  string
	path    []string
}

// g3AccessVerdict: the decision procedure behind g3CheckAccess; cut = edges never taken.
func (c *Ctx) g3AccessVerdict(fn *ssa.Function, root ssa.Value, rootName string, pre int64, a g3Access, cut map[Edge]bool, nonneg []ssa.Value) g3Verdict {
	g3NonNeg := func(v ssa.Value) bool {
		seen := map[ssa.Value]bool{}
		for _, x := range nonneg {
			seen[x] = true
		}
		return g3NonNegD(v, seen, 0)
	}
	if a.Need.Base != nil && !g3NonNeg(a.Need.Base) {
		return g3Verdict{verdict: Undecided, detail: fmt.Sprintf("offset base %s at %s is not provably non-negative", exprString(a.Need.Base), c.instrPos(a.Instr))}
	}
	if a.Need.Base == nil && a.Need.K <= pre {
		return g3Verdict{verdict: Discharged, detail: fmt.Sprintf("needs len >= %d, every caller established len >= %d", a.Need.K, pre)}
	}
	if g3ByConstruction(a.Need, root) {
		return g3Verdict{verdict: Discharged, detail: fmt.Sprintf("needs len >= %s, which is a minimum with len(%s)", a.Need, rootName)}
	}
	guards := g3LenGuards(fn, root)
	classes := g3StablePreds(fn)
	res := g3Verdict{verdict: Discharged}
	used := ""
	g3Cases(classes, func(name string, pruned map[Edge]bool) {
		if res.verdict != Discharged {
			return
		}
		pruned = g3Union(pruned, cut)
		reach := reachable(fn.Blocks[0], pruned)
		blocked := g3Union(pruned, nil)
		for _, g := range guards {
			if _, r := reach[g.If.Block()]; !r {
				continue
			}
			l, ok := g3ResolveBound(g.Bound, reach, pruned, 0)
			if !ok {
				continue
			}
			l.K += g.Plus
			strong := false
			switch {
			case l.Base == a.Need.Base:
				strong = l.K >= a.Need.K
			case a.Need.Base == nil && l.Base != nil && g3NonNeg(l.Base):
				strong = l.K >= a.Need.K
			}
			if strong {
				blocked[Edge{g.If.Block(), g.Pass}] = true
				if used == "" {
					used = fmt.Sprintf("len >= %s", l)
				}
			}
		}
		prev := reachable(fn.Blocks[0], blocked)
		if _, r := prev[a.Instr.Block()]; r {
			res = g3Verdict{Violated, fmt.Sprintf("%s needs len(%s) >= %s but is reachable without a length test that guarantees it (case %s): out-of-range panic for a short input", a.What, rootName, a.Need, name), c.blockPath(prev, a.Instr.Block())}
		}
	})
	if res.verdict == Discharged {
		res.detail = fmt.Sprintf("needs len >= %s; guarded in all %d stable-predicate cases (%s)", a.Need, 1<<uint(min(len(classes), 6)), used)
	}
	return res
}

// g3UpperBound: a constant the (non-negative) integer value can never exceed, from constants,
// byte conversions, masks, shifts, sums and min().
func g3UpperBound(v ssa.Value, d int) (int64, bool) {
	if d > 12 {
		return 0, false
	}
	if k, ok := constInt(v); ok {
		return k, k >= 0
	}
	if w, unsigned := intWidth(v.Type()); unsigned && w <= 16 {
		ub := int64(1)<<uint(w) - 1
		if x, ok := g3UpperBoundExpr(v, d); ok && x < ub {
			ub = x
		}
		return ub, true
	}
	return g3UpperBoundExpr(v, d)
}

func g3UpperBoundExpr(v ssa.Value, d int) (int64, bool) {
	switch x := v.(type) {
	case *ssa.Convert:
		if !g3NonNeg(x.X) {
			return 0, false
		}
		return g3UpperBound(x.X, d+1)
	case *ssa.BinOp:
		a, okA := g3UpperBound(x.X, d+1)
		b, okB := g3UpperBound(x.Y, d+1)
		switch x.Op {
		case token.ADD:
			return a + b, okA && okB
		case token.AND:
			switch {
			case okA && okB:
				return min(a, b), true
			case okA:
				return a, true
			case okB:
				return b, true
			}
		case token.SHL:
			if k, isK := constInt(x.Y); isK && okA && k >= 0 && k < 32 {
				return a << uint(k), true
			}
		case token.SHR:
			if k, isK := constInt(x.Y); isK && okA && k >= 0 && k < 63 {
				return a >> uint(k), true
			}
		case token.MUL:
			return a * b, okA && okB && a < 1<<30 && b < 1<<30
		}
	case *ssa.Call:
		if builtinName(x) == "min" {
			best, any := int64(0), false
			for _, a := range x.Call.Args {
				if ub, ok := g3UpperBound(a, d+1); ok && (!any || ub < best) {
					best, any = ub, true
				}
			}
			return best, any
		}
	case *ssa.Phi:
		if a, b, ok := g3AsMin(x); ok { // a clamp: bounded by whichever input is bounded
			ua, okA := g3UpperBound(a, d+1)
			ub, okB := g3UpperBound(b, d+1)
			switch {
			case okA && okB:
				return min(ua, ub), true
			case okA:
				return ua, true
			case okB:
				return ub, true
			}
			return 0, false
		}
		best := int64(0)
		for _, e := range x.Edges {
			if e == v {
				continue
			}
			ub, ok := g3UpperBound(e, d+1)
			if !ok {
				return 0, false
			}
			best = max(best, ub)
		}
		return best, true
	}
	return 0, false
}

// g3Write: one write into a buffer: bytes [Lo,Hi) of root (Hi < 0: to the end of the view).
type g3Write struct {
	Lo, Hi int64
	Kind   string    // byte | put | copy
	Val    ssa.Value // byte: stored value; put: the integer; copy: the source slice
	Endian string
	Instr  ssa.Instruction
}

// g3Writes lists the element stores, copy() calls and encoding/binary Put calls whose destination
// is a view of root; unknown collects writes at non-constant offsets.
func g3Writes(fn *ssa.Function, root ssa.Value) (out []g3Write, unknown []ssa.Instruction) {
	eachInstr(fn, func(in ssa.Instruction) {
		switch x := in.(type) {
		case *ssa.Store:
			ia, ok := x.Addr.(*ssa.IndexAddr)
			if !ok {
				return
			}
			ref, ok := g3ResolveBuf(ia.X, root)
			if !ok {
				return
			}
			off, ok := g3LinAdd(ref.Off, g3LinOf(ia.Index))
			if !ok || off.Base != nil {
				unknown = append(unknown, in)
				return
			}
			out = append(out, g3Write{Lo: off.K, Hi: off.K + 1, Kind: "byte", Val: x.Val, Instr: in})
		case *ssa.Call:
			var dst, val ssa.Value
			w := g3Write{Instr: in}
			if builtinName(x) == "copy" {
				dst, val, w.Kind = x.Call.Args[0], x.Call.Args[1], "copy"
			} else if e, n, put, buf, ok := g3BinaryCall(x); ok && put {
				dst, val, w.Kind, w.Endian = buf, callArgs(x)[2], "put", e
				w.Hi = int64(n)
			} else {
				return
			}
			ref, ok := g3ResolveBuf(dst, root)
			if !ok {
				return
			}
			if ref.Off.Base != nil {
				unknown = append(unknown, in)
				return
			}
			w.Lo, w.Val = ref.Off.K, val
			switch {
			case w.Kind == "put":
				w.Hi += w.Lo
			case !ref.Open && ref.Width >= 0:
				w.Hi = w.Lo + ref.Width
			default:
				w.Hi = -1
			}
			out = append(out, w)
		}
	})
	sort.SliceStable(out, func(i, j int) bool { return out[i].Lo < out[j].Lo })
	return
}

// g3After: instruction b can execute after instruction a (same block later, or in a block
// reachable from a's block).
func g3After(a, b ssa.Instruction) bool {
	if a.Block() == b.Block() {
		ia, ib := -1, -1
		for i, in := range a.Block().Instrs {
			if in == a {
				ia = i
			}
			if in == b {
				ib = i
			}
		}
		if ib > ia {
			return true
		}
	}
	seen := map[*ssa.BasicBlock]bool{}
	work := append([]*ssa.BasicBlock{}, a.Block().Succs...)
	for len(work) > 0 {
		x := work[0]
		work = work[1:]
		if seen[x] {
			continue
		}
		seen[x] = true
		if x == b.Block() {
			return true
		}
		work = append(work, x.Succs...)
	}
	return false
}

// ---------------------------------------------------------------------------------------
// G. small matchers

// g3FieldStore: in stores into field f of the struct reached from root (through embedded structs).
func g3FieldStore(in ssa.Instruction, f *types.Var, root ssa.Value) (*ssa.Store, bool) {
	st, ok := in.(*ssa.Store)
	if !ok {
		return nil, false
	}
	fa, ok := st.Addr.(*ssa.FieldAddr)
	if !ok || fieldOfAddr(fa) != f {
		return nil, false
	}
	if r, _ := addrRoot(fa); root != nil && r != root {
		return nil, false
	}
	return st, true
}

// g3FieldLoadOf: v loads field f of the struct reached from root.
func g3FieldLoadOf(f *types.Var, root ssa.Value) func(ssa.Value) bool {
	return func(v ssa.Value) bool {
		u, ok := v.(*ssa.UnOp)
		if !ok || u.Op != token.MUL {
			return false
		}
		fa, ok := u.X.(*ssa.FieldAddr)
		if !ok || fieldOfAddr(fa) != f {
			return false
		}
		r, _ := addrRoot(fa)
		return r == root
	}
}

// g3ReturnsOf lists the Return instructions of fn.
func g3ReturnsOf(fn *ssa.Function) []*ssa.Return {
	var out []*ssa.Return
	for _, b := range fn.Blocks {
		if len(b.Instrs) > 0 {
			if r, ok := b.Instrs[len(b.Instrs)-1].(*ssa.Return); ok {
				out = append(out, r)
			}
		}
	}
	return out
}

// g3MergeRegion: the blocks between the immediate dominator of a phi's block (inclusive) and the
// phi's block (exclusive) - the region whose branches select the phi's edge.
func g3MergeRegion(phi *ssa.Phi) []*ssa.BasicBlock {
	top := phi.Block().Idom()
	if top == nil {
		return nil
	}
	seen := map[*ssa.BasicBlock]bool{}
	var out []*ssa.BasicBlock
	work := append([]*ssa.BasicBlock{}, phi.Block().Preds...)
	for len(work) > 0 {
		b := work[0]
		work = work[1:]
		if seen[b] || !top.Dominates(b) {
			continue
		}
		seen[b] = true
		out = append(out, b)
		if b != top {
			work = append(work, b.Preds...)
		}
	}
	return out
}

// g3PhiLeaves flattens nested phis into (value, predecessor block it arrives from) pairs. An
// edge that carries the root phi itself (value unchanged around a loop) is a leaf with Val == root.
type g3PhiLeaf struct {
	Val  ssa.Value
	Pred *ssa.BasicBlock // block whose out-edge carries Val into the (innermost) phi
	At   *ssa.BasicBlock // the phi's block
}

func g3PhiLeaves(root ssa.Value) []g3PhiLeaf {
	var out []g3PhiLeaf
	seen := map[ssa.Value]bool{}
	var walk func(v ssa.Value, pred, at *ssa.BasicBlock)
	walk = func(v ssa.Value, pred, at *ssa.BasicBlock) {
		phi, ok := v.(*ssa.Phi)
		if !ok || (v == root && pred != nil) || seen[v] {
			out = append(out, g3PhiLeaf{v, pred, at})
			return
		}
		seen[v] = true
		for i, e := range phi.Edges {
			walk(e, phi.Block().Preds[i], phi.Block())
		}
	}
	walk(root, nil, nil)
	return out
}
