package main

import (
	"fmt"
	"go/types"
	"sort"
	"strings"

	"golang.org/x/tools/go/ssa"
)

// what "accepting lighthouse information / answering" means in a handler: recording into a
// RemoteList or the address map, sending, scheduling punches (plus whatever the effect summary
// finds: writes to lighthouse / remote-list / tunnel state, socket writes, channel sends).
var c35Named = []Ref{
	{"", "RemoteList", "unlockedSetV4"}, {"", "RemoteList", "unlockedSetV6"}, {"", "RemoteList", "unlockedSetRelay"},
	{"", "RemoteList", "unlockedPrependV4"}, {"", "RemoteList", "unlockedPrependV6"}, {"", "RemoteList", "LearnRemote"},
	{"", "LightHouse", "unlockedGetRemoteList"}, {"", "LightHouse", "QueryCache"},
	{"", "EncWriter", "SendMessageToVpnAddr"}, {"", "EncWriter", "SendMessageToHostInfo"}, {"", "EncWriter", "SendVia"},
	{"", "Punchy", "Schedule"}, {"", "Punchy", "ScheduleRespond"},
	{"", "LightHouseHandler", "sendHostPunchNotification"},
}

var c35Tracked = []string{"LightHouse", "RemoteList", "cache", "cacheV4", "cacheV6", "cacheRelay", "HostInfo", "HostMap", "HandshakeManager", "Punchy"}

var c35SetRefs = []Ref{{"", "RemoteList", "unlockedSetV4"}, {"", "RemoteList", "unlockedSetV6"}, {"", "RemoteList", "unlockedSetRelay"}}

func init() {
	register(&Property{
		ID: "C35", Title: "Lighthouse information is accepted only from authorized senders",
		Patterns:    []string{"."},
		Technique:   "CFG guard reachability over a computed effect set in the four lighthouse message handlers (guards recognised one call level down), return-only-if rules for the lighthouse membership predicates, who-may-write / who-may-call tables, message-type to handler agreement in the dispatcher, provenance of the recorded owner / subject / list key and of the sender identity handed to the dispatcher",
		LevelText:   "Structural necessary conditions on all paths: in handleHostQuery and handleHostUpdateNotification every recording, sending or scheduling call is reachable only when amLighthouse is true; in handleHostQueryReply and handleHostPunchNotification only when the sender's certificate addresses contain a configured lighthouse; IsAnyLighthouseAddr / IsLighthouseAddr answer true only on a slices.Contains hit in the configured lighthouse list, which (like amLighthouse) only configuration loading writes; the dispatcher reaches each handler only under its own message type, hands it its own sender argument and has no other effect; the handlers, the punch-notification sender and the RemoteList bulk setters have no callers outside the tabled ones and addrMap no writers outside get-or-create and delete; a host update is filed under, owned by and attributed to addresses taken from the sender's certificate addresses and never from the message; a query answer is owned by the answering lighthouse and filed under the address it is about; the dispatcher's sender argument is hostinfo.vpnAddrs of the tunnel whose Decrypt succeeded.",
		LevelNote:   "Not decided: v1/v2 message decoding (GetVpnAddrAndVersion, protobuf), whether relayed lighthouse messages should be refused (TODO in readOutsidePackets), that HostInfo.vpnAddrs are the certificate's addresses (C09), what the lighthouse puts into its answers (coalesceAnswers), histories across lighthouse.hosts reloads. The claimed-address test of host updates (slices.Contains(fromVpnAddrs, detailsVpnAddr)) is deliberately not required: owner, subject and key never come from the message, so the property holds without it.",
		Explanation: "K1 over a computed effect set per handler with one-level guard summaries, K1 return-only-if on the membership predicates, K2 writers/callers, K7 type->handler, K11 owner/subject/key/sender provenance",
		Run:         runC35,
		Canaries: func(c *Ctx) []Canary {
			return []Canary{
				{Name: "query-gate-return-inside-debug-guard", File: "lighthouse.go", Old: "\t\t\tlhh.l.Debug(\"I don't answer queries, but received one\", \"from\", addr)\n\t\t}\n\t\treturn\n\t}\n", New: "\t\t\tlhh.l.Debug(\"I don't answer queries, but received one\", \"from\", addr)\n\t\t\treturn\n\t\t}\n\t}\n", Rule: "C35.gate"},
				{Name: "query-reply-from-any-peer", File: "lighthouse.go", Old: "func (lhh *LightHouseHandler) handleHostQueryReply(n *NebulaMeta, fromVpnAddrs []netip.Addr) {\n\tif !lhh.lh.IsAnyLighthouseAddr(fromVpnAddrs) {\n\t\treturn\n\t}\n", New: "func (lhh *LightHouseHandler) handleHostQueryReply(n *NebulaMeta, fromVpnAddrs []netip.Addr) {\n", Rule: "C35.gate"},
				{Name: "punch-respond-before-sender-check", File: "lighthouse.go", Old: "func (lhh *LightHouseHandler) handleHostPunchNotification(n *NebulaMeta, fromVpnAddrs []netip.Addr, w EncWriter) {\n", New: "func (lhh *LightHouseHandler) handleHostPunchNotification(n *NebulaMeta, fromVpnAddrs []netip.Addr, w EncWriter) {\n\tif a, _, err := n.Details.GetVpnAddrAndVersion(); err == nil {\n\t\tlhh.lh.punchy.ScheduleRespond(a)\n\t}\n", Rule: "C35.gate"},
				{Name: "update-filed-under-claimed-address", File: "lighthouse.go", Old: "\tam := lhh.lh.unlockedGetRemoteList(fromVpnAddrs)\n", New: "\tam := lhh.lh.unlockedGetRemoteList([]netip.Addr{protoAddrToNetAddr(n.Details.VpnAddr)})\n", Rule: "C35.identity"},
				{Name: "update-subject-from-message", File: "lighthouse.go", Old: "\tam.unlockedSetV4(fromVpnAddrs[0], fromVpnAddrs[0], n.Details.V4AddrPorts, lhh.lh.unlockedShouldAddV4)\n", New: "\tam.unlockedSetV4(fromVpnAddrs[0], detailsVpnAddr, n.Details.V4AddrPorts, lhh.lh.unlockedShouldAddV4)\n", Rule: "C35.identity"},
				{Name: "no-lighthouses-means-everyone", File: "lighthouse.go", Old: "\tl := lh.GetLighthouses()\n\tfor i := range vpnAddrs {", New: "\tl := lh.GetLighthouses()\n\tif len(l) == 0 {\n\t\treturn true\n\t}\n\tfor i := range vpnAddrs {", Rule: "C35.lighthouse-set"},
				{Name: "moved-notification-handled-as-reply", File: "lighthouse.go", Old: "\tcase NebulaMeta_HostMovedNotification:\n", New: "\tcase NebulaMeta_HostMovedNotification:\n\t\tlhh.handleHostQueryReply(n, fromVpnAddrs)\n", Rule: "C35.dispatch"},
				{Name: "punch-notification-teaches-relays", File: "lighthouse.go", Old: "\tremoteAllowList := lhh.lh.GetRemoteAllowList()\n", New: "\tif am := lhh.lh.Query(detailsVpnAddr); am != nil {\n\t\tam.Lock()\n\t\tam.unlockedSetRelay(fromVpnAddrs[0], n.Details.GetRelays())\n\t\tam.Unlock()\n\t}\n\tremoteAllowList := lhh.lh.GetRemoteAllowList()\n", Rule: "C35.callers"},
				{Name: "relayed-message-attributed-to-relay", File: "outside.go", Old: "\t\trxc.lhh.HandleRequest(via.UdpAddr, hostinfo.vpnAddrs, out, f)\n", New: "\t\tfrom := hostinfo.vpnAddrs\n\t\tif via.IsRelayed {\n\t\t\tfrom = via.relayHI.vpnAddrs\n\t\t}\n\t\trxc.lhh.HandleRequest(via.UdpAddr, from, out, f)\n", Rule: "C35.identity"},
				{Name: "lighthouse-learned-from-handshake", File: "lighthouse.go", Old: "func (lh *LightHouse) IsLighthouseAddr(vpnAddr netip.Addr) bool {\n", New: "func (lh *LightHouse) trustAsLighthouse(vpnAddr netip.Addr) {\n\tl := append([]netip.Addr{vpnAddr}, lh.GetLighthouses()...)\n\tlh.lighthouses.Store(&l)\n}\n\nfunc (lh *LightHouse) IsLighthouseAddr(vpnAddr netip.Addr) bool {\n", Rule: "C35.config"},
			}
		},
	})
}

type c35Handler struct {
	name string
	gate string // "am": amLighthouse, "from": sender is a configured lighthouse
	typ  string // message type constant dispatched to it
}

var c35Handlers = []c35Handler{
	{"handleHostQuery", "am", "NebulaMeta_HostQuery"},
	{"handleHostQueryReply", "from", "NebulaMeta_HostQueryReply"},
	{"handleHostUpdateNotification", "am", "NebulaMeta_HostUpdateNotification"},
	{"handleHostPunchNotification", "from", "NebulaMeta_HostPunchNotification"},
}

func runC35(c *Ctx) {
	c.Rule("C35.gate", "K1: every recording / sending / scheduling call (computed effect set) of handleHostQuery and handleHostUpdateNotification is behind amLighthouse == true, of handleHostQueryReply and handleHostPunchNotification behind 'the sender's addresses contain a configured lighthouse' (guards also recognised one call level down)", 15)
	c.Rule("C35.lighthouse-set", "K1: IsAnyLighthouseAddr / IsLighthouseAddr return true only on a slices.Contains hit of an argument address in the list GetLighthouses returns, which is the configured lighthouses field", 3)
	c.Rule("C35.config", "K2: amLighthouse is written only by the constructor, the lighthouse list only by the constructor and reload (configuration)", 2)
	c.Rule("C35.dispatch", "K7/K11: HandleRequest reaches each handler only under its own message type, passes it its own sender argument and performs no other effectful call", 9)
	c.Rule("C35.callers", "K2: the four handlers are called only from HandleRequest, sendHostPunchNotification only from handleHostQuery, HandleRequest only from readOutsidePackets, the RemoteList bulk setters only from the two gated handlers and the configuration-derived calculated remotes; addrMap is written only by get-or-create, delete and the constructor", 15)
	c.Rule("C35.identity", "K11: host update: list key, owner and subject derive from the sender's certificate addresses and not from the message; query answer: owner derives from the sender, list key is the address the answer is about; the setters write the list that was looked up; the dispatcher is given hostinfo.vpnAddrs of the tunnel whose Decrypt succeeded", 17)

	funcs := c.moduleFuncs()
	es := c.newEffects(c35Tracked, rxSinks)
	fAm := c.Field("", "LightHouse", "amLighthouse")
	fLHs := c.Field("", "LightHouse", "lighthouses")
	getLHs := Ref{"", "LightHouse", "GetLighthouses"}
	containsRef := Ref{"slices", "", "Contains"}
	isLHList := func(v ssa.Value) bool {
		return derivesFrom(v, sliceLocal, func(x ssa.Value) bool { return isCallTo(getLHs)(x) || loadsField(x, fLHs) })
	}
	// "the sender is a configured lighthouse", for a sender root predicate
	mkFromLH := func(root func(ssa.Value) bool) Guard {
		from := func(v ssa.Value) bool { return derivesFrom(v, sliceLocal, root) }
		return gAny("sender is a configured lighthouse",
			gBool("IsAnyLighthouseAddr(sender)", true, -1, callTo(Ref{"", "LightHouse", "IsAnyLighthouseAddr"}).withArg(1, from)),
			gBool("IsLighthouseAddr(sender[i])", true, -1, callTo(Ref{"", "LightHouse", "IsLighthouseAddr"}).withArg(1, from)),
			gBool("slices.Contains(lighthouses, sender[i])", true, -1, CallSpec{Refs: []Ref{containsRef}, Args: map[int]func(ssa.Value) bool{0: isLHList, 1: from}}))
	}
	amLH := g5Lift(c, "configured as a lighthouse (amLighthouse)", nil, func(func(ssa.Value) bool) Guard {
		return gValBool("amLighthouse", true, func(v ssa.Value) bool { return loadsField(v, fAm) })
	})

	// ---- gates
	handlerFn := map[string]*ssa.Function{}
	sender := map[string]*ssa.Parameter{}
	for _, h := range c35Handlers {
		fn := c.Func(Ref{"", "LightHouseHandler", h.name})
		if fn == nil {
			continue
		}
		handlerFn[h.name] = fn
		p := g5Param(c, "C35.gate", fn, "sender addresses ([]netip.Addr)", g5IsAddrSlice)
		if p == nil {
			continue
		}
		sender[h.name] = p
		sinks := g5EffectSinks(es, fn, c35Named)
		if len(sinks) == 0 {
			c.Unknown("C35.gate", fnName(fn)+":effects", "no recording / sending call recognised in the handler: cannot decide")
			continue
		}
		var names []string
		for _, s := range sinks {
			names = append(names, s.Name)
		}
		c.Note("%s effect set: %s", h.name, strings.Join(names, ", "))
		if h.gate == "am" {
			g5RequireEach(c, "C35.gate", fn, sinks, g5Flagged(c, amLH), "a node that is not configured as a lighthouse would answer / record")
		} else {
			pp := p
			g := g5Lift(c, "sender is a configured lighthouse", func(x ssa.Value) bool { return x == ssa.Value(pp) }, mkFromLH)
			g5RequireEach(c, "C35.gate", fn, sinks, g5Flagged(c, g), "information from a peer that is not one of the configured lighthouses would be accepted")
		}
	}

	// ---- the membership predicates
	for _, r := range []Ref{{"", "LightHouse", "IsAnyLighthouseAddr"}, {"", "LightHouse", "IsLighthouseAddr"}} {
		fn := c.Func(r)
		if fn == nil || len(fn.Params) != 2 {
			if fn != nil {
				c.Unknown("C35.lighthouse-set", r.Name, "unexpected signature")
			}
			continue
		}
		arg := fn.Params[1]
		hit := g5Lift(c, "slices.Contains(lighthouses, argument address)", func(x ssa.Value) bool { return x == ssa.Value(arg) }, func(root func(ssa.Value) bool) Guard {
			return gBool("slices.Contains(lighthouses, argument address)", true, -1, CallSpec{Refs: []Ref{containsRef}, Args: map[int]func(ssa.Value) bool{0: isLHList, 1: func(v ssa.Value) bool { return derivesFrom(v, sliceLocal, root) }}})
		})
		c.Check(g5ReturnsOnlyIf(c, fn, 0, true, hit), "C35.lighthouse-set", r.Name+":true-only-on-hit", c.P.Pos(fn.Pos()), "true only after slices.Contains(lighthouses, addr)", r.Name+" can answer true without one of the argument's addresses being found in the configured lighthouse list: a peer that is not a lighthouse passes the sender test")
	}
	if fn := c.Func(getLHs); fn != nil {
		ok := false
		for _, b := range fn.Blocks {
			if r, isR := b.Instrs[len(b.Instrs)-1].(*ssa.Return); isR && len(r.Results) == 1 {
				ok = derivesFrom(r.Results[0], sliceThrough, func(x ssa.Value) bool { return loadsField(x, fLHs) })
			}
		}
		c.Check(ok && len(fn.Blocks) == 1, "C35.lighthouse-set", "GetLighthouses:returns-configured-list", c.P.Pos(fn.Pos()), "returns the lighthouses field", "GetLighthouses no longer returns the configured lighthouse list")
	}

	// ---- configuration writers
	g5Writers(c, "C35.config", funcs, "LightHouse", fAm, map[string]string{
		"nebula.NewLightHouseFromConfig": "constructor: lighthouse.am_lighthouse from the configuration",
	}, "amLighthouse written outside the constructor: whether the node answers queries / takes updates would no longer be its configuration")
	g5Writers(c, "C35.config", funcs, "LightHouse", fLHs, map[string]string{
		"nebula.NewLightHouseFromConfig": "constructor: empty list before the first reload",
		"(*nebula.LightHouse).reload":    "lighthouse.hosts from the configuration (parseLighthouses)",
	}, "the lighthouse list is written outside configuration loading: a peer could become an accepted source of answers and punch requests")

	// ---- dispatcher
	hr := c.Func(Ref{"", "LightHouseHandler", "HandleRequest"})
	if hr != nil {
		hrSender := g5Param(c, "C35.dispatch", hr, "sender addresses ([]netip.Addr)", g5IsAddrSlice)
		fType := c.Field("", "NebulaMeta", "Type")
		isHandlerCall := map[ssa.Instruction]bool{}
		for _, h := range c35Handlers {
			fn := handlerFn[h.name]
			kv := c.ConstVal("", h.typ)
			if fn == nil || kv == nil || hrSender == nil || sender[h.name] == nil {
				continue
			}
			k, _ := constantInt64(kv)
			calls := callsIn(hr, Ref{"", "LightHouseHandler", h.name})
			if len(calls) == 0 {
				c.Unknown("C35.dispatch", "HandleRequest:"+h.name, "the dispatcher no longer calls this handler: cannot decide")
				continue
			}
			var sinks []Sink
			pi := g5ParamIndex(fn, g5IsAddrSlice)
			okArg := true
			for _, ci := range calls {
				isHandlerCall[ci] = true
				sinks = append(sinks, Sink{Instr: ci, Desc: h.name})
				a := callArgs(ci)
				okArg = okArg && pi >= 0 && pi < len(a) && a[pi] == ssa.Value(hrSender)
			}
			c.requireGuards("C35.dispatch", hr, sinks, h.name, gCmp("message type == "+h.typ,
				func(v ssa.Value) bool { return loadsField(v, fType) },
				func(v ssa.Value) bool { kk, ok := constInt(v); return ok && kk == k }, mustEqual))
			c.Check(okArg, "C35.dispatch", "HandleRequest:"+h.name+":sender-passed-through", c.instrPos(calls[0]), "the handler receives the dispatcher's own sender argument", "the handler is given sender addresses other than the ones the dispatcher was called with")
		}
		var extra []string
		for _, s := range g5EffectSinks(es, hr, c35Named) {
			if !isHandlerCall[s.In] {
				extra = append(extra, s.Name+" at "+c.instrPos(s.In))
			}
		}
		c.Check(len(extra) == 0, "C35.dispatch", "HandleRequest:no-other-effect", c.P.Pos(hr.Pos()), "only the four gated handlers have effects", "the dispatcher itself has an ungated effect: "+strings.Join(extra, "; "))
	}

	// ---- who may call / write
	hrName := "(*nebula.LightHouseHandler).HandleRequest"
	for _, h := range c35Handlers {
		g5Callers(c, "C35.callers", funcs, Ref{"", "LightHouseHandler", h.name}, map[string]string{hrName: "the dispatcher (type-checked arm)"}, h.name+" is reachable from outside the dispatcher: its message-type and sender context are no longer established")
	}
	g5Callers(c, "C35.callers", funcs, Ref{"", "LightHouseHandler", "sendHostPunchNotification"}, map[string]string{
		"(*nebula.LightHouseHandler).handleHostQuery": "after the amLighthouse gate, for the answered query",
	}, "punch notifications sent from outside the gated query handler")
	if n := g5Callers(c, "C35.callers", funcs, Ref{"", "LightHouseHandler", "HandleRequest"}, map[string]string{
		"(*nebula.Interface).readOutsidePackets": "authenticated LightHouse message arm (C14), sender = the tunnel's certificate addresses",
	}, "lighthouse messages dispatched from a site that does not establish the sender's authenticated addresses"); n == 0 {
		c.Unknown("C35.callers", "HandleRequest", "no caller found")
	}
	setAllow := map[string]string{
		"(*nebula.LightHouseHandler).handleHostQueryReply":         "answers of a configured lighthouse (C35.gate)",
		"(*nebula.LightHouseHandler).handleHostUpdateNotification": "the authenticated sender's own update on a lighthouse (C35.gate, C35.identity)",
		"(*nebula.LightHouse).addCalculatedRemotes":                "lighthouse.calculated_remotes from the configuration, no network input",
	}
	for _, r := range c35SetRefs {
		g5Callers(c, "C35.callers", funcs, r, setAllow, "addresses / relays recorded from a site that is not one of the gated handlers or configuration")
	}
	g5Writers(c, "C35.callers", funcs, "LightHouse", c.Field("", "LightHouse", "addrMap"), map[string]string{
		"nebula.NewLightHouseFromConfig":             "constructor: empty map",
		"(*nebula.LightHouse).unlockedGetRemoteList": "get-or-create of the per-address list",
		"(*nebula.LightHouse).DeleteVpnAddrs":        "tunnel teardown (static hosts kept, C36)",
	}, "the per-address cache is written outside get-or-create / delete")

	// ---- identity
	if fn := handlerFn["handleHostUpdateNotification"]; fn != nil && sender["handleHostUpdateNotification"] != nil {
		c35Recorded(c, fn, sender["handleHostUpdateNotification"], true)
	}
	if fn := handlerFn["handleHostQueryReply"]; fn != nil && sender["handleHostQueryReply"] != nil {
		c35Recorded(c, fn, sender["handleHostQueryReply"], false)
	}
	if ro := c.Func(Ref{"", "Interface", "readOutsidePackets"}); ro != nil && hr != nil {
		fVpn := c.Field("", "HostInfo", "vpnAddrs")
		fCS := c.Field("", "HostInfo", "ConnectionState")
		pi := g5ParamIndex(hr, g5IsAddrSlice)
		calls := callsIn(ro, Ref{"", "LightHouseHandler", "HandleRequest"})
		if len(calls) == 0 || pi < 0 {
			c.Unknown("C35.identity", "readOutsidePackets:HandleRequest", "dispatcher call not found")
		}
		for i, ci := range calls {
			cons := fmt.Sprintf("readOutsidePackets:HandleRequest#%d:sender", i+1)
			a := callArgs(ci)[pi]
			tunnel := c35FieldBase(a, fVpn)
			if tunnel == nil {
				c.Bad("C35.identity", cons, c.instrPos(ci), "the sender addresses handed to the lighthouse dispatcher are not (only) the vpnAddrs of one tunnel: "+exprString(a))
				continue
			}
			sameTunnel := func(v ssa.Value) bool {
				b := c35FieldBase(v, fCS)
				return b != nil && sameVar(b, tunnel)
			}
			ok, n, path := c.mustPass(ro, Sink{Instr: ci}, gErrNil("Decrypt ok on the same tunnel", callTo(Ref{"", "ConnectionState", "Decrypt"}).withArg(0, sameTunnel)))
			if ok && n > 0 {
				c.OK("C35.identity", cons, "hostinfo.vpnAddrs of the tunnel whose Decrypt succeeded")
			} else {
				c.Bad("C35.identity", cons, c.instrPos(ci), "the sender addresses are not those of the tunnel that authenticated the message (no successful Decrypt on that tunnel's ConnectionState on the way)", path...)
			}
		}
	}
}

// c35FieldBase: v is exactly a load of field f of some base value; returns the base.
func c35FieldBase(v ssa.Value, f *typesVar) ssa.Value {
	u, ok := stripValue(v).(*ssa.UnOp)
	if !ok {
		return nil
	}
	fa, ok := u.X.(*ssa.FieldAddr)
	if !ok || f == nil || fieldOfAddr(fa) != f {
		return nil
	}
	return fa.X
}

// c35Recorded checks the provenance of what a handler records. update: the sender's own update
// (key, owner, subject all from the sender); otherwise a lighthouse answer (owner from the sender,
// key == subject).
func c35Recorded(c *Ctx, fn *ssa.Function, sender *ssa.Parameter, update bool) {
	short := fn.Name()
	msg := g5Param(c, "C35.identity", fn, "message (*NebulaMeta)", func(t types.Type) bool { return g5IsPtrToNamed(t, nebulaMod, "NebulaMeta") })
	if msg == nil {
		return
	}
	fromSender := g5From(sender)
	fromMsg := g5FromThrough(msg)
	own := func(v ssa.Value) bool { return fromSender(v) && !fromMsg(v) }
	gets := callsIn(fn, Ref{"", "LightHouse", "unlockedGetRemoteList"}, Ref{"", "LightHouse", "QueryCache"})
	sets := callsIn(fn, c35SetRefs...)
	if len(gets) != 1 || len(sets) == 0 {
		c.Unknown("C35.identity", short+":shape", fmt.Sprintf("expected one list lookup and the bulk setters, found %d / %d: unrecognised shape", len(gets), len(sets)))
		return
	}
	get := gets[0].(*ssa.Call)
	key := callArgs(get)[1]
	var subjects []ssa.Value
	ord := map[string]int{}
	sort.SliceStable(sets, func(i, j int) bool { return sets[i].Pos() < sets[j].Pos() })
	for _, ci := range sets {
		a := callArgs(ci)
		name := calleeObj(ci).Name()
		ord[name]++
		cons := fmt.Sprintf("%s:%s#%d", short, name, ord[name])
		c.Check(stripValue(a[0]) == ssa.Value(get), "C35.identity", cons+":list", c.instrPos(ci), "writes the list that was looked up", "the setter writes a RemoteList other than the one looked up for this message")
		c.Check(own(a[1]), "C35.identity", cons+":owner", c.instrPos(ci), "owner = the sender's certificate address", "the owner key under which the information is recorded does not come (only) from the authenticated sender's addresses: "+exprString(a[1]))
		if name == "unlockedSetRelay" {
			continue
		}
		if update {
			c.Check(own(a[2]), "C35.identity", cons+":subject", c.instrPos(ci), "subject = the sender's certificate address", "a host update records addresses for an overlay address taken from the message instead of the authenticated sender: "+exprString(a[2]))
		} else {
			subjects = append(subjects, a[2])
		}
	}
	if update {
		c.Check(own(key), "C35.identity", short+":list-key", c.instrPos(get), "list looked up by the sender's certificate addresses", "a host update is filed under an address list chosen by the message instead of the authenticated sender: "+exprString(key))
		return
	}
	okKey := len(subjects) > 0
	for _, s := range subjects {
		okKey = okKey && derivesFrom(key, sliceLocal, func(x ssa.Value) bool { return x == stripValue(s) })
	}
	c.Check(okKey, "C35.identity", short+":list-key", c.instrPos(get), "answer filed under the address it is about", "a query answer about one overlay address is filed in the address list of another")
}
