package main

import (
	"fmt"
	"go/constant"
	"go/token"
	"strings"

	"golang.org/x/tools/go/ssa"
)

func init() {
	register(&Property{
		ID: "C13", Title: "Nonces are never reused and the counter ceiling is enforced",
		Patterns:  []string{".", "./noiseutil"},
		Technique: "who-may-write the message counter and who-may-call EncryptDanger, value identity of reservation/nonce/header counter, linear use, dominating ok-guard, sibling ceiling guard in every cipher, lock-region containment of reservation+encryption under the encrypt-lock assumption",
		LevelText: "Structural necessary conditions decided on every path of the three encrypting sites and every CipherState implementation: the counter is written only by the atomic reservation (and the pinned ceiling store) and seeded once from the handshake; each encryption's nonce is the value its own activation reserved and is also the counter put in the header; a reservation feeds at most one encryption; encryptions happen only under ok; every cipher refuses n >= RejectAfterMessages before Seal; whenever the encrypt lock is needed, reservation and encryption lie inside one writeLock region and every exit releases it.",
		LevelNote: "Trusts sync/atomic's Add to be atomic and sync.Mutex. Not decided: more than 2^40 racing senders overshooting the pinned ceiling.",
		Explanation: "K2 writers/callers, K11 value identity, K5 linear use, K1 ok-guard, K7 sibling guard over implementers of noiseutil.CipherState, K8 threshold polarity, K4 region containment with the EncryptLockNeeded branches correlated (assumed true), constants by go/types",
		Run:       runC13,
		Configs:   []BuildConfig{{Name: "boringcrypto", Tags: []string{"boringcrypto"}, GOEXP: "boringcrypto"}},
		Canaries: func(c *Ctx) []Canary {
			return []Canary{
				{Name: "reserve-before-lock-in-prepareSendVia", File: "inside.go", Old: "\tif noiseutil.EncryptLockNeeded {\n\t\t// NOTE: for goboring AESGCMTLS we need to lock because of the nonce check\n\t\tvia.ConnectionState.writeLock.Lock()\n\t}\n\tc, ok := via.ConnectionState.NextMessageCounter()\n", New: "\tc, ok := via.ConnectionState.NextMessageCounter()\n\tif noiseutil.EncryptLockNeeded {\n\t\t// NOTE: for goboring AESGCMTLS we need to lock because of the nonce check\n\t\tvia.ConnectionState.writeLock.Lock()\n\t}\n", Rule: "C13.region"},
				{Name: "chacha-ceiling-strict", File: "noiseutil/chachapoly.go", Old: "if n >= RejectAfterMessages {", New: "if n > RejectAfterMessages {", Rule: "C13.ceiling"},
				{Name: "helper-stores-counter", File: "connection_state.go", Old: "func (cs *ConnectionState) Curve() cert.Curve {", New: "func (cs *ConnectionState) resetCounter() { cs.messageCounter.Store(0) }\n\nfunc (cs *ConnectionState) Curve() cert.Curve {", Rule: "C13.counter-writers"},
				{Name: "sendNoMetrics-ignores-ok", File: "inside.go", Old: "\tc, ok := ci.NextMessageCounter()\n\tif !ok {\n\t\tif noiseutil.EncryptLockNeeded {\n\t\t\tci.writeLock.Unlock()\n\t\t}\n\t\tf.dropExhausted(hostinfo, c, \"Dropping outbound packets, tunnel message counter is exhausted\")\n\t\treturn\n\t}\n", New: "\tc, _ := ci.NextMessageCounter()\n", Rule: "C13.ok-guard"},
				{Name: "header-counter-differs-from-nonce", File: "inside.go", Old: "out = header.Encode(out, header.Version, t, st, hostinfo.remoteIndexId, c)", New: "out = header.Encode(out, header.Version, t, st, hostinfo.remoteIndexId, ci.messageCounter.Load())", Rule: "C13.nonce-identity"},
				{Name: "early-unlock-before-encrypt", File: "inside.go", Old: "\tvar err error\n\tout, err = ci.eKey.EncryptDanger(out, out, p, c, nb)\n\tif noiseutil.EncryptLockNeeded {\n\t\tci.writeLock.Unlock()\n\t}\n", New: "\tvar err error\n\tif noiseutil.EncryptLockNeeded {\n\t\tci.writeLock.Unlock()\n\t}\n\tout, err = ci.eKey.EncryptDanger(out, out, p, c, nb)\n", Rule: "C13.region"},
			}
		},
	})
}

var encSites = []Ref{{"", "Interface", "sendInsideEncrypt"}, {"", "Interface", "prepareSendVia"}, {"", "Interface", "sendNoMetrics"}}

func runC13(c *Ctx) {
	c.Rule("C13.counter-writers", "K2: ConnectionState.messageCounter is written only by NextMessageCounter, sendInsideEncrypt (atomic Add(1)) and the constructor seed", 1)
	c.Rule("C13.encrypt-callers", "K2: CipherState.EncryptDanger on a tunnel's eKey is called only from the three tabled send functions", 3)
	c.Rule("C13.nonce-identity", "K11/K5: at each site the nonce is the value reserved in the same activation, the header counter is the same value, and the reservation feeds exactly one encryption outside any loop", 3)
	c.Rule("C13.ok-guard", "K1: encryption after NextMessageCounter happens only when ok is true", 2)
	c.Rule("C13.ceiling", "K7/K8: every EncryptDanger implementation refuses n >= RejectAfterMessages before calling Seal; NextMessageCounter reports ok exactly when c < RejectAfterMessages; constants ordered", 4)
	c.Rule("C13.region", "K4: when EncryptLockNeeded, the reservation and EncryptDanger are both inside one writeLock region (no release between them) and every return leaves the lock released", 3)
	c.Rule("C13.seed", "K11: the constructor seeds messageCounter from the handshake's MessageIndex before the ConnectionState is returned", 1)

	funcs := c.moduleFuncs()
	mc := c.Field("", "ConnectionState", "messageCounter")
	if mc == nil {
		return
	}
	// ---- writers
	allowW := map[string]bool{"(*nebula.ConnectionState).NextMessageCounter": true, "(*nebula.Interface).sendInsideEncrypt": true, "nebula.newConnectionStateFromResult": true}
	ws := fieldWriters(funcs, mc)
	badW := 0
	for _, w := range ws {
		if !allowW[fnName(topFunc(w.Fn))] || c.isTestHelperFile(w.Instr) {
			if c.isTestHelperFile(w.Instr) {
				continue
			}
			badW++
			c.Bad("C13.counter-writers", "messageCounter<-"+fnName(topFunc(w.Fn)), c.instrPos(w.Instr), fmt.Sprintf("%s of the message counter outside the reservation functions", w.Kind))
		}
	}
	if badW == 0 {
		c.OK("C13.counter-writers", "messageCounter", fmt.Sprintf("%d write sites, all in the tabled functions", len(ws)))
	}
	// ---- callers of EncryptDanger
	encRef := Ref{"noiseutil", "CipherState", "EncryptDanger"}
	allowE := map[string]bool{}
	for _, r := range encSites {
		if f := c.Func(r); f != nil {
			allowE[fnName(f)] = true
		}
	}
	for _, s := range callersOf(funcs, encRef) {
		if c.isTestHelperFile(s.Instr) || !strings.HasPrefix(s.Fn.Pkg.Pkg.Path(), nebulaMod) || s.Fn.Pkg.Pkg.Path() != nebulaMod {
			continue
		}
		n := fnName(topFunc(s.Fn))
		c.Check(allowE[n], "C13.encrypt-callers", "EncryptDanger<-"+n, c.instrPos(s.Instr), "tabled encrypting site", "EncryptDanger called from a function that is not one of the three audited send paths")
	}
	// ---- per-site rules
	for _, r := range encSites {
		fn := c.Func(r)
		if fn == nil {
			continue
		}
		c13Site(c, fn, mc)
	}
	c13Ceiling(c)
	// ---- seed
	if fn := c.Func(Ref{"", "", "newConnectionStateFromResult"}); fn != nil {
		mi := c.Field("handshake", "Result", "MessageIndex")
		ok := false
		eachInstr(fn, func(in ssa.Instruction) {
			if call, isC := in.(*ssa.Call); isC {
				if o := calleeObj(call); o != nil && o.Name() == "Add" && o.Pkg() != nil && o.Pkg().Path() == "sync/atomic" {
					a := callArgs(call)
					if fa, isF := a[0].(*ssa.FieldAddr); isF && fieldOfAddr(fa) == mc && loadsField(a[1], mi) {
						ok = true
					}
				}
			}
		})
		c.Check(ok, "C13.seed", "newConnectionStateFromResult", c.P.Pos(fn.Pos()), "messageCounter.Add(r.MessageIndex)", "the counter is not seeded from the handshake's message index: the first data packets would reuse handshake nonces")
	}
}

func (c *Ctx) isTestHelperFile(in ssa.Instruction) bool {
	f := c.fileOf(in.Pos())
	if f == "" && in.Block() != nil {
		f = c.fileOf(in.Block().Parent().Pos())
	}
	return strings.HasSuffix(f, "_test.go") || strings.HasSuffix(f, "_tester.go")
}

// reservation: Extract #0 of NextMessageCounter(), or the result of messageCounter.Add(1)
func c13Reservations(fn *ssa.Function, mc *typesVar) []ssa.Value {
	var out []ssa.Value
	eachInstr(fn, func(in ssa.Instruction) {
		call, ok := in.(*ssa.Call)
		if !ok {
			return
		}
		o := calleeObj(call)
		if matchFunc(o, Ref{"", "ConnectionState", "NextMessageCounter"}) {
			out = append(out, call)
			return
		}
		if o != nil && o.Name() == "Add" && o.Pkg() != nil && o.Pkg().Path() == "sync/atomic" {
			a := callArgs(call)
			if fa, isF := a[0].(*ssa.FieldAddr); isF && fieldOfAddr(fa) == mc {
				out = append(out, call)
			}
		}
	})
	return out
}

func c13Site(c *Ctx, fn *ssa.Function, mc *typesVar) {
	name := fnName(fn)
	encs := callsIn(fn, Ref{"noiseutil", "CipherState", "EncryptDanger"})
	res := c13Reservations(fn, mc)
	if len(encs) != 1 || len(res) != 1 {
		c.Bad("C13.nonce-identity", name, c.P.Pos(fn.Pos()), fmt.Sprintf("expected exactly one reservation and one EncryptDanger in this function, found %d and %d: a reservation must feed exactly one encryption", len(res), len(encs)))
		return
	}
	enc := encs[0].(*ssa.Call)
	resCall := res[0].(*ssa.Call)
	// the value c
	isC := func(v ssa.Value) bool {
		v = stripValue(v)
		if v == resCall && resCall.Type().Underlying() != nil {
			if _, tup := resCall.Type().(*typesTuple); !tup {
				return true
			}
		}
		if ex, ok := v.(*ssa.Extract); ok && ex.Tuple == resCall && ex.Index == 0 {
			return true
		}
		return false
	}
	nonce := callArgs(enc)[4]
	okN := isC(nonce)
	c.Check(okN, "C13.nonce-identity", name+":nonce", c.instrPos(enc), "nonce is the reserved counter", "the nonce passed to EncryptDanger is not the value reserved by this activation: "+exprString(nonce))
	// header counter
	hdrs := callsIn(fn, Ref{"header", "", "Encode"})
	okH := len(hdrs) >= 1
	for _, h := range hdrs {
		a := h.Common().Args
		okH = okH && isC(a[len(a)-1])
	}
	c.Check(okH, "C13.nonce-identity", name+":header-counter", c.P.Pos(fn.Pos()), "header counter is the reserved counter", "the counter written into the packet header is not the reserved nonce (receiver would authenticate under another nonce / replay window desynchronised)")
	// linear: neither in a loop
	loops := naturalLoops(fn)
	c.Check(!inAnyLoop(loops, enc.Block()) && !inAnyLoop(loops, resCall.Block()), "C13.nonce-identity", name+":linear", c.instrPos(enc), "one reservation, one encryption, no loop", "reservation or encryption sits in a loop: one reserved counter could be used for several encryptions")
	// ok guard
	if matchFunc(calleeObj(resCall), Ref{"", "ConnectionState", "NextMessageCounter"}) {
		g := gValBool("ok (NextMessageCounter)", true, func(v ssa.Value) bool {
			ex, isE := stripValue(v).(*ssa.Extract)
			return isE && ex.Tuple == resCall && ex.Index == 1
		})
		c.requireGuards("C13.ok-guard", fn, []Sink{{Instr: enc, Desc: "EncryptDanger"}}, "EncryptDanger", g)
	}
	// lock region (assume the flag is true in the default config; constant under boringcrypto)
	assume := assumeGlobalBool("noiseutil", "EncryptLockNeeded", true)
	lf := lockFlow(fn, nil, assume)
	key := lockKey("ConnectionState.writeLock")
	for _, pt := range []struct {
		in   ssa.Instruction
		what string
	}{{resCall, "reservation"}, {enc, "EncryptDanger"}} {
		m, live := lf.mustAt(pt.in, key)
		if !live {
			c.Unknown("C13.region", name+":"+pt.what, "unreachable under the encrypt-lock assumption")
			continue
		}
		c.Check(m == lkW, "C13.region", name+":"+pt.what+"-under-writeLock", c.instrPos(pt.in), "writeLock held", "when the encrypt lock is needed, the "+pt.what+" runs without writeLock held on some path: counters can reach the cipher out of order")
	}
	if hit, bad := pathHits(resCall, enc, assume, func(in ssa.Instruction) bool {
		ci, ok := in.(ssa.CallInstruction)
		if !ok {
			return false
		}
		k, op, ok := lockOpOf(ci)
		return ok && k == key && op == "Unlock"
	}); bad {
		c.Bad("C13.region", name+":one-region", c.instrPos(hit), "writeLock is released between the reservation and the encryption: another sender can slip a higher counter into the cipher first")
	} else {
		c.OK("C13.region", name+":one-region", "no release between reservation and encryption")
	}
	// every return leaves the lock released
	okRel := true
	for _, b := range fn.Blocks {
		if len(b.Instrs) == 0 || !lf.live[b] {
			continue
		}
		if ret, isR := b.Instrs[len(b.Instrs)-1].(*ssa.Return); isR {
			if m, _ := lf.mayAt(ret, key); m != lkNone {
				okRel = false
				c.Bad("C13.region", name+":released-on-exit", c.instrPos(ret), "a return path leaves writeLock held: the next sender on this tunnel blocks forever")
			}
		}
	}
	if okRel {
		c.OK("C13.region", name+":released-on-exit", "every exit releases writeLock")
	}
}

func c13Ceiling(c *Ctx) {
	rej := c.ConstVal("noiseutil", "RejectAfterMessages")
	head := c.ConstVal("noiseutil", "RejectHeadroom")
	reh := c.ConstVal("", "RehandshakeAfterMessages")
	if rej == nil || head == nil || reh == nil {
		return
	}
	maxU := constant.MakeUint64(^uint64(0))
	c.Check(constant.Compare(constant.BinaryOp(maxU, token.SUB, head), token.EQL, rej) && constant.Compare(reh, token.LSS, rej) && constant.Sign(head) > 0,
		"C13.ceiling", "constants", "noiseutil/cipher_state.go", "RejectAfterMessages = MaxUint64 - headroom, RehandshakeAfterMessages below it", "ceiling constants are inconsistent")
	rejU, _ := constant.Uint64Val(rej)
	isRej := func(v ssa.Value) bool { u, ok := constUint(v); return ok && u == rejU }
	// every implementer of EncryptDanger in noiseutil
	iface := c.NamedType("noiseutil", "CipherState")
	if iface == nil {
		return
	}
	n := 0
	for _, fn := range c.moduleFuncs() {
		if fn.Name() != "EncryptDanger" || fn.Signature.Recv() == nil || fn.Pkg == nil || fn.Pkg.Pkg.Path() != PkgPath("noiseutil") {
			continue
		}
		if c.isTestFile(fn.Pos()) {
			continue
		}
		n++
		var pn *ssa.Parameter
		for _, p := range fn.Params {
			if p.Name() == "n" {
				pn = p
			}
		}
		if pn == nil && len(fn.Params) >= 5 {
			pn = fn.Params[4]
		}
		sealSpec := CallSpec{Refs: []Ref{{"crypto/cipher", "AEAD", "Seal"}, {"noiseutil", "aeadGCMFIPS140Cipher", "Seal"}}}
		sinks := callSinks(fn, "Seal", sealSpec)
		// delegation: a call to another function of the package that seals without a ceiling test of its own is a seal
		eachInstr(fn, func(in ssa.Instruction) {
			ci, ok := in.(ssa.CallInstruction)
			if !ok {
				return
			}
			g := ci.Common().StaticCallee()
			if g == nil || g == fn || g.Pkg == nil || g.Pkg.Pkg.Path() != PkgPath("noiseutil") || g.Blocks == nil {
				return
			}
			inner := callSinks(g, "Seal", sealSpec)
			if len(inner) == 0 {
				return
			}
			guarded := true
			gg := gCmp("n < RejectAfterMessages", func(v ssa.Value) bool { _, isP := stripValue(v).(*ssa.Parameter); return isP }, isRej, func(op token.Token) (bool, bool) {
				switch op {
				case token.GEQ:
					return true, false
				case token.LSS:
					return true, true
				}
				return false, false
			})
			for _, sk := range inner {
				if ok, n, _ := c.mustPass(g, sk, gg); !ok || n == 0 {
					guarded = false
				}
			}
			if !guarded {
				sinks = append(sinks, Sink{Instr: in, Desc: "Seal (through " + g.Name() + ", which has no ceiling test)"})
			}
		})
		g := gCmp("n < RejectAfterMessages", func(v ssa.Value) bool { return v == pn }, isRej, func(op token.Token) (bool, bool) {
			switch op {
			case token.GEQ:
				return true, false
			case token.LSS:
				return true, true
			}
			return false, false
		})
		c.requireGuards("C13.ceiling", fn, sinks, "Seal", g)
	}
	if n < 2 {
		c.Unknown("C13.ceiling", "implementers", fmt.Sprintf("only %d EncryptDanger implementations found", n))
	}
	// NextMessageCounter table
	if fn := c.Func(Ref{"", "ConnectionState", "NextMessageCounter"}); fn != nil {
		var diffs []string
		for rel := -1; rel <= 1; rel++ {
			r := rel
			res, err := absEval(fn, &AbsEnv{
				Oracle: func(o *typesFunc, args []AVal) (AVal, bool) {
					if o.Pkg() != nil && o.Pkg().Path() == "sync/atomic" {
						return aSym("c"), true
					}
					return AVal{}, false
				},
				SymCmp: func(op token.Token, a, b AVal) (bool, bool) {
					if a.Sym == "c" && b.isConst() {
						return constant.Compare(constant.MakeInt64(int64(r)), op, constant.MakeInt64(0)), true
					}
					return false, false
				},
			})
			if err != "" {
				// the pinned Store is a store to non-local memory through an atomic call -> oracle handles; other errors undecided
				c.Unknown("C13.ceiling", "NextMessageCounter-table", "left the supported fragment: "+err)
				diffs = nil
				break
			}
			gotOK := constant.BoolVal(res[1].K)
			if gotOK != (r < 0) {
				diffs = append(diffs, fmt.Sprintf("c %s RejectAfterMessages: ok=%v", relStr(r), gotOK))
			}
		}
		c.Check(len(diffs) == 0, "C13.ceiling", "NextMessageCounter-table", c.P.Pos(fn.Pos()), "ok == (c < RejectAfterMessages) for c <,=,> ceiling", strings.Join(diffs, "; "))
	}
}
