package main

import (
	"fmt"

	"golang.org/x/tools/go/ssa"
)

func init() {
	register(&Property{
		ID: "C05", Title: "A handshake completes only with an authenticated peer",
		Patterns:  []string{".", "./handshake", "./cert"},
		Technique: "who-may-write the completion flags and keys, CFG guard reachability on validateCert / ProcessPacket / Recombine, provenance of the compared public key and verified certificate, who-may-construct tunnel state",
		LevelText: "Structural necessary conditions on all paths: a non-nil handshake Result is handed out only through completed() after requireComplete() (payload and verified certificate both recorded); the certificate flag is set only after Recombine with the Noise peer-static key succeeded, the recombined certificate's public key equals that peer-static key, and the trust verifier accepted exactly that certificate, whose cached form is what the Result reports; the verifier closure is VerifyCertificate against the current CA pool at the current time; tunnel state (ConnectionState, hostmap insertion) is built only from such a Result.",
		LevelNote: "Not decided: that Noise IX proves possession of the static key (protocol/crypto), adversarial interleavings of several sessions. The verifier is a function value: its identity is checked at the two NewMachine call sites.",
		Explanation: "K2 writers (remoteCertSet, payloadSet, Result.EKey/DKey/RemoteCert), K1 guards in validateCert/ProcessPacket/requireComplete/cert.Recombine, K11 provenance (PeerStatic feeds Recombine and the equality test; verifier result feeds RemoteCert), K2 constructors/callers in the root package",
		Run:       runC05,
		Canaries: func(c *Ctx) []Canary {
			return []Canary{
				{Name: "drop-pubkey-equality", File: "handshake/machine.go", Old: "\tif !bytes.Equal(rc.PublicKey(), m.hs.PeerStatic()) {\n\t\tm.failed = true\n\t\treturn ErrPublicKeyMismatch\n\t}\n", New: "\t_ = bytes.Equal\n", Rule: "C05.cert-bound"},
				{Name: "flag-set-before-verifier", File: "handshake/machine.go", Old: "\tverified, err := m.verifier(rc)\n", New: "\tm.remoteCertSet = true\n\tverified, err := m.verifier(rc)\n", Rule: "C05.cert-bound"},
				{Name: "complete-without-requireComplete", File: "handshake/machine.go", Old: "\t\tif err := m.requireComplete(); err != nil {\n\t\t\treturn nil, nil, err\n\t\t}\n\t\treturn nil, m.completed(eKey, dKey), nil", New: "\t\treturn nil, m.completed(eKey, dKey), nil", Rule: "C05.complete"},
				{Name: "compare-key-with-payload", File: "handshake/machine.go", Old: "if !bytes.Equal(rc.PublicKey(), m.hs.PeerStatic()) {", New: "if !bytes.Equal(rc.PublicKey(), rc.PublicKey()) {", Rule: "C05.cert-bound"},
				{Name: "verifier-uses-zero-time", File: "handshake_manager.go", Old: "return hm.f.pki.GetCAPool().VerifyCertificate(time.Now(), c)", New: "return hm.f.pki.GetCAPool().VerifyCertificate(time.Time{}, c)", Rule: "C05.verifier"},
				{Name: "requireComplete-needs-only-payload", File: "handshake/machine.go", Old: "if !m.payloadSet || !m.remoteCertSet {", New: "if !m.payloadSet {", Rule: "C05.complete"},
			}
		},
	})
}

func runC05(c *Ctx) {
	c.Rule("C05.writers", "K2: Machine.remoteCertSet and Result.RemoteCert are written only in validateCert, payloadSet only in processPayload, Result.EKey/DKey only in completed", 5)
	c.Rule("C05.cert-bound", "K1/K11: remoteCertSet=true is reached only after Recombine(…, hs.PeerStatic(), …) succeeded, bytes.Equal(rc.PublicKey(), hs.PeerStatic()) held and verifier(rc) returned nil; Result.RemoteCert is the verifier's result", 4)
	c.Rule("C05.complete", "K1: every completed() call is behind requireComplete()==nil and both keys non-nil; a non-nil *Result is returned only as completed()'s value; requireComplete succeeds only with both flags", 6)
	c.Rule("C05.recombine", "K1: cert.Recombine succeeds only with a peer static key, a decoder arm, and the expected curve", 3)
	c.Rule("C05.verifier", "K11/K2: the verifier handed to every NewMachine is certVerifier(), which returns GetCAPool().VerifyCertificate(time.Now(), c); ConnectionState is built only by newConnectionStateFromResult with peerCert = Result.RemoteCert; hostmap insertion only from CheckAndComplete/Complete", 5)

	funcs := c.moduleFuncs()
	mach := func(f string) *typesVar { return c.Field("handshake", "Machine", f) }
	resF := func(f string) *typesVar { return c.Field("handshake", "Result", f) }
	fRemoteCertSet, fPayloadSet, fVerifier := mach("remoteCertSet"), mach("payloadSet"), mach("verifier")
	type wr struct {
		f     *typesVar
		name  string
		allow map[string]bool
	}
	for _, w := range []wr{
		{fRemoteCertSet, "Machine.remoteCertSet", map[string]bool{"(*handshake.Machine).validateCert": true}},
		{fPayloadSet, "Machine.payloadSet", map[string]bool{"(*handshake.Machine).processPayload": true}},
		{resF("RemoteCert"), "Result.RemoteCert", map[string]bool{"(*handshake.Machine).validateCert": true}},
		{resF("EKey"), "Result.EKey", map[string]bool{"(*handshake.Machine).completed": true}},
		{resF("DKey"), "Result.DKey", map[string]bool{"(*handshake.Machine).completed": true}},
	} {
		if w.f == nil {
			continue
		}
		ws := fieldWriters(funcs, w.f)
		bad := 0
		for _, s := range ws {
			if c.isTestHelperFile(s.Instr) {
				continue
			}
			n := fnName(topFunc(s.Fn))
			if !w.allow[n] {
				bad++
				c.Bad("C05.writers", w.name+"<-"+n, c.instrPos(s.Instr), fmt.Sprintf("%s of %s outside its single owner function", s.Kind, w.name))
			}
		}
		if bad == 0 {
			c.OK("C05.writers", w.name, fmt.Sprintf("%d write site(s), owner only", len(ws)))
		}
	}
	// ---- validateCert
	if fn := c.Func(Ref{"handshake", "Machine", "validateCert"}); fn != nil && fRemoteCertSet != nil {
		peerStatic := Ref{"github.com/flynn/noise", "HandshakeState", "PeerStatic"}
		isPeerStatic := func(v ssa.Value) bool {
			call, _ := callOf(v)
			return call != nil && matchFunc(calleeObj(call), peerStatic)
		}
		isRC := func(v ssa.Value) bool { // the recombined certificate
			return derivesFrom(v, sliceLocal, isCallTo(Ref{"cert", "", "Recombine"})) && !isPeerStatic(v)
		}
		var sinks []Sink
		eachInstr(fn, func(in ssa.Instruction) {
			if st, ok := in.(*ssa.Store); ok {
				if fa, ok := st.Addr.(*ssa.FieldAddr); ok && fieldOfAddr(fa) == fRemoteCertSet {
					if bv, isC := boolConst(st.Val); !isC || bv {
						sinks = append(sinks, Sink{Instr: st, Desc: "remoteCertSet = true"})
					}
				}
			}
		})
		verifierCall := func(call ssa.CallInstruction) bool {
			cc := call.Common()
			return !cc.IsInvoke() && loadsField(cc.Value, fVerifier) && len(cc.Args) == 1 && isRC(cc.Args[0])
		}
		gVerifier := Guard{Name: "verifier(rc) == nil", Match: func(cd Cond, _ *ssa.If) (bool, bool) {
			if cd.Kind != CondNotNil {
				return false, false
			}
			call, _ := callOf(cd.Base)
			if call == nil || !verifierCall(call) {
				return false, false
			}
			return true, cd.Neg
		}}
		c.requireGuards("C05.cert-bound", fn, sinks, "remoteCertSet=true",
			gErrNil("Recombine(…, hs.PeerStatic(), …) ok", callTo(Ref{"cert", "", "Recombine"}).withArg(2, isPeerStatic)),
			gBool("bytes.Equal(rc.PublicKey(), hs.PeerStatic())", true, -1, CallSpec{Refs: []Ref{{"bytes", "", "Equal"}}, Args: map[int]func(ssa.Value) bool{
				0: func(v ssa.Value) bool {
					call, _ := callOf(v)
					return call != nil && matchFunc(calleeObj(call), certM("PublicKey")) && isRC(callArgs(call)[0])
				},
				1: isPeerStatic}}),
			gVerifier,
		)
		// Result.RemoteCert <- verifier's first result
		okRC, nRC := true, 0
		eachInstr(fn, func(in ssa.Instruction) {
			if st, ok := in.(*ssa.Store); ok {
				if fa, ok := st.Addr.(*ssa.FieldAddr); ok && fieldOfAddr(fa) == resF("RemoteCert") {
					nRC++
					call, idx := callOf(st.Val)
					okRC = okRC && call != nil && idx == 0 && verifierCall(call)
				}
			}
		})
		c.Check(okRC && nRC > 0, "C05.cert-bound", "Result.RemoteCert<-verifier(rc)", c.P.Pos(fn.Pos()), "reported certificate is the verifier's output for the recombined certificate", "the certificate reported in the Result is not the one the verifier accepted")
	}
	// ---- ProcessPacket / completion (completed() may be called from ProcessPacket or from a helper it delegates to)
	if pp := c.Func(Ref{"handshake", "Machine", "ProcessPacket"}); pp != nil {
		compRef := Ref{"handshake", "Machine", "completed"}
		nComp := 0
		for _, fn := range c.moduleFuncs() {
			if fn.Pkg == nil || fn.Pkg != pp.Pkg {
				continue
			}
			comp := callSinks(fn, "completed()", callTo(compRef))
			if len(comp) == 0 {
				continue
			}
			c.Funcs[fn.String()] = true
			nComp += len(comp)
			c.requireGuards("C05.complete", fn, comp, "completed()", gErrNil("requireComplete() == nil", callTo(Ref{"handshake", "Machine", "requireComplete"})))
			// both keys non-nil at each completed(a,b)
			for i, s := range comp {
				a := callArgs(s.Instr.(ssa.CallInstruction))
				for k := 1; k <= 2; k++ {
					kv := a[k]
					g := gValNotNil(fmt.Sprintf("key#%d != nil", k), func(v ssa.Value) bool { return v == kv })
					ok, _, path := c.mustPass(fn, s, g)
					cons := fmt.Sprintf("%s:completed#%d:key%d-nonnil", fn.Name(), i, k)
					if ok {
						c.OK("C05.complete", cons, "guarded")
					} else {
						c.Bad("C05.complete", cons, c.instrPos(s.Instr), "completed() can be reached with a nil cipher key", path...)
					}
				}
			}
		}
		if nComp == 0 {
			c.Unknown("C05.complete", "handshake:completed()", "no call of completed() found in the package")
		}
		// returned *Result non-nil only from completed(), directly or as the matching result of a same-package helper
		var fromCompleted func(v ssa.Value, d int) bool
		fromCompleted = func(v ssa.Value, d int) bool {
			v = stripValue(v)
			if isNilConst(v) {
				return true
			}
			if d > 3 {
				return false
			}
			if phi, ok := v.(*ssa.Phi); ok {
				for _, e := range phi.Edges {
					if e != ssa.Value(phi) && !fromCompleted(e, d+1) {
						return false
					}
				}
				return true
			}
			call, idx := callOf(v)
			if call == nil {
				return false
			}
			if matchFunc(calleeObj(call), compRef) {
				return true
			}
			h := call.Common().StaticCallee()
			if h == nil || h.Pkg != pp.Pkg || h.Blocks == nil {
				return false
			}
			if idx < 0 {
				idx = 0
			}
			for _, b := range h.Blocks {
				if ret, isR := b.Instrs[len(b.Instrs)-1].(*ssa.Return); isR {
					if idx >= len(ret.Results) || !fromCompleted(ret.Results[idx], d+1) {
						return false
					}
				}
			}
			return true
		}
		okR := true
		for _, b := range pp.Blocks {
			if ret, isR := b.Instrs[len(b.Instrs)-1].(*ssa.Return); isR {
				if !fromCompleted(retResult(ret, 1), 0) {
					okR = false
					c.Bad("C05.complete", "ProcessPacket:result-source", c.instrPos(ret), "a non-nil Result is returned that is not completed()'s value")
				}
			}
		}
		if okR {
			c.OK("C05.complete", "ProcessPacket:result-source", "non-nil Result only via completed()")
		}
	}
	if fn := c.Func(Ref{"handshake", "Machine", "requireComplete"}); fn != nil {
		c.requireGuards("C05.complete", fn, successReturns(fn, 0), "nil-return",
			gValBool("payloadSet", true, func(v ssa.Value) bool { return loadsField(v, fPayloadSet) }),
			gValBool("remoteCertSet", true, func(v ssa.Value) bool { return loadsField(v, fRemoteCertSet) }))
	}
	// ---- Recombine
	if fn := c.Func(Ref{"cert", "", "Recombine"}); fn != nil {
		pk, curve := fn.Params[2], fn.Params[3]
		c.requireGuards("C05.recombine", fn, successReturns(fn, 1), "success-return",
			gValNotNil("publicKey != nil", func(v ssa.Value) bool { return v == pk }),
			gErrNil("decoder ok", callTo(Ref{"cert", "", "unmarshalCertificateV1"}, Ref{"cert", "", "unmarshalCertificateV2"}).withArg(1, func(v ssa.Value) bool { return v == pk })),
			gCmp("c.Curve() == curve", isCallTo(certM("Curve")), func(v ssa.Value) bool { return v == curve }, mustEqual))
	}
	// ---- root package wiring
	if c.P.SSAPkgs[nebulaMod] == nil {
		c.Unknown("C05.verifier", "root", "root package not loaded")
		return
	}
	if cv := c.Func(Ref{"", "HandshakeManager", "certVerifier"}); cv != nil {
		ok := false
		for _, cl := range cv.AnonFuncs {
			for _, s := range successReturns(cl, 1) {
				ret := s.Instr.(*ssa.Return)
				call, _ := callOf(retResult(ret, 0))
				if call != nil && matchFunc(calleeObj(call), Ref{"cert", "CAPool", "VerifyCertificate"}) {
					a := callArgs(call)
					now, _ := callOf(a[1])
					pool, _ := callOf(a[0])
					ok = now != nil && matchFunc(calleeObj(now), Ref{"time", "", "Now"}) && pool != nil && matchFunc(calleeObj(pool), Ref{"", "PKI", "GetCAPool"}) && stripValue(a[2]) == cl.Params[0]
				}
			}
		}
		c.Check(ok, "C05.verifier", "certVerifier", c.P.Pos(cv.Pos()), "GetCAPool().VerifyCertificate(time.Now(), c)", "the handshake verifier is not a full VerifyCertificate of the presented certificate against the current pool at the current time")
	}
	n := 0
	for _, s := range callersOf(funcs, Ref{"handshake", "", "NewMachine"}) {
		if c.isTestHelperFile(s.Instr) || pkgPathOf(s.Fn) != nebulaMod {
			continue
		}
		n++
		ci := s.Instr.(ssa.CallInstruction)
		call, _ := callOf(ci.Common().Args[2])
		ok := call != nil && matchFunc(calleeObj(call), Ref{"", "HandshakeManager", "certVerifier"})
		c.Check(ok, "C05.verifier", fmt.Sprintf("NewMachine#%d-in-%s", n, fnName(topFunc(s.Fn))), c.instrPos(s.Instr), "verifier = hm.certVerifier()", "a handshake machine is created with a verifier other than certVerifier()")
	}
	if n < 2 {
		c.Unknown("C05.verifier", "NewMachine-sites", fmt.Sprintf("%d NewMachine call sites found, 2 expected", n))
	}
	// ConnectionState constructed only by newConnectionStateFromResult; peerCert <- r.RemoteCert
	cs := c.NamedType("", "ConnectionState")
	if cs != nil {
		for _, fn := range funcs {
			if c.isTestFile(fn.Pos()) || pkgPathOf(fn) != nebulaMod || strings_HasSuffix(c.fileOf(fn.Pos()), "_tester.go") {
				continue
			}
			eachInstr(fn, func(in ssa.Instruction) {
				if al, ok := in.(*ssa.Alloc); ok {
					if n := allocNamed(al); n != nil && n.Obj() == cs.Obj() {
						nm := fnName(topFunc(fn))
						c.Check(nm == "nebula.newConnectionStateFromResult", "C05.verifier", "ConnectionState-constructed-in:"+nm, c.instrPos(al), "single constructor", "a ConnectionState is constructed outside newConnectionStateFromResult (tunnel keys/cert not taken from a completed handshake)")
					}
				}
			})
		}
		if fn := c.Func(Ref{"", "", "newConnectionStateFromResult"}); fn != nil {
			w := fieldsWrittenBy(fn, cs)
			ok := w["peerCert"] != nil && loadsField(w["peerCert"], resF("RemoteCert"))
			c.Check(ok, "C05.verifier", "ConnectionState.peerCert<-Result.RemoteCert", c.P.Pos(fn.Pos()), "peer certificate is the handshake's verified certificate", "ConnectionState.peerCert is not the verified certificate of the handshake result")
		}
	}
	allowAdd := map[string]bool{"(*nebula.HandshakeManager).CheckAndComplete": true, "(*nebula.HandshakeManager).Complete": true}
	for _, s := range callersOf(funcs, Ref{"", "HostMap", "unlockedAddHostInfo"}) {
		if c.isTestHelperFile(s.Instr) {
			continue
		}
		nm := fnName(topFunc(s.Fn))
		c.Check(allowAdd[nm], "C05.verifier", "unlockedAddHostInfo<-"+nm, c.instrPos(s.Instr), "only handshake completion", "a tunnel is inserted into the hostmap from outside handshake completion")
	}
}

func strings_HasSuffix(s, suf string) bool { return len(s) >= len(suf) && s[len(s)-len(suf):] == suf }

// allocNamed: the named struct type an Alloc allocates (nil for pointer-typed locals etc.).
func allocNamed(al *ssa.Alloc) *typesNamed {
	p, ok := al.Type().Underlying().(*typesPointer)
	if !ok {
		return nil
	}
	n, _ := typesUnalias(p.Elem()).(*typesNamed)
	return n
}
