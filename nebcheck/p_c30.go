package main

import (
	"fmt"
	"go/constant"
	"go/token"
	"sort"
	"strings"

	"golang.org/x/tools/go/ssa"
)

func init() {
	register(&Property{
		ID: "C30", Title: "Tunnel teardown decisions follow the liveness policy",
		Patterns:  []string{"."},
		Technique: "CFG rules on makeTrafficDecision (re-arm-or-remove on every return, decisions reachable under inbound traffic, policy order by dominance, guarded inactivity close), finite predicate tables for isInvalidCertificate / isInactive / getAndResetTrafficCheck, threshold polarity, decision-switch exhaustiveness",
		LevelText: "Structural necessary conditions per periodic check: every return either removes the tunnel, re-arms its timer, or is the not-found path; a check that saw inbound traffic can only return do-nothing / rehandshake / swap / migrate and clears the pending-deletion mark; the policy tests run in the documented order (invalid certificate, counter exhaustion, traffic, pending deletion, inactivity); the truth tables of the certificate policy (blocklisted always closes, otherwise disconnect_invalid decides), of the inactivity predicate (drop_inactive and idle >= timeout) and of the traffic sampler (last-use is refreshed when either direction saw traffic) are exactly the documented ones; exhaustion and rekey thresholds use >=; the executor handles every decision constant.",
		LevelNote: "Not decided: decision sequences over histories; wall-clock behaviour of the timer wheel (C33).",
		Explanation: "K1/K5 on makeTrafficDecision, K8 tables over the finite abstract inputs (error class x flag; order of idle vs timeout; in x out), K15 on doTrafficCheck, K1 on tryRehandshake",
		Run:       runC30,
		Canaries: func(c *Ctx) []Canary {
			return []Canary{
				{Name: "last-used-only-on-outbound", File: "connection_manager.go", Old: "\tif in || out {\n\t\th.lastUsed = now", New: "\tif out {\n\t\th.lastUsed = now", Rule: "C30.tables"},
				{Name: "unused-tunnel-not-rearmed", File: "connection_manager.go", Old: "\t\t\tcm.punchy.SendPunch(hostinfo)\n\t\t\tcm.trafficTimer.Add(hostinfo.localIndexId, cm.checkInterval)\n\t\t\treturn doNothing, nil, nil", New: "\t\t\tcm.punchy.SendPunch(hostinfo)\n\t\t\treturn doNothing, nil, nil", Rule: "C30.rearm"},
				{Name: "blocklisted-gated-by-disconnect-invalid", File: "connection_manager.go", Old: "\t} else if err == cert.ErrBlockListed { //avoiding errors.Is for speed", New: "\t} else if err == cert.ErrBlockListed && cm.intf.disconnectInvalid.Load() { //avoiding errors.Is for speed", Rule: "C30.tables"},
				{Name: "pending-deletion-before-traffic", File: "connection_manager.go", Old: "\t// Check for traffic on this hostinfo\n\tinTraffic, outTraffic := cm.getAndResetTrafficCheck(hostinfo, now)\n", New: "\tif hostinfo.pendingDeletion.Load() {\n\t\treturn deleteTunnel, hostinfo, nil\n\t}\n\t// Check for traffic on this hostinfo\n\tinTraffic, outTraffic := cm.getAndResetTrafficCheck(hostinfo, now)\n", Rule: "C30.order"},
				{Name: "inactive-at-strictly-greater", File: "connection_manager.go", Old: "if inactiveDuration < cm.getInactivityTimeout() {", New: "if inactiveDuration <= cm.getInactivityTimeout() {", Rule: "C30.tables"},
				{Name: "exhaustion-strict", File: "connection_manager.go", Old: "hostinfo.ConnectionState.messageCounter.Load() >= RejectAfterMessages {", New: "hostinfo.ConnectionState.messageCounter.Load() > RejectAfterMessages {", Rule: "C30.thresholds"},
			}
		},
	})
}

func runC30(c *Ctx) {
	c.Rule("C30.rearm", "K1/K5: every return of makeTrafficDecision returns deleteTunnel/closeTunnel, or has re-armed trafficTimer, or is the not-found path", 4)
	c.Rule("C30.traffic-protects", "K1: under inbound traffic only doNothing/tryRehandshake/swapPrimary/migrateRelays are returned and pendingDeletion is cleared", 2)
	c.Rule("C30.order", "K1: policy order by dominance: invalid certificate -> counter exhaustion -> traffic sample -> pending deletion -> inactivity", 4)
	c.Rule("C30.inactivity", "K1: the inactivity close is returned only when isInactive reported true, no outbound traffic was seen and the tunnel is the primary", 1)
	c.Rule("C30.tables", "K8: isInvalidCertificate (nil/blocklisted/other x disconnect_invalid), isInactive (drop_inactive x idle<,=,>timeout), getAndResetTrafficCheck (in x out) have the documented truth tables", 3)
	c.Rule("C30.thresholds", "K8: counter exhaustion and rekey thresholds are `>=` comparisons against RejectAfterMessages / RehandshakeAfterMessages", 3)
	c.Rule("C30.dispatch", "K15: doTrafficCheck handles every trafficDecision constant", 1)
	c.Rule("C30.rehandshake", "K1: tryRehandshake starts a handshake when the local certificate changed and when the counter passed the rekey threshold", 2)

	fn := c.Func(Ref{"", "connectionManager", "makeTrafficDecision"})
	if fn == nil {
		return
	}
	consts := map[string]int64{}
	for _, n := range []string{"doNothing", "deleteTunnel", "closeTunnel", "swapPrimary", "migrateRelays", "tryRehandshake", "sendTestPacket"} {
		if v := c.ConstVal("", n); v != nil {
			consts[n], _ = constantInt64(v)
		}
	}
	fTimer := c.Field("", "connectionManager", "trafficTimer")
	// (also a call of a same-module helper that re-arms the timer on every path to its returns)
	isRearm := fix5Lift(func(in ssa.Instruction) bool {
		ci, ok := in.(ssa.CallInstruction)
		if !ok {
			return false
		}
		o := calleeObj(ci)
		return o != nil && o.Name() == "Add" && len(callArgs(ci)) > 0 && fromFieldLoad(fTimer)(callArgs(ci)[0])
	}, 2)
	fIdx := c.Field("", "HostMap", "Indexes")
	notFound := gValNil("hostinfo == nil (not in hostmap)", func(v ssa.Value) bool {
		return derivesFrom(v, sliceLocal, func(x ssa.Value) bool { lk, ok := x.(*ssa.Lookup); return ok && loadsField(lk.X, fIdx) })
	})
	nfEdges, _ := passEdges(fn, notFound)
	// the decisions a return can yield: constants through phis and through the results of
	// same-module helpers (a block of the decision tree extracted into a method); -1 = not enumerable
	possible := fix5PossibleInts
	var rets []*ssa.Return
	for _, b := range fn.Blocks {
		if r, ok := b.Instrs[len(b.Instrs)-1].(*ssa.Return); ok {
			rets = append(rets, r)
		}
	}
	sort.Slice(rets, func(i, j int) bool { return rets[i].Pos() < rets[j].Pos() })
	for i, r := range rets {
		p := possible(retResult(r, 0))
		removal := true
		for k := range p {
			if k != consts["deleteTunnel"] && k != consts["closeTunnel"] {
				removal = false
			}
		}
		cons := fmt.Sprintf("makeTrafficDecision:return#%d", i)
		if removal {
			c.OK("C30.rearm", cons, "returns a removal decision")
			continue
		}
		av, _ := c.avoidsCutEdges(fn, fn.Blocks[0].Instrs[0], r, isRearm, nfEdges)
		c.Check(!av, "C30.rearm", cons, c.instrPos(r), "timer re-armed on every path (or not-found)", "a live tunnel can leave this check without its traffic timer being re-armed and without being removed: it is never checked again")
	}
	// ---- traffic protects
	sample := callsIn(fn, Ref{"", "connectionManager", "getAndResetTrafficCheck"})
	if len(sample) != 1 {
		c.Unknown("C30.traffic-protects", "sample", "traffic sample call not found")
		return
	}
	sampleCall := sample[0].(*ssa.Call)
	inTraffic := gValBool("inTraffic", true, func(v ssa.Value) bool {
		ex, ok := stripValue(v).(*ssa.Extract)
		return ok && ex.Tuple == sampleCall && ex.Index == 0
	})
	inArm, _ := splitEdges(fn, inTraffic)
	if len(inArm) != 1 {
		c.Unknown("C30.traffic-protects", "in-arm", "inbound-traffic branch not found")
	} else {
		allowed := map[int64]bool{consts["doNothing"]: true, consts["tryRehandshake"]: true, consts["swapPrimary"]: true, consts["migrateRelays"]: true}
		okDec := true
		region := reachable(inArm[0], nil)
		for _, r := range rets {
			if _, in := region[r.Block()]; !in || !inArm[0].Dominates(r.Block()) {
				continue
			}
			for k := range possible(retResult(r, 0)) {
				if !allowed[k] {
					okDec = false
					c.Bad("C30.traffic-protects", "decisions-under-inbound-traffic", c.instrPos(r), fmt.Sprintf("a check that saw inbound traffic can return decision %d (a removal or test decision)", k))
				}
			}
			fPD := c.Field("", "HostInfo", "pendingDeletion")
			// (also a call of a same-module helper that clears the mark on every path to its returns)
			clears := fix5Lift(func(in ssa.Instruction) bool {
				ci, ok := in.(ssa.CallInstruction)
				if !ok {
					return false
				}
				o := calleeObj(ci)
				if o == nil || o.Name() != "Store" {
					return false
				}
				a := callArgs(ci)
				if len(a) < 2 {
					return false
				}
				bv, isC := boolConst(a[1])
				return isC && !bv && fromFieldLoad(fPD)(a[0]) || (isC && !bv && isFieldAddrOf(a[0], fPD))
			}, 2)
			if pathThrough(fn, inArm[0], r, clears) {
				c.Bad("C30.traffic-protects", "pendingDeletion-cleared", c.instrPos(r), "inbound traffic does not clear the pending-deletion mark: the next silent interval deletes a tunnel that was alive")
				okDec = false
			}
		}
		if okDec {
			c.OK("C30.traffic-protects", "decisions-under-inbound-traffic", "only non-removal decisions")
			c.OK("C30.traffic-protects", "pendingDeletion-cleared", "cleared on every path")
		}
	}
	// ---- order
	type pt struct {
		name string
		in   ssa.Instruction
	}
	var pts []pt
	find := func(name string, pred func(ssa.Instruction) bool) {
		var f ssa.Instruction
		eachInstr(fn, func(in ssa.Instruction) {
			if f == nil && pred(in) {
				f = in
			}
		})
		if f == nil {
			c.Unknown("C30.order", name, "policy step not found")
			return
		}
		pts = append(pts, pt{name, f})
	}
	isCallNamed := func(r Ref) func(ssa.Instruction) bool {
		return func(in ssa.Instruction) bool {
			ci, ok := in.(ssa.CallInstruction)
			return ok && matchFunc(calleeObj(ci), r)
		}
	}
	fMC := c.Field("", "ConnectionState", "messageCounter")
	fPD := c.Field("", "HostInfo", "pendingDeletion")
	find("invalid-certificate", isCallNamed(Ref{"", "connectionManager", "isInvalidCertificate"}))
	find("counter-exhaustion", func(in ssa.Instruction) bool {
		ci, ok := in.(ssa.CallInstruction)
		return ok && calleeObj(ci) != nil && calleeObj(ci).Name() == "Load" && isFieldAddrOf(callArgs(ci)[0], fMC)
	})
	find("traffic-sample", isCallNamed(Ref{"", "connectionManager", "getAndResetTrafficCheck"}))
	find("pending-deletion", func(in ssa.Instruction) bool {
		ci, ok := in.(ssa.CallInstruction)
		return ok && calleeObj(ci) != nil && calleeObj(ci).Name() == "Load" && isFieldAddrOf(callArgs(ci)[0], fPD)
	})
	find("inactivity", isCallNamed(Ref{"", "connectionManager", "isInactive"}))
	for i := 0; i+1 < len(pts); i++ {
		a, b := pts[i], pts[i+1]
		ab, bb := decisionHead(a.in.Block()), b.in.Block()
		ok := ab.Dominates(bb) && ab != bb || (a.in.Block() == bb && instrIndex(a.in) < instrIndex(b.in))
		c.Check(ok, "C30.order", a.name+"->"+b.name, c.instrPos(b.in), "in policy order", b.name+" is evaluated on a path that skipped "+a.name)
	}
	// invalid cert => closeTunnel; exhaustion => deleteTunnel
	if arm, _ := splitEdges(fn, gBool("isInvalidCertificate", true, -1, callTo(Ref{"", "connectionManager", "isInvalidCertificate"}))); len(arm) == 1 {
		ok := false
		if r, isR := arm[0].Instrs[len(arm[0].Instrs)-1].(*ssa.Return); isR {
			k, isK := constInt(retResult(r, 0))
			ok = isK && k == consts["closeTunnel"]
		}
		c.Check(ok, "C30.order", "invalid-certificate=>closeTunnel", c.P.Pos(fn.Pos()), "closes", "an invalid/blocklisted peer certificate no longer leads straight to closeTunnel")
	}
	// ---- inactivity close
	{
		var sinks []Sink
		for _, r := range rets {
			if k, ok := constInt(retResult(r, 0)); ok && k == consts["closeTunnel"] {
				// skip the invalid-certificate return
				if len(pts) >= 3 && pts[2].in.Block().Dominates(r.Block()) {
					sinks = append(sinks, Sink{Instr: r, Desc: "return closeTunnel (inactivity)"})
				}
			}
		}
		c.requireGuards("C30.inactivity", fn, sinks, "inactivity-close",
			gBool("isInactive reported true", true, 1, callTo(Ref{"", "connectionManager", "isInactive"})),
			gValBool("no outbound traffic", false, func(v ssa.Value) bool {
				ex, ok := stripValue(v).(*ssa.Extract)
				return ok && ex.Tuple == sampleCall && ex.Index == 1
			}))
	}
	c30Tables(c)
	// ---- thresholds
	rejU, rehU := uint64(0), uint64(0)
	if v := c.ConstVal("", "RejectAfterMessages"); v != nil {
		rejU, _ = constant.Uint64Val(v)
	}
	if v := c.ConstVal("", "RehandshakeAfterMessages"); v != nil {
		rehU, _ = constant.Uint64Val(v)
	}
	thr := func(fnRef Ref, lim uint64, name string) {
		f := c.Func(fnRef)
		if f == nil {
			return
		}
		n, ok := 0, true
		eachInstr(f, func(in ssa.Instruction) {
			bo, isB := in.(*ssa.BinOp)
			if !isB {
				return
			}
			var other ssa.Value
			op := bo.Op
			if u, isK := constUint(bo.Y); isK && u == lim {
				other = bo.X
			} else if u, isK := constUint(bo.X); isK && u == lim {
				other = bo.Y
				op = swapOp(op)
			}
			if other == nil {
				return
			}
			n++
			ok = ok && op == token.GEQ
		})
		c.Check(ok && n > 0, "C30.thresholds", fnRef.Name+":"+name, c.P.Pos(f.Pos()), "counter >= "+name, "the counter threshold against "+name+" is not a `>=` comparison: the tunnel is kept one message too long / the test disappeared")
	}
	thr(Ref{"", "connectionManager", "makeTrafficDecision"}, rejU, "RejectAfterMessages")
	thr(Ref{"", "connectionManager", "tryRehandshake"}, rehU, "RehandshakeAfterMessages")
	thr(Ref{"", "connectionManager", "shouldSwapPrimary"}, rehU, "RehandshakeAfterMessages")
	// ---- dispatch
	if dt := c.Func(Ref{"", "connectionManager", "doTrafficCheck"}); dt != nil {
		handled := map[int64]bool{}
		eachInstr(dt, func(in ssa.Instruction) {
			if bo, ok := in.(*ssa.BinOp); ok && bo.Op == token.EQL {
				if k, isK := constInt(bo.Y); isK {
					if call, idx := callOf(bo.X); call != nil && idx == 0 && matchFunc(calleeObj(call), Ref{"", "connectionManager", "makeTrafficDecision"}) {
						handled[k] = true
					}
				}
			}
		})
		var missing []string
		for n, k := range consts {
			if n != "doNothing" && !handled[k] {
				missing = append(missing, n)
			}
		}
		sort.Strings(missing)
		c.Check(len(missing) == 0, "C30.dispatch", "doTrafficCheck", c.P.Pos(dt.Pos()), "every decision has an arm", "decisions without an executor arm: "+strings.Join(missing, ","))
	}
	// ---- rehandshake triggers
	if tr := c.Func(Ref{"", "connectionManager", "tryRehandshake"}); tr != nil {
		starts := func(in ssa.Instruction) bool {
			ci, ok := in.(ssa.CallInstruction)
			return ok && matchFunc(calleeObj(ci), Ref{"", "HandshakeManager", "StartHandshake"})
		}
		check := func(name string, g Guard) {
			arm, _ := splitEdges(tr, g)
			if len(arm) == 0 {
				c.Bad("C30.rehandshake", name, c.P.Pos(tr.Pos()), "trigger test not found")
				return
			}
			ok := true
			for _, b := range tr.Blocks {
				if r, isR := b.Instrs[len(b.Instrs)-1].(*ssa.Return); isR {
					for _, a := range arm {
						if pathThrough(tr, a, r, starts) {
							ok = false
						}
					}
				}
			}
			c.Check(ok, "C30.rehandshake", name, c.P.Pos(tr.Pos()), "starts a handshake", "trigger holds but no handshake is started")
		}
		check("local-certificate-changed", gBool("signature differs", false, -1, callTo(Ref{"bytes", "", "Equal"})))
		check("counter-passed-rekey-threshold", gCmp("counter >= RehandshakeAfterMessages", anyValue, func(v ssa.Value) bool { u, ok := constUint(v); return ok && u == rehU }, func(op token.Token) (bool, bool) {
			switch op {
			case token.GEQ:
				return true, true
			case token.LSS:
				return true, false
			}
			return false, false
		}))
	}
}

func isFieldAddrOf(v ssa.Value, f *typesVar) bool {
	fa, ok := v.(*ssa.FieldAddr)
	return ok && f != nil && fieldOfAddr(fa) == f
}

func instrIndex(in ssa.Instruction) int {
	for i, x := range in.Block().Instrs {
		if x == in {
			return i
		}
	}
	return -1
}

func c30Tables(c *Ctx) {
	// getAndResetTrafficCheck
	if fn := c.Func(Ref{"", "connectionManager", "getAndResetTrafficCheck"}); fn != nil {
		var diffs []string
		// any other atomic flag the sampler consults (a configuration switch, say) is an extra boolean atom: the documented
		// table must hold for both of its values
		extra := []string{}
		for pass := 0; pass < 2; pass++ {
			diffs = nil
			found := map[string]bool{}
			for mask := 0; mask < 1<<len(extra); mask++ {
				for _, in := range []bool{false, true} {
					for _, out := range []bool{false, true} {
						inV, outV, m := in, out, mask
						var eff []string
						res, err := absEval(fn, &AbsEnv{Effects: &eff, OpaqueCalls: true, Oracle: func(o *typesFunc, args []AVal) (AVal, bool) {
							if o.Name() == "Swap" && len(args) >= 1 {
								switch {
								case strings.HasSuffix(args[0].String(), ".in"):
									return aBool(inV), true
								case strings.HasSuffix(args[0].String(), ".out"):
									return aBool(outV), true
								}
							}
							if o.Name() == "Load" && o.Pkg() != nil && o.Pkg().Path() == "sync/atomic" && len(args) == 1 {
								name := args[0].String()
								found[name] = true
								for i, e := range extra {
									if e == name {
										return aBool(m&(1<<i) != 0), true
									}
								}
								return aBool(false), true
							}
							return AVal{}, false
						}})
						if err != "" {
							c.Unknown("C30.tables", "getAndResetTrafficCheck", "left the supported fragment: "+err)
							return
						}
						touched := false
						for _, e := range eff {
							if strings.Contains(e, ".lastUsed=") {
								touched = true
							}
						}
						cfg := ""
						for i, e := range extra {
							cfg += fmt.Sprintf(" %s=%v", e, m&(1<<i) != 0)
						}
						if touched != (in || out) {
							diffs = append(diffs, fmt.Sprintf("in=%v out=%v%s: lastUsed refreshed=%v, documented %v", in, out, cfg, touched, in || out))
						}
						if len(res) == 2 && res[0].isConst() && res[1].isConst() {
							if constant.BoolVal(res[0].K) != in || constant.BoolVal(res[1].K) != out {
								diffs = append(diffs, fmt.Sprintf("in=%v out=%v%s: returns (%v,%v)", in, out, cfg, res[0], res[1]))
							}
						} else {
							diffs = append(diffs, "result not determined")
						}
					}
				}
			}
			if pass == 0 {
				for n := range found {
					extra = append(extra, n)
				}
				sort.Strings(extra)
				if len(extra) == 0 || len(extra) > 4 {
					break
				}
			}
		}
		c.Check(len(diffs) == 0, "C30.tables", "getAndResetTrafficCheck", c.P.Pos(fn.Pos()), "lastUsed refreshed iff in||out; returns (in,out)", strings.Join(diffs, "; "))
	}
	// isInactive
	if fn := c.Func(Ref{"", "connectionManager", "isInactive"}); fn != nil {
		var diffs []string
		for _, drop := range []bool{false, true} {
			for rel := -1; rel <= 1; rel++ {
				d, r := drop, rel
				res, err := absEval(fn, &AbsEnv{OpaqueCalls: true,
					Oracle: func(o *typesFunc, args []AVal) (AVal, bool) {
						if o.Name() == "Load" && len(args) == 1 && strings.HasSuffix(args[0].String(), ".dropInactive") {
							return aBool(d), true
						}
						return AVal{}, false
					},
					SymCmp: func(op token.Token, a, b AVal) (bool, bool) {
						// idle duration vs timeout
						return constant.Compare(constant.MakeInt64(int64(r)), op, constant.MakeInt64(0)), true
					}})
				if err != "" {
					c.Unknown("C30.tables", "isInactive", "left the supported fragment: "+err)
					return
				}
				got := constant.BoolVal(res[1].K)
				want := d && r >= 0
				if got != want {
					diffs = append(diffs, fmt.Sprintf("drop_inactive=%v idle%stimeout: inactive=%v, documented %v", d, relStr(r), got, want))
				}
			}
		}
		c.Check(len(diffs) == 0, "C30.tables", "isInactive", c.P.Pos(fn.Pos()), "inactive iff drop_inactive && idle >= timeout", strings.Join(diffs, "; "))
	}
	// isInvalidCertificate
	if fn := c.Func(Ref{"", "connectionManager", "isInvalidCertificate"}); fn != nil {
		var diffs []string
		for _, class := range []string{"nil", "blocklisted", "other"} {
			for _, dis := range []bool{false, true} {
				cl, di := class, dis
				res, err := absEval(fn, &AbsEnv{OpaqueCalls: true,
					Oracle: func(o *typesFunc, args []AVal) (AVal, bool) {
						switch o.Name() {
						case "VerifyCachedCertificate":
							if cl == "nil" {
								return AVal{Nil: true}, true
							}
							return aSym("err:" + cl), true
						case "Load":
							if len(args) == 1 && strings.HasSuffix(args[0].String(), ".disconnectInvalid") {
								return aBool(di), true
							}
						}
						return AVal{}, false
					},
					SymCmp: func(op token.Token, a, b AVal) (bool, bool) {
						isErr := func(x AVal) bool { return strings.HasPrefix(x.Sym, "err:") }
						var e, o AVal
						switch {
						case isErr(a):
							e, o = a, b
						case isErr(b):
							e, o = b, a
						default:
							if a.Nil != b.Nil && (a.Nil || b.Nil) { // pointer (remoteCert) vs nil: non-nil
								return op == token.NEQ, true
							}
							return false, false
						}
						eq := false
						if o.Nil {
							eq = false
						} else if strings.Contains(o.Sym, "ErrBlockListed") {
							eq = e.Sym == "err:blocklisted"
						} else {
							return false, false
						}
						if op == token.EQL {
							return eq, true
						}
						return !eq, true
					}})
				if err != "" {
					c.Unknown("C30.tables", "isInvalidCertificate", "left the supported fragment: "+err)
					return
				}
				got := constant.BoolVal(res[0].K)
				want := cl == "blocklisted" || (cl == "other" && di)
				if got != want {
					diffs = append(diffs, fmt.Sprintf("verify=%s disconnect_invalid=%v: invalid=%v, documented %v", cl, di, got, want))
				}
			}
		}
		c.Check(len(diffs) == 0, "C30.tables", "isInvalidCertificate", c.P.Pos(fn.Pos()), "blocklisted always; other errors iff disconnect_invalid; valid never", strings.Join(diffs, "; "))
		// the verdict is VerifyCachedCertificate against the pool read at check time
		ok := false
		for _, ci := range callsIn(fn, Ref{"cert", "CAPool", "VerifyCachedCertificate"}) {
			a := callArgs(ci)
			pool, _ := callOf(a[0])
			ok = pool != nil && matchFunc(calleeObj(pool), Ref{"", "PKI", "GetCAPool"}) && a[1] == fn.Params[1]
		}
		c.Check(ok, "C30.tables", "isInvalidCertificate:pool-at-check-time", c.P.Pos(fn.Pos()), "GetCAPool().VerifyCachedCertificate(now, cert)", "the periodic certificate check does not consult the current CA pool at the check time")
	}
}

// decisionHead walks up from a block inside a short-circuit condition (a && b) to the block
// where the compound test starts.
func decisionHead(b *ssa.BasicBlock) *ssa.BasicBlock {
	for b.Idom() != nil && (strings.HasPrefix(b.Comment, "cond.") || strings.HasPrefix(b.Comment, "binop.")) {
		b = b.Idom()
	}
	return b
}
