package main

import (
	"fmt"
	"go/constant"
	"go/types"
	"sort"
	"strings"

	"golang.org/x/tools/go/ssa"
)

func init() {
	register(&Property{
		ID: "C17", Title: "Overlay source and destination addresses are authentic",
		Patterns:    []string{"."},
		Technique:   "path-sensitive symbolic propagation (finite decision table over the address tests) of Firewall.Drop, HostInfo.buildNetworks, NewFirewall and the three delivery functions, with helper functions inlined; who-may-write / who-may-mutate tables for the two address tables; who-may-emit table for data messages",
		LevelText:   "Structural necessary conditions on all paths: Drop returns nil only after the peer-side address was accepted (single-address peer: equal to vpnAddrs[0]; otherwise found in the per-peer table with type VPN or Unsafe) and the node-side address is in routableNetworks, whatever the rule tables and connection tracking say; the per-peer table marks an address VPN only if it is a host route of a certificate address inside the node's own networks and Unsafe only for the certificate's unsafe networks, and the table-less shortcut is taken only for a single certificate address inside the node's networks; routableNetworks holds host routes of the node's certificate addresses and its unsafe networks only; neither table is written or mutated elsewhere; received data reaches the tun batcher, and tun / cached data reaches the encrypting send, only after Drop returned nil for a packet parsed from the same bytes with the right orientation and for the same tunnel; every site that emits a data message is one of the tabled Drop-guarded sites.",
		LevelNote:   "Not decided: bart lookup correctness, that newPacket extracts the addresses from the right header bytes (orientation flag only), that HostInfo.vpnAddrs holds the certificate addresses (C09), packets a node sends to itself (immediatelyForwardToSelf). Loops are followed for up to 3 iterations.",
		Explanation: "K8/K1 decision tables over explored paths of Drop / buildNetworks / NewFirewall / handleOutsideMessagePacket / consumeInsidePacket / sendMessageNow, K15 over NetworkType, K2 writers and mutators of HostInfo.networks and Firewall.routableNetworks, K2 emitters of header.Message",
		Run:         runC17,
		Canaries: func(c *Ctx) []Canary {
			return []Canary{
				{Name: "tracked-flow-before-remote-check", File: "firewall.go", Old: "\t// Make sure remote address matches nebula certificate, and determine how to treat it\n\tif h.networks == nil {", New: "\tif f.inConns(fp, h, caPool, localCache) {\n\t\treturn nil\n\t}\n\tif h.networks == nil {", Rule: "C17.drop"},
				{Name: "vpn-peer-type-accepted", File: "firewall.go", Old: "\t\tcase NetworkTypeVPNPeer:\n\t\t\tf.metrics(incoming).droppedRemoteAddr.Inc(1)\n\t\t\treturn ErrPeerRejected // reject for now, one day this may have different FW rules\n", New: "\t\tcase NetworkTypeVPNPeer:\n\t\t\tbreak\n", Rule: "C17.drop"},
				{Name: "simple-case-compares-local-address", File: "firewall.go", Old: "if h.vpnAddrs[0] != fp.RemoteAddr {", New: "if h.vpnAddrs[0] != fp.LocalAddr {", Rule: "C17.drop"},
				{Name: "local-check-only-for-inbound", File: "firewall.go", Old: "if !f.routableNetworks.Contains(fp.LocalAddr) {", New: "if incoming && !f.routableNetworks.Contains(fp.LocalAddr) {", Rule: "C17.drop"},
				{Name: "lookup-miss-falls-through", File: "firewall.go", Old: "\t\tif !ok {\n\t\t\tf.metrics(incoming).droppedRemoteAddr.Inc(1)\n\t\t\treturn ErrInvalidRemoteIP\n\t\t}\n\t\tswitch nwType {", New: "\t\tif !ok {\n\t\t\tf.metrics(incoming).droppedRemoteAddr.Inc(1)\n\t\t}\n\t\tswitch nwType {", Rule: "C17.drop"},
				{Name: "foreign-address-typed-vpn", File: "hostmap.go", Old: "\t\t} else {\n\t\t\ti.networks.Insert(nprefix, NetworkTypeVPNPeer)\n\t\t}", New: "\t\t} else {\n\t\t\ti.networks.Insert(nprefix, NetworkTypeVPN)\n\t\t}", Rule: "C17.peer-table"},
				{Name: "shortcut-without-own-network-test", File: "hostmap.go", Old: "\t\tif myVpnNetworksTable.Contains(c.Networks()[0].Addr()) {\n\t\t\treturn // Simple case, no BART needed\n\t\t}", New: "\t\treturn // Simple case, no BART needed", Rule: "C17.peer-table"},
				{Name: "peer-network-as-prefix", File: "hostmap.go", Old: "\t\tnprefix := netip.PrefixFrom(network.Addr(), network.Addr().BitLen())\n\t\tif myVpnNetworksTable.Contains(network.Addr()) {", New: "\t\tnprefix := network\n\t\tif myVpnNetworksTable.Contains(network.Addr()) {", Rule: "C17.peer-table"},
				{Name: "whole-overlay-network-routable", File: "firewall.go", Old: "\t\tnprefix := netip.PrefixFrom(network.Addr(), network.Addr().BitLen())\n\t\troutableNetworks.Insert(nprefix)", New: "\t\troutableNetworks.Insert(network)", Rule: "C17.routable"},
				{Name: "second-writer-of-peer-table", File: "hostmap.go", Old: "func (i *HostInfo) logger(l *slog.Logger) *slog.Logger {\n", New: "func (i *HostInfo) allowNetwork(p netip.Prefix) {\n\ti.networks.Insert(p, NetworkTypeVPN)\n}\n\nfunc (i *HostInfo) logger(l *slog.Logger) *slog.Logger {\n", Rule: "C17.writers"},
				{Name: "reject-answers-spoofed-source", File: "outside.go", Old: "\t\tif dropReason == ErrNoMatchingRule {\n\t\t\tf.rejectOutside(", New: "\t\tif dropReason != nil {\n\t\t\tf.rejectOutside(", Rule: "C17.reject"},
				{Name: "commit-on-no-rule", File: "outside.go", Old: "\tif dropReason != nil {\n\t\t// only answer packets", New: "\tif dropReason != nil && dropReason != ErrNoMatchingRule {\n\t\t// only answer packets", Rule: "C17.delivery"},
				{Name: "outbound-parsed-as-inbound", File: "inside.go", Old: "\tpacket := pkt.Bytes\n\terr := newPacket(packet, false, fwPacket)", New: "\tpacket := pkt.Bytes\n\terr := newPacket(packet, true, fwPacket)", Rule: "C17.delivery"},
				{Name: "cached-packet-sent-unchecked", File: "inside.go", Old: "\t\t\thh.cachePacket(f.l, header.Message, 0, seg, f.sendMessageNow, f.cachedPacketMetrics)", New: "\t\t\thh.cachePacket(f.l, header.Message, 0, seg, f.SendMessageToHostInfo, f.cachedPacketMetrics)", Rule: "C17.emitters"},
			}
		},
	})
}

var (
	g1BartLookup = []Ref{{"github.com/gaissmai/bart", "Table", "Lookup"}}
	g1BartInsert = []Ref{{"github.com/gaissmai/bart", "Table", "Insert"}, {"github.com/gaissmai/bart", "Lite", "Insert"}, {"github.com/gaissmai/bart", "liteTable", "Insert"}}
	g1PrefixFrom = []Ref{{"net/netip", "", "PrefixFrom"}}
	g1AddrBitLen = []Ref{{"net/netip", "Addr", "BitLen"}}
	g1PrefixAddr = []Ref{{"net/netip", "Prefix", "Addr"}}
	g1DropRef    = Ref{"", "Firewall", "Drop"}
)

// g1DropModel is the explored decision structure of Firewall.Drop, shared by C16 and C17.
type g1DropModel struct {
	fn       *ssa.Function
	paths    []*g1Path
	remoteOK func(*g1Path) (bool, string)
	localOK  g1M // routableNetworks.Contains(PKT.LocalAddr)
	conn     g1M // inConns(F, PKT, H, ...)
	match    g1M // (F.InRules|F.OutRules).match(PKT, INCOMING, H.ConnectionState.peerCert, CAPOOL)
	inTable  g1M // receiver of match is F.InRules
	outTable g1M
	incoming g1M
	pkt      g1M
}

func g1ExploreDrop(c *Ctx, rule string) *g1DropModel {
	fn := c.Func(g1DropRef)
	if fn == nil {
		return nil
	}
	roles := c.g1Roles(rule, fn, map[string]func(types.Type) bool{
		"F": g1TNamed("", "Firewall", true), "PKT": g1TNamed("firewall", "Packet", false), "INCOMING": g1TBool,
		"H": g1TNamed("", "HostInfo", true), "CAPOOL": g1TNamed("cert", "CAPool", true), "CACHE": g1TNamed("firewall", "ConntrackCache", false)})
	fNet, fVpn := c.Field("", "HostInfo", "networks"), c.Field("", "HostInfo", "vpnAddrs")
	fRem, fLoc := c.Field("firewall", "Packet", "RemoteAddr"), c.Field("firewall", "Packet", "LocalAddr")
	fRout, fIn, fOut := c.Field("", "Firewall", "routableNetworks"), c.Field("", "Firewall", "InRules"), c.Field("", "Firewall", "OutRules")
	fCS, fPeer := c.Field("", "HostInfo", "ConnectionState"), c.Field("", "ConnectionState", "peerCert")
	kVPN, kUnsafe := c.ConstVal("", "NetworkTypeVPN"), c.ConstVal("", "NetworkTypeUnsafe")
	if roles == nil || fNet == nil || fVpn == nil || fRem == nil || fLoc == nil || fRout == nil || fIn == nil || fOut == nil || fCS == nil || fPeer == nil || kVPN == nil || kUnsafe == nil {
		return nil
	}
	inConns, match, addConn := Ref{"", "Firewall", "inConns"}, Ref{"", "FirewallTable", "match"}, Ref{"", "Firewall", "addConn"}
	g := &g1Sym{Stop: []Ref{inConns, match, addConn}}
	m := &g1DropModel{fn: fn, paths: c.g1Explore(rule, g, fn, roles...)}
	if m.paths == nil {
		return nil
	}
	F, PKT, H := g1MRoot("F"), g1MRoot("PKT"), g1MRoot("H")
	nw, remote := g1MField(fNet, H), g1MField(fRem, PKT)
	isNil := g1MEq(nw, g1MNil)
	same := g1MEq(g1MIndex(g1MField(fVpn, H), g1MInt(0)), remote)
	lookup := g1MCall(g1BartLookup, nw, remote)
	found, typ := g1MExtract(lookup, 1), g1MExtract(lookup, 0)
	enum := c.g1EnumConsts("", "NetworkType")
	vpn, _ := constantInt64(kVPN)
	unsafe, _ := constantInt64(kUnsafe)
	m.remoteOK = func(p *g1Path) (bool, string) {
		v, i := p.Lit(isNil)
		switch {
		case i < 0:
			return false, "the path does not decide whether the peer has a network table (h.networks == nil)"
		case v:
			if !p.LitIs(same, true) {
				return false, "single-address peer: h.vpnAddrs[0] == packet.RemoteAddr was not established"
			}
			return true, ""
		}
		if !p.LitIs(found, true) {
			return false, "h.networks.Lookup(packet.RemoteAddr) was not established to have found an entry"
		}
		if p.LitIs(g1MEq(typ, g1MInt(vpn)), true) || p.LitIs(g1MEq(typ, g1MInt(unsafe)), true) {
			return true, ""
		}
		// a switch written as a deny-list must exclude every other declared type (K15)
		var open []string
		for k, name := range enum {
			if k != vpn && k != unsafe && !p.LitIs(g1MEq(typ, g1MInt(k)), false) {
				open = append(open, name)
			}
		}
		sort.Strings(open)
		if len(open) > 0 || len(enum) < 3 {
			return false, "the looked-up network type is not restricted to VPN / Unsafe (still possible: " + strings.Join(open, ",") + ")"
		}
		return true, ""
	}
	m.pkt, m.incoming = PKT, g1MRoot("INCOMING")
	m.localOK = g1MCall(bartContainsRefs, g1MField(fRout, F), g1MField(fLoc, PKT))
	m.conn = g1MCall([]Ref{inConns}, F, PKT, H)
	m.inTable, m.outTable = g1MField(fIn, F), g1MField(fOut, F)
	m.match = g1MCall([]Ref{match}, g1MOr(m.inTable, m.outTable), PKT, m.incoming, g1MField(fPeer, g1MField(fCS, H)), g1MRoot("CAPOOL"))
	return m
}

// allowing: the path may return nil (its result is neither a sentinel / fresh error nor a value the
// path itself tested to be non-nil).
func (m *g1DropModel) allowing(p *g1Path) bool { return !p.Panic && !p.ResNonNil(0) }

func runC17(c *Ctx) {
	c.Rule("C17.drop", "K8/K1: every path of Firewall.Drop that can return nil has established the peer-side address test (networks==nil: vpnAddrs[0]==RemoteAddr; else Lookup found with type VPN or Unsafe, K15 over NetworkType) and routableNetworks.Contains(LocalAddr), independent of inConns / rule match", 2)
	c.Rule("C17.peer-table", "K8: buildNetworks marks VPN only host routes of certificate addresses inside my networks, Unsafe only the certificate's unsafe networks; the table-less exit needs the single certificate address to be inside my networks", 3)
	c.Rule("C17.routable", "K8: NewFirewall fills routableNetworks with host routes of the certificate's addresses and with its unsafe networks only", 2)
	c.Rule("C17.writers", "K2: HostInfo.networks is assigned and mutated only in buildNetworks, Firewall.routableNetworks only in NewFirewall", 2)
	c.Rule("C17.delivery", "K1: Commit (tun) / sendInsideMessage / sendNoMetrics (wire) are reached only after Drop returned nil for the packet parsed from the same bytes, with the right orientation, for the same tunnel", 4)
	c.Rule("C17.reject", "K1: the reject reply (sent into the peer's tunnel, addressed to the refused packet's source, from its destination) is built only for packets Drop refused with ErrNoMatchingRule, i.e. after both address tests passed", 1)
	c.Rule("C17.emitters", "K2: every call passing header.Message as message type together with a payload is one of the tabled Drop-guarded emit sites", 4)

	// ---- Drop
	if m := g1ExploreDrop(c, "C17.drop"); m != nil {
		nAllow := 0
		var badR, badL *g1Path
		whyR := ""
		for _, p := range m.paths {
			if !m.allowing(p) {
				continue
			}
			nAllow++
			if ok, why := m.remoteOK(p); !ok && badR == nil {
				badR, whyR = p, why
			}
			if !p.LitIs(m.localOK, true) && badL == nil {
				badL = p
			}
		}
		if nAllow == 0 {
			c.Unknown("C17.drop", "Drop:allow-paths", "no path returning nil recognised")
		} else {
			if badR != nil {
				c.g1BadPath("C17.drop", "Drop:allow=>peer-address-authentic", m.fn, badR, "Drop can return nil although "+whyR)
			} else {
				c.OK("C17.drop", "Drop:allow=>peer-address-authentic", fmt.Sprintf("%d allowing paths of %d, each behind the peer-side address test", nAllow, len(m.paths)))
			}
			if badL != nil {
				c.g1BadPath("C17.drop", "Drop:allow=>node-address-routable", m.fn, badL, "Drop can return nil without routableNetworks.Contains(packet.LocalAddr) having held")
			} else {
				c.OK("C17.drop", "Drop:allow=>node-address-routable", fmt.Sprintf("%d allowing paths, each behind the node-side address test", nAllow))
			}
		}
	}
	c17PeerTable(c)
	c17Routable(c)
	c17Writers(c)
	c17Delivery(c)
	c17Emitters(c)
}

// g1CertAddr: X.Addr() for an element X of C.<list>() (C the certificate parameter).
func c17CertElem(list string) g1M {
	return g1MIndex(g1MCall([]Ref{certM(list)}, g1MRoot("C")), g1MAny)
}

func c17HostRoute(addr g1M) g1M {
	return func(v *g1Val) bool {
		if v == nil || v.K != g1KCall || len(v.Args) != 2 || !g1MCall(g1PrefixFrom, addr)(v) {
			return false
		}
		// bits == addr.BitLen() of the very same address term
		return g1MCall(g1AddrBitLen, g1MIs(v.Args[0]))(v.Args[1])
	}
}

func c17PeerTable(c *Ctx) {
	fn := c.Func(Ref{"", "HostInfo", "buildNetworks"})
	fNet := c.Field("", "HostInfo", "networks")
	kVPN, kPeer, kUnsafe := c.ConstVal("", "NetworkTypeVPN"), c.ConstVal("", "NetworkTypeVPNPeer"), c.ConstVal("", "NetworkTypeUnsafe")
	if fn == nil || fNet == nil || kVPN == nil || kPeer == nil || kUnsafe == nil {
		return
	}
	roles := c.g1Roles("C17.peer-table", fn, map[string]func(types.Type) bool{"I": g1TNamed("", "HostInfo", true), "MYNETS": g1TNamed("github.com/gaissmai/bart", "Lite", true), "C": g1TNamed("cert", "Certificate", false)})
	if roles == nil {
		return
	}
	paths := c.g1Explore("C17.peer-table", &g1Sym{}, fn, roles...)
	if paths == nil {
		return
	}
	certAddr := g1MCall(g1PrefixAddr, c17CertElem("Networks"))
	mine := func(addr g1M) g1M { return g1MCall(bartContainsRefs, g1MEmb(g1MRoot("MYNETS")), addr) }
	firstAddr := g1MCall(g1PrefixAddr, g1MIndex(g1MCall([]Ref{certM("Networks")}, g1MRoot("C")), g1MInt(0)))
	single := g1MEq(g1MBuiltin("len", g1MCall([]Ref{certM("Networks")}, g1MRoot("C"))), g1MInt(1))
	table := g1MField(fNet, g1MRoot("I"))
	nShort, nIns := 0, 0
	var badShort, unsureShort, badIns *g1Path
	whyIns := ""
	for _, p := range paths {
		if p.Panic {
			continue
		}
		st := p.Stores(table)
		if len(st) == 0 {
			nShort++
			if !p.LitIs(mine(firstAddr), true) && badShort == nil {
				badShort = p
			} else if !p.LitIs(single, true) && unsureShort == nil {
				unsureShort = p
			}
		}
		for _, e := range p.Calls(g1BartInsert...) {
			if len(st) == 0 || len(e.Args) < 3 || !g1MIs(st[len(st)-1].Val)(e.Args[0]) {
				continue // not the peer table
			}
			nIns++
			why := ""
			switch {
			case g1MConst(kVPN)(e.Args[2]):
				if !c17HostRoute(certAddr)(e.Args[1]) {
					why = "an entry typed VPN is not the host route PrefixFrom(a, a.BitLen()) of a certificate address: " + e.Args[1].String()
				} else if !c17LitBefore(p, mine(g1MIs(e.Args[1].Args[0])), true, e.NLits) {
					why = "an address is typed VPN without myVpnNetworksTable.Contains(address) having held"
				}
			case g1MConst(kUnsafe)(e.Args[2]):
				if !c17CertElem("UnsafeNetworks")(e.Args[1]) {
					why = "an entry typed Unsafe is not one of the certificate's unsafe networks: " + e.Args[1].String()
				}
			case g1MConst(kPeer)(e.Args[2]):
				// rejected by Drop: any prefix is harmless
			default:
				why = "an entry is inserted with a type that is not a NetworkType constant known to Drop: " + e.Args[2].String()
			}
			if why != "" && badIns == nil {
				badIns, whyIns = p, why
			}
		}
		for _, e := range st {
			if g1Strip(e.Val).K != g1KObj && badIns == nil {
				badIns, whyIns = p, "HostInfo.networks is assigned a table that was not built here from the certificate: "+e.Val.String()
			}
		}
	}
	pos := c.P.Pos(fn.Pos())
	switch {
	case nShort == 0:
		c.OK("C17.peer-table", "buildNetworks:table-less-exit", "no table-less exit: every peer gets a table")
	case badShort != nil:
		c.g1BadPath("C17.peer-table", "buildNetworks:table-less-exit", fn, badShort, "buildNetworks can leave HostInfo.networks nil without the first certificate address being inside my networks: Drop then accepts vpnAddrs[0] as a VPN address unconditionally")
	case unsureShort != nil:
		c.Unknown("C17.peer-table", "buildNetworks:table-less-exit", "the table-less exit is no longer limited to certificates with a single network: cannot relate the tested address to HostInfo.vpnAddrs[0]")
	default:
		c.OK("C17.peer-table", "buildNetworks:table-less-exit", fmt.Sprintf("%d table-less paths, each for a single certificate address inside my networks", nShort))
	}
	if badIns != nil {
		c.g1BadPath("C17.peer-table", "buildNetworks:typed-inserts", fn, badIns, whyIns)
	} else if nIns == 0 {
		c.Unknown("C17.peer-table", "buildNetworks:typed-inserts", "no insertion into the per-peer table recognised at "+pos)
	} else {
		c.OK("C17.peer-table", "buildNetworks:typed-inserts", fmt.Sprintf("%d insertions over %d paths: VPN only for own-network host routes, Unsafe only for certificate unsafe networks", nIns, len(paths)))
		c.OK("C17.peer-table", "buildNetworks:fresh-table", "the table is allocated here")
	}
}

// c17LitBefore: a decision matching m with outcome want was taken before the first n decisions ended.
func c17LitBefore(p *g1Path, m g1M, want bool, n int) bool {
	for i, l := range p.Lits {
		if i < n && l.Val == want && m(l.Atom) {
			return true
		}
	}
	return false
}

func c17Routable(c *Ctx) {
	fn := c.Func(Ref{"", "", "NewFirewall"})
	fRout := c.Field("", "Firewall", "routableNetworks")
	if fn == nil || fRout == nil {
		return
	}
	roles := c.g1Roles("C17.routable", fn, map[string]func(types.Type) bool{"C": g1TNamed("cert", "Certificate", false)})
	if roles == nil {
		return
	}
	paths := c.g1Explore("C17.routable", &g1Sym{}, fn, roles...)
	if paths == nil {
		return
	}
	certAddr := g1MCall(g1PrefixAddr, c17CertElem("Networks"))
	n, nIns := 0, 0
	var bad *g1Path
	why := ""
	for _, p := range paths {
		if p.Panic || len(p.Res) != 1 {
			continue
		}
		tbl := p.Content(g1Field(p.Res[0], fRout))
		if g1Strip(tbl).K != g1KObj {
			if bad == nil {
				bad, why = p, "the returned Firewall's routableNetworks is not a table built here: "+tbl.String()
			}
			continue
		}
		n++
		for _, e := range p.Calls(g1BartInsert...) {
			if len(e.Args) < 2 || g1RootOf(e.Args[0]).key != g1Strip(tbl).key {
				continue
			}
			nIns++
			if !c17HostRoute(certAddr)(e.Args[1]) && !c17CertElem("UnsafeNetworks")(e.Args[1]) && bad == nil {
				bad, why = p, "routableNetworks receives a prefix that is neither the host route of one of the node's certificate addresses nor one of its unsafe networks: "+e.Args[1].String()
			}
		}
	}
	switch {
	case bad != nil:
		c.g1BadPath("C17.routable", "NewFirewall:routableNetworks-content", fn, bad, why)
	case n == 0 || nIns == 0:
		c.Unknown("C17.routable", "NewFirewall:routableNetworks-content", "construction of routableNetworks not recognised")
	default:
		c.OK("C17.routable", "NewFirewall:routableNetworks-content", fmt.Sprintf("%d insertions over %d paths: own host routes and own unsafe networks only", nIns, n))
		c.OK("C17.routable", "NewFirewall:fresh-table", "allocated in the constructor")
	}
}

// bart methods that change a table (the read-only ones are not constrained)
var c17BartMutators = map[string]bool{"Insert": true, "Delete": true, "Modify": true, "Update": true, "Union": true,
	"InsertPersist": true, "DeletePersist": true, "ModifyPersist": true, "UpdatePersist": true, "UnionPersist": true}

func c17Writers(c *Ctx) {
	funcs := c.moduleFuncs()
	for _, t := range []struct {
		typ, field, owner, why string
	}{
		{"HostInfo", "networks", "(*nebula.HostInfo).buildNetworks", "the per-peer table is derived from the verified certificate there (C17.peer-table)"},
		{"Firewall", "routableNetworks", "nebula.NewFirewall", "the node-side table is derived from the node's certificate in the constructor (C17.routable)"},
	} {
		f := c.Field("", t.typ, t.field)
		if f == nil {
			continue
		}
		bad, n := 0, 0
		for _, w := range fieldWriters(funcs, f) {
			if c.isTestHelperFile(w.Instr) || w.Kind == "addr-escape" {
				continue
			}
			n++
			if nm := fnName(topFunc(w.Fn)); nm != t.owner {
				bad++
				c.Bad("C17.writers", t.typ+"."+t.field+"<-"+nm, c.instrPos(w.Instr), fmt.Sprintf("%s of the address table outside %s", w.Kind, t.owner))
			}
		}
		// mutating method calls on the table the field holds
		for _, fn := range funcs {
			eachInstr(fn, func(in ssa.Instruction) {
				ci, ok := in.(ssa.CallInstruction)
				if !ok || c.isTestHelperFile(in) {
					return
				}
				o := calleeObj(ci)
				if o == nil || o.Pkg() == nil || o.Pkg().Path() != "github.com/gaissmai/bart" || !c17BartMutators[o.Name()] {
					return
				}
				a := callArgs(ci)
				if len(a) == 0 || !derivesFrom(a[0], sliceLocal, func(x ssa.Value) bool { return loadsField(x, f) }) {
					return
				}
				n++
				if nm := fnName(topFunc(fn)); nm != t.owner {
					bad++
					c.Bad("C17.writers", t.typ+"."+t.field+"."+o.Name()+"<-"+nm, c.instrPos(in), "the address table is mutated outside "+t.owner+": an address can become acceptable without being certified")
				}
			})
		}
		if bad == 0 {
			if n == 0 {
				c.Unknown("C17.writers", t.typ+"."+t.field, "no writer found")
			} else {
				c.OK("C17.writers", t.typ+"."+t.field, fmt.Sprintf("%d write / mutation sites, all in %s: %s", n, t.owner, t.why))
			}
		}
	}
}

// c17Delivery: the three functions that hand a data packet on (tun commit, encrypting sends).
func c17Delivery(c *Ctx) {
	newPacket := Ref{"", "", "newPacket"}
	commit := Ref{"overlay/batch", "MultiCoalescer", "Commit"}
	sendInside := Ref{"", "Interface", "sendInsideMessage"}
	sendNoMetrics := Ref{"", "Interface", "sendNoMetrics"}
	route := Ref{"", "Interface", "getOrHandshakeConsiderRouting"}
	fFw, fPk := c.Field("", "Interface", "firewall"), c.Field("firewall", "ParsedPacket", "Packet")
	if fFw == nil || fPk == nil {
		return
	}
	stop := []Ref{newPacket, g1DropRef, commit, sendInside, sendNoMetrics, route, {"", "Interface", "rejectOutside"}, {"", "Interface", "rejectInside"}}
	type site struct {
		fn       Ref
		roles    map[string]func(types.Type) bool
		sink     Ref
		incoming bool
		// bytes: the parsed bytes; parsed: the *ParsedPacket they were parsed into; host: the tunnel;
		// sinkOK: the sink call carries the same bytes and tunnel
		bytes, parsed, host g1M
		sinkOK              func(e g1Event) bool
	}
	iface := g1TNamed("", "Interface", true)
	hostT := g1TNamed("", "HostInfo", true)
	fBytes := c.Field("overlay/tio", "Packet", "Bytes")
	fRxFw := c.Field("", "rxContext", "fwPacket")
	if fBytes == nil || fRxFw == nil {
		return
	}
	routed := g1MExtract(g1MCall([]Ref{route}, g1MRoot("F"), g1MField(fPk, g1MRoot("FWP"))), 0)
	sites := []site{
		{fn: Ref{"", "Interface", "handleOutsideMessagePacket"}, sink: commit, incoming: true,
			roles: map[string]func(types.Type) bool{"F": iface, "HOST": hostT, "RXC": g1TNamed("", "rxContext", true), "DATA": func(t types.Type) bool { _, ok := t.Underlying().(*types.Slice); return ok }},
			bytes: g1MRoot("DATA"), parsed: g1MField(fRxFw, g1MRoot("RXC")), host: g1MRoot("HOST"),
			sinkOK: func(e g1Event) bool { return len(e.Args) > 1 && g1MRoot("DATA")(e.Args[1]) }},
		{fn: Ref{"", "Interface", "consumeInsidePacket"}, sink: sendInside, incoming: false,
			roles: map[string]func(types.Type) bool{"F": iface, "PKT": g1TNamed("overlay/tio", "Packet", false), "FWP": g1TNamed("firewall", "ParsedPacket", true)},
			bytes: g1MField(fBytes, g1MRoot("PKT")), parsed: g1MRoot("FWP"), host: routed,
			sinkOK: func(e g1Event) bool { return len(e.Args) > 2 && routed(e.Args[1]) && g1MRoot("PKT")(e.Args[2]) }},
	}
	// sendMessageNow: bytes are its payload parameter (the first []byte), parsed into a local
	if fn := c.funcQuiet(Ref{"", "Interface", "sendMessageNow"}); fn != nil {
		payload := ""
		for i, p := range fn.Params {
			if _, ok := p.Type().Underlying().(*types.Slice); ok && payload == "" {
				payload = fmt.Sprintf("p%d", i)
			}
		}
		sites = append(sites, site{fn: Ref{"", "Interface", "sendMessageNow"}, sink: sendNoMetrics, incoming: false,
			roles: map[string]func(types.Type) bool{"F": iface, "HOST": hostT},
			bytes: g1MRoot(payload), parsed: g1MAny, host: g1MRoot("HOST"),
			sinkOK: func(e g1Event) bool {
				// sendNoMetrics(f, t, st, ci, hostinfo, remote, p, nb, out, q): tunnel and payload by type/identity
				nHost, nPay := 0, 0
				for _, a := range e.Args {
					if g1MRoot("HOST")(a) {
						nHost++
					}
					if g1MRoot(payload)(a) {
						nPay++
					}
				}
				return nHost == 1 && nPay == 1
			}})
	} else {
		c.Func(Ref{"", "Interface", "sendMessageNow"})
	}
	for _, s := range sites {
		fn := c.Func(s.fn)
		if fn == nil {
			continue
		}
		roles := c.g1Roles("C17.delivery", fn, s.roles)
		if roles == nil {
			continue
		}
		paths := c.g1Explore("C17.delivery", &g1Sym{Stop: stop}, fn, roles...)
		if paths == nil {
			continue
		}
		if s.incoming {
			c17Reject(c, fn, paths)
		}
		cons := s.fn.Name + ":" + s.sink.Name + "<-Drop"
		nSink := 0
		var bad *g1Path
		why := ""
		for _, p := range paths {
			for _, e := range p.Calls(s.sink) {
				nSink++
				if bad != nil {
					continue
				}
				// the newPacket call whose success was established before the sink
				var parsedInto *g1Val
				okParse := false
				for i, l := range p.Lits {
					if i >= e.NLits || !l.Val || l.Atom.K != g1KBin || l.Atom.Op != tokEQL || !g1MNil(l.Atom.Args[1]) {
						continue
					}
					call := l.Atom.Args[0]
					if g1MCall([]Ref{newPacket}, s.bytes, g1MBool(s.incoming), s.parsed)(call) {
						okParse, parsedInto = true, call.Args[2]
					}
				}
				if !okParse {
					bad, why = p, fmt.Sprintf("%s is reached without newPacket(<the delivered bytes>, incoming=%v, …) having succeeded: the addresses Drop sees are not those of the delivered packet / are read with the wrong orientation", s.sink.Name, s.incoming)
					continue
				}
				// the packet handed to Drop is the Packet part of what newPacket filled
				pk := g1MField(fPk, g1MOr(g1MIs(parsedInto), g1MBuiltin("out", nil, nil)))
				if g1Strip(parsedInto).K == g1KObj {
					pk = g1MField(fPk, g1MBuiltin("out", g1MCall([]Ref{newPacket}, s.bytes), nil))
				}
				drop := g1MEq(g1MCall([]Ref{g1DropRef}, g1MField(fFw, g1MRoot("F")), pk, g1MBool(s.incoming), s.host), g1MNil)
				if !c17LitBefore(p, drop, true, e.NLits) {
					bad, why = p, fmt.Sprintf("%s is reached without Firewall.Drop(<parsed packet>, incoming=%v, <this tunnel>, …) having returned nil", s.sink.Name, s.incoming)
					continue
				}
				if !s.sinkOK(e) {
					bad, why = p, s.sink.Name+" is called with bytes / a tunnel other than the ones Drop approved"
				}
			}
		}
		switch {
		case bad != nil:
			c.g1BadPath("C17.delivery", cons, fn, bad, why)
		case nSink == 0:
			c.Unknown("C17.delivery", cons, "no path reaching "+s.sink.Name+" found")
		default:
			c.OK("C17.delivery", cons, fmt.Sprintf("%d delivering paths of %d, each behind parse + Drop==nil for the same bytes and tunnel", nSink, len(paths)))
		}
	}
	// the dispatcher hands the handler the tunnel whose keys decrypted the bytes
	if fn := c.Func(Ref{"", "Interface", "readOutsidePackets"}); fn != nil {
		fCS := c.Field("", "HostInfo", "ConnectionState")
		n := 0
		for _, ci := range callsIn(fn, Ref{"", "Interface", "handleOutsideMessagePacket"}) {
			n++
			var host, data ssa.Value
			for _, a := range callArgs(ci)[1:] {
				if hostT(a.Type()) {
					host = a
				} else if _, ok := a.Type().Underlying().(*types.Slice); ok {
					data = a
				}
			}
			ok := false
			if call, idx := callOf(data); host != nil && call != nil && idx == 0 && matchFunc(calleeObj(call), Ref{"", "ConnectionState", "Decrypt"}) {
				recv := callArgs(call)[0]
				ok = loadsField(recv, fCS) && derivesFrom(recv, sliceLocal, func(x ssa.Value) bool { return x == host })
			}
			c.Check(ok, "C17.delivery", fmt.Sprintf("readOutsidePackets:handler-args#%d", n-1), c.instrPos(ci), "plaintext of hostinfo.ConnectionState.Decrypt is checked against that same hostinfo", "the plaintext handed to the message handler was not decrypted by the tunnel whose certificate Drop will check it against")
		}
		if n == 0 {
			c.Unknown("C17.delivery", "readOutsidePackets:handler-args", "call of handleOutsideMessagePacket not found")
		}
	}
}

// c17Emitters: data messages (header.Message) are put on a tunnel only at tabled sites.
func c17Emitters(c *Ctx) {
	mt := c.NamedType("header", "MessageType")
	kMsg, kRelay := c.ConstVal("header", "Message"), c.ConstVal("header", "MessageRelay")
	if mt == nil || kMsg == nil || kRelay == nil {
		return
	}
	// enclosing function -> why a data message may be emitted there
	table := map[string]string{
		"(*nebula.Interface).sendMessageNow":      "cached tun packet, sent after its own Drop==nil (C17.delivery)",
		"(*nebula.Interface).consumeInsidePacket": "caches a tun packet for the handshake with sendMessageNow as the sender, which re-checks Drop",
		"(*nebula.Interface).sendInsideEncrypt":   "encrypts a segment for sendInsideMessage, reached only from consumeInsidePacket after Drop==nil",
		"(*nebula.Interface).rejectOutside":       "reply to a refused inbound packet with that packet's addresses swapped; authentic iff sent only after the address tests passed (C17.reject)",
		"(*nebula.Interface).prepareSendVia":      "relay wrapper (subtype MessageRelay) around an already encrypted packet; not an overlay packet of the relay peer",
	}
	funcs := c.moduleFuncs()
	n := 0
	for _, fn := range funcs {
		eachInstr(fn, func(in ssa.Instruction) {
			ci, ok := in.(ssa.CallInstruction)
			if !ok || c.isTestHelperFile(in) {
				return
			}
			var sig *types.Signature
			if o := calleeObj(ci); o != nil {
				sig, _ = o.Type().(*types.Signature)
			} else {
				sig, _ = ci.Common().Value.Type().Underlying().(*types.Signature)
			}
			if sig == nil {
				return
			}
			// an emitter takes the payload; metrics and name helpers that merely mention the type do not
			hasPayload := false
			for i := 0; i < sig.Params().Len(); i++ {
				if sl, ok := sig.Params().At(i).Type().Underlying().(*types.Slice); ok && types.Identical(sl.Elem(), types.Typ[types.Byte]) {
					hasPayload = true
				}
			}
			if !hasPayload {
				return
			}
			args := ci.Common().Args
			off := 0
			if sig.Recv() != nil && !ci.Common().IsInvoke() {
				off = 1
			}
			for i := 0; i < sig.Params().Len() && i+off < len(args); i++ {
				if !types.Identical(sig.Params().At(i).Type(), mt) {
					continue
				}
				k, isK := stripValue(args[i+off]).(*ssa.Const)
				if !isK || k.Value == nil || !constant.Compare(k.Value, tokEQL, kMsg) {
					continue
				}
				n++
				nm := fnName(topFunc(fn))
				callee := "call"
				if o := calleeObj(ci); o != nil {
					callee = o.Name()
				}
				cons := fmt.Sprintf("header.Message->%s<-%s", callee, nm)
				why, ok := table[nm]
				if !ok {
					c.Bad("C17.emitters", cons, c.instrPos(in), "a data message is emitted from a site that is not one of the Drop-guarded send paths: its overlay addresses are not checked against the peer's certificate")
					continue
				}
				c.OK("C17.emitters", cons, "tabled: "+why)
				switch nm {
				case "(*nebula.Interface).consumeInsidePacket":
					// the deferred sender must be sendMessageNow
					okCb := false
					for _, a := range args {
						if mc, isMC := stripValue(a).(*ssa.MakeClosure); isMC {
							if f, isF := mc.Fn.(*ssa.Function); isF && matchFunc(boundTarget(f), Ref{"", "Interface", "sendMessageNow"}) {
								okCb = true
							}
						}
					}
					c.Check(okCb, "C17.emitters", cons+":sender", c.instrPos(in), "cached packets are sent by sendMessageNow", "cached data packets are later sent by a function that does not run Drop")
				case "(*nebula.Interface).prepareSendVia":
					okSub := false
					for _, a := range args {
						if kk, isK := stripValue(a).(*ssa.Const); isK && kk.Value != nil && kk != k && constant.Compare(kk.Value, tokEQL, kRelay) && types.Identical(kk.Type(), c.NamedType("header", "MessageSubType")) {
							okSub = true
						}
					}
					c.Check(okSub, "C17.emitters", cons+":subtype", c.instrPos(in), "subtype MessageRelay", "the relay wrapper emits a plain data message")
				}
			}
		})
	}
	if n == 0 {
		c.Unknown("C17.emitters", "header.Message", "no data message emit site found")
	}
	// the encrypting helpers have no other callers
	for _, t := range []struct {
		callee Ref
		caller string
	}{
		{Ref{"", "Interface", "sendInsideEncrypt"}, "(*nebula.Interface).sendInsideMessage"},
		{Ref{"", "Interface", "sendInsideMessage"}, "(*nebula.Interface).consumeInsidePacket"},
	} {
		k := 0
		for _, s := range callersOf(funcs, t.callee) {
			if c.isTestHelperFile(s.Instr) {
				continue
			}
			k++
			nm := fnName(topFunc(s.Fn))
			c.Check(nm == t.caller, "C17.emitters", t.callee.Name+"<-"+nm, c.instrPos(s.Instr), "only from "+t.caller, "the data-message encryptor is reachable from a site that did not run Drop")
		}
		if k == 0 {
			c.Unknown("C17.emitters", t.callee.Name, "no caller found")
		}
	}
}

// c17Reject: rejectOutside answers the refused packet with its addresses swapped, through the
// sending peer's tunnel. The answer's destination is authentic only if the refused packet's source
// was: the call must be confined to refusals for ErrNoMatchingRule (Drop returns it after the
// address tests).
func c17Reject(c *Ctx, fn *ssa.Function, paths []*g1Path) {
	reject := Ref{"", "Interface", "rejectOutside"}
	var noRule types.Object
	if tp := c.P.TypesPkg(""); tp != nil {
		noRule = tp.Scope().Lookup("ErrNoMatchingRule")
	}
	if noRule == nil {
		c.Unknown("anchor", "nebula.ErrNoMatchingRule", "variable not found in the current tree")
		return
	}
	drop := g1MCall([]Ref{g1DropRef})
	isNoRule := g1MOr(g1MEq(drop, g1MGlobal(noRule)), g1MCall([]Ref{{"errors", "", "Is"}}, drop, g1MGlobal(noRule)))
	n := 0
	var bad *g1Path
	for _, p := range paths {
		for _, e := range p.Calls(reject) {
			n++
			if !c17LitBefore(p, isNoRule, true, e.NLits) && bad == nil {
				bad = p
			}
		}
	}
	for _, s := range callersOf(c.moduleFuncs(), reject) {
		if nm := fnName(topFunc(s.Fn)); !c.isTestHelperFile(s.Instr) && nm != fnName(fn) {
			c.Bad("C17.reject", "rejectOutside<-"+nm, c.instrPos(s.Instr), "reject replies are sent from a site other than the inbound message handler")
		}
	}
	switch {
	case bad != nil:
		c.g1BadPath("C17.reject", "handleOutsideMessagePacket:rejectOutside<-ErrNoMatchingRule", fn, bad, "a reject reply is sent into the peer's tunnel for a packet Drop refused for any reason, including an unauthentic source (ErrInvalidRemoteIP / ErrPeerRejected) or a foreign destination (ErrInvalidLocalIP): the reply is a packet sent to the peer whose destination is the spoofed source and whose source is the foreign destination")
	case n == 0:
		c.OK("C17.reject", "handleOutsideMessagePacket:rejectOutside<-ErrNoMatchingRule", "no reject reply is sent")
	default:
		c.OK("C17.reject", "handleOutsideMessagePacket:rejectOutside<-ErrNoMatchingRule", fmt.Sprintf("%d replying paths, each for a rule refusal only", n))
	}
}
