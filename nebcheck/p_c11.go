package main

import (
	"fmt"
	"go/constant"
	"go/token"
	"go/types"
	"strings"

	"golang.org/x/tools/go/ssa"
)

func init() {
	register(&Property{
		ID: "C11", Title: "The replay window accepts each counter exactly once when in range",
		Patterns:  []string{"."},
		Technique: "finite predicate tables by path-sensitive constant propagation over order/bit atoms (verdict of Check and of Update against the reference rule, and against each other; strictlyWithinWindow against its reference), CFG must-pass of the bit mark on every accepting path and no state write on rejecting paths, unsigned wrap obligations on all counter arithmetic, purity of the pre-check, who-may-write the window state",
		LevelText: "Structural necessary conditions decided on all paths: Check and Update compute the same verdict from the same atoms (counter ahead of the highest accepted; inside the window test; bit already set) and that verdict equals the reference rule 'ahead, or inside the window and not yet marked'; the window predicate has the reference truth table on both boundaries; every accepting path marks the counter's bit and moves the highest-accepted counter only forward to exactly that counter, every rejecting path writes no window state; no addition or subtraction on the counter state can wrap unnoticed (each is masked, or dominated by a comparison that bounds it); the pre-check Check writes nothing reachable from the window (metrics included); only the window's own methods write its state; the window length is a power of two (premise of the mask arithmetic).",
		LevelNote: "Not decided: that clearRange clears exactly the slots between the old and new highest counter (bit-range arithmetic over runtime positions), i.e. full equivalence of the accept/reject function with the reference window model over counter histories - that needs exhaustive exploration of small windows, a different technique family. The warm-up loop counter in updateSlow is tabled (bounded by 2*length, metrics only).",
		Explanation: "K8 tables for Check/Update/strictlyWithinWindow over abstract atoms, K1 must-pass for the bit mark and forward-only cursor, K13 wrap obligations, K10 purity of Check, K2 writers",
		Run:       runC11,
		Canaries: func(c *Ctx) []Canary {
			return []Canary{
				{Name: "check-counts-metric", File: "bits.go", Old: "\tif b.strictlyWithinWindow(i) {\n\t\treturn !b.get(i)\n\t}\n", New: "\tif b.strictlyWithinWindow(i) {\n\t\tif b.get(i) {\n\t\t\tb.dupeCounter.Inc(1)\n\t\t\treturn false\n\t\t}\n\t\treturn true\n\t}\n", Rule: "C11.purity"},
				{Name: "check-accepts-current", File: "bits.go", Old: "\t// If i is the next number, return true.\n\tif i > b.current {", New: "\t// If i is the next number, return true.\n\tif i >= b.current {", Rule: "C11.verdict"},
				{Name: "within-window-inclusive", File: "bits.go", Old: "\tif i > b.current-b.length {", New: "\tif i >= b.current-b.length {", Rule: "C11.within-table"},
				{Name: "wrap-jump-clamp", File: "bits.go", Old: "\t\tif end-b.current > b.length {", New: "\t\tif end > b.current+b.length {", Rule: "C11.wrap"},
				{Name: "wrap-fast-path", File: "bits.go", Old: "\tif i != 0 && i-1 == b.current {", New: "\tif i == b.current+1 {", Rule: "C11.wrap"},
				{Name: "backfill-forgets-mark", File: "bits.go", Old: "\t\tb.bits[word] = w | mask\n\t\treturn true\n\t}\n\n\t// In all other cases", New: "\t\treturn true\n\t}\n\n\t// In all other cases", Rule: "C11.mark"},
				{Name: "dupe-moves-cursor", File: "bits.go", Old: "\t\t\tb.dupeCounter.Inc(1)\n\t\t\treturn false", New: "\t\t\tb.dupeCounter.Inc(1)\n\t\t\tb.current = i\n\t\t\treturn false", Rule: "C11.mark"},
				{Name: "update-ignores-dupe-bit", File: "bits.go", Old: "\t\tif b.current == i || w&mask != 0 {", New: "\t\tif b.current == i {", Rule: "C11.verdict"},
				{Name: "outside-writer", File: "connection_state.go", Old: "func (cs *ConnectionState) MarshalJSON() ([]byte, error) {", New: "func (cs *ConnectionState) resetWindow() { cs.window.current = 0 }\n\nfunc (cs *ConnectionState) MarshalJSON() ([]byte, error) {", Rule: "C11.writers"},
			}
		},
	})
}

func runC11(c *Ctx) {
	c.Rule("C11.purity", "K10: Check and everything it calls in the module stores nothing into the window and calls nothing on values held in its fields (metrics included; logging excluded)", 3)
	c.Rule("C11.verdict", "K8: for every consistent combination of the atoms (i vs current; i==current+1; within-window; bit set) Check and Update return the reference verdict 'ahead, or within the window and not marked' (and therefore agree)", 2)
	c.Rule("C11.within-table", "K8: strictlyWithinWindow == (i<length && current<length) || i > current-length for all 27 order combinations; the subtraction is evaluated only when it cannot wrap given the callers' guarantee i <= current, which every call site establishes", 3)
	c.Rule("C11.mark", "K1: every accepting return of Update/updateSlow is preceded on all paths by the bit mark for i; the highest-accepted cursor is only ever stored as i and only where i is ahead of it; no path to a rejecting return writes window state", 5)
	c.Rule("C11.wrap", "K13: every uint64 +/- on values derived from the counter state (current, the incoming counter) is masked with lengthMask, or dominated by a comparison that excludes wrap-around, or tabled with a reason", 6)
	c.Rule("C11.writers", "K2: Bits.current / bits / length / lengthMask are written only by the window's own methods", 2)
	c.Rule("C11.pow2", "K1: NewBits constructs a window only after the power-of-two test (premise of the mask arithmetic)", 1)

	bits := c.NamedType("", "Bits")
	fCur := c.Field("", "Bits", "current")
	fBits := c.Field("", "Bits", "bits")
	fLen := c.Field("", "Bits", "length")
	fMask := c.Field("", "Bits", "lengthMask")
	fnCheck := c.Func(Ref{"", "Bits", "Check"})
	fnUpdate := c.Func(Ref{"", "Bits", "Update"})
	fnSlow := c.Func(Ref{"", "Bits", "updateSlow"})
	fnWithin := c.Func(Ref{"", "Bits", "strictlyWithinWindow"})
	fnGet := c.Func(Ref{"", "Bits", "get"})
	fnSet := c.Func(Ref{"", "Bits", "set"})
	fnNew := c.Func(Ref{"", "", "NewBits"})
	if bits == nil || fCur == nil || fBits == nil || fLen == nil || fMask == nil || fnCheck == nil || fnUpdate == nil || fnSlow == nil || fnWithin == nil || fnGet == nil || fnSet == nil || fnNew == nil {
		return
	}
	inModule := func(f *ssa.Function) bool { return strings.HasPrefix(pkgPathOf(f), nebulaMod) }

	// ---- purity of the pre-check
	for _, f := range reachableFuncs([]*ssa.Function{fnCheck}, inModule) {
		bad, pos := "", ""
		eachInstr(f, func(in ssa.Instruction) {
			if bad != "" {
				return
			}
			switch x := in.(type) {
			case *ssa.Store:
				if root, _ := addrRoot(x.Addr); !isFreshAllocDeep(root) {
					bad, pos = "stores to non-local memory", c.instrPos(in)
				}
			case *ssa.MapUpdate:
				bad, pos = "map update", c.instrPos(in)
			case ssa.CallInstruction:
				if bn := builtinName(x); bn == "clear" || bn == "delete" || bn == "copy" {
					bad, pos = "builtin "+bn, c.instrPos(in)
					return
				}
				args := callArgs(x)
				if len(args) == 0 {
					return
				}
				// a call on a value held in a field of the window (metrics counters, the bitmap)
				recv := args[0]
				if derivesFrom(recv, sliceLocal, func(v ssa.Value) bool {
					fa, ok := v.(*ssa.FieldAddr)
					if !ok {
						return false
					}
					n := recvNamed(fa.X.Type())
					return n != nil && n.Obj() == bits.Obj()
				}) {
					if cal := x.Common().StaticCallee(); cal != nil && inModule(cal) {
						return // a method of the window itself: analysed as part of the closure
					}
					bad, pos = "calls "+c11CalleeName(x)+" on a value held in the window", c.instrPos(in)
				}
			}
		})
		c.Check(bad == "", "C11.purity", fnName(f), pos, "no store, no call on window-held values", "the pre-check path "+bad+": Check changes state")
	}

	// ---- strictlyWithinWindow truth table
	{
		var diffs []string
		n := 0
		subReachedUnsafe := ""
		for x := -1; x <= 1; x++ { // order(i, length)
			for y := -1; y <= 1; y++ { // order(current, length)
				for z := -1; z <= 1; z++ { // order(i, current-length)
					rel := orderRel{"i|b.length": x, "b.current|b.length": y, "i|(b.current-b.length)": z}
					subSeen := false
					env := &AbsEnv{SymCmp: func(op token.Token, a, b AVal) (bool, bool) {
						if strings.Contains(a.String(), "-") || strings.Contains(b.String(), "-") {
							subSeen = true
						}
						r, ok := rel.get(a.String(), b.String())
						if !ok {
							return false, false
						}
						return cmpHolds(op, r), true
					}}
					res, err := absEval(fnWithin, env)
					if err != "" {
						c.Unknown("C11.within-table", "strictlyWithinWindow", "left the supported fragment: "+err)
						n = -1000
						break
					}
					n++
					got := constant.BoolVal(res[0].K)
					want := (x < 0 && y < 0) || z > 0
					if got != want {
						diffs = append(diffs, fmt.Sprintf("i%slength current%slength i%scurrent-length: got %v want %v", relStr(x), relStr(y), relStr(z), got, want))
					}
					// the subtraction current-length was evaluated with current < length: allowed only for inputs the
					// callers exclude (i > current, implied by i >= length > current)
					if subSeen && y < 0 && !(x >= 0) {
						subReachedUnsafe = fmt.Sprintf("i%slength current%slength", relStr(x), relStr(y))
					}
				}
			}
		}
		if n > 0 {
			c.Check(len(diffs) == 0, "C11.within-table", "strictlyWithinWindow:table", c.P.Pos(fnWithin.Pos()), fmt.Sprintf("%d order combinations match the reference", n), strings.Join(diffs, "; "))
			c.Check(subReachedUnsafe == "", "C11.within-table", "strictlyWithinWindow:sub-no-wrap", c.P.Pos(fnWithin.Pos()), "current-length is evaluated only when current >= length (given i <= current)", "current-length is evaluated although current < length for "+subReachedUnsafe+": unsigned underflow")
		}
		// callers' guarantee: every call strictlyWithinWindow(x) is reachable only through the false side of `x > b.current`
		nCalls := 0
		for _, f := range c.moduleFuncs() {
			for _, ci := range callsIn(f, Ref{"", "Bits", "strictlyWithinWindow"}) {
				nCalls++
				arg := callArgs(ci)[2-1]
				g := gCmp("counter not ahead of current (i > current is false)", func(v ssa.Value) bool { return sameVar(v, arg) }, isFieldLoad(fCur), func(op token.Token) (bool, bool) {
					switch op {
					case token.GTR:
						return true, false
					case token.LEQ:
						return true, true
					}
					return false, false
				})
				ok, nt, path := c.mustPass(f, Sink{Instr: ci.(ssa.Instruction)}, g)
				cons := fmt.Sprintf("%s:call-within#%d", fnName(f), nCalls)
				if ok && nt > 0 {
					c.OK("C11.within-table", cons, "reached only with i <= current")
				} else {
					c.Bad("C11.within-table", cons, c.instrPos(ci.(ssa.Instruction)), "strictlyWithinWindow is called without the counter having been tested to be <= current: its subtraction current-length can underflow during warm-up", path...)
				}
			}
		}
	}

	// ---- verdict tables for Check and Update
	bitExpr := c11BitExpr(fnGet)
	if bitExpr == "" {
		c.Unknown("C11.verdict", "get:bit-expression", "could not extract the bit test of (*Bits).get")
	} else {
		for _, target := range []*ssa.Function{fnCheck, fnUpdate} {
			var diffs []string
			n := 0
			failed := false
			for a := -1; a <= 1 && !failed; a++ {
				for _, next := range []bool{false, true} {
					for _, nz := range []bool{false, true} {
						for _, w := range []bool{false, true} {
							for _, bt := range []bool{false, true} {
								if next && (a <= 0 || !nz) || (a > 0 && !nz) || (a == 0 && !bt) || (a == 0 && !w) {
									continue // inconsistent: i==current+1 needs i>current; i>current>=0 needs i!=0; the bit of current is always marked and current is in the window
								}
								for _, u := range []bool{false, true} {
									res, err := c11Eval(target, fnSlow, fnGet, fnWithin, bitExpr, a, next, nz, w, bt, u)
									if err != "" {
										c.Unknown("C11.verdict", fnName(target), "left the supported fragment: "+err)
										failed = true
										break
									}
									n++
									want := a > 0 || (a < 0 && w && !bt)
									if res != want {
										diffs = append(diffs, fmt.Sprintf("i%scurrent next=%v within=%v marked=%v: got %v want %v", relStr(a), next, w, bt, res, want))
									}
								}
							}
						}
					}
				}
			}
			if !failed {
				c.Check(len(diffs) == 0, "C11.verdict", fnName(target)+":table", c.P.Pos(target.Pos()), fmt.Sprintf("%d abstract inputs give the reference verdict", n), strings.Join(uniqStrings(diffs), "; "))
			}
		}
	}

	// ---- marks and cursor
	isBitMark := func(in ssa.Instruction) bool {
		switch x := in.(type) {
		case *ssa.Store:
			if ia, ok := x.Addr.(*ssa.IndexAddr); ok && loadsField(ia.X, fBits) {
				// value must OR something into the loaded word (never a plain overwrite with 0)
				if bo, ok := x.Val.(*ssa.BinOp); ok && bo.Op == token.OR {
					return true
				}
			}
		case ssa.CallInstruction:
			return matchFunc(calleeObj(x), Ref{"", "Bits", "set"})
		}
		return false
	}
	isStateWrite := func(in ssa.Instruction) bool {
		switch x := in.(type) {
		case *ssa.Store:
			root, _ := addrRoot(x.Addr)
			_ = root
			if fa, ok := x.Addr.(*ssa.FieldAddr); ok && (fieldOfAddr(fa) == fCur || fieldOfAddr(fa) == fBits || fieldOfAddr(fa) == fLen || fieldOfAddr(fa) == fMask) {
				return true
			}
			if ia, ok := x.Addr.(*ssa.IndexAddr); ok && loadsField(ia.X, fBits) {
				return true
			}
		case ssa.CallInstruction:
			if bn := builtinName(x); bn == "clear" {
				return true
			}
			return matchAny(calleeObj(x), []Ref{{"", "Bits", "set"}, {"", "Bits", "clearRange"}})
		}
		return false
	}
	for _, f := range []*ssa.Function{fnUpdate, fnSlow} {
		iParam := f.Params[2]
		for k, s := range boolReturns(f, 0, true) {
			ret := s.Instr.(*ssa.Return)
			// a return that forwards updateSlow's verdict is covered by updateSlow's own obligations
			if call, _ := callOf(retResult(ret, 0)); call != nil && matchFunc(calleeObj(call), Ref{"", "Bits", "updateSlow"}) {
				continue
			}
			av, path := c.avoidsCut(f, nil, ret, isBitMark)
			cons := fmt.Sprintf("%s:accept#%d:marked", fnName(f), k)
			if av {
				c.Bad("C11.mark", cons, c.instrPos(ret), "an accepting return is reachable without marking the counter's bit: the same counter would be accepted again", path...)
			} else {
				c.OK("C11.mark", cons, "bit marked on every path")
			}
		}
		for k, s := range boolReturns(f, 0, false) {
			ret := s.Instr.(*ssa.Return)
			if call, _ := callOf(retResult(ret, 0)); call != nil && matchFunc(calleeObj(call), Ref{"", "Bits", "updateSlow"}) {
				continue
			}
			bad := ""
			for _, b := range f.Blocks {
				for _, in := range b.Instrs {
					if !isStateWrite(in) {
						continue
					}
					if _, r := reachable(b, nil)[ret.Block()]; r || b == ret.Block() {
						bad = c.instrPos(in)
					}
				}
			}
			c.Check(bad == "", "C11.mark", fmt.Sprintf("%s:reject#%d:no-write", fnName(f), k), bad, "no window write can precede this rejecting return", "window state written at "+bad+" on a path to a rejecting return")
		}
		// cursor stores
		n := 0
		eachInstr(f, func(in ssa.Instruction) {
			st, ok := in.(*ssa.Store)
			if !ok {
				return
			}
			fa, ok := st.Addr.(*ssa.FieldAddr)
			if !ok || fieldOfAddr(fa) != fCur {
				return
			}
			n++
			cons := fmt.Sprintf("%s:cursor-store#%d", fnName(f), n)
			if st.Val != ssa.Value(iParam) {
				c.Bad("C11.mark", cons, c.instrPos(in), "the highest-accepted counter is set to something other than the counter being accepted")
				return
			}
			ahead := gAny("counter is ahead of current",
				gCmp("i > current", func(v ssa.Value) bool { return v == iParam }, isFieldLoad(fCur), func(op token.Token) (bool, bool) {
					switch op {
					case token.GTR:
						return true, true
					case token.LEQ:
						return true, false
					}
					return false, false
				}),
				gCmp("i-1 == current", func(v ssa.Value) bool {
					bo, ok := stripValue(v).(*ssa.BinOp)
					if !ok || bo.Op != token.SUB || bo.X != ssa.Value(iParam) {
						return false
					}
					k, ok := constUint(bo.Y)
					return ok && k == 1
				}, isFieldLoad(fCur), mustEqual))
			ok2, nt, path := c.mustPass(f, Sink{Instr: in}, ahead)
			if ok2 && nt > 0 {
				c.OK("C11.mark", cons, "stored only where the counter is ahead of the cursor")
			} else {
				c.Bad("C11.mark", cons, c.instrPos(in), "the highest-accepted counter can be stored without the counter having been tested to be ahead of it: the window could move backwards", path...)
			}
		})
	}

	// ---- wrap obligations
	c11Wrap(c, []*ssa.Function{fnCheck, fnUpdate, fnSlow, fnWithin, fnGet, fnSet}, fCur, fMask)

	// ---- writers
	allowed := map[string]string{
		"nebula.NewBits":              "constructor",
		"(*nebula.Bits).Update":       "fast path: marks and advances",
		"(*nebula.Bits).updateSlow":   "jump / backfill",
		"(*nebula.Bits).set":          "bit mark",
		"(*nebula.Bits).clearRange":   "slides the window",
	}
	for _, f := range []*types.Var{fCur, fBits, fLen, fMask} {
		ws := fieldWriters(c.moduleFuncs(), f)
		bad := ""
		for _, w := range ws {
			if w.Kind == "addr-escape" {
				continue
			}
			if _, ok := allowed[fnName(topFunc(w.Fn))]; !ok && !c.isTestFile(w.Fn.Pos()) {
				bad = fnName(w.Fn) + " at " + c.instrPos(w.Instr)
			}
		}
		c.Check(bad == "", "C11.writers", "Bits."+f.Name(), "", fmt.Sprintf("%d write sites, all inside the window's methods", len(ws)), "written outside the window's own methods: "+bad)
	}

	// ---- power of two
	{
		lenP := fnNew.Params[0]
		pow2 := gCmp("length & (length-1) == 0", func(v ssa.Value) bool {
			bo, ok := stripValue(v).(*ssa.BinOp)
			if !ok || bo.Op != token.AND {
				return false
			}
			for _, pair := range [][2]ssa.Value{{bo.X, bo.Y}, {bo.Y, bo.X}} {
				if pair[0] == ssa.Value(lenP) {
					if sb, ok := pair[1].(*ssa.BinOp); ok && sb.Op == token.SUB && sb.X == ssa.Value(lenP) {
						if k, ok := constUint(sb.Y); ok && k == 1 {
							return true
						}
					}
				}
			}
			return false
		}, isIntConst(0), mustEqual)
		var sinks []Sink
		for _, b := range fnNew.Blocks {
			if ret, ok := b.Instrs[len(b.Instrs)-1].(*ssa.Return); ok {
				sinks = append(sinks, Sink{Instr: ret, Desc: "return"})
			}
		}
		c.requireGuards("C11.pow2", fnNew, sinks, "return", pow2)
	}
}

func c11CalleeName(ci ssa.CallInstruction) string {
	if o := calleeObj(ci); o != nil {
		return o.Name()
	}
	return "a function value"
}

func uniqStrings(in []string) []string {
	seen := map[string]bool{}
	var out []string
	for _, s := range in {
		if !seen[s] {
			seen[s] = true
			out = append(out, s)
		}
	}
	return out
}

func cmpHolds(op token.Token, r int) bool {
	switch op {
	case token.EQL:
		return r == 0
	case token.NEQ:
		return r != 0
	case token.LSS:
		return r < 0
	case token.LEQ:
		return r <= 0
	case token.GTR:
		return r > 0
	case token.GEQ:
		return r >= 0
	}
	return false
}

// c11BitExpr evaluates get abstractly and returns the symbolic expression it compares with zero.
func c11BitExpr(get *ssa.Function) string {
	expr := ""
	env := &AbsEnv{SymCmp: func(op token.Token, a, b AVal) (bool, bool) {
		if b.isConst() && expr == "" {
			expr = a.String()
		}
		return true, true
	}}
	if _, err := absEval(get, env); err != "" {
		return ""
	}
	return expr
}

// c11Eval evaluates target (Check or Update) under one abstract input and returns its verdict.
func c11Eval(target, slow, get, within *ssa.Function, bitExpr string, a int, next, nz, w, bt, u bool) (bool, string) {
	var effects []string
	var env *AbsEnv
	symCmp := func(op token.Token, x, y AVal) (bool, bool) {
		xs, ys := x.String(), y.String()
		flip := func(r int) int { return r }
		_ = flip
		switch {
		case xs == "i" && ys == "b.current":
			return cmpHolds(op, a), true
		case xs == "b.current" && ys == "i":
			return cmpHolds(op, -a), true
		case xs == "(i-1)" && ys == "b.current" || xs == "b.current" && ys == "(i-1)":
			if op == token.EQL {
				return next, true
			}
			if op == token.NEQ {
				return !next, true
			}
		case xs == "(b.current+1)" && ys == "i" || xs == "i" && ys == "(b.current+1)":
			if op == token.EQL {
				return next, true
			}
			if op == token.NEQ {
				return !next, true
			}
		case xs == "i" && y.isConst():
			if v, ok := constantInt64(y.K); ok && v == 0 {
				r := 0
				if nz {
					r = 1
				}
				return cmpHolds(op, r), true
			}
		case xs == bitExpr && y.isConst():
			if v, ok := constantInt64(y.K); ok && v == 0 {
				r := 0
				if bt {
					r = 1
				}
				return cmpHolds(op, r), true
			}
		case xs == "b.current" && ys == "b.length":
			return cmpHolds(op, 1), true // steady state: the warm-up arm differs only in how the lost metric is counted
		}
		return u, true // comparisons that only steer metrics / window sliding: both polarities are explored
	}
	oracle := func(o *types.Func, args []AVal) (AVal, bool) {
		switch {
		case matchFunc(o, Ref{"", "Bits", "updateSlow"}):
			r, err := absEval(slow, env)
			if err != "" || len(r) != 1 {
				return AVal{}, false
			}
			return r[0], true
		case matchFunc(o, Ref{"", "Bits", "strictlyWithinWindow"}):
			if len(args) == 2 && args[1].String() == "i" {
				return aBool(w), true
			}
			return AVal{}, false
		case matchFunc(o, Ref{"", "Bits", "get"}):
			if len(args) == 2 && args[1].String() == "i" {
				return aBool(bt), true
			}
			return AVal{}, false
		case o.Name() == "Enabled" && o.Pkg() != nil && o.Pkg().Path() == "log/slog":
			return aBool(false), true
		}
		return AVal{}, false
	}
	env = &AbsEnv{SymCmp: symCmp, Oracle: oracle, Effects: &effects, OpaqueCalls: true}
	res, err := absEval(target, env)
	if err != "" {
		return false, err
	}
	if len(res) != 1 || !res[0].isConst() || res[0].K.Kind() != constant.Bool {
		return false, "non-constant verdict " + fmt.Sprint(res)
	}
	return constant.BoolVal(res[0].K), ""
}

// c11Wrap: K13 obligations on uint64 additions/subtractions whose operands derive from the counter state.
func c11Wrap(c *Ctx, funcs []*ssa.Function, fCur, fMask *types.Var) {
	// tabled exceptions, keyed by function and shape, one reason each
	for _, f := range funcs {
		iParam := ssa.Value(nil)
		for _, p := range f.Params {
			if p.Name() != "" && types.Identical(p.Type(), types.Typ[types.Uint64]) {
				iParam = p
			}
		}
		fromCounter := func(v ssa.Value) bool {
			return derivesFrom(v, SliceOpts{NoAllocStores: false}, func(x ssa.Value) bool {
				return (iParam != nil && x == iParam) || loadsField(x, fCur)
			})
		}
		// stores to current must not precede any arithmetic that reads it (loads at different points are then equal)
		n := 0
		eachInstr(f, func(in ssa.Instruction) {
			bo, ok := in.(*ssa.BinOp)
			if !ok || (bo.Op != token.ADD && bo.Op != token.SUB) {
				return
			}
			if b, ok := bo.Type().Underlying().(*types.Basic); !ok || b.Kind() != types.Uint64 {
				return
			}
			if !fromCounter(bo.X) && !fromCounter(bo.Y) {
				return
			}
			n++
			cons := fmt.Sprintf("%s:%s#%d", fnName(f), bo.Op.String(), n)
			why := c11Discharge(c, f, bo, fCur, fMask)
			if why != "" {
				c.OK("C11.wrap", cons, why)
			} else {
				c.Bad("C11.wrap", cons, c.instrPos(bo), fmt.Sprintf("%s on the counter state is neither masked with lengthMask nor dominated by a comparison excluding wrap-around: %s", bo.Op, exprString(bo)))
			}
		})
	}
}

// c11Discharge returns the reason the operation cannot wrap unnoticed, or "".
func c11Discharge(c *Ctx, f *ssa.Function, bo *ssa.BinOp, fCur, fMask *types.Var) string {
	// (a) every use masks the result with lengthMask
	if refs := bo.Referrers(); refs != nil && len(*refs) > 0 {
		all := true
		for _, r := range *refs {
			if _, ok := r.(*ssa.DebugRef); ok {
				continue
			}
			a, ok := r.(*ssa.BinOp)
			if !ok || a.Op != token.AND || !(loadsField(a.X, fMask) || loadsField(a.Y, fMask)) {
				all = false
			}
		}
		if all {
			return "result only used masked with lengthMask (modular position)"
		}
	}
	dominatedBy := func(blk *ssa.BasicBlock, match func(cd Cond) (bool, bool)) bool {
		for _, b := range f.Blocks {
			if len(b.Instrs) == 0 {
				continue
			}
			ifi, ok := b.Instrs[len(b.Instrs)-1].(*ssa.If)
			if !ok {
				continue
			}
			is, passTrue := match(normCond(ifi.Cond))
			if !is {
				continue
			}
			s := b.Succs[1]
			if passTrue {
				s = b.Succs[0]
			}
			if len(s.Preds) == 1 && s.Dominates(blk) {
				return true
			}
		}
		return false
	}
	same := func(a, b ssa.Value) bool { return exprString(a) == exprString(b) }
	// cmpGuard: a comparison establishing  x > y  or  x >= y
	geGuard := func(x, y ssa.Value, strictOnly bool) func(Cond) (bool, bool) {
		return func(cd Cond) (bool, bool) {
			if cd.Kind != CondCmp {
				return false, false
			}
			cb := cd.Base.(*ssa.BinOp)
			op := cb.Op
			switch {
			case same(cb.X, x) && same(cb.Y, y):
			case same(cb.X, y) && same(cb.Y, x):
				op = swapOp(op)
			default:
				return false, false
			}
			if cd.Neg {
				op = negOp(op)
			}
			switch op {
			case token.GTR:
				return true, true
			case token.LEQ:
				return true, false
			case token.GEQ:
				return !strictOnly, true
			case token.LSS:
				return !strictOnly, false
			}
			return false, false
		}
	}
	blockOf := func(v ssa.Value, def *ssa.BasicBlock) *ssa.BasicBlock {
		if in, ok := v.(ssa.Instruction); ok && in.Block() != nil {
			return in.Block()
		}
		return def
	}
	if bo.Op == token.SUB {
		// (b1) x - 1 guarded by x != 0
		if k, ok := constUint(bo.Y); ok && k == 1 {
			nz := func(cd Cond) (bool, bool) {
				if cd.Kind != CondCmp {
					return false, false
				}
				cb := cd.Base.(*ssa.BinOp)
				var o ssa.Value
				if same(cb.X, bo.X) {
					o = cb.Y
				} else if same(cb.Y, bo.X) {
					o = cb.X
				} else {
					return false, false
				}
				if z, ok := constUint(o); !ok || z != 0 {
					return false, false
				}
				op := cb.Op
				if cd.Neg {
					op = negOp(op)
				}
				switch op {
				case token.NEQ, token.GTR:
					return true, true
				case token.EQL, token.LEQ:
					return true, false
				}
				return false, false
			}
			if dominatedBy(bo.Block(), nz) {
				return "x-1 dominated by x != 0"
			}
		}
		// (b2) x - y dominated by x > y / x >= y ; for a phi, per incoming edge
		check := func(x ssa.Value, at *ssa.BasicBlock) bool {
			if dominatedBy(at, geGuard(x, bo.Y, false)) {
				return true
			}
			// x == y + k (a non-wrapping sum, itself an obligation)
			if s, ok := x.(*ssa.BinOp); ok && s.Op == token.ADD && (same(s.X, bo.Y) || same(s.Y, bo.Y)) {
				return true
			}
			return false
		}
		if phi, ok := bo.X.(*ssa.Phi); ok {
			all := true
			for k, e := range phi.Edges {
				if !check(e, phi.Block().Preds[k]) {
					all = false
				}
			}
			if all {
				return "minuend is >= subtrahend on every incoming edge (dominating comparison or sum with the subtrahend)"
			}
		} else if check(bo.X, bo.Block()) {
			return "dominated by a comparison minuend >= subtrahend"
		}
		// (b3) (x - y) - z dominated by (x - y) > z
		if dominatedBy(bo.Block(), geGuard(bo.X, bo.Y, false)) {
			return "dominated by a comparison minuend >= subtrahend"
		}
		// (b4) current - length in strictlyWithinWindow: decided by the truth-table rule C11.within-table
		if f.Name() == "strictlyWithinWindow" && loadsField(bo.X, fCur) {
			return "decided by C11.within-table (evaluated only when current >= length given the callers' guarantee)"
		}
		return ""
	}
	// ADD
	// (c1) x + y dominated by (e - x) > y   (then x + y < e <= max)
	for _, pair := range [][2]ssa.Value{{bo.X, bo.Y}, {bo.Y, bo.X}} {
		x, y := pair[0], pair[1]
		g := func(cd Cond) (bool, bool) {
			if cd.Kind != CondCmp {
				return false, false
			}
			cb := cd.Base.(*ssa.BinOp)
			op := cb.Op
			var d ssa.Value
			switch {
			case same(cb.Y, y):
				d = cb.X
			case same(cb.X, y):
				d = cb.Y
				op = swapOp(op)
			default:
				return false, false
			}
			sb, ok := stripValue(d).(*ssa.BinOp)
			if !ok || sb.Op != token.SUB || !same(sb.Y, x) {
				return false, false
			}
			if cd.Neg {
				op = negOp(op)
			}
			switch op {
			case token.GTR, token.GEQ:
				return true, true
			case token.LEQ, token.LSS:
				return true, false
			}
			return false, false
		}
		if dominatedBy(bo.Block(), g) {
			return "x+y dominated by (e-x) > y: the sum stays below e"
		}
	}
	// (c2) x + 1 dominated by x < something (x is not the maximum)
	if k, ok := constUint(bo.Y); ok && k == 1 {
		lt := func(cd Cond) (bool, bool) {
			if cd.Kind != CondCmp {
				return false, false
			}
			cb := cd.Base.(*ssa.BinOp)
			op := cb.Op
			switch {
			case same(cb.X, bo.X):
			case same(cb.Y, bo.X):
				op = swapOp(op)
			default:
				return false, false
			}
			if cd.Neg {
				op = negOp(op)
			}
			switch op {
			case token.LSS:
				return true, true
			case token.GEQ:
				return true, false
			}
			return false, false
		}
		if dominatedBy(blockOf(bo, nil), lt) {
			return "x+1 dominated by x < y (x is below the maximum)"
		}
		// tabled: the warm-up loop counter `n++` in updateSlow: n <= end <= current+length < 2*length holds in the body (loop
		// condition), so n+1 cannot wrap; it only feeds the lost-packet metric
		if phi, ok := bo.X.(*ssa.Phi); ok && f.Name() == "updateSlow" {
			for _, e := range phi.Edges {
				if e == ssa.Value(bo) {
					return "tabled: warm-up loop counter, bounded by the loop condition n <= end < 2*length; metrics only"
				}
			}
		}
	}
	return ""
}
