package main

import (
	"fmt"
	"go/token"
	"go/types"
	"os"
	"strings"

	"golang.org/x/tools/go/ssa"
)

// CallSpec matches a call by callee and (optionally) by predicates on its arguments
// (index 0 is the receiver for methods / interface calls).
type CallSpec struct {
	Refs []Ref
	Args map[int]func(ssa.Value) bool
}

func callTo(refs ...Ref) CallSpec { return CallSpec{Refs: refs} }

func (cs CallSpec) withArg(i int, p func(ssa.Value) bool) CallSpec {
	n := CallSpec{Refs: cs.Refs, Args: map[int]func(ssa.Value) bool{}}
	for k, v := range cs.Args {
		n.Args[k] = v
	}
	n.Args[i] = p
	return n
}

func (cs CallSpec) matches(call ssa.CallInstruction) bool {
	if call == nil || !matchAny(calleeObj(call), cs.Refs) {
		return false
	}
	args := callArgs(call)
	for i, p := range cs.Args {
		if i >= len(args) || !p(args[i]) {
			return false
		}
	}
	return true
}

// gBool: result (tuple element idx, or -1) of a matching call must be `want`.
func gBool(name string, want bool, idx int, cs CallSpec) Guard {
	return Guard{Name: name, Match: func(cd Cond, _ *ssa.If) (bool, bool) {
		if cd.Kind != CondBool {
			return false, false
		}
		call, i := callOf(cd.Base)
		if call == nil || !cs.matches(call) || (idx >= 0 && i != idx) {
			return false, false
		}
		return true, want != cd.Neg
	}}
}

// gErrNil: error result of a matching call must be nil.
func gErrNil(name string, cs CallSpec) Guard {
	return Guard{Name: name, Match: func(cd Cond, _ *ssa.If) (bool, bool) {
		if cd.Kind != CondNotNil {
			return false, false
		}
		if !isErrorType(cd.Base.Type()) || !matchCallValue(cd.Base, cs, -2) {
			return false, false
		}
		return true, cd.Neg
	}}
}

func isErrorType(t types.Type) bool {
	return types.Identical(t, types.Universe.Lookup("error").Type())
}

// matchCallValue: v is the result (tuple element idx; -1 single result; -2 any) of a call
// matching cs, or a phi all of whose non-constant edges are.
func matchCallValue(v ssa.Value, cs CallSpec, idx int) bool {
	v = stripValue(v)
	if phi, ok := v.(*ssa.Phi); ok {
		n := 0
		for _, e := range phi.Edges {
			if _, isC := e.(*ssa.Const); isC || e == phi {
				continue
			}
			if !matchCallValue(e, cs, idx) {
				return false
			}
			n++
		}
		return n > 0
	}
	call, i := callOf(v)
	if call == nil || !cs.matches(call) {
		return false
	}
	return idx == -2 || i == idx
}

// gNotNil / gIsNil on an arbitrary value predicate
func gValNotNil(name string, pred func(ssa.Value) bool) Guard {
	return Guard{Name: name, Match: func(cd Cond, _ *ssa.If) (bool, bool) {
		if cd.Kind != CondNotNil || !pred(cd.Base) {
			return false, false
		}
		return true, !cd.Neg
	}}
}

func gValNil(name string, pred func(ssa.Value) bool) Guard {
	return Guard{Name: name, Match: func(cd Cond, _ *ssa.If) (bool, bool) {
		if cd.Kind != CondNotNil || !pred(cd.Base) {
			return false, false
		}
		return true, cd.Neg
	}}
}

// gValBool: an arbitrary boolean value (matched by pred) must be want.
func gValBool(name string, want bool, pred func(ssa.Value) bool) Guard {
	return Guard{Name: name, Match: func(cd Cond, _ *ssa.If) (bool, bool) {
		if cd.Kind != CondBool || !pred(cd.Base) {
			return false, false
		}
		return true, want != cd.Neg
	}}
}

// gAny: any of the alternatives counts as this guard (union of pass edges).
func gAny(name string, gs ...Guard) Guard {
	return Guard{Name: name, Match: func(cd Cond, ifi *ssa.If) (bool, bool) {
		for _, g := range gs {
			if is, p := g.Match(cd, ifi); is {
				return true, p
			}
		}
		return false, false
	}}
}

// requireAlt: every sink must satisfy all guards of at least one alternative.
func (c *Ctx) requireAlt(rule string, fn *ssa.Function, sinks []Sink, sinkName string, alts map[string][]Guard) {
	if fn == nil {
		return
	}
	if len(sinks) == 0 {
		c.Unknown(rule, fnName(fn)+":"+sinkName, "no sink instance found: cannot decide")
		return
	}
	for i, s := range sinks {
		okAlt := ""
		var why []string
		for an, gs := range alts {
			all := true
			for _, g := range gs {
				ok, _, path := c.mustPass(fn, s, g)
				if !ok {
					all = false
					why = append(why, fmt.Sprintf("[%s] misses %q via %s", an, g.Name, strings.Join(path, "->")))
					break
				}
			}
			if all {
				okAlt = an
				break
			}
		}
		cons := fmt.Sprintf("%s:%s#%d", fnName(fn), sinkName, i)
		if okAlt != "" {
			c.OK(rule, cons, "guarded by alternative "+okAlt)
		} else {
			c.Bad(rule, cons, c.instrPos(s.Instr), "no alternative guard set holds on every path: "+strings.Join(why, "; "))
		}
	}
}

// ---------------------------------------------------------------------------------------
// for-all guards inside range loops

// rangeLoops returns, for each `range` loop in fn whose collection satisfies coll, the block of
// the loop header (the one holding the Next/index test) and its body entry (Succs[0] on "ok").
type loopInfo struct {
	Header *ssa.BasicBlock
	Body   *ssa.BasicBlock
	DoneIx int // successor index of the header that leaves the loop
}

// findRangeLoops: loops over slices lower to `rangeindex.loop`/`rangeindex.body` blocks; over maps
// to `rangeiter.loop`. We identify the header by the If whose true branch comment is *.body.
func findRangeLoops(fn *ssa.Function, coll func(ssa.Value) bool) []loopInfo {
	var out []loopInfo
	for _, b := range fn.Blocks {
		if len(b.Instrs) == 0 {
			continue
		}
		ifi, ok := b.Instrs[len(b.Instrs)-1].(*ssa.If)
		if !ok {
			continue
		}
		if !strings.HasPrefix(b.Comment, "rangeindex.loop") && !strings.HasPrefix(b.Comment, "rangeiter.loop") && !strings.HasPrefix(b.Comment, "rangeint.loop") {
			continue
		}
		_ = ifi
		// collection: for rangeindex, the body does IndexAddr/Index on the collection with the loop phi;
		// the length is len(coll) computed before the loop. Find `len(x)` feeding the header compare.
		matched := false
		if bo, ok := ifi.Cond.(*ssa.BinOp); ok {
			for _, side := range []ssa.Value{bo.X, bo.Y} {
				if call, ok := side.(*ssa.Call); ok && builtinName(call) == "len" {
					if coll(call.Call.Args[0]) {
						matched = true
					}
				}
			}
		}
		// rangeiter: Next(Range(x))
		for _, in := range b.Instrs {
			if nx, ok := in.(*ssa.Next); ok {
				if rg, ok := nx.Iter.(*ssa.Range); ok && coll(rg.X) {
					matched = true
				}
			}
		}
		if matched {
			out = append(out, loopInfo{Header: b, Body: b.Succs[0], DoneIx: 1})
		}
	}
	return out
}

// forAllGuard checks that, for the loop li, (1) from the loop body the sink cannot be reached
// without crossing a pass edge of g and (2) the only way from the body to the sink is through the
// loop header's exit (no success return from inside the loop).
func (c *Ctx) forAllGuard(rule, construct string, fn *ssa.Function, li loopInfo, sinks []Sink, g Guard) {
	edges, n := passEdges(fn, g)
	if n == 0 {
		c.Bad(rule, construct, c.P.Pos(fn.Pos()), fmt.Sprintf("test %q not found in %s", g.Name, fnName(fn)))
		return
	}
	prev := reachable(li.Body, edges)
	for _, s := range sinks {
		if _, ok := prev[s.Instr.Block()]; ok {
			c.Bad(rule, construct, c.instrPos(s.Instr), fmt.Sprintf("an element of the collection can skip the test %q and still reach %s", g.Name, s.Desc), c.blockPath(prev, s.Instr.Block())...)
			return
		}
	}
	only := reachable(li.Body, map[Edge]bool{{li.Header, li.DoneIx}: true})
	for _, s := range sinks {
		if _, ok := only[s.Instr.Block()]; ok {
			c.Bad(rule, construct, c.instrPos(s.Instr), fmt.Sprintf("%s is reached from inside the loop without finishing the iteration over all elements (test %q applies to a prefix only)", s.Desc, g.Name), c.blockPath(only, s.Instr.Block())...)
			return
		}
	}
	c.OK(rule, construct, fmt.Sprintf("every element passes %q before any of %d sink(s)", g.Name, len(sinks)))
}

// ---------------------------------------------------------------------------------------
// debugging aid: NEBCHECK_DUMP=pkg.Recv.Name prints the SSA of a function

func (c *Ctx) maybeDump() {
	d := os.Getenv("NEBCHECK_DUMP")
	if d == "" {
		return
	}
	for _, fn := range c.moduleFuncs() {
		if strings.Contains(fn.String(), d) {
			fn.WriteTo(os.Stdout)
		}
	}
}

var _ = token.ADD

// splitEdges returns, for the If(s) matching g, the target blocks of the pass side and of the
// fail side.
func splitEdges(fn *ssa.Function, g Guard) (pass, fail []*ssa.BasicBlock) {
	for _, b := range fn.Blocks {
		if len(b.Instrs) == 0 {
			continue
		}
		ifi, ok := b.Instrs[len(b.Instrs)-1].(*ssa.If)
		if !ok {
			continue
		}
		is, passTrue := g.Match(normCond(ifi.Cond), ifi)
		if !is {
			continue
		}
		if passTrue {
			pass = append(pass, b.Succs[0])
			fail = append(fail, b.Succs[1])
		} else {
			pass = append(pass, b.Succs[1])
			fail = append(fail, b.Succs[0])
		}
	}
	return
}

// requireAfter: starting from the given blocks (e.g. the arm of a case split), every path to a
// sink crosses a pass edge of each guard.
func (c *Ctx) requireAfter(rule string, fn *ssa.Function, caseName string, starts []*ssa.BasicBlock, sinks []Sink, sinkName string, guards ...Guard) {
	if len(starts) == 0 {
		c.Unknown(rule, fnName(fn)+":"+caseName, "case split not found: cannot decide")
		return
	}
	for _, g := range guards {
		edges, n := passEdges(fn, g)
		ok := true
		for _, st := range starts {
			prev := reachable(st, edges)
			for i, s := range sinks {
				if _, r := prev[s.Instr.Block()]; r {
					ok = false
					c.Bad(rule, fmt.Sprintf("%s:[%s]%s#%d<-%s", fnName(fn), caseName, sinkName, i, g.Name), c.instrPos(s.Instr),
						fmt.Sprintf("in case %q, %s is reachable without passing the test %q (%d matching tests found)", caseName, sinkName, g.Name, n), c.blockPath(prev, s.Instr.Block())...)
				}
			}
		}
		if ok {
			if n == 0 {
				// sinks unreachable from the case arm at all: fine only if some sink exists elsewhere
				c.OK(rule, fmt.Sprintf("%s:[%s]%s<-%s", fnName(fn), caseName, sinkName, g.Name), "case arm cannot reach the sink")
				continue
			}
			c.OK(rule, fmt.Sprintf("%s:[%s]%s<-%s", fnName(fn), caseName, sinkName, g.Name), fmt.Sprintf("%d test(s)", n))
		}
	}
}

// callSinks: every call in fn matching cs, as sinks.
func callSinks(fn *ssa.Function, desc string, cs CallSpec) []Sink {
	var out []Sink
	eachInstr(fn, func(in ssa.Instruction) {
		if ci, ok := in.(ssa.CallInstruction); ok && cs.matches(ci) {
			out = append(out, Sink{Instr: in, Desc: desc})
		}
	})
	return out
}

// requireDominatingTest: some If matching g dominates every sink (both outcomes allowed): the
// case split is decided on every path.
func (c *Ctx) requireDominatingTest(rule string, fn *ssa.Function, sinks []Sink, sinkName string, g Guard) {
	var tests []*ssa.BasicBlock
	for _, b := range fn.Blocks {
		if len(b.Instrs) == 0 {
			continue
		}
		if ifi, ok := b.Instrs[len(b.Instrs)-1].(*ssa.If); ok {
			if is, _ := g.Match(normCond(ifi.Cond), ifi); is {
				tests = append(tests, b)
			}
		}
	}
	for i, s := range sinks {
		ok := false
		for _, t := range tests {
			if t.Dominates(s.Instr.Block()) {
				ok = true
			}
		}
		c.Check(ok, rule, fmt.Sprintf("%s:%s#%d<-decides:%s", fnName(fn), sinkName, i, g.Name), c.instrPos(s.Instr), "case split dominates the sink", fmt.Sprintf("%s is reachable without the test %q having been made", sinkName, g.Name))
	}
}

// gEnclosingBypass: an If one of whose arms contains a call matching cs; taking the *other* arm is
// the passing outcome ("the check is skipped by design on that arm").
func gEnclosingBypass(name string, cs CallSpec) Guard {
	return Guard{Name: name, Match: func(_ Cond, ifi *ssa.If) (bool, bool) {
		b := ifi.Block()
		has := func(blk *ssa.BasicBlock) bool {
			for _, in := range blk.Instrs {
				if ci, ok := in.(ssa.CallInstruction); ok && cs.matches(ci) {
					return true
				}
			}
			return false
		}
		if has(b.Succs[0]) && !has(b.Succs[1]) {
			return true, false
		}
		if has(b.Succs[1]) && !has(b.Succs[0]) {
			return true, true
		}
		return false, false
	}}
}

// avoidsCut reports whether some path from just after `from` (or from the function entry when
// from is nil) reaches `to` without executing an instruction for which cut holds. Returns the
// witness path of blocks.
func (c *Ctx) avoidsCut(fn *ssa.Function, from ssa.Instruction, to ssa.Instruction, cut func(ssa.Instruction) bool) (bool, []string) {
	prev := map[*ssa.BasicBlock]*ssa.BasicBlock{}
	seen := map[*ssa.BasicBlock]bool{}
	type item struct {
		b     *ssa.BasicBlock
		start int
	}
	var queue []item
	if from == nil {
		queue = append(queue, item{fn.Blocks[0], 0})
		seen[fn.Blocks[0]] = true
		prev[fn.Blocks[0]] = nil
	} else {
		b := from.Block()
		for i, in := range b.Instrs {
			if in == from {
				queue = append(queue, item{b, i + 1})
			}
		}
		prev[b] = nil
	}
	for len(queue) > 0 {
		it := queue[0]
		queue = queue[1:]
		blockedHere := false
		for i := it.start; i < len(it.b.Instrs); i++ {
			in := it.b.Instrs[i]
			if in == to {
				return true, c.blockPath(prev, it.b)
			}
			if cut(in) {
				blockedHere = true
				break
			}
		}
		if blockedHere {
			continue
		}
		for _, s := range it.b.Succs {
			if !seen[s] {
				seen[s] = true
				if _, ok := prev[s]; !ok {
					prev[s] = it.b
				}
				queue = append(queue, item{s, 0})
			}
		}
	}
	return false, nil
}

// errorReturns lists returns whose error result (index idx) is not the nil constant.
func errorReturns(fn *ssa.Function, idx int) []*ssa.Return {
	var out []*ssa.Return
	for _, b := range fn.Blocks {
		if len(b.Instrs) == 0 {
			continue
		}
		if ret, ok := b.Instrs[len(b.Instrs)-1].(*ssa.Return); ok && idx < len(ret.Results) {
			if !isNilConst(retResult(ret, idx)) {
				out = append(out, ret)
			}
		}
	}
	return out
}

// storesFieldConst: in is `x.field = <bool const val>`.
func storesFieldBool(in ssa.Instruction, f *typesVar, val bool) bool {
	st, ok := in.(*ssa.Store)
	if !ok {
		return false
	}
	fa, ok := st.Addr.(*ssa.FieldAddr)
	if !ok || fieldOfAddr(fa) != f {
		return false
	}
	bv, isC := boolConst(st.Val)
	return isC && bv == val
}

// bart.Lite embeds a generic liteTable: Contains resolves to the promoted method.
var bartContainsRefs = []Ref{{"github.com/gaissmai/bart", "Lite", "Contains"}, {"github.com/gaissmai/bart", "liteTable", "Contains"}}

// fromFieldLoad: v is (an address inside / a load of) the value held in field f.
func fromFieldLoad(f *typesVar) func(ssa.Value) bool {
	return func(v ssa.Value) bool {
		return f != nil && derivesFrom(v, sliceLocal, func(x ssa.Value) bool { return loadsField(x, f) })
	}
}

// bartContains: table.Contains(addr) on the table held in field f.
func bartContains(f *typesVar, arg func(ssa.Value) bool) CallSpec {
	cs := CallSpec{Refs: bartContainsRefs, Args: map[int]func(ssa.Value) bool{0: fromFieldLoad(f)}}
	if arg != nil {
		cs.Args[1] = arg
	}
	return cs
}

// sameVar: a and b are the same SSA value, or loads of the same local variable cell.
func sameVar(a, b ssa.Value) bool {
	a, b = stripValue(a), stripValue(b)
	if a == b {
		return true
	}
	ua, ok1 := a.(*ssa.UnOp)
	ub, ok2 := b.(*ssa.UnOp)
	if ok1 && ok2 && ua.Op == token.MUL && ub.Op == token.MUL {
		if _, isAlloc := ua.X.(*ssa.Alloc); isAlloc && ua.X == ub.X {
			return true
		}
	}
	return false
}
