package main

import (
	"fmt"
	"go/token"
	"go/types"
	"sort"
	"strings"

	"golang.org/x/tools/go/ssa"
)

func init() {
	register(&Property{
		ID: "C39", Title: "Relays forward only for the pair they were set up for",
		Patterns:    []string{"."},
		Technique:   "CFG guard reachability in the create-relay handlers and the relay packet handler, provenance of the forwarding target and of the records being changed, who-may-write tables for relay records and relay indexes, a state-transition table evaluated per call site from the dominating tests on the same record, correlated-predicate reachability for the control-message validation",
		LevelText:   "Structural necessary conditions on all paths: forwarding relay records are created (and the onward request sent) only when relay.am_relay is set, the request does not claim to come from this node, a direct tunnel to the target exists, they pair the authenticated requester with the named target, and the onward records are keyed by an address of that authenticated requester; a relayed packet is forwarded only over the authenticated sender's own Forwarding record, to the tunnel and record found by QueryVpnAddrsRelayFor(sender's addresses, record.PeerAddr), which returns only Established records of that host, and only when that record is Established and Forwarding; the terminal arm only re-enters the local dispatcher; Relay values are changed copy-on-write by the tabled RelayState methods only, every state-changing call site moves a record between states allowed for that site (evaluated from the tests on the record that dominate it), establishment by response happens only on the responder's own tunnel after EstablishRelay succeeded; relay control handlers run only behind the nil-address validation; relay indexes are removed with the owning tunnel and a lost peer's relays are marked Disestablished.",
		LevelNote:   "Not decided: hostile control-message histories beyond the one clause C39.requester decides (the claimed relayFrom must be the authenticated sender; today's tree does not check it - reproduced finding), index uniqueness (C29), lock discipline of RelayState (C34), hostmap list contents (C28). The transition table is the code's own protocol, frozen with one reason per site; the from-state of a site is computed from inline `rec.State ==/!= const` tests only (a test moved into a helper widens the computed set and is reported).",
		Explanation: "K1 on handleCreateRelayRequest/handleOutsideRelayPacket/QueryVpnAddrsRelayFor/HandleControlMsg (with correlated stable predicates), K11 on SendVia/AddRelay/EstablishRelay arguments, K2 writers of Relay fields, relayForBy* maps, HostMap.Relays and callers of the state mutators, per-site from-state sets against a transition table, must-pass cleanup in unlockedDeleteHostInfo",
		Run:         runC39,
		Canaries: func(c *Ctx) []Canary {
			return []Canary{
				{Name: "forwarding-relay-without-am-relay", File: "relay_manager.go", Old: "\t\tif !rm.GetAmRelay() {\n\t\t\treturn\n\t\t}\n", New: "", Rule: "C39.am-relay"},
				{Name: "forwarding-record-on-the-target-itself", File: "relay_manager.go", Old: "AddRelay(rm.l, h, f.hostMap, target, &m.InitiatorRelayIndex, ForwardingType, PeerRequested)", New: "AddRelay(rm.l, peer, f.hostMap, target, &m.InitiatorRelayIndex, ForwardingType, PeerRequested)", Rule: "C39.am-relay"},
				{Name: "request-from-myself-not-refused", File: "relay_manager.go", Old: "\t\tlogMsg.Error(\"Discarding relay request from myself\", \"myIP\", from)\n\t\treturn\n", New: "\t\tlogMsg.Error(\"Discarding relay request from myself\", \"myIP\", from)\n", Rule: "C39.am-relay"},
				{Name: "initiator-creates-forwarding-record", File: "relay_manager.go", Old: "AddRelay(rm.l, relayHostInfo, rm.hostmap, vpnIp, nil, TerminalType, Requested)", New: "AddRelay(rm.l, relayHostInfo, rm.hostmap, vpnIp, nil, ForwardingType, Requested)", Rule: "C39.am-relay"},
				{Name: "forward-unless-disestablished", File: "outside.go", Old: "if targetRelay.State == Established {", New: "if targetRelay.State != Disestablished {", Rule: "C39.forward"},
				{Name: "target-resolved-by-peer-address-only", File: "outside.go", Old: "f.hostMap.QueryVpnAddrsRelayFor(hostinfo.vpnAddrs, relay.PeerAddr)", New: "f.hostMap.QueryVpnAddrsRelayFor([]netip.Addr{relay.PeerAddr}, relay.PeerAddr)", Rule: "C39.forward"},
				{Name: "lookup-returns-unestablished-record", File: "hostmap.go", Old: "\n\tfor _, targetIp := range targetIps {\n\t\tr, ok := h.relayState.QueryRelayForByIp(targetIp)\n\t\tif ok && r.State == Established {", New: "\n\tfor _, targetIp := range targetIps {\n\t\tr, ok := h.relayState.QueryRelayForByIp(targetIp)\n\t\tif ok && r.State != Disestablished {", Rule: "C39.lookup-established"},
				{Name: "response-establishes-while-own-request-pending", File: "relay_manager.go", Old: "\tcase Requested:\n\t\t// I initiated the request to this peer, but haven't heard back from the peer yet. I must wait for this peer\n\t\t// to respond to complete the connection.\n\tcase PeerRequested, Disestablished, Established:", New: "\tcase Requested, PeerRequested, Disestablished, Established:", Rule: "C39.transitions"},
				{Name: "state-updated-in-place", File: "hostmap.go", Old: "\tif r, ok := rs.relayForByAddr[vpnIp]; ok {\n\t\tnewRelay := *r\n\t\tnewRelay.State = state\n\t\trs.relayForByAddr[newRelay.PeerAddr] = &newRelay\n\t\trs.relayForByIdx[newRelay.LocalIndex] = &newRelay\n\t}", New: "\tif r, ok := rs.relayForByAddr[vpnIp]; ok {\n\t\tr.State = state\n\t}", Rule: "C39.transitions"},
				{Name: "reestablish-accepts-a-changed-index", File: "relay_manager.go", Old: "\t\t\tcase Disestablished:\n\t\t\t\tif existingRelay.RemoteIndex != m.InitiatorRelayIndex {", New: "\t\t\tcase Disestablished:\n\t\t\t\tif existingRelay.RemoteIndex != m.InitiatorRelayIndex && existingRelay.RemoteIndex != 0 {", Rule: "C39.transitions"},
				{Name: "response-with-nil-to-address-dispatched", File: "relay_manager.go", Old: "\t\t} else if msg.RelayToAddr == nil {", New: "\t\t} else if msg.RelayToAddr == nil && msg.Type == NebulaControl_CreateRelayRequest {", Rule: "C39.control"},
				{Name: "owned-relay-indexes-not-deleted", File: "hostmap.go", Old: "\t\tdelete(hm.Relays, localRelayIdx)\n", New: "\t\t_ = localRelayIdx\n", Rule: "C39.cleanup"},
				{Name: "lost-peer-relays-stay-established", File: "hostmap.go", Old: "\t\thm.unlockedDisestablishVpnAddrRelayFor(hostinfo)\n", New: "", Rule: "C39.cleanup"},
			}
		},
	})
}

var (
	c39AddRelay   = Ref{"", "", "AddRelay"}
	c39ByIp       = Ref{"", "RelayState", "QueryRelayForByIp"}
	c39ByIdx      = Ref{"", "RelayState", "QueryRelayForByIdx"}
	c39UpdIp      = Ref{"", "RelayState", "UpdateRelayForByIpState"}
	c39UpdIdx     = Ref{"", "RelayState", "UpdateRelayForByIdxState"}
	c39CompIP     = Ref{"", "RelayState", "CompleteRelayByIP"}
	c39CompIdx    = Ref{"", "RelayState", "CompleteRelayByIdx"}
	c39SendToHI   = Ref{"", "Interface", "SendMessageToHostInfo"}
	c39stateNames = []string{"Requested", "PeerRequested", "Established", "Disestablished"}
)

type c39 struct {
	c                     *Ctx
	funcs                 []*ssa.Function
	st                    map[string]int64 // state constants
	forwarding, terminal  int64
	fType, fState, fPeer  *types.Var
	fRemIdx, fLocIdx, fRS *types.Var
	relayT                *types.Named
	dl                    *fix7Delegation // pieces of the tabled functions extracted into private helpers
}

func (k *c39) constIs(val int64) func(ssa.Value) bool {
	return func(v ssa.Value) bool { x, ok := constInt(v); return ok && x == val }
}

// fieldOf: v is a load of field f from a base all of whose origins satisfy pred.
func (k *c39) fieldOf(f *types.Var, pred func(ssa.Value) bool) func(ssa.Value) bool {
	return func(v ssa.Value) bool {
		base, ok := g7FieldLoadBase(stripValue(v), f)
		if !ok {
			return false
		}
		os := g7NonNil(g7Origins(base))
		for _, o := range os {
			if !pred(o) {
				return false
			}
		}
		return len(os) > 0
	}
}

// allOrigins: every non-nil origin of v satisfies pred.
func c39AllOrigins(v ssa.Value, pred func(ssa.Value) bool) bool {
	os := g7NonNil(g7Origins(v))
	for _, o := range os {
		if !pred(o) {
			return false
		}
	}
	return len(os) > 0
}

// resultOf: o is result #idx of a call to ref accepted by argsOK.
func c39ResultOf(ref Ref, idx int, argsOK func([]ssa.Value) bool) func(ssa.Value) bool {
	return func(o ssa.Value) bool {
		call, i := callOf(o)
		if call == nil || i != idx || !matchFunc(calleeObj(call), ref) {
			return false
		}
		return argsOK == nil || argsOK(callArgs(call))
	}
}

func runC39(c *Ctx) {
	c.Rule("C39.am-relay", "K1/K11/K2: in handleCreateRelayRequest every Forwarding AddRelay, the onward-leg state change and the onward request pass: from-address not mine, target not me, GetAmRelay(), tunnel to target found, target tunnel has a direct remote; the two forwarding records pair (target tunnel, from) and (authenticated requester, target); terminal records sit on the authenticated requester keyed by from and need target==me; ForwardingType is passed to AddRelay nowhere else (migration copies an existing record's type)", 12)
	c.Rule("C39.requester", "K1/K11: in handleCreateRelayRequest the onward (forwarding) records are keyed by an address of the authenticated requester: the key derives from h.vpnAddrs, or every forwarding set-up step passes a membership test of the claimed from-address in h.vpnAddrs", 1)
	c.Rule("C39.forward", "K1/K11: handleOutsideRelayPacket forwards (SendVia) only if the sender's own record for the packet's index exists and is Forwarding, QueryVpnAddrsRelayFor(sender.vpnAddrs, record.PeerAddr) succeeded, and the returned record is Established and Forwarding; SendVia gets exactly that tunnel and record; the Terminal arm only re-enters readOutsidePackets", 7)
	c.Rule("C39.lookup-established", "K1/K11: QueryVpnAddrsRelayFor returns (h, r, nil) only with r.State == Established, r = h.relayState.QueryRelayForByIp(one of targetIps), h from Hosts/moreHosts[relayHostIp]", 4)
	c.Rule("C39.transitions", "K2/K11: Relay fields are stored only on fresh copies; relayForBy* maps are written only by the RelayState methods; InsertRelay is called only by AddRelay; Complete* set Established and Update* set their argument; every call site of AddRelay/Update*/Complete* is tabled with the states it may move a record from (computed from the tests on that record dominating the site) and its evidence guards", 26)
	c.Rule("C39.control", "K1 (correlated predicates): the create-relay handlers are reached only with RelayFromAddr and RelayToAddr non-nil; they are called only from HandleControlMsg, which is called only from the authenticated Control arm of the dispatcher", 7)
	c.Rule("C39.cleanup", "must-pass/K2: unlockedDeleteHostInfo always deletes every index of hostinfo.relayState.CopyRelayForIdxs() from hm.Relays and calls unlockedDisestablishVpnAddrRelayFor when it reports final; hm.Relays is written only by AddRelay (paired with InsertRelay and LocalIndex) and the delete path", 5)

	k := &c39{c: c, funcs: c.moduleFuncs(), st: map[string]int64{}}
	for _, n := range c39stateNames {
		if v := c.ConstVal("", n); v != nil {
			k.st[n], _ = constantInt64(v)
		}
	}
	if v := c.ConstVal("", "ForwardingType"); v != nil {
		k.forwarding, _ = constantInt64(v)
	}
	if v := c.ConstVal("", "TerminalType"); v != nil {
		k.terminal, _ = constantInt64(v)
	}
	k.fType, k.fState, k.fPeer = c.Field("", "Relay", "Type"), c.Field("", "Relay", "State"), c.Field("", "Relay", "PeerAddr")
	k.fRemIdx, k.fLocIdx = c.Field("", "Relay", "RemoteIndex"), c.Field("", "Relay", "LocalIndex")
	k.fRS = c.Field("", "HostInfo", "relayState")
	k.relayT = c.NamedType("", "Relay")
	if len(k.st) != 4 || k.fType == nil || k.fState == nil || k.fPeer == nil || k.fRemIdx == nil || k.fLocIdx == nil || k.fRS == nil || k.relayT == nil {
		return
	}
	// delegation: a new unexported same-package function all of whose callers are (pieces of) tabled
	// functions is a piece of those tabled functions; its parameters carry the arguments of its call sites
	{
		tabled := map[string]bool{}
		for n := range c39Creators {
			tabled[n] = true
		}
		for _, s := range c39Sites {
			tabled[s.fn] = true
		}
		for _, r := range []Ref{c39AddRelay, {"", "relayManager", "handleCreateRelayResponse"}, {"", "relayManager", "HandleControlMsg"}} {
			if f := c.funcQuiet(r); f != nil {
				tabled[fnName(f)] = true
			}
		}
		var roots []*ssa.Function
		for _, f := range k.funcs {
			if f.Parent() == nil && tabled[fnName(f)] && c39AddRelay.Name != f.Name() {
				roots = append(roots, f)
			}
		}
		k.dl = fix7Delegates(c, k.funcs, roots, func(f *ssa.Function) bool { return tabled[fnName(f)] })
		defer k.dl.bind()()
	}
	k.amRelay()
	k.forward()
	k.lookup()
	k.transitions()
	k.control()
	k.cleanup()
}

// relayStateOf: v is &X.relayState with every origin of X satisfying pred.
func (k *c39) relayStateOf(pred func(ssa.Value) bool) func(ssa.Value) bool {
	return func(v ssa.Value) bool {
		base, ok := g7FieldLoadBase(v, k.fRS)
		return ok && c39AllOrigins(base, pred)
	}
}

func c39IsVal(x ssa.Value) func(ssa.Value) bool { return func(o ssa.Value) bool { return o == x } }

// ---------------------------------------------------------------------------------------
// C39.am-relay

func (k *c39) amRelay() {
	c := k.c
	fn := c.Func(Ref{"", "relayManager", "handleCreateRelayRequest"})
	fFrom, fTo := c.Field("", "NebulaControl", "RelayFromAddr"), c.Field("", "NebulaControl", "RelayToAddr")
	fInit := c.Field("", "NebulaControl", "InitiatorRelayIndex")
	fMy := c.Field("", "Interface", "myVpnAddrsTable")
	if fn == nil || fFrom == nil || fTo == nil || fMy == nil || fInit == nil {
		return
	}
	h, m := fn.Params[2], fn.Params[4]
	addrOf := func(f *types.Var) func(ssa.Value) bool {
		return func(v ssa.Value) bool {
			return c39AllOrigins(v, c39ResultOf(Ref{"", "", "protoAddrToNetAddr"}, -1, func(a []ssa.Value) bool {
				base, ok := g7FieldLoadBase(a[0], f)
				return ok && c39AllOrigins(base, c39IsVal(m))
			}))
		}
	}
	isFrom, isTarget := addrOf(fFrom), addrOf(fTo)
	isPeerO := c39ResultOf(Ref{"", "HostMap", "QueryVpnAddr"}, -1, func(a []ssa.Value) bool { return isTarget(a[1]) })
	isPeer := func(v ssa.Value) bool { return c39AllOrigins(v, isPeerO) }
	isH := func(v ssa.Value) bool { return c39AllOrigins(v, c39IsVal(h)) }

	notFromMe := gBool("the claimed from-address is not one of mine", false, -1, bartContains(fMy, isFrom))
	targetMe := gBool("the target is me", true, -1, bartContains(fMy, isTarget))
	targetNotMe := gBool("the target is not me", false, -1, bartContains(fMy, isTarget))
	amRelay := gBool("relay.am_relay is set (GetAmRelay)", true, -1, callTo(Ref{"", "relayManager", "GetAmRelay"}))
	peerFound := gValNotNil("a tunnel to the target exists", isPeer)
	direct := gBool("the target tunnel has a direct remote", true, -1, CallSpec{Refs: []Ref{{"net/netip", "AddrPort", "IsValid"}}, Args: map[int]func(ssa.Value) bool{0: func(v ssa.Value) bool {
		call, _ := callOf(v)
		return call != nil && matchFunc(calleeObj(call), Ref{"", "HostInfo", "GetRemote"}) && isPeer(callArgs(call)[0])
	}}})

	var fwd, term, all []Sink
	pairBad := ""
	// the handler and the private helpers its body was split into (their parameters are bound to the
	// handler's values, see fix7Delegation)
	parts := k.dl.partsOf(fn)
	inParts := map[*ssa.Function]bool{}
	for _, p := range parts {
		inParts[p.Fn] = true
	}
	scan := func(in ssa.Instruction) {
		ci, ok := in.(ssa.CallInstruction)
		if !ok {
			return
		}
		o := calleeObj(ci)
		a := callArgs(ci)
		switch {
		case matchFunc(o, c39AddRelay):
			all = append(all, Sink{Instr: in, Desc: "AddRelay"})
			t, isC := constInt(a[5])
			switch {
			case isC && t == k.forwarding:
				fwd = append(fwd, Sink{Instr: in, Desc: "AddRelay(ForwardingType)"})
				onward := isPeer(a[1]) && isFrom(a[3]) && isNilConst(a[4])
				back := isH(a[1]) && isTarget(a[3]) && k.fieldAddrOf(a[4], fInit, m)
				if !onward && !back {
					pairBad += fmt.Sprintf(" forwarding record on %s keyed by %s at %s;", exprString(a[1]), exprString(a[3]), c.instrPos(in))
				}
			case isC && t == k.terminal:
				term = append(term, Sink{Instr: in, Desc: "AddRelay(TerminalType)"})
				if !(isH(a[1]) && isFrom(a[3]) && k.fieldAddrOf(a[4], fInit, m)) {
					pairBad += fmt.Sprintf(" terminal record on %s keyed by %s at %s;", exprString(a[1]), exprString(a[3]), c.instrPos(in))
				}
			default:
				pairBad += fmt.Sprintf(" AddRelay with non-constant type at %s;", c.instrPos(in))
			}
		case matchAny(o, []Ref{c39UpdIp, c39CompIP}):
			all = append(all, Sink{Instr: in, Desc: o.Name()})
			switch {
			case k.relayStateOf(isPeerO)(a[0]):
				fwd = append(fwd, Sink{Instr: in, Desc: "onward-leg state change"})
				if !isFrom(a[1]) {
					pairBad += fmt.Sprintf(" onward-leg record keyed by %s at %s;", exprString(a[1]), c.instrPos(in))
				}
			case k.relayStateOf(c39IsVal(h))(a[0]):
				term = append(term, Sink{Instr: in, Desc: "terminal state change"})
				if !isFrom(a[1]) {
					pairBad += fmt.Sprintf(" terminal record keyed by %s at %s;", exprString(a[1]), c.instrPos(in))
				}
			default:
				pairBad += fmt.Sprintf(" state change on a tunnel that is neither the requester nor the target (%s) at %s;", exprString(a[0]), c.instrPos(in))
			}
		case matchFunc(o, c39SendToHI):
			all = append(all, Sink{Instr: in, Desc: "SendMessageToHostInfo"})
			if isPeer(a[3]) {
				fwd = append(fwd, Sink{Instr: in, Desc: "onward CreateRelayRequest"})
			} else if !isH(a[3]) {
				pairBad += fmt.Sprintf(" control message sent to %s at %s;", exprString(a[3]), c.instrPos(in))
			}
		}
	}
	for _, p := range parts {
		eachInstr(p.Fn, scan)
	}
	k.dl.requireGuards("C39.am-relay", fn, all, "relay-state-change-or-send", notFromMe)
	k.dl.requireGuards("C39.am-relay", fn, fwd, "forwarding-setup", targetNotMe, amRelay, peerFound, direct)
	k.dl.requireGuards("C39.am-relay", fn, term, "terminal-setup", targetMe)
	// C39.requester: the pair a forwarding relay is set up for is (authenticated requester, target).
	// The records on the target tunnel are keyed by the message's from-address; that address must be
	// the requester's own, otherwise a peer can (re)negotiate, reset and re-index another pair's relay.
	{
		fVpn := c.Field("", "HostInfo", "vpnAddrs")
		ownAddrs := func(v ssa.Value) bool {
			return c39AllOrigins(v, func(o ssa.Value) bool {
				base, ok := g7FieldLoadBase(o, fVpn)
				return ok && c39AllOrigins(base, c39IsVal(h))
			})
		}
		keyedByOwn := func(v ssa.Value) bool {
			return derivesFrom(v, sliceLocal, func(x ssa.Value) bool { return ownAddrs(x) }) && !isFrom(v)
		}
		member := gBool("the claimed from-address is one of the authenticated sender's addresses", true, -1,
			CallSpec{Refs: []Ref{{"slices", "", "Contains"}}, Args: map[int]func(ssa.Value) bool{0: ownAddrs, 1: isFrom}})
		var need []Sink
		for _, s := range fwd {
			ci := s.Instr.(ssa.CallInstruction)
			a := callArgs(ci)
			switch {
			case matchFunc(calleeObj(ci), c39AddRelay) && isPeer(a[1]) && !keyedByOwn(a[3]):
				need = append(need, s)
			case matchAny(calleeObj(ci), []Ref{c39UpdIp, c39CompIP}) && !keyedByOwn(a[1]):
				need = append(need, s)
			}
		}
		cons := "handleCreateRelayRequest:onward-record-keyed-by-authenticated-requester"
		if fVpn == nil {
			// anchor already reported
		} else if len(need) == 0 {
			c.OK("C39.requester", cons, "the onward records are keyed by h.vpnAddrs")
		} else {
			bad := false
			for _, s := range need {
				// in the handler, or in the helper the set-up was moved to / before the call of that helper
				if held, nt, path := k.dl.holds(s, member, 0); !held {
					bad = true
					c.Bad("C39.requester", cons, c.instrPos(s.Instr), fmt.Sprintf("%s on the target's tunnel is keyed by the message's relayFrom, which is never compared with the authenticated sender's addresses (%d membership tests found): a third peer can reset / re-index the relay of another pair, and the target's traffic for the impostor is then forwarded to that pair's peer", s.Desc, nt), path...)
					break
				}
			}
			if !bad {
				c.OK("C39.requester", cons, fmt.Sprintf("%d set-up step(s) behind slices.Contains(h.vpnAddrs, from)", len(need)))
			}
		}
	}
	if len(fwd) < 4 || len(term) < 3 {
		c.Unknown("C39.am-relay", "handleCreateRelayRequest:sinks", fmt.Sprintf("%d forwarding / %d terminal sinks recognised (4 / 3 confirmed by reading)", len(fwd), len(term)))
	}
	c.Check(pairBad == "", "C39.am-relay", "handleCreateRelayRequest:record-pairing", c.P.Pos(fn.Pos()), "forwarding records: (target tunnel, from) + (requester, target, requester's index); terminal records: (requester, from, requester's index); replies go to the requester, the onward request to the target", "relay records / messages do not pair the authenticated requester with the named target:"+pairBad)

	// K2: who passes which relay type to AddRelay
	add := c.Func(c39AddRelay)
	if add == nil {
		return
	}
	sites, esc := g7Callers(k.funcs, add)
	if esc {
		c.Unknown("C39.am-relay", "AddRelay:callers", "AddRelay is used as a function value")
	}
	ord := map[string]int{}
	for _, s := range sites {
		if c.isTestHelperFile(s) {
			continue
		}
		encl := topFunc(s.Parent())
		n := fnName(encl)
		ord[n]++
		cons := fmt.Sprintf("AddRelay<-%s#%d:type", n, ord[n])
		a := callArgs(s)
		if t, isC := constInt(a[5]); isC {
			switch {
			case t == k.terminal:
				c.OK("C39.am-relay", cons, "TerminalType")
			case t == k.forwarding && inParts[encl]:
				c.OK("C39.am-relay", cons, "ForwardingType inside the guarded forwarding branch")
			default:
				c.Bad("C39.am-relay", cons, c.instrPos(s), "a forwarding (or unknown-type) relay record is created outside handleCreateRelayRequest's am_relay-guarded branch")
			}
			continue
		}
		// migration: the new record copies the type of an existing record
		if c39AllOrigins(a[5], func(o ssa.Value) bool { _, ok := g7FieldLoadBase(o, k.fType); return ok }) {
			c.OK("C39.am-relay", cons, "type copied from an existing relay record (migration to a new tunnel of the same peer)")
		} else {
			c.Unknown("C39.am-relay", cons, "relay type argument "+exprString(a[5])+" is neither a constant nor an existing record's type")
		}
	}
}

// fieldAddrOf: v is &base.f with base == want.
func (k *c39) fieldAddrOf(v ssa.Value, f *types.Var, want ssa.Value) bool {
	return c39AllOrigins(v, func(o ssa.Value) bool {
		fa, ok := o.(*ssa.FieldAddr)
		return ok && fieldOfAddr(fa) == f && (fa.X == want || c39AllOrigins(fa.X, c39IsVal(want)))
	})
}

// ---------------------------------------------------------------------------------------
// C39.forward

func (k *c39) forward() {
	c := k.c
	fn := c.Func(Ref{"", "Interface", "handleOutsideRelayPacket"})
	fVpn := c.Field("", "HostInfo", "vpnAddrs")
	fRI := c.Field("header", "H", "RemoteIndex")
	if fn == nil || fVpn == nil || fRI == nil {
		return
	}
	hostinfo := fn.Params[1]
	// the authenticated sender's own record for the index the packet carries
	recO := c39ResultOf(c39ByIdx, 0, func(a []ssa.Value) bool {
		return k.relayStateOf(c39IsVal(hostinfo))(a[0]) && loadsField(a[1], fRI)
	})
	lookupRef := Ref{"", "HostMap", "QueryVpnAddrsRelayFor"}
	tgtRelayO := c39ResultOf(lookupRef, 1, nil)
	sinks := callSinks(fn, "SendVia", callTo(Ref{"", "Interface", "SendVia"}))
	c.requireGuards("C39.forward", fn, sinks, "SendVia",
		gBool("the sender has a relay record for the packet's index", true, 1, CallSpec{Refs: []Ref{c39ByIdx}, Args: map[int]func(ssa.Value) bool{0: k.relayStateOf(c39IsVal(hostinfo))}}),
		c.g7RecFieldEq("the sender's record is a Forwarding record", k.fType, recO, k.forwarding),
		gErrNil("QueryVpnAddrsRelayFor found the onward leg", callTo(lookupRef)),
		c.g7RecFieldEq("the onward record is Established", k.fState, tgtRelayO, k.st["Established"]),
		c.g7RecFieldEq("the onward record is a Forwarding record", k.fType, tgtRelayO, k.forwarding),
	)
	for i, s := range sinks {
		a := callArgs(s.Instr.(ssa.CallInstruction))
		cons := fmt.Sprintf("handleOutsideRelayPacket:SendVia#%d:target", i+1)
		bad := ""
		var q *ssa.Call
		for argIdx, want := range map[int]int{1: 0, 2: 1} {
			for _, o := range g7NonNil(g7Origins(a[argIdx])) {
				call, idx := callOf(o)
				if call == nil || idx != want || !matchFunc(calleeObj(call), lookupRef) || (q != nil && q != call) {
					bad = fmt.Sprintf("argument %d is %s, not result %d of one QueryVpnAddrsRelayFor call", argIdx, exprString(o), want)
					continue
				}
				q = call
			}
		}
		if q == nil && bad == "" {
			bad = "target tunnel / record not resolved"
		}
		if q != nil {
			qa := callArgs(q)
			if !c39AllOrigins(qa[1], func(o ssa.Value) bool {
				base, ok := g7FieldLoadBase(o, fVpn)
				return ok && c39AllOrigins(base, c39IsVal(hostinfo))
			}) {
				bad = "the onward leg is looked up for " + exprString(qa[1]) + ", not for the authenticated sender's own addresses"
			}
			if !k.fieldOf(k.fPeer, recO)(qa[2]) {
				bad = "the onward tunnel is chosen by " + exprString(qa[2]) + ", not by the PeerAddr of the sender's own record for the packet's index"
			}
		}
		c.Check(bad == "", "C39.forward", cons, c.instrPos(s.Instr), "SendVia(targetHI, targetRelay) = QueryVpnAddrsRelayFor(sender.vpnAddrs, senderRecord.PeerAddr)", "a relayed packet can be forwarded to a tunnel/record other than the pair's: "+bad)
	}
	rec := callSinks(fn, "readOutsidePackets", callTo(Ref{"", "Interface", "readOutsidePackets"}))
	c.requireGuards("C39.forward", fn, rec, "terminal-unwrap", c.g7RecFieldEq("the sender's record is a Terminal record", k.fType, recO, k.terminal))
}

// ---------------------------------------------------------------------------------------
// C39.lookup-established

func (k *c39) lookup() {
	c := k.c
	fn := c.Func(Ref{"", "HostMap", "QueryVpnAddrsRelayFor"})
	fHosts, fMore := c.Field("", "HostMap", "Hosts"), c.Field("", "HostMap", "moreHosts")
	if fn == nil || fHosts == nil || fMore == nil {
		return
	}
	tips, relayHost := fn.Params[1], fn.Params[2]
	n := 0
	for _, s := range successReturns(fn, 2) {
		b := s.Instr.Block()
		if b != fn.Blocks[0] && len(b.Preds) == 0 {
			continue // the recover block of a function with defers
		}
		n++
		ret := s.Instr.(*ssa.Return)
		hv, rv := retResult(ret, 0), retResult(ret, 1)
		cons := fmt.Sprintf("QueryVpnAddrsRelayFor:success#%d", n)
		fromTips := func(v ssa.Value) bool {
			return derivesFrom(v, sliceLocal, func(x ssa.Value) bool { return x == ssa.Value(tips) })
		}
		okState, okR, why, path := k.establishedRecord(fn, s, rv, hv, fromTips, 0)
		switch {
		case okState == 1:
			c.OK("C39.lookup-established", cons+":state", "only after r.State == Established on the returned record"+why)
		case okState == 0:
			c.Unknown("C39.lookup-established", cons+":state", "the origin of the returned record is not recognised"+why)
		default:
			c.Bad("C39.lookup-established", cons+":state", c.instrPos(ret), "a relay record that is not Established can be returned as usable: forwarding / sending would start before the onward leg is established"+why, path...)
		}
		okH := derivesFrom(hv, sliceLocal, func(x ssa.Value) bool {
			lk, isL := x.(*ssa.Lookup)
			return isL && (loadsField(lk.X, fHosts) || loadsField(lk.X, fMore)) && lk.Index == ssa.Value(relayHost)
		})
		c.Check(okR && okH, "C39.lookup-established", cons+":pair", c.instrPos(ret), "r is the returned host's own record for one of targetIps; the host is a tunnel of relayHostIp", "the returned record does not belong to the returned tunnel / the asked addresses: "+exprString(hv)+", "+exprString(rv))
	}
	if n == 0 {
		c.Unknown("C39.lookup-established", "QueryVpnAddrsRelayFor:success", "no success return found")
	}
}

// establishedRecord decides, for a function returning the relay record rv at sink, that rv is
// host.relayState.QueryRelayForByIp(<one of the asked addresses>) and that the sink is reached only
// after rv.State == Established. The record may come from a helper one level down: then the helper's
// own non-nil returns carry the obligation and the caller must test the helper's ok / non-nil result.
// state: 1 held, 0 unrecognised, -1 violated. pairOK: the record belongs to host / the asked addresses.
func (k *c39) establishedRecord(fn *ssa.Function, sink Sink, rv, host ssa.Value, fromTips func(ssa.Value) bool, depth int) (state int, pairOK bool, why string, path []string) {
	c := k.c
	call, idx := callOf(rv)
	if call == nil {
		return 0, false, " (" + exprString(rv) + ")", nil
	}
	if matchFunc(calleeObj(call), c39ByIp) && idx == 0 {
		a := callArgs(call)
		base, isRS := g7FieldLoadBase(a[0], k.fRS)
		pairOK = isRS && base == host && fromTips(a[1])
		g := c.g7RecFieldEq("the returned record is Established", k.fState, func(o ssa.Value) bool { return o == rv }, k.st["Established"])
		ok, nt, p := c.mustPass(fn, sink, g)
		switch {
		case ok && nt > 0:
			return 1, pairOK, "", nil
		case ok:
			return 0, pairOK, " (no state test and the return is unreachable)", nil
		}
		return -1, pairOK, "", p
	}
	h := call.Common().StaticCallee()
	if depth > 0 || h == nil || h.Blocks == nil || !strings.HasPrefix(pkgPathOf(h), nebulaMod) || (idx != 0 && idx != -1) {
		return 0, false, " (result of " + exprString(rv) + ")", nil
	}
	// caller side: the helper's result is usable (ok == true / r != nil)
	usable := gAny("the helper found a record",
		gValBool("ok", true, func(v ssa.Value) bool { c2, i := callOf(v); return c2 == call && i == 1 }),
		gValNotNil("r != nil", func(v ssa.Value) bool { return v == rv }))
	if ok, _, p := c.mustPass(fn, sink, usable); !ok {
		return -1, false, " (the helper's result is returned without testing that it found a record)", p
	}
	// which helper parameter receives the host / the addresses
	hostIdx, tipsIdx := -1, -1
	for j, a := range callArgs(call) {
		if a == host {
			hostIdx = j
		} else if fromTips(a) {
			tipsIdx = j
		}
	}
	if hostIdx < 0 || tipsIdx < 0 {
		return 0, false, " (helper " + fnName(h) + " is not given the returned host and the asked addresses)", nil
	}
	hp, tp := h.Params[hostIdx], h.Params[tipsIdx]
	state, pairOK = 1, true
	nRet := 0
	for _, r := range g7Returns(h) {
		res := retResult(r, 0)
		if isNilConst(res) {
			continue
		}
		nRet++
		st, pk, w, p := k.establishedRecord(h, Sink{Instr: r}, res, hp, func(v ssa.Value) bool {
			return derivesFrom(v, sliceLocal, func(x ssa.Value) bool { return x == ssa.Value(tp) })
		}, depth+1)
		pairOK = pairOK && pk
		if st < state {
			state, why, path = st, " (in helper "+fnName(h)+w+")", p
		}
	}
	if nRet == 0 {
		return 0, false, " (helper " + fnName(h) + " never returns a record)", nil
	}
	return state, pairOK, why, path
}

// ---------------------------------------------------------------------------------------
// C39.transitions

type c39Site struct {
	fn, callee string
	to         string
	from       []string // nil = any state
	why        string
}

// The relay protocol's state changes, one reason per site (from the code's own comments).
var c39Sites = []c39Site{
	{"(*nebula.relayManager).StartRelays", "UpdateRelayForByIpState", "Requested", []string{"Disestablished"}, "the initiator re-requests a relay it had marked lost"},
	{"(*nebula.relayManager).handleCreateRelayResponse", "UpdateRelayForByIpState", "Established", []string{"PeerRequested", "Disestablished", "Established"}, "the middle man completes the requester's leg once the target answered; while its own request to that peer is pending (Requested) it must wait"},
	{"(*nebula.relayManager).handleCreateRelayRequest", "CompleteRelayByIP", "Established", []string{"Requested"}, "the target learns the requester's index for a relay it had itself requested"},
	{"(*nebula.relayManager).handleCreateRelayRequest", "UpdateRelayForByIpState", "Established", []string{"Disestablished"}, "the target re-enables a relay it had marked lost (same remote index)"},
	{"(*nebula.relayManager).handleCreateRelayRequest", "UpdateRelayForByIpState", "Requested", nil, "a (re-)request restarts the onward leg whatever its state"},
	{"(*nebula.HandshakeManager).sendHandshakeResponse", "UpdateRelayForByIdxState", "Established", nil, "a valid handshake just arrived through this very record"},
	{"(*nebula.HostMap).unlockedDisestablishVpnAddrRelayFor", "UpdateRelayForByIpState", "Disestablished", nil, "the last tunnel to the peer is gone"},
	{"(*nebula.relayManager).EstablishRelay", "CompleteRelayByIdx", "Established", nil, "an authenticated CreateRelayResponse from the leg's peer names this local index"},
}

// tabled creators (AddRelay): new record only when none exists for that peer on that tunnel
var c39Creators = map[string]string{
	"(*nebula.relayManager).StartRelays":              "initiator asks a relay for a path to the peer",
	"(*nebula.relayManager).handleCreateRelayRequest": "target / middle man records the requested relay",
	"(*nebula.connectionManager).migrateRelayUsed":    "used relays are re-requested on the peer's new primary tunnel",
}

func (k *c39) stateName(v int64) string {
	for n, x := range k.st {
		if x == v {
			return n
		}
	}
	return fmt.Sprint(v)
}

func (k *c39) transitions() {
	c := k.c
	// ---- Relay values are immutable once published: field stores only on fresh local copies
	perFn := map[string][]string{}
	var order []string
	for _, fn := range k.funcs {
		eachInstr(fn, func(in ssa.Instruction) {
			st, ok := in.(*ssa.Store)
			if !ok {
				return
			}
			fa, ok := st.Addr.(*ssa.FieldAddr)
			if !ok {
				return
			}
			if n := recvNamed(fa.X.Type()); n == nil || n.Obj() != k.relayT.Obj() || c.isTestHelperFile(in) {
				return
			}
			name := fnName(fn)
			if _, seen := perFn[name]; !seen {
				perFn[name] = []string{}
				order = append(order, name)
			}
			if root, _ := addrRoot(fa); !isFreshAlloc(root) {
				perFn[name] = append(perFn[name], fmt.Sprintf("%s.%s at %s", exprString(fa.X), fieldOfAddr(fa).Name(), c.instrPos(in)))
			}
		})
	}
	for _, name := range order {
		c.Check(len(perFn[name]) == 0, "C39.transitions", name+":Relay-copy-on-write", "", "Relay fields are stored on a fresh copy only", "a published Relay record is modified in place (readers hold the pointer without the lock; the record must be replaced, not edited): "+strings.Join(perFn[name], "; "))
	}
	// ---- map writers
	mapWriters := map[string]string{
		"(*nebula.RelayState).InsertRelay":              "insert a new record under both keys",
		"(*nebula.RelayState).UpdateRelayForByIpState":  "replace the record by a copy with the new state",
		"(*nebula.RelayState).UpdateRelayForByIdxState": "replace the record by a copy with the new state",
		"(*nebula.RelayState).CompleteRelayByIP":        "replace the record by an Established copy",
		"(*nebula.RelayState).CompleteRelayByIdx":       "replace the record by an Established copy",
	}
	for _, fname := range []string{"relayForByAddr", "relayForByIdx"} {
		f := c.Field("", "RelayState", fname)
		if f == nil {
			continue
		}
		bad, n := 0, 0
		for _, w := range fieldWriters(k.funcs, f) {
			if c.isTestHelperFile(w.Instr) || w.Kind == "addr-escape" {
				continue
			}
			if st, ok := w.Instr.(*ssa.Store); ok && w.Kind == "store" {
				if root, _ := addrRoot(st.Addr); isFreshAllocDeep(root) {
					continue // initialising the map of a tunnel that is being built
				}
			}
			n++
			if _, ok := mapWriters[fnName(topFunc(w.Fn))]; !ok {
				bad++
				c.Bad("C39.transitions", "RelayState."+fname+"<-"+fnName(topFunc(w.Fn)), c.instrPos(w.Instr), w.Kind+" outside the RelayState methods that keep both maps and the state machine consistent")
			}
		}
		if bad == 0 {
			c.Check(n >= 5, "C39.transitions", "RelayState."+fname+":writers", "", fmt.Sprintf("%d write sites, all tabled", n), "writers of the relay record map not found")
		}
	}
	// ---- the mutators do what their name says
	for _, r := range []Ref{c39CompIP, c39CompIdx} {
		if fn := c.Func(r); fn != nil {
			k.storedState(fn, func(v ssa.Value) bool { return k.constIs(k.st["Established"])(v) }, "Established")
		}
	}
	for _, r := range []Ref{c39UpdIp, c39UpdIdx} {
		if fn := c.Func(r); fn != nil {
			p := fn.Params[2]
			k.storedState(fn, func(v ssa.Value) bool { return v == ssa.Value(p) }, "its state argument")
		}
	}
	if add := c.Func(c39AddRelay); add != nil {
		p := add.Params[6]
		k.storedState(add, func(v ssa.Value) bool { return v == ssa.Value(p) }, "its state argument")
	}
	// InsertRelay only from AddRelay
	if ins := c.Func(Ref{"", "RelayState", "InsertRelay"}); ins != nil {
		sites, esc := g7Callers(k.funcs, ins)
		okI := !esc && len(sites) > 0
		where := ""
		for _, s := range sites {
			if c.isTestHelperFile(s) {
				continue
			}
			if fnName(topFunc(s.Parent())) != "nebula.AddRelay" {
				okI = false
				where = c.instrPos(s)
			}
		}
		c.Check(okI, "C39.transitions", "InsertRelay:callers", where, "only AddRelay inserts relay records", "a relay record is inserted outside AddRelay (no index allocation / hm.Relays registration / state check)")
	}
	// ---- call sites
	ord := map[string]int{}
	for _, fn := range k.funcs {
		eachInstr(fn, func(in ssa.Instruction) {
			ci, ok := in.(ssa.CallInstruction)
			if !ok || c.isTestHelperFile(in) {
				return
			}
			o := calleeObj(ci)
			a := callArgs(ci)
			encl := fnName(topFunc(fn))
			switch {
			case matchFunc(o, c39AddRelay):
				ord[encl+":AddRelay"]++
				cons := fmt.Sprintf("%s:AddRelay#%d", encl, ord[encl+":AddRelay"])
				sv, isC := constInt(a[6])
				if _, valid := k.stateIdx(sv); !isC || !valid {
					c.Bad("C39.transitions", cons+":state", c.instrPos(in), "AddRelay is given a state that is not one of the four constants: "+exprString(a[6]))
					return
				}
				// a private helper all of whose callers are (pieces of) tabled creators is a piece of them
				why, tab := "", true
				for _, rn := range k.dl.rootNames(fn) {
					w, isTab := c39Creators[rn]
					tab = tab && isTab
					if why == "" {
						why = w
					}
				}
				if !tab {
					c.Bad("C39.transitions", cons+":site", c.instrPos(in), "relay records are created at a site that is not part of the tabled protocol")
					return
				}
				// creation only when no record exists for (tunnel, peer)
				hiO := g7NonNil(g7Origins(a[1]))
				key := exprString(a[3])
				g := gBool("no record exists yet for that peer on that tunnel", false, 1, CallSpec{Refs: []Ref{c39ByIp}, Args: map[int]func(ssa.Value) bool{
					0: func(v ssa.Value) bool {
						base, isRS := g7FieldLoadBase(v, k.fRS)
						return isRS && g7SameSet(g7NonNil(g7Origins(base)), hiO)
					},
					1: func(v ssa.Value) bool { return v == a[3] || exprString(v) == key },
				}})
				okG, nt, path := c.mustPass(fn, Sink{Instr: in}, g)
				switch {
				case okG && nt > 0:
					c.OK("C39.transitions", cons+":new->"+k.stateName(sv), "created only when QueryRelayForByIp found nothing ("+why+")")
				case okG:
					c.Unknown("C39.transitions", cons+":new->"+k.stateName(sv), "existence test not recognised")
				case k.dl.isDelegate(fn) && k.callersCall(fn, c39ByIp):
					// the existence test may sit in the caller, before the call of this helper: not followed
					c.Unknown("C39.transitions", cons+":new->"+k.stateName(sv), "the helper creates the record without testing QueryRelayForByIp itself; its callers look records up, the correspondence is not followed")
				default:
					c.Bad("C39.transitions", cons+":new->"+k.stateName(sv), c.instrPos(in), "a relay record can be (re)created although one exists for that peer: the existing record's state and index are overwritten", path...)
				}
			case matchAny(o, []Ref{c39UpdIp, c39UpdIdx, c39CompIP, c39CompIdx}):
				name := o.Name()
				to := "Established"
				if matchAny(o, []Ref{c39UpdIp, c39UpdIdx}) {
					sv, isC := constInt(a[2])
					if _, valid := k.stateIdx(sv); !isC || !valid {
						c.Bad("C39.transitions", fmt.Sprintf("%s:%s:state", encl, name), c.instrPos(in), "the new relay state is not one of the four constants: "+exprString(a[2]))
						return
					}
					to = k.stateName(sv)
				}
				ord[encl+":"+name+to]++
				cons := fmt.Sprintf("%s:%s->%s#%d", encl, name, to, ord[encl+":"+name+to])
				// the site of the tabled function this function is (a piece of); a helper shared by several
				// tabled functions may move a record only from states every one of them allows
				var site *c39Site
				for _, rn := range k.dl.rootNames(fn) {
					var found *c39Site
					for i := range c39Sites {
						if s := &c39Sites[i]; s.fn == rn && s.callee == name && s.to == to {
							found = s
						}
					}
					switch {
					case found == nil:
						site = nil
					case site == nil:
						cp := *found
						site = &cp
					case found.from == nil:
					case site.from == nil:
						site.from = found.from
					default:
						var both []string
						for _, x := range site.from {
							for _, y := range found.from {
								if x == y {
									both = append(both, x)
								}
							}
						}
						site.from = append([]string{}, both...)
					}
					if found == nil {
						break
					}
				}
				if site == nil {
					c.Bad("C39.transitions", cons, c.instrPos(in), "a relay record is moved to "+to+" at a site that is not part of the tabled protocol")
					return
				}
				from, recognised := k.fromStates(fn, ci)
				if !recognised {
					c.Unknown("C39.transitions", cons, "the tests on the record before this call are not recognised")
					return
				}
				allowed := map[string]bool{}
				for _, s := range site.from {
					allowed[s] = true
				}
				var extra []string
				for _, s := range from {
					if site.from != nil && !allowed[s] {
						extra = append(extra, s)
					}
				}
				if len(extra) > 0 && k.dl.isDelegate(fn) && k.callersTestState(fn) {
					// the state tests may sit in the caller, before the call of this helper: not followed
					c.Unknown("C39.transitions", cons, fmt.Sprintf("inside the helper a record in state %v can be moved to %s; its callers test record states before the call, the correspondence is not followed", extra, to))
					return
				}
				c.Check(len(extra) == 0, "C39.transitions", cons, c.instrPos(in), fmt.Sprintf("from %v (%s)", from, site.why), fmt.Sprintf("a record in state %v can be moved to %s here; the protocol allows only %v at this site (%s)", extra, to, site.from, site.why))
			}
		})
	}
	// ---- evidence guards of the establishing sites
	if fn := c.Func(Ref{"", "relayManager", "handleCreateRelayResponse"}); fn != nil {
		h := fn.Params[2]
		est := Ref{"", "relayManager", "EstablishRelay"}
		var sinks []Sink
		sinks = append(sinks, callSinks(fn, "UpdateRelayForByIpState", callTo(c39UpdIp))...)
		sinks = append(sinks, callSinks(fn, "SendMessageToHostInfo", callTo(c39SendToHI))...)
		c.requireGuards("C39.transitions", fn, sinks, "complete-requester-leg", gErrNil("EstablishRelay succeeded (the target answered for this index)", callTo(est)))
		for i, ci := range callsIn(fn, est) {
			c.Check(callArgs(ci)[1] == ssa.Value(h), "C39.transitions", fmt.Sprintf("handleCreateRelayResponse:EstablishRelay#%d:on-sender", i+1), c.instrPos(ci), "the response completes a record of the authenticated sender's own tunnel", "a CreateRelayResponse can complete a relay record of a tunnel other than the one it arrived on")
		}
	}
	if fn := c.Func(Ref{"", "relayManager", "EstablishRelay"}); fn != nil {
		hi := fn.Params[1]
		n := 0
		for _, ci := range callsIn(fn, c39CompIdx) {
			n++
			c.Check(k.relayStateOf(c39IsVal(hi))(callArgs(ci)[0]), "C39.transitions", "EstablishRelay:CompleteRelayByIdx:on-parameter", c.instrPos(ci), "completes relayHostInfo's own record", "EstablishRelay completes a record of a tunnel other than the one it was given")
		}
		if n == 0 {
			c.Unknown("C39.transitions", "EstablishRelay:CompleteRelayByIdx", "call not found")
		}
	}
	if fn := c.Func(Ref{"", "relayManager", "handleCreateRelayRequest"}); fn != nil {
		m := fn.Params[4]
		fInit := c.Field("", "NebulaControl", "InitiatorRelayIndex")
		var sinks []Sink
		for _, p := range k.dl.partsOf(fn) {
			sinks = append(sinks, callSinks(p.Fn, "re-establish", CallSpec{Refs: []Ref{c39UpdIp}, Args: map[int]func(ssa.Value) bool{2: k.constIs(k.st["Established"])}})...)
		}
		k.dl.requireGuards("C39.transitions", fn, sinks, "re-establish-terminal", gCmp("the request carries the index the record already has", func(v ssa.Value) bool {
			_, ok := g7FieldLoadBase(stripValue(v), k.fRemIdx)
			return ok
		}, func(v ssa.Value) bool {
			base, ok := g7FieldLoadBase(stripValue(v), fInit)
			return ok && c39AllOrigins(base, c39IsVal(m))
		}, mustEqual))
	}
}

// callersCall: some function above the delegate fn calls ref.
func (k *c39) callersCall(fn *ssa.Function, ref Ref) bool {
	for _, f := range k.dl.callerChain(fn) {
		if len(callsIn(f, ref)) > 0 {
			return true
		}
	}
	return false
}

// callersTestState: some function above the delegate fn compares a Relay.State with a constant.
func (k *c39) callersTestState(fn *ssa.Function) bool {
	found := false
	for _, f := range k.dl.callerChain(fn) {
		eachInstr(f, func(in ssa.Instruction) {
			bo, ok := in.(*ssa.BinOp)
			if !ok || (bo.Op != token.EQL && bo.Op != token.NEQ) {
				return
			}
			for _, x := range []ssa.Value{bo.X, bo.Y} {
				if _, isF := g7FieldLoadBase(stripValue(x), k.fState); isF {
					found = true
				}
			}
		})
	}
	return found
}

func (k *c39) stateIdx(v int64) (string, bool) {
	for n, x := range k.st {
		if x == v {
			return n, true
		}
	}
	return "", false
}

// storedState: every Store to Relay.State in fn stores a value accepted by ok.
func (k *c39) storedState(fn *ssa.Function, ok func(ssa.Value) bool, what string) {
	n, bad := 0, ""
	eachInstr(fn, func(in ssa.Instruction) {
		st, isS := in.(*ssa.Store)
		if !isS {
			return
		}
		if fa, isF := st.Addr.(*ssa.FieldAddr); isF && fieldOfAddr(fa) == k.fState {
			n++
			if !ok(st.Val) {
				bad = exprString(st.Val) + " at " + k.c.instrPos(in)
			}
		}
	})
	if n == 0 {
		k.c.Unknown("C39.transitions", fnName(fn)+":stores-state", "no store to Relay.State found")
		return
	}
	k.c.Check(bad == "", "C39.transitions", fnName(fn)+":stores-state", k.c.P.Pos(fn.Pos()), "sets State to "+what, "sets Relay.State to "+bad+" instead of "+what)
}

// fromStates computes the states the record changed by call ci can be in when the call is reached,
// from the equality tests on the State of the record(s) looked up with the same receiver and key.
func (k *c39) fromStates(fn *ssa.Function, ci ssa.CallInstruction) ([]string, bool) {
	a := callArgs(ci)
	recvBase, ok := g7FieldLoadBase(a[0], k.fRS)
	if !ok {
		return nil, false
	}
	recvO := g7NonNil(g7Origins(recvBase))
	key := exprString(a[1])
	isRec := func(o ssa.Value) bool {
		call, idx := callOf(o)
		if call == nil || idx != 0 || !matchAny(calleeObj(call), []Ref{c39ByIp, c39ByIdx}) {
			return false
		}
		la := callArgs(call)
		base, isRS := g7FieldLoadBase(la[0], k.fRS)
		return isRS && g7SameSet(g7NonNil(g7Origins(base)), recvO) && (la[1] == a[1] || exprString(la[1]) == key)
	}
	type test struct {
		b      *ssa.BasicBlock
		val    int64
		eqTrue bool
	}
	var tests []test
	for _, b := range fn.Blocks {
		if len(b.Instrs) == 0 {
			continue
		}
		ifi, isIf := b.Instrs[len(b.Instrs)-1].(*ssa.If)
		if !isIf {
			continue
		}
		cd := normCond(ifi.Cond)
		if cd.Kind != CondCmp {
			continue
		}
		bo := cd.Base.(*ssa.BinOp)
		if bo.Op != token.EQL && bo.Op != token.NEQ {
			continue
		}
		x, y := bo.X, bo.Y
		if _, isC := constInt(x); isC {
			x, y = y, x
		}
		val, isC := constInt(y)
		if !isC || !k.fieldOf(k.fState, isRec)(x) {
			continue
		}
		tests = append(tests, test{b, val, (bo.Op == token.EQL) != cd.Neg})
	}
	var out []string
	for _, name := range c39stateNames {
		s := k.st[name]
		blocked := map[Edge]bool{}
		for _, t := range tests {
			condTrue := (t.val == s) == t.eqTrue
			if condTrue {
				blocked[Edge{t.b, 1}] = true
			} else {
				blocked[Edge{t.b, 0}] = true
			}
		}
		if _, r := reachable(fn.Blocks[0], blocked)[ci.Block()]; r {
			out = append(out, name)
		}
	}
	sort.Strings(out)
	return out, true
}

// ---------------------------------------------------------------------------------------
// C39.control

func (k *c39) control() {
	c := k.c
	fn := c.Func(Ref{"", "relayManager", "HandleControlMsg"})
	fFrom, fTo := c.Field("", "NebulaControl", "RelayFromAddr"), c.Field("", "NebulaControl", "RelayToAddr")
	if fn == nil || fFrom == nil || fTo == nil {
		return
	}
	handlers := []Ref{{"", "relayManager", "handleCreateRelayRequest"}, {"", "relayManager", "handleCreateRelayResponse"}}
	for _, hr := range handlers {
		sinks := callSinks(fn, hr.Name, callTo(hr))
		if len(sinks) == 0 {
			c.Unknown("C39.control", "HandleControlMsg:"+hr.Name, "dispatch call not found")
			continue
		}
		for _, f := range []*types.Var{fFrom, fTo} {
			fld := f
			g := gValNotNil("msg."+fld.Name()+" != nil", func(v ssa.Value) bool {
				base, ok := g7FieldLoadBase(v, fld)
				if !ok {
					return false
				}
				// the message handed to the handler
				for _, s := range sinks {
					if g7SameSet(g7NonNil(g7Origins(callArgs(s.Instr.(ssa.CallInstruction))[4])), g7NonNil(g7Origins(base))) {
						return true
					}
				}
				return false
			})
			edges, nt := passEdges(fn, g)
			cons := fmt.Sprintf("HandleControlMsg:%s<-%s", hr.Name, g.Name)
			if nt == 0 {
				c.Bad("C39.control", cons, c.instrPos(sinks[0].Instr), "the handler dereferences the address (protoAddrToNetAddr) but the nil test is gone: a crafted control message crashes the node")
				continue
			}
			bad := false
			for _, s := range sinks {
				if r, path := c.g7ReachCorrelated(fn, s.Instr.Block(), edges); r {
					bad = true
					c.Bad("C39.control", cons, c.instrPos(s.Instr), "the handler is reachable with a nil address (protoAddrToNetAddr would dereference it)", path...)
					break
				}
			}
			if !bad {
				c.OK("C39.control", cons, fmt.Sprintf("every path passes one of %d test(s) (same-message-type tests correlated)", nt))
			}
		}
	}
	// callers
	callerIs := func(target Ref, want string, why string) {
		t := c.Func(target)
		if t == nil {
			return
		}
		sites, esc := g7Callers(k.funcs, t)
		ok := !esc && len(sites) > 0
		pos := ""
		for _, s := range sites {
			if c.isTestHelperFile(s) {
				continue
			}
			if fnName(topFunc(s.Parent())) != want {
				ok, pos = false, c.instrPos(s)
			}
		}
		c.Check(ok, "C39.control", target.Name+":callers", pos, "only "+want+" ("+why+")", target.Name+" is reachable from outside "+want+": "+why+" would be bypassed")
	}
	callerIs(handlers[0], "(*nebula.relayManager).HandleControlMsg", "the nil-address validation")
	callerIs(handlers[1], "(*nebula.relayManager).HandleControlMsg", "the nil-address validation")
	callerIs(Ref{"", "relayManager", "HandleControlMsg"}, "(*nebula.Interface).readOutsidePackets", "the dispatcher's authenticated Control arm")
}

// ---------------------------------------------------------------------------------------
// C39.cleanup

func (k *c39) cleanup() {
	c := k.c
	fRel := c.Field("", "HostMap", "Relays")
	del := c.Func(Ref{"", "HostMap", "unlockedDeleteHostInfo"})
	add := c.Func(c39AddRelay)
	if fRel == nil || del == nil || add == nil {
		return
	}
	// writers of hm.Relays
	allow := map[string]string{
		"nebula.AddRelay":                          "registers a freshly generated index for the relay tunnel",
		"(*nebula.HostMap).unlockedDeleteHostInfo": "removes the indexes owned by the deleted tunnel",
		"nebula.newHostMap":                        "constructor",
	}
	bad := 0
	ws := fieldWriters(k.funcs, fRel)
	for _, w := range ws {
		if c.isTestHelperFile(w.Instr) || w.Kind == "addr-escape" {
			continue
		}
		if _, ok := allow[fnName(topFunc(w.Fn))]; !ok {
			bad++
			c.Bad("C39.cleanup", "HostMap.Relays<-"+fnName(topFunc(w.Fn)), c.instrPos(w.Instr), w.Kind+" of a relay index outside AddRelay / tunnel deletion: it is not tied to a relay record and is never removed")
		}
	}
	if bad == 0 {
		c.Check(len(ws) >= 2, "C39.cleanup", "HostMap.Relays:writers", "", fmt.Sprintf("%d write sites, all tabled", len(ws)), "writers of hm.Relays not found")
	}
	// AddRelay: Relays[index] = hi  <->  hi.relayState.InsertRelay(_, index, &Relay{LocalIndex: index})
	{
		hi := add.Params[1]
		ok, n := true, 0
		eachInstr(add, func(in ssa.Instruction) {
			mu, isM := in.(*ssa.MapUpdate)
			if !isM || !loadsField(mu.Map, fRel) {
				return
			}
			n++
			paired := false
			for _, ci := range callsIn(add, Ref{"", "RelayState", "InsertRelay"}) {
				a := callArgs(ci)
				recIdx := false
				if al, isAl := a[3].(*ssa.Alloc); isAl {
					vals := c39FieldValues(al, k.fieldIndex(k.fLocIdx), 0)
					recIdx = len(vals) > 0
					for _, v := range vals {
						if v != mu.Key {
							recIdx = false
						}
					}
				}
				if a[2] == mu.Key && k.relayStateOf(c39IsVal(hi))(a[0]) && mu.Value == ssa.Value(hi) && recIdx {
					paired = true
				}
			}
			ok = ok && paired
		})
		c.Check(ok && n == 1, "C39.cleanup", "AddRelay:index-recorded-on-owner", c.P.Pos(add.Pos()), "hm.Relays[i] = h together with h.relayState.InsertRelay(_, i, &Relay{LocalIndex: i})", "a relay index is registered in hm.Relays without being recorded (same index, same tunnel) in the owner's relay state: deleting the tunnel would not remove it")
	}
	// delete path
	hostinfo := del.Params[1]
	idxCall := func(v ssa.Value) bool {
		call, _ := callOf(v)
		return call != nil && matchFunc(calleeObj(call), Ref{"", "RelayState", "CopyRelayForIdxs"}) && k.relayStateOf(c39IsVal(hostinfo))(callArgs(call)[0])
	}
	loops := findRangeLoops(del, idxCall)
	okLoop := len(loops) == 1
	okDel := false
	if okLoop {
		body := reachable(loops[0].Body, map[Edge]bool{{loops[0].Header, loops[0].DoneIx}: true})
		eachInstr(del, func(in ssa.Instruction) {
			ci, isC := in.(ssa.CallInstruction)
			if !isC || builtinName(ci) != "delete" {
				return
			}
			if _, inBody := body[in.Block()]; !inBody {
				return
			}
			a := ci.Common().Args
			if loadsField(a[0], fRel) && derivesFrom(a[1], sliceLocal, idxCall) {
				okDel = true
			}
		})
		for _, r := range g7Returns(del) {
			if b := r.Block(); b != del.Blocks[0] && len(b.Preds) == 0 {
				continue
			}
			if av, path := c.avoidsCut(del, nil, r, func(in ssa.Instruction) bool { return in.Block() == loops[0].Header }); av {
				okLoop = false
				c.Bad("C39.cleanup", "unlockedDeleteHostInfo:relay-index-loop", c.instrPos(r), "a path through unlockedDeleteHostInfo returns without visiting the tunnel's relay indexes: they stay in hm.Relays and keep resolving to a dead tunnel", path...)
				break
			}
		}
	}
	if okLoop {
		c.Check(okDel, "C39.cleanup", "unlockedDeleteHostInfo:relay-index-loop", c.P.Pos(del.Pos()), "every return passes `for idx := range CopyRelayForIdxs() { delete(hm.Relays, idx) }`", "the loop over the tunnel's relay indexes no longer deletes them from hm.Relays")
	} else if len(loops) != 1 {
		c.Bad("C39.cleanup", "unlockedDeleteHostInfo:relay-index-loop", c.P.Pos(del.Pos()), fmt.Sprintf("expected one loop over hostinfo.relayState.CopyRelayForIdxs(), found %d", len(loops)))
	}
	// final => the lost peer's relays are disestablished
	dis := Ref{"", "HostMap", "unlockedDisestablishVpnAddrRelayFor"}
	for i, r := range g7Returns(del) {
		if b := r.Block(); (b != del.Blocks[0] && len(b.Preds) == 0) || len(r.Results) == 0 {
			continue
		}
		res := retResult(r, 0)
		notFinal := gValBool("final == false", false, func(v ssa.Value) bool { return sameVar(v, res) })
		edges, nt := passEdges(del, notFinal)
		cons := fmt.Sprintf("unlockedDeleteHostInfo:return#%d:final=>disestablish", i+1)
		if bv, isC := boolConst(res); isC && !bv {
			c.OK("C39.cleanup", cons, "returns false")
			continue
		}
		av, path := c.avoidsCutEdges(del, del.Blocks[0].Instrs[0], r, func(in ssa.Instruction) bool {
			ci, ok := in.(ssa.CallInstruction)
			return ok && matchFunc(calleeObj(ci), dis) && callArgs(ci)[1] == ssa.Value(hostinfo)
		}, edges)
		switch {
		case av:
			c.Bad("C39.cleanup", cons, c.instrPos(r), "the last tunnel to a peer can be deleted (final) without marking the relays through / for it Disestablished: peers' relay records stay Established towards a dead tunnel", path...)
		case nt == 0:
			c.Unknown("C39.cleanup", cons, "no test of the returned `final` value found")
		default:
			c.OK("C39.cleanup", cons, "on the final path unlockedDisestablishVpnAddrRelayFor(hostinfo) is called")
		}
	}
	// only the delete path disestablishes
	if t := c.Func(dis); t != nil {
		sites, esc := g7Callers(k.funcs, t)
		ok := !esc && len(sites) > 0
		for _, s := range sites {
			if !c.isTestHelperFile(s) && topFunc(s.Parent()) != del {
				ok = false
			}
		}
		c.Check(ok, "C39.cleanup", "unlockedDisestablishVpnAddrRelayFor:callers", "", "only tunnel deletion marks relays Disestablished", "relays are marked Disestablished from a site other than tunnel deletion")
	}
}

// c39FieldValues: the values field #idx of the struct held in cell can have: direct field stores, and
// the same field of local structs copied into the cell as a whole (`newRelay := Relay{...}`).
func c39FieldValues(cell *ssa.Alloc, idx int, depth int) []ssa.Value {
	var out []ssa.Value
	if depth > 3 {
		return nil
	}
	for _, v := range g7StoresInto(cell, []int{idx}) {
		if u, ok := v.(*ssa.UnOp); ok && u.Op == token.MUL {
			if src, ok := u.X.(*ssa.Alloc); ok && types.Identical(src.Type(), cell.Type()) {
				out = append(out, c39FieldValues(src, idx, depth+1)...)
				continue
			}
		}
		out = append(out, v)
	}
	return out
}

func (k *c39) fieldIndex(f *types.Var) int {
	st := k.relayT.Underlying().(*types.Struct)
	for i := 0; i < st.NumFields(); i++ {
		if st.Field(i) == f {
			return i
		}
	}
	return -1
}
