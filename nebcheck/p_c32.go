package main

import (
	"fmt"
	"go/token"
	"go/types"

	"golang.org/x/tools/go/ssa"
)

func init() {
	register(&Property{
		ID: "C32", Title: "Pending handshakes retry, give up, and release queued packets correctly",
		Patterns:    []string{"."},
		Technique:   "who-may-write table for the packet queue, CFG guards (queue bound, retry limit, firewall verdict before the send), must-pass-through rules (give-up removes the pending state, every live return re-arms the timer), single dominating counter increment, provenance of the back-off delay, of the queued element and of the callback cached for data packets, shape of the release loop (each element's own callback once per iteration, after Complete)",
		LevelText:   "Structural necessary conditions on all paths: the queue of a pending handshake is written only by cachePacket and by the wrong-host restart in continueHandshake; cachePacket appends exactly one element and only while len(queue) < maxCachedPackets (= 100), storing the caller's type / subtype / callback and a private copy of the packet; handleOutbound sends (direct and via relays) only while counter < retries, otherwise removes the pending handshake and sends nothing; the counter is incremented by exactly one, once, before any send; every timer re-arm uses tryInterval * counter read after the increment; every return of a timer-driven call either removed the handshake, re-armed the timer, or found no handshake; sendMessageNow sends only after the outbound firewall (incoming=false, packet parsed as outbound from the same bytes, for the same tunnel) returned no drop reason, and sends those bytes; the callback cached for inside data packets is sendMessageNow; continueHandshake releases the queue only after Complete, on every completing path, by one index-order range loop that invokes each element's own callback exactly once per element with that element's type, subtype and bytes on the completed tunnel.",
		LevelNote:   "Not decided: wall-clock spacing of retries (timer wheel, C33); that lighthouse-triggered calls count as attempts (they increment the counter - existing behaviour, recorded); what the firewall decides (C16); packets queued by SendMessageToVpnAddr are the node's own control messages and bypass the firewall by design (tabled); delivery of the released packets.",
		Explanation: "K2 writers, K1 guards (edge-sensitive, helper-lifted), K5 single increment, K11 provenance, loop-shape rule on the release loop",
		Run:         runC32,
		Canaries: func(c *Ctx) []Canary {
			return []Canary{
				{Name: "queue-cap-off-by-one", File: "handshake_manager.go", Old: "if len(hh.packetStore) < maxCachedPackets {", New: "if len(hh.packetStore) <= maxCachedPackets {", Rule: "C32.queue"},
				{Name: "queue-aliases-caller-buffer", File: "handshake_manager.go", Old: "\t\ttempPacket := make([]byte, len(packet))\n\t\tcopy(tempPacket, packet)\n", New: "\t\ttempPacket := packet\n", Rule: "C32.queue"},
				{Name: "queue-cleared-by-relay-attempt", File: "relay_manager.go", Old: "\tif len(relays) == 0 {\n\t\thh.lastRelays = nil\n\t\treturn\n", New: "\tif len(relays) == 0 {\n\t\thh.lastRelays = nil\n\t\thh.packetStore = hh.packetStore[:0]\n\t\treturn\n", Rule: "C32.queue"},
				{Name: "give-up-one-attempt-late", File: "handshake_manager.go", Old: "if hh.counter >= hm.config.retries {", New: "if hh.counter > hm.config.retries {", Rule: "C32.retry"},
				{Name: "give-up-keeps-pending-state", File: "handshake_manager.go", Old: "\t\thm.metricTimedOut.Inc(1)\n\t\thm.DeleteHostInfo(hostinfo)\n", New: "\t\thm.metricTimedOut.Inc(1)\n", Rule: "C32.retry"},
				{Name: "counter-jumps-by-two", File: "handshake_manager.go", Old: "\thh.counter++\n", New: "\thh.counter += 2\n", Rule: "C32.backoff"},
				{Name: "constant-retry-delay", File: "handshake_manager.go", Old: "\tif !lighthouseTriggered {\n\t\thm.OutboundHandshakeTimer.Add(vpnIp, hm.config.tryInterval*time.Duration(hh.counter))", New: "\tif !lighthouseTriggered {\n\t\thm.OutboundHandshakeTimer.Add(vpnIp, hm.config.tryInterval)", Rule: "C32.backoff"},
				{Name: "no-packet-yet-path-forgets-timer", File: "handshake_manager.go", Old: "\t\tif !hm.buildStage0Packet(hh) {\n\t\t\thm.OutboundHandshakeTimer.Add(vpnIp, hm.config.tryInterval*time.Duration(hh.counter))\n\t\t\treturn", New: "\t\tif !hm.buildStage0Packet(hh) {\n\t\t\treturn", Rule: "C32.retry"},
				{Name: "queued-data-bypasses-firewall", File: "inside.go", Old: "hh.cachePacket(f.l, header.Message, 0, seg, f.sendMessageNow, f.cachedPacketMetrics)", New: "hh.cachePacket(f.l, header.Message, 0, seg, f.SendMessageToHostInfo, f.cachedPacketMetrics)", Rule: "C32.firewall"},
				{Name: "queued-data-checked-as-inbound", File: "inside.go", Old: "dropReason := f.firewall.Drop(fp.Packet, false, hostinfo, f.pki.GetCAPool(), nil)", New: "dropReason := f.firewall.Drop(fp.Packet, true, hostinfo, f.pki.GetCAPool(), nil)", Rule: "C32.firewall"},
				{Name: "drop-verdict-only-logged", File: "inside.go", Old: "\t\t\t\t\"reason\", dropReason,\n\t\t\t)\n\t\t}\n\t\treturn\n\t}\n\n\tf.sendNoMetrics(header.Message, st, hostinfo.ConnectionState, hostinfo, netip.AddrPort{}, p, nb, out, 0)", New: "\t\t\t\t\"reason\", dropReason,\n\t\t\t)\n\t\t\treturn\n\t\t}\n\t}\n\n\tf.sendNoMetrics(header.Message, st, hostinfo.ConnectionState, hostinfo, netip.AddrPort{}, p, nb, out, 0)", Rule: "C32.firewall"},
				{Name: "release-before-complete", File: "handshake_manager.go", Old: "\thm.Complete(hostinfo, f)\n\n\tif len(hh.packetStore) > 0 {", New: "\tdefer hm.Complete(hostinfo, f)\n\n\tif len(hh.packetStore) > 0 {", Rule: "C32.release"},
				{Name: "release-uses-first-callback", File: "handshake_manager.go", Old: "\t\t\tcp.callback(cp.messageType, cp.messageSubType, hostinfo, cp.packet, nb, out)", New: "\t\t\thh.packetStore[0].callback(cp.messageType, cp.messageSubType, hostinfo, cp.packet, nb, out)", Rule: "C32.release"},
			}
		},
	})
}

// c32ParamOfType: the parameter of fn (receiver included) whose type is the named type pkg.name
// / the []byte slice. Looking parameters up by type keeps the rule independent of their order.
func c32ParamOfType(fn *ssa.Function, match func(types.Type) bool) (int, *ssa.Parameter) {
	idx, n := -1, 0
	for i, p := range fn.Params {
		if match(p.Type()) {
			idx = i
			n++
		}
	}
	if n != 1 {
		return -1, nil
	}
	return idx, fn.Params[idx]
}

func c32IsNamed(pkg, name string) func(types.Type) bool {
	return func(t types.Type) bool {
		n, ok := types.Unalias(t).(*types.Named)
		return ok && n.Obj().Name() == name && n.Obj().Pkg() != nil && n.Obj().Pkg().Path() == PkgPath(pkg)
	}
}

func c32IsByteSlice(t types.Type) bool {
	s, ok := t.Underlying().(*types.Slice)
	if !ok {
		return false
	}
	b, ok := s.Elem().Underlying().(*types.Basic)
	return ok && b.Kind() == types.Uint8
}

func runC32(c *Ctx) {
	c.Rule("C32.queue", "K2/K1/K11: packetStore is written only by cachePacket and the wrong-host restart; cachePacket appends one element, only while len < maxCachedPackets (=100), holding the caller's type/subtype/callback and a private copy of the bytes", 6)
	c.Rule("C32.retry", "K1/must-pass: handleOutbound sends only while counter < retries; the give-up arm removes the pending handshake and sends nothing; every timer-driven return removed the handshake, re-armed the timer or found none", 8)
	c.Rule("C32.backoff", "K5/K11: the attempt counter is incremented by exactly one, once, before any send or re-arm; every re-arm delay is tryInterval * counter (read after the increment)", 8)
	c.Rule("C32.firewall", "K1/K11: sendMessageNow sends only if firewall.Drop(outbound, same bytes, same tunnel) returned nil; the callback cached for inside data packets is sendMessageNow; cachePacket callers are tabled", 6)
	c.Rule("C32.release", "K5: continueHandshake releases the queue after Complete, on every completing path, with one index-order loop calling each element's own callback once per element with the element's fields on the completed tunnel", 6)

	c32Queue(c)
	c32Retry(c)
	c32Firewall(c)
	c32Release(c)
}

// ---- the queue
func c32Queue(c *Ctx) {
	fStore := c.Field("", "HandshakeHostInfo", "packetStore")
	if fStore == nil {
		return
	}
	funcs := c.moduleFuncs()
	c.g8WritersByKind("C32.queue", funcs, "HandshakeHostInfo", fStore, map[string]map[string]string{
		"store": {
			"(*nebula.HandshakeHostInfo).cachePacket":        "the bounded append",
			"(*nebula.HandshakeManager).continueHandshake":   "wrong host answered: the queue moves to the restarted handshake and the old one is emptied",
			"(*nebula.HandshakeManager).continueHandshake$1": "same (the closure run under StartHandshake)",
		},
	})
	capK := int64(-1)
	if v := c.ConstVal("", "maxCachedPackets"); v != nil {
		capK, _ = constantInt64(v)
		c.Check(capK == 100, "C32.queue", "maxCachedPackets==100", "handshake_manager.go", "the bound is the stated 100 packets", fmt.Sprintf("maxCachedPackets is %d, the property states at most 100 queued packets per pending handshake", capK))
	}
	fn := c.Func(Ref{"", "HandshakeHostInfo", "cachePacket"})
	if fn == nil || capK < 0 {
		return
	}
	hh := fn.Params[0]
	isStore := g8FieldOf(fStore, g8Is(hh))
	var stores []*ssa.Store
	eachInstr(fn, func(in ssa.Instruction) {
		if st, ok := in.(*ssa.Store); ok {
			if fa, ok := st.Addr.(*ssa.FieldAddr); ok && fieldOfAddr(fa) == fStore {
				stores = append(stores, st)
			}
		}
	})
	if len(stores) != 1 {
		c.Unknown("C32.queue", "cachePacket:append", fmt.Sprintf("expected one assignment of the queue, found %d", len(stores)))
		return
	}
	st := stores[0]
	// bound: on the pass edge len(queue) <= cap-1
	// on the pass edge len(queue) <= cap-1 (any of <, <=, >=, > against a constant that implies it)
	room := c.g8Lift("len(queue) < maxCachedPackets", func(r g8Roles) Guard {
		return Guard{Name: "len(queue) < maxCachedPackets", Match: func(cd Cond, _ *ssa.If) (bool, bool) {
			if cd.Kind != CondCmp {
				return false, false
			}
			bo := cd.Base.(*ssa.BinOp)
			op, l, k := bo.Op, bo.X, bo.Y
			if _, isK := constInt(l); isK {
				op, l, k = swapOp(op), bo.Y, bo.X
			}
			kv, isK := constInt(k)
			if !isK || !isLenOf(g8FieldOf(fStore, r["hh"]))(l) {
				return false, false
			}
			if cd.Neg {
				op = negOp(op)
			}
			switch {
			case op == token.LSS && kv <= capK, op == token.LEQ && kv <= capK-1:
				return true, true
			case op == token.GEQ && kv <= capK, op == token.GTR && kv <= capK-1:
				return true, false
			}
			return false, false
		}}
	}, g8Roles{"hh": g8Is(hh)})
	c.g8RequireRel("C32.queue", fn, []Sink{{Instr: st, Desc: "queue append"}}, "append", room, isLenOf(isStore))
	// exactly one element appended to the current queue, once
	call, _ := stripValue(st.Val).(*ssa.Call)
	okApp := call != nil && builtinName(call) == "append" && isStore(call.Call.Args[0]) && !inAnyLoop(naturalLoops(fn), st.Block())
	var elem ssa.Value
	if okApp {
		okApp = false
		if sl, ok := call.Call.Args[1].(*ssa.Slice); ok {
			if al, ok := sl.X.(*ssa.Alloc); ok {
				if arr, ok := al.Type().Underlying().(*types.Pointer).Elem().Underlying().(*types.Array); ok && arr.Len() == 1 {
					if vals := storesInto(al); len(vals) == 1 {
						elem, okApp = vals[0], true
					}
				}
			}
		}
	}
	c.Check(okApp, "C32.queue", "cachePacket:appends-one", c.instrPos(st), "queue = append(queue, one element), not in a loop", "the queue assignment is not a single-element append to the current queue: a packet would be queued twice or the queue replaced")
	if elem == nil {
		return
	}
	// the element carries the caller's arguments and a private copy of the bytes
	cp := c.NamedType("", "cachedPacket")
	if cp == nil {
		return
	}
	written := map[string]ssa.Value{}
	eachInstr(fn, func(in ssa.Instruction) {
		if s, ok := in.(*ssa.Store); ok {
			if fa, ok := s.Addr.(*ssa.FieldAddr); ok && fa.X == elem {
				written[fieldOfAddr(fa).Name()] = s.Val
			}
		}
	})
	_, pCb := c32ParamOfType(fn, c32IsNamed("", "packetCallback"))
	_, pT := c32ParamOfType(fn, c32IsNamed("header", "MessageType"))
	_, pST := c32ParamOfType(fn, c32IsNamed("header", "MessageSubType"))
	_, pPkt := c32ParamOfType(fn, c32IsByteSlice)
	if pCb == nil || pT == nil || pST == nil || pPkt == nil {
		c.Unknown("C32.queue", "cachePacket:element", "parameters not recognised by type")
		return
	}
	okF := g8Same(written["callback"], pCb) && g8Same(written["messageType"], pT) && g8Same(written["messageSubType"], pST)
	c.Check(okF, "C32.queue", "cachePacket:element-fields", c.instrPos(st), "callback/type/subtype are the caller's", "the queued element does not carry the caller's callback, type and subtype: the packet would be released through the wrong sender")
	buf := written["packet"]
	_, fresh := stripValue(buf).(*ssa.MakeSlice)
	if sl, ok := stripValue(buf).(*ssa.Slice); ok && !fresh {
		_, fresh = sl.X.(*ssa.Alloc)
	}
	copied := false
	eachInstr(fn, func(in ssa.Instruction) {
		if cl, ok := in.(*ssa.Call); ok && builtinName(cl) == "copy" && buf != nil && g8Same(cl.Call.Args[0], buf) && g8Same(cl.Call.Args[1], pPkt) && g8Dominates(cl, st) {
			copied = true
		}
	})
	if !copied && buf != nil {
		// bytes.Clone / slices.Clone / append([]byte(nil), p...)
		if cl, _ := callOf(buf); cl != nil && len(cl.Call.Args) > 0 {
			if o := calleeObj(cl); (o != nil && o.Name() == "Clone" && g8Same(cl.Call.Args[0], pPkt)) || (builtinName(cl) == "append" && len(cl.Call.Args) == 2 && g8Same(cl.Call.Args[1], pPkt) && !g8Same(cl.Call.Args[0], pPkt)) {
				copied, fresh = true, true
			}
		}
	}
	c.Check(fresh && copied, "C32.queue", "cachePacket:private-copy", c.instrPos(st), "the bytes are copied into a fresh buffer", "the queued element keeps the caller's buffer (or no copy of it): the tun reader reuses that buffer, so a different packet is sent when the handshake completes")
}

// ---- retry / give up / back-off
func c32Retry(c *Ctx) {
	fn := c.Func(Ref{"", "HandshakeManager", "handleOutbound"})
	fCounter := c.Field("", "HandshakeHostInfo", "counter")
	fRetries := c.Field("", "HandshakeConfig", "retries")
	fTry := c.Field("", "HandshakeConfig", "tryInterval")
	fTimer := c.Field("", "HandshakeManager", "OutboundHandshakeTimer")
	fHHhi := c.Field("", "HandshakeHostInfo", "hostinfo")
	if fn == nil || fCounter == nil || fRetries == nil || fTry == nil || fTimer == nil || fHHhi == nil || len(fn.Params) != 3 {
		return
	}
	vpnIp, lhTrig := fn.Params[1], fn.Params[2]
	isCounter := func(v ssa.Value) bool { return g8LoadedField(v) == fCounter }
	isRetries := func(v ssa.Value) bool { return g8LoadedField(v) == fRetries }
	less := func(op token.Token) (bool, bool) {
		switch op {
		case token.LSS:
			return true, true
		case token.GEQ:
			return true, false
		}
		return false, false
	}
	budget := c.g8Lift("counter < retries", func(g8Roles) Guard { return gCmp("counter < retries", isCounter, isRetries, less) }, g8Roles{})
	// sends
	var sends []Sink
	eachInstr(fn, func(in ssa.Instruction) {
		ci, ok := in.(ssa.CallInstruction)
		if !ok {
			return
		}
		o := calleeObj(ci)
		switch {
		case matchFunc(o, Ref{"", "relayManager", "StartRelays"}):
			sends = append(sends, Sink{Instr: in, Desc: "StartRelays"})
		case matchFunc(o, Ref{"", "HandshakeManager", "buildStage0Packet"}):
			sends = append(sends, Sink{Instr: in, Desc: "buildStage0Packet (allocates an index)"})
		default:
			// a call handed a closure that writes to the underlay socket
			for _, a := range ci.Common().Args {
				if cl, _ := g8ClosureArg(a); cl != nil && cl.Parent() == fn && len(callsInDeep(cl, Ref{"udp", "Conn", "WriteTo"})) > 0 {
					sends = append(sends, Sink{Instr: in, Desc: "send to every remote"})
				}
			}
			if matchFunc(o, Ref{"udp", "Conn", "WriteTo"}) {
				sends = append(sends, Sink{Instr: in, Desc: "WriteTo"})
			}
		}
	})
	if len(sends) < 2 {
		c.Unknown("C32.retry", "handleOutbound:sends", fmt.Sprintf("expected the direct send and the relay send, found %d send site(s)", len(sends)))
		return
	}
	c.g8RequireRel("C32.retry", fn, sends, "send", budget, isCounter, isRetries)
	// give-up arm
	isDelete := func(in ssa.Instruction) bool {
		ci, ok := in.(ssa.CallInstruction)
		if !ok || !matchFunc(calleeObj(ci), Ref{"", "HandshakeManager", "DeleteHostInfo"}) {
			return false
		}
		return g8LoadedField(callArgs(ci)[1]) == fHHhi
	}
	_, fail := splitEdges(fn, budget)
	rets := g8Returns(fn)
	if len(fail) == 0 {
		if g8RelatedTest(fn, budget, isCounter, isRetries) {
			c.Unknown("C32.retry", "handleOutbound:give-up-arm", "the retry-limit test has a shape this rule does not read")
		} else {
			c.Bad("C32.retry", "handleOutbound:give-up-arm", c.P.Pos(fn.Pos()), "no `counter >= retries` arm found: a pending handshake is never abandoned")
		}
	}
	for i, fb := range fail {
		region := reachable(fb, nil)
		okDel, okQuiet := true, true
		for _, r := range rets {
			if _, in := region[r.Block()]; in && pathThrough(fn, fb, r, isDelete) {
				okDel = false
				c.Bad("C32.retry", fmt.Sprintf("handleOutbound:give-up#%d:removes-pending-state", i), c.instrPos(r), "the give-up arm can return without hm.DeleteHostInfo(hh.hostinfo): the abandoned handshake keeps its pending entry, index and queued packets forever")
			}
		}
		for _, s := range sends {
			if _, in := region[s.Instr.Block()]; in {
				okQuiet = false
				c.Bad("C32.retry", fmt.Sprintf("handleOutbound:give-up#%d:sends-nothing", i), c.instrPos(s.Instr), "the give-up arm can still reach "+s.Desc)
			}
		}
		if okDel {
			c.OK("C32.retry", fmt.Sprintf("handleOutbound:give-up#%d:removes-pending-state", i), "every return of the arm passed DeleteHostInfo(hh.hostinfo)")
		}
		if okQuiet {
			c.OK("C32.retry", fmt.Sprintf("handleOutbound:give-up#%d:sends-nothing", i), "no send reachable")
		}
	}
	// re-arm: the timer wheel's Add on hm.OutboundHandshakeTimer
	isAdd := func(in ssa.Instruction) bool {
		ci, ok := in.(ssa.CallInstruction)
		if !ok {
			return false
		}
		o := calleeObj(ci)
		return o != nil && o.Name() == "Add" && len(callArgs(ci)) == 3 && g8LoadedField(callArgs(ci)[0]) == fTimer
	}
	// exempt edges: no pending handshake found; attempt triggered by the lighthouse (still in the wheel)
	exempt := map[Edge]bool{}
	nilHH, _ := passEdges(fn, gValNil("no pending handshake for the address", g8ResultOf(0, Ref{"", "HandshakeManager", "queryVpnIp"})))
	trig, _ := passEdges(fn, gValBool("lighthouse-triggered attempt", true, g8Is(lhTrig)))
	for e := range nilHH {
		exempt[e] = true
	}
	for e := range trig {
		exempt[e] = true
	}
	if len(nilHH) == 0 {
		c.Unknown("C32.retry", "handleOutbound:not-found-test", "the `hh == nil` test on queryVpnIp's result was not found")
	}
	for i, r := range rets {
		cons := fmt.Sprintf("handleOutbound:return#%d:rearmed-or-removed", i)
		av, _ := c.avoidsCutEdges(fn, fn.Blocks[0].Instrs[0], r, func(in ssa.Instruction) bool { return isAdd(in) || isDelete(in) }, exempt)
		c.Check(!av, "C32.retry", cons, c.instrPos(r), "timer re-armed, handshake removed, none pending, or lighthouse-triggered", "a timer-driven attempt can return without re-arming the handshake timer and without removing the handshake: it is never retried and never times out")
	}
	// ---- the counter
	var incs []*ssa.Store
	eachInstr(fn, func(in ssa.Instruction) {
		if st, ok := in.(*ssa.Store); ok {
			if fa, ok := st.Addr.(*ssa.FieldAddr); ok && fieldOfAddr(fa) == fCounter {
				incs = append(incs, st)
			}
		}
	})
	for _, a := range fn.AnonFuncs {
		eachInstr(a, func(in ssa.Instruction) {
			if st, ok := in.(*ssa.Store); ok {
				if fa, ok := st.Addr.(*ssa.FieldAddr); ok && fieldOfAddr(fa) == fCounter {
					incs = append(incs, st)
				}
			}
		})
	}
	if len(incs) != 1 || incs[0].Parent() != fn {
		c.Bad("C32.backoff", "handleOutbound:counter-increment", c.P.Pos(fn.Pos()), fmt.Sprintf("expected exactly one assignment of the attempt counter per call, found %d", len(incs)))
		return
	}
	inc := incs[0]
	okInc := false
	if bo, ok := stripValue(inc.Val).(*ssa.BinOp); ok && bo.Op == token.ADD {
		base := inc.Addr.(*ssa.FieldAddr).X
		same := func(v ssa.Value) bool { return isCounter(v) && g8Same(g8FieldBase(v), base) }
		okInc = (same(bo.X) && isIntConst(1)(bo.Y)) || (same(bo.Y) && isIntConst(1)(bo.X))
	}
	c.Check(okInc && !inAnyLoop(naturalLoops(fn), inc.Block()), "C32.backoff", "handleOutbound:counter-increment", c.instrPos(inc), "counter = counter + 1, once", "the attempt counter is not incremented by exactly one per attempt: the retry delay is not linear in the attempt number and the give-up point moves")
	for i, s := range sends {
		c.Check(g8Dominates(inc, s.Instr), "C32.backoff", fmt.Sprintf("handleOutbound:send#%d:after-increment", i), c.instrPos(s.Instr), "counted before sending", s.Desc+" can run on a path that did not count the attempt")
	}
	nAdd := 0
	eachInstr(fn, func(in ssa.Instruction) {
		if !isAdd(in) {
			return
		}
		a := callArgs(in.(ssa.CallInstruction))
		cons := fmt.Sprintf("handleOutbound:rearm#%d", nAdd)
		nAdd++
		okDelay := false
		if bo, ok := stripValue(a[2]).(*ssa.BinOp); ok && bo.Op == token.MUL {
			x, y := stripValue(bo.X), stripValue(bo.Y)
			if g8LoadedField(x) != fTry {
				x, y = y, x
			}
			if g8LoadedField(x) == fTry && isCounter(y) {
				if ld, ok := g8Resolve(y).(ssa.Instruction); ok {
					okDelay = g8Dominates(inc, ld)
				}
			}
		}
		c.Check(okDelay, "C32.backoff", cons+":delay", c.instrPos(in), "tryInterval * counter (after the increment)", "the re-arm delay "+exprString(a[2])+" is not tryInterval * attempt counter: retries are not spaced with linearly growing delay")
		c.Check(g8Same(a[1], vpnIp), "C32.backoff", cons+":key", c.instrPos(in), "re-arms this address", "the timer is re-armed for a different address than the one being attempted")
	})
	if nAdd == 0 {
		c.Unknown("C32.backoff", "handleOutbound:rearm", "no timer re-arm found")
	}
}

// ---- firewall on release
func c32Firewall(c *Ctx) {
	funcs := c.moduleFuncs()
	nowRef := Ref{"", "Interface", "sendMessageNow"}
	if fn := c.Func(nowRef); fn != nil {
		_, pHI := c32ParamOfType(fn, func(t types.Type) bool {
			p, ok := t.(*types.Pointer)
			return ok && c32IsNamed("", "HostInfo")(p.Elem())
		})
		// the payload: first []byte parameter
		var pP *ssa.Parameter
		for _, p := range fn.Params {
			if c32IsByteSlice(p.Type()) {
				pP = p
				break
			}
		}
		if pHI == nil || pP == nil {
			c.Unknown("C32.firewall", "sendMessageNow:params", "parameters not recognised by type")
		} else {
			var sinks []Sink
			for _, ci := range callsIn(fn, Ref{"", "Interface", "sendNoMetrics"}, Ref{"", "Interface", "send"}, Ref{"", "Interface", "sendTo"}, Ref{"", "Interface", "SendMessageToHostInfo"}, Ref{"", "Interface", "SendVia"}) {
				sinks = append(sinks, Sink{Instr: ci, Desc: "send"})
				a := callArgs(ci)
				okSame, hasHI := false, false
				for _, x := range a {
					if g8Same(x, pP) {
						okSame = true
					}
					if g8Same(x, pHI) {
						hasHI = true
					}
				}
				c.Check(okSame && hasHI, "C32.firewall", fmt.Sprintf("sendMessageNow:send#%d:sends-checked-bytes", len(sinks)-1), c.instrPos(ci), "sends the checked bytes on the checked tunnel", "the bytes / tunnel sent are not the ones the firewall verdict was computed for")
			}
			parsedFrom := func(v ssa.Value) bool {
				return derivesFrom(v, sliceThrough, func(x ssa.Value) bool { return x == ssa.Value(pP) })
			}
			drop := CallSpec{Refs: []Ref{{"", "Firewall", "Drop"}}, Args: map[int]func(ssa.Value) bool{
				1: parsedFrom,
				2: func(v ssa.Value) bool { b, ok := boolConst(v); return ok && !b }, // incoming=false: the outbound rule set
				3: g8Is(pHI),
			}}
			parse := CallSpec{Refs: []Ref{{"", "", "newPacket"}}, Args: map[int]func(ssa.Value) bool{
				0: g8Is(pP),
				1: func(v ssa.Value) bool { b, ok := boolConst(v); return ok && !b }, // parsed as an outbound packet (local = source)
			}}
			c.g8Require("C32.firewall", fn, sinks, "send",
				gValNil("outbound firewall verdict is nil (Drop(parsed p, incoming=false, hostinfo))", func(v ssa.Value) bool { return matchCallValue(v, drop, -2) }),
				gErrNil("packet parsed as outbound (newPacket(p, false, _))", parse))
		}
	}
	// who queues, and with which callback
	cacheRef := Ref{"", "HandshakeHostInfo", "cachePacket"}
	sites := c.g8Callers("C32.firewall", funcs, "cachePacket", map[string]string{
		"(*nebula.Interface).consumeInsidePacket":  "inside data packets waiting for the tunnel: released through the firewall-checking sender",
		"(*nebula.Interface).SendMessageToVpnAddr": "the node's own control messages (lighthouse, test): not subject to the outbound firewall, released through SendMessageToHostInfo",
	}, cacheRef)
	cfn := c.funcQuiet(cacheRef)
	msgK := int64(-1)
	if v := c.ConstVal("header", "Message"); v != nil {
		msgK, _ = constantInt64(v)
	}
	if cfn != nil && msgK >= 0 {
		iCb, _ := c32ParamOfType(cfn, c32IsNamed("", "packetCallback"))
		iT, _ := c32ParamOfType(cfn, c32IsNamed("header", "MessageType"))
		nData := 0
		for _, s := range sites {
			ci, ok := s.Instr.(ssa.CallInstruction)
			if !ok || s.Kind != "call" || iCb < 0 || iT < 0 {
				c.Unknown("C32.firewall", "cachePacket<-"+fnName(s.Fn), "cachePacket is referenced other than by a direct call: cannot see the callback")
				continue
			}
			a := callArgs(ci)
			k, isK := constInt(a[iT])
			top := fnName(topFunc(s.Fn))
			isData := (isK && k == msgK) || top == "(*nebula.Interface).consumeInsidePacket"
			if !isData && isK {
				continue // a constant non-data type
			}
			tgt := g8FuncTarget(a[iCb])
			if isData && tgt == nil {
				nData++
				c.Unknown("C32.firewall", fmt.Sprintf("%s:data-callback#%d", top, nData-1), "the release callback is not a function value that can be resolved statically")
				continue
			}
			if isData {
				nData++
				c.Check(matchFunc(tgt, nowRef), "C32.firewall", fmt.Sprintf("%s:data-callback#%d", top, nData-1), c.instrPos(s.Instr), "f.sendMessageNow", "an inside data packet is queued with a release callback other than sendMessageNow: it would be sent on completion without the outbound firewall check")
			} else {
				// dynamic type (SendMessageToVpnAddr): its callers pass control types only
				c.OK("C32.firewall", top+":control-callback", "dynamic message type, tabled control-plane sender")
			}
		}
		if nData == 0 {
			c.Unknown("C32.firewall", "data-callback", "no site queues inside data packets")
		}
		// SendMessageToVpnAddr is never used for data
		for _, fnc := range funcs {
			if c.isTestFile(fnc.Pos()) {
				continue
			}
			for i, ci := range callsIn(fnc, Ref{"", "Interface", "SendMessageToVpnAddr"}, Ref{"", "EncWriter", "SendMessageToVpnAddr"}) {
				if k, isK := constInt(callArgs(ci)[1]); isK && k == msgK {
					c.Bad("C32.firewall", fmt.Sprintf("%s:SendMessageToVpnAddr#%d:data", fnName(fnc), i), c.instrPos(ci), "a data packet is sent through SendMessageToVpnAddr, whose queued copy is released without the firewall check")
				}
			}
		}
	}
}

// ---- release loop
func c32Release(c *Ctx) {
	fn := c.Func(Ref{"", "HandshakeManager", "continueHandshake"})
	fStore := c.Field("", "HandshakeHostInfo", "packetStore")
	cp := c.NamedType("", "cachedPacket")
	if fn == nil || fStore == nil || cp == nil || len(fn.Params) < 3 {
		return
	}
	hh := fn.Params[2]
	isQueue := g8FieldOf(fStore, g8Is(hh))
	completes := callsIn(fn, Ref{"", "HandshakeManager", "Complete"})
	if len(completes) != 1 {
		c.Unknown("C32.release", "continueHandshake:Complete", fmt.Sprintf("expected one Complete call, found %d", len(completes)))
		return
	}
	comp := completes[0]
	if _, isDefer := comp.(*ssa.Defer); isDefer {
		c.Bad("C32.release", "continueHandshake:release-after-Complete", c.instrPos(comp), "Complete is deferred: the queue is released before the tunnel is in the main hostmap and while new packets can still be queued")
		return
	}
	top := fn
	tunnel := callArgs(comp)[1]
	isTunnel := func(v ssa.Value) bool { return g8Same(v, tunnel) }
	tunnelBound := true
	emptyGuard := func(isQ func(ssa.Value) bool) Guard {
		return Guard{Name: "queue empty", Match: func(cd Cond, _ *ssa.If) (bool, bool) {
			if cd.Kind != CondCmp {
				return false, false
			}
			bo := cd.Base.(*ssa.BinOp)
			if !isLenOf(isQ)(bo.X) || !isIntConst(0)(bo.Y) {
				return false, false
			}
			op := bo.Op
			if cd.Neg {
				op = negOp(op)
			}
			switch op {
			case token.GTR, token.NEQ:
				return true, false
			case token.EQL, token.LEQ:
				return true, true
			}
			return false, false
		}}
	}
	// every path start -> return of f passes `site` (skipped only when the queue is empty)
	passesSite := func(f *ssa.Function, start ssa.Instruction, isSite func(ssa.Instruction) bool, isQ func(ssa.Value) bool) []*ssa.Return {
		skip, _ := passEdges(f, emptyGuard(isQ))
		var bad []*ssa.Return
		for _, r := range g8Returns(f) {
			if start == nil {
				// from the entry: the first instruction itself may be the site
				if len(f.Blocks[0].Instrs) > 0 && isSite(f.Blocks[0].Instrs[0]) {
					continue
				}
				if av, _ := c.avoidsCutEdges(f, f.Blocks[0].Instrs[0], r, isSite, skip); av {
					bad = append(bad, r)
				}
				continue
			}
			if av, _ := c.avoidsCutEdges(f, start, r, isSite, skip); av {
				bad = append(bad, r)
			}
		}
		return bad
	}
	// The release loop lives in continueHandshake itself, or in a same-package helper that
	// continueHandshake calls with the pending handshake (or its queue): follow the delegation
	// (up to 3 levels), re-binding the queue and the completed tunnel to the helper's parameters.
	loops := findRangeLoops(fn, isQueue)
	isBase := g8Is(hh) // the pending handshake whose queue is released
	var siteTop ssa.Instruction // in continueHandshake: the delegating call (nil: the loop itself)
	var missedReturns []*ssa.Return
	start := ssa.Instruction(comp)
	for level := 0; len(loops) == 0 && level < 3; level++ {
		type cand struct {
			call  *ssa.Call
			h     *ssa.Function
			isHH  func(ssa.Value) bool
			isQ   func(ssa.Value) bool
			loops []loopInfo
			deep  bool
		}
		var cands []cand
		eachInstr(fn, func(in ssa.Instruction) {
			h := fix5Helper(in)
			if h == nil || h == fn || h == top {
				return
			}
			call := in.(*ssa.Call)
			hset, qset := map[int]bool{}, map[int]bool{}
			for j, a := range call.Call.Args {
				if j >= len(h.Params) {
					break
				}
				if isBase(a) {
					hset[j] = true
				}
				if isQueue(a) {
					qset[j] = true
				}
			}
			if len(hset)+len(qset) == 0 {
				return
			}
			isHH, isQP := g8IsParamIn(h, hset), g8IsParamIn(h, qset)
			isQ := func(v ssa.Value) bool { return g8FieldOf(fStore, isHH)(v) || isQP(v) }
			ls := findRangeLoops(h, isQ)
			deep := false
			if len(ls) == 0 {
				// one more level: does the helper hand the queue on?
				eachInstr(h, func(in2 ssa.Instruction) {
					if h2 := fix5Helper(in2); h2 != nil {
						for _, a := range in2.(*ssa.Call).Call.Args {
							if isQ(a) || isHH(a) {
								deep = true
							}
						}
					}
				})
			}
			if len(ls) > 0 || deep {
				cands = append(cands, cand{call, h, isHH, isQ, ls, deep})
			}
		})
		// keep only candidates that lead to a loop
		var withLoop, onlyDeep []cand
		for _, cd := range cands {
			if len(cd.loops) > 0 {
				withLoop = append(withLoop, cd)
			} else {
				onlyDeep = append(onlyDeep, cd)
			}
		}
		pick := withLoop
		if len(pick) == 0 {
			pick = onlyDeep
		}
		if len(pick) != 1 {
			break
		}
		cd := pick[0]
		if inAnyLoop(naturalLoops(fn), cd.call.Block()) {
			c.Unknown("C32.release", "continueHandshake:release-loop", "the helper holding the release loop is called from inside a loop of "+fnName(fn)+": cannot decide that the queue is released exactly once")
			return
		}
		isCall := func(in ssa.Instruction) bool { return in == ssa.Instruction(cd.call) }
		missedReturns = append(missedReturns, passesSite(fn, start, isCall, isQueue)...)
		if siteTop == nil {
			siteTop = cd.call
		}
		// re-bind the completed tunnel
		tset := map[int]bool{}
		for j, a := range cd.call.Call.Args {
			if tunnelBound && isTunnel(a) {
				tset[j] = true
			}
		}
		tunnelBound = len(tset) > 0
		isTunnel = g8IsParamIn(cd.h, tset)
		c.Funcs[cd.h.String()] = true
		fn, isQueue, isBase, loops, start = cd.h, cd.isQ, cd.isHH, cd.loops, nil
	}
	if len(loops) != 1 {
		// is there a release loop somewhere this rule did not follow to?
		elsewhere := 0
		if len(loops) == 0 {
			for _, f := range c.moduleFuncs() {
				if f != top && len(findRangeLoops(f, func(v ssa.Value) bool { return g8LoadedField(v) == fStore })) > 0 {
					elsewhere++
				}
			}
		}
		if elsewhere > 0 {
			c.Unknown("C32.release", "continueHandshake:release-loop", fmt.Sprintf("no range loop over hh.packetStore in continueHandshake or in a helper it hands the pending handshake to; %d other function(s) of the module loop over a packetStore: the release was moved to a place this rule does not follow", elsewhere))
			return
		}
		c.Check(false, "C32.release", "continueHandshake:release-loop", c.instrPos(comp), "", fmt.Sprintf("expected one index-order range loop over hh.packetStore, found %d: queued packets are not released exactly once in order", len(loops)))
		return
	}
	li := loops[0]
	if siteTop == nil {
		siteTop = li.Header.Instrs[0]
	}
	c.Check(g8Dominates(comp, siteTop), "C32.release", "continueHandshake:release-after-Complete", c.instrPos(siteTop), "the loop runs after Complete", "the queue is released on a path that has not completed the handshake: the tunnel is not yet in the main hostmap and new packets can still be queued behind the loop")
	// every completing path releases (skipped only when the queue is empty)
	missedReturns = append(missedReturns, passesSite(fn, start, func(in ssa.Instruction) bool { return in.Block() == li.Header }, isQueue)...)
	for _, r := range missedReturns {
		c.Bad("C32.release", "continueHandshake:release-on-every-completing-path", c.instrPos(r), "after Complete the function can return without running the release loop although packets are queued: they are never sent")
	}
	if len(missedReturns) == 0 {
		c.OK("C32.release", "continueHandshake:release-on-every-completing-path", "skipped only when the queue is empty")
	}
	// the loop body: one call of the element's own callback per iteration
	var loop *natLoop
	for _, l := range naturalLoops(fn) {
		if l.Header == li.Header {
			loop = l
		}
	}
	if loop == nil {
		c.Unknown("C32.release", "continueHandshake:release-loop", "loop structure not recognised")
		return
	}
	isElem := func(v ssa.Value) bool {
		u, ok := g8Resolve(v).(*ssa.UnOp)
		if !ok || u.Op != token.MUL {
			return false
		}
		ia, ok := u.X.(*ssa.IndexAddr)
		if !ok || !isQueue(ia.X) || !loop.Body[u.Block()] {
			return false
		}
		// indexed by the loop's own index (range index = header phi + 1)
		bo, ok := ia.Index.(*ssa.BinOp)
		if !ok {
			return false
		}
		phi, ok := bo.X.(*ssa.Phi)
		return ok && phi.Block() == li.Header
	}
	fieldOfElem := func(name string) func(ssa.Value) bool {
		return func(v ssa.Value) bool {
			f, base := g8LoadedField(v), g8FieldBase(v)
			if f == nil || base == nil || f.Name() != name {
				return false
			}
			n := recvNamed(base.Type())
			return n != nil && n.Obj() == cp.Obj() && isElem(base)
		}
	}
	var cbs []*ssa.Call
	for b := range loop.Body {
		for _, in := range b.Instrs {
			call, ok := in.(*ssa.Call)
			if !ok || call.Call.IsInvoke() || calleeObj(call) != nil || builtinName(call) != "" {
				continue
			}
			if f := g8LoadedField(call.Call.Value); f != nil && f.Name() == "callback" {
				cbs = append(cbs, call)
			}
		}
	}
	if len(cbs) != 1 {
		c.Check(false, "C32.release", "continueHandshake:release-loop:one-callback-per-element", c.instrPos(li.Header.Instrs[0]), "", fmt.Sprintf("the release loop contains %d callback invocations per iteration, expected exactly one: a queued packet is sent %d times", len(cbs), len(cbs)))
		return
	}
	cb := cbs[0]
	inner := innermostLoop(naturalLoops(fn), cb.Block())
	every := inner != nil && inner.Header == loop.Header
	for _, p := range li.Header.Preds {
		if loop.Body[p] && !cb.Block().Dominates(p) {
			every = false
		}
	}
	c.Check(every, "C32.release", "continueHandshake:release-loop:one-callback-per-element", c.instrPos(cb), "called once in every iteration", "the callback is not invoked exactly once in every iteration of the release loop (conditional or nested): some queued packets are skipped or repeated")
	a := cb.Call.Args
	c.Check(fieldOfElem("callback")(cb.Call.Value), "C32.release", "continueHandshake:release-loop:own-callback", c.instrPos(cb), "the element's own callback", "the callback invoked is not the current element's own: data packets could be released through a sender that skips the firewall")
	okArgs := len(a) >= 4 && fieldOfElem("messageType")(a[0]) && fieldOfElem("messageSubType")(a[1]) && fieldOfElem("packet")(a[3])
	c.Check(okArgs, "C32.release", "continueHandshake:release-loop:own-fields", c.instrPos(cb), "type, subtype and bytes of the current element", "the callback is not given the current element's type, subtype and bytes")
	if !tunnelBound {
		c.Unknown("C32.release", "continueHandshake:release-loop:completed-tunnel", "the helper holding the release loop is not handed the completed tunnel as an argument: cannot tie the tunnel it releases on to the one Complete added")
		return
	}
	c.Check(len(a) >= 3 && isTunnel(a[2]), "C32.release", "continueHandshake:release-loop:completed-tunnel", c.instrPos(cb), "released on the tunnel that was just completed", "the queued packets are released on a different tunnel than the one Complete added")
}

