package main

import (
	"encoding/json"
	"fmt"
	"os"
	"path/filepath"
	"sort"
)

// notApplicable lists the properties not claimed, with the reason (DESIGN.md §5).
var notApplicable = map[string]string{}

func na(id, reason string) { notApplicable[id] = reason }

func writeManifest() {
	var ids []string
	for id := range registry {
		ids = append(ids, id)
	}
	sort.Strings(ids)
	checks := []map[string]any{}
	for _, id := range ids {
		p := registry[id]
		checks = append(checks, map[string]any{
			"property_id":         id,
			"quick_cmd":           fmt.Sprintf("./bin/nebcheck -p %s -tier quick", id),
			"thorough_cmd":        fmt.Sprintf("./bin/nebcheck -p %s -tier thorough", id),
			"replay_cmd_template": fmt.Sprintf("./bin/nebcheck -p %s -replay {path}", id),
			"evidence_file":       fmt.Sprintf("/verif/evidence/%s.json", id),
			"engine":              "nebcheck",
			"technique":           p.Technique,
			"level_claimed": map[string]any{
				"category":   "other",
				"text":       p.LevelText,
				"design_ref": "DESIGN.md §4 " + id,
			},
			"level_note": p.LevelNote,
		})
	}
	var nas []map[string]any
	var naIDs []string
	for id := range notApplicable {
		if registry[id] == nil {
			naIDs = append(naIDs, id)
		}
	}
	sort.Strings(naIDs)
	for _, id := range naIDs {
		nas = append(nas, map[string]any{"property_id": id, "reason": notApplicable[id]})
	}
	m := map[string]any{
		"version":   1,
		"setup_cmd": "cd /verif/nebcheck && env -u GOWORK GOFLAGS=-mod=mod GOPROXY=off GOSUMDB=off GOTOOLCHAIN=local go1.26.8 build -o /verif/bin/nebcheck .",
		"hooks": map[string]any{
			"guard":            "verif",
			"enable":           "none: static analysis reads /repo's working tree through go/packages; no instrumentation is compiled into nebula",
			"baseline_off_cmd": "cd /repo && GOFLAGS=-mod=mod go test -vet=off -count=1 -timeout 25m ./...",
			"source_commits":   []string{},
			"add_only":         true,
		},
		"engines": []map[string]any{{
			"name":              "nebcheck",
			"path":              "/verif/nebcheck",
			"serves_properties": ids,
			"kind_free_text":    "repository-specific static analyser over go/packages + go/types + go/ssa (CFG guard reachability, who-may-write/call tables, lock-state dataflow, provenance slices, table agreement, finite predicate tables); no nebula code is executed",
		}},
		"checks":         checks,
		"not_applicable": nas,
		"notes":          "All claims are level 'other': structural necessary conditions decided on every path of the current source; the behavioural remainder is listed per property in level_note and DESIGN.md. exit 0 = held, exit 1 + VIOLATION line = violated, exit 2 + UNDECIDED line = an anchor no longer resolves / unrecognised shape (never reported as held). Known findings: /verif/known_findings.json.",
	}
	b, _ := json.MarshalIndent(m, "", " ")
	if err := os.WriteFile(filepath.Join(verifDir(), "MANIFEST.json"), append(b, '\n'), 0o644); err != nil {
		fmt.Fprintln(os.Stderr, err)
		os.Exit(1)
	}
	fmt.Printf("MANIFEST.json: %d checks, %d not applicable\n", len(checks), len(nas))
}
