package main

import (
	"fmt"
	"go/token"
	"go/types"
	"strings"

	"golang.org/x/tools/go/ssa"
)

// ---------------------------------------------------------------------------------------
// Control dependence (post-dominators over the CFG with a virtual exit)

// g12ControlDeps returns, for every block b, the branching blocks b is directly control
// dependent on: a has >= 2 successors, b post-dominates one of them and does not strictly
// post-dominate a. ("Whether b runs is decided by a's condition.")
func g12ControlDeps(fn *ssa.Function) map[*ssa.BasicBlock][]*ssa.BasicBlock {
	n := len(fn.Blocks)
	pdom := make([][]bool, n) // pdom[b][x]: x post-dominates b
	for i, b := range fn.Blocks {
		pdom[i] = make([]bool, n)
		if len(b.Succs) == 0 {
			pdom[i][i] = true
			continue
		}
		for j := range pdom[i] {
			pdom[i][j] = true
		}
	}
	for changed := true; changed; {
		changed = false
		for i := n - 1; i >= 0; i-- {
			b := fn.Blocks[i]
			if len(b.Succs) == 0 {
				continue
			}
			for x := 0; x < n; x++ {
				v := x == i
				if !v {
					v = true
					for _, s := range b.Succs {
						if !pdom[s.Index][x] {
							v = false
							break
						}
					}
				}
				if pdom[i][x] != v {
					pdom[i][x] = v
					changed = true
				}
			}
		}
	}
	out := map[*ssa.BasicBlock][]*ssa.BasicBlock{}
	for _, a := range fn.Blocks {
		if len(a.Succs) < 2 {
			continue
		}
		for _, b := range fn.Blocks {
			if b != a && pdom[a.Index][b.Index] {
				continue // b strictly post-dominates a: runs whatever a decides
			}
			for _, s := range a.Succs {
				if pdom[s.Index][b.Index] {
					out[b] = append(out[b], a)
					break
				}
			}
		}
	}
	return out
}

// ---------------------------------------------------------------------------------------
// Influence slice: every value that may influence what a function produces (its results and its
// writes to non-local memory), through data flow AND control flow (the conditions deciding which
// definition / which return is taken). Call arguments are followed (a call's result depends on
// its arguments); callee bodies are not entered: the calls met are listed for the rule to judge.

type g12Infl struct {
	Fn    *ssa.Function
	Vals  map[ssa.Value]bool
	Order []ssa.Value // visit order (deterministic reporting)
	cd    map[*ssa.BasicBlock][]*ssa.BasicBlock
	seenB map[*ssa.BasicBlock]bool
}

// g12StoresTo lists the Store instructions into the local storage addressed by addr (an Alloc or
// a field/element chain rooted at one), any compatible path.
func g12StoresTo(addr ssa.Value) []*ssa.Store {
	root, path := addrRoot(addr)
	al, ok := root.(*ssa.Alloc)
	if !ok {
		return nil
	}
	var out []*ssa.Store
	var scan func(v ssa.Value, p []int)
	scan = func(v ssa.Value, p []int) {
		refs := v.Referrers()
		if refs == nil {
			return
		}
		for _, r := range *refs {
			switch x := r.(type) {
			case *ssa.Store:
				if x.Addr == v && pathCompatible(p, path) {
					out = append(out, x)
				}
			case *ssa.FieldAddr:
				if x.X == v {
					scan(x, append(append([]int{}, p...), x.Field))
				}
			case *ssa.IndexAddr:
				if x.X == v {
					scan(x, append(append([]int{}, p...), -1))
				}
			}
		}
	}
	scan(al, nil)
	return out
}

func (s *g12Infl) ctrl(b *ssa.BasicBlock) {
	for _, a := range s.cd[b] {
		if s.seenB[a] {
			continue
		}
		s.seenB[a] = true
		if ifi, ok := a.Instrs[len(a.Instrs)-1].(*ssa.If); ok {
			s.walk(ifi.Cond)
		}
		s.ctrl(a)
	}
}

func (s *g12Infl) walk(v ssa.Value) {
	if v == nil || s.Vals[v] {
		return
	}
	s.Vals[v] = true
	s.Order = append(s.Order, v)
	switch x := v.(type) {
	case *ssa.Phi:
		for k, e := range x.Edges {
			s.walk(e)
			// which edge is taken is decided by the branches the predecessor depends on, and by the
			// predecessor's own branch when it has several successors
			p := x.Block().Preds[k]
			s.ctrl(p)
			if ifi, ok := p.Instrs[len(p.Instrs)-1].(*ssa.If); ok {
				s.walk(ifi.Cond)
			}
		}
	case *ssa.UnOp:
		s.walk(x.X)
		if x.Op == token.MUL {
			for _, st := range g12StoresTo(x.X) {
				s.walk(st.Val)
				s.ctrl(st.Block())
			}
		}
	case *ssa.Alloc:
		for _, st := range g12StoresTo(x) {
			s.walk(st.Val)
			s.ctrl(st.Block())
		}
	case *ssa.MakeMap:
		s.walk(x.Reserve)
		if refs := x.Referrers(); refs != nil {
			for _, r := range *refs {
				if mu, ok := r.(*ssa.MapUpdate); ok && mu.Map == x {
					s.walk(mu.Key)
					s.walk(mu.Value)
					s.ctrl(mu.Block())
				}
			}
		}
	case *ssa.BinOp:
		s.walk(x.X)
		s.walk(x.Y)
	case *ssa.Convert:
		s.walk(x.X)
	case *ssa.MultiConvert:
		s.walk(x.X)
	case *ssa.ChangeType:
		s.walk(x.X)
	case *ssa.ChangeInterface:
		s.walk(x.X)
	case *ssa.MakeInterface:
		s.walk(x.X)
	case *ssa.SliceToArrayPointer:
		s.walk(x.X)
	case *ssa.Slice:
		s.walk(x.X)
		s.walk(x.Low)
		s.walk(x.High)
		s.walk(x.Max)
	case *ssa.MakeSlice:
		s.walk(x.Len)
		s.walk(x.Cap)
	case *ssa.FieldAddr:
		s.walk(x.X)
	case *ssa.Field:
		s.walk(x.X)
	case *ssa.IndexAddr:
		s.walk(x.X)
		s.walk(x.Index)
	case *ssa.Index:
		s.walk(x.X)
		s.walk(x.Index)
	case *ssa.Lookup:
		s.walk(x.X)
		s.walk(x.Index)
	case *ssa.Extract:
		s.walk(x.Tuple)
	case *ssa.TypeAssert:
		s.walk(x.X)
	case *ssa.Range:
		s.walk(x.X)
	case *ssa.Next:
		s.walk(x.Iter)
	case *ssa.MakeClosure:
		for _, b := range x.Bindings {
			s.walk(b)
		}
	case *ssa.Call:
		if x.Call.IsInvoke() {
			s.walk(x.Call.Value)
		} else if _, isFn := x.Call.Value.(*ssa.Function); !isFn {
			if _, isB := x.Call.Value.(*ssa.Builtin); !isB {
				s.walk(x.Call.Value) // dynamic call through a function value
			}
		}
		for _, a := range x.Call.Args {
			s.walk(a)
		}
	}
}

// g12IsLocalRoot: addr is rooted at a local Alloc / a map made in this function.
func g12IsLocalRoot(v ssa.Value) bool {
	root, _ := addrRoot(v)
	switch root.(type) {
	case *ssa.Alloc, *ssa.MakeMap:
		return true
	}
	return false
}

// g12Influence computes the influence slice of fn's outputs: return values, stores through
// non-local addresses and updates of non-local maps.
func g12Influence(fn *ssa.Function) *g12Infl {
	s := &g12Infl{Fn: fn, Vals: map[ssa.Value]bool{}, cd: g12ControlDeps(fn), seenB: map[*ssa.BasicBlock]bool{}}
	eachInstr(fn, func(in ssa.Instruction) {
		switch x := in.(type) {
		case *ssa.Return:
			for _, r := range x.Results {
				s.walk(r)
			}
			s.ctrl(x.Block())
		case *ssa.Store:
			if !g12IsLocalRoot(x.Addr) {
				s.walk(x.Addr)
				s.walk(x.Val)
				s.ctrl(x.Block())
			}
		case *ssa.MapUpdate:
			if !g12IsLocalRoot(x.Map) {
				s.walk(x.Map)
				s.walk(x.Key)
				s.walk(x.Value)
				s.ctrl(x.Block())
			}
		}
	})
	return s
}

// g12IsMapRange: v is the Next of a range over a map (iteration order unspecified).
func g12IsMapRange(v ssa.Value) bool {
	nx, ok := v.(*ssa.Next)
	if !ok {
		return false
	}
	rg, ok := nx.Iter.(*ssa.Range)
	if !ok {
		return false
	}
	_, isMap := rg.X.Type().Underlying().(*types.Map)
	return isMap
}

// g12NondetCallee: callee whose result differs between two calls with equal arguments (clock,
// random source, atomics / shared counters, scheduler state). Table, one reason per entry.
func g12NondetCallee(o *types.Func) string {
	if o == nil || o.Pkg() == nil {
		return ""
	}
	switch o.Pkg().Path() {
	case "math/rand", "math/rand/v2", "crypto/rand":
		return "random source" // a random pick breaks flow stickiness / list stability
	case "sync/atomic":
		return "shared atomic state" // round-robin counters and the like change between calls
	case "runtime":
		return "scheduler/runtime state" // NumGoroutine, Gosched-dependent values
	case "time":
		switch o.Name() {
		case "Now", "Since", "Until", "After", "Tick", "NewTimer", "NewTicker":
			return "wall clock"
		}
	case "os":
		switch o.Name() {
		case "Getpid", "Getppid", "Hostname":
			return "process identity" // differs between restarts with the same key/topology
		}
	}
	return ""
}

// ---------------------------------------------------------------------------------------
// Loop counters

// g12Counter describes an index value that takes First, First+Step, ... on successive iterations.
type g12Counter struct {
	Phi      *ssa.Phi
	First    ssa.Value // value on the first iteration when it is not a constant offset of a constant
	FirstK   int64     // constant first value (valid when FirstOK)
	FirstOK  bool
	Step     int64
	BoundOp  token.Token // loop continues while idx BoundOp Bound
	Bound    ssa.Value
	HasBound bool
}

// g12CounterOf recognises idx as a loop counter: the header phi {init, phi+step} itself, or
// phi+step (the shape go/ssa gives `range` loops: phi starts at -1 and the body uses phi+1).
func g12CounterOf(idx ssa.Value) (*g12Counter, bool) {
	idx = stripValue(idx)
	var phi *ssa.Phi
	off := int64(0)
	switch x := idx.(type) {
	case *ssa.Phi:
		phi = x
	case *ssa.BinOp:
		p, ok := x.X.(*ssa.Phi)
		k, okk := constInt(x.Y)
		if !ok || !okk || (x.Op != token.ADD && x.Op != token.SUB) {
			return nil, false
		}
		phi = p
		off = k
		if x.Op == token.SUB {
			off = -k
		}
	default:
		return nil, false
	}
	// edges: exactly one initial value (from outside the loop), all others the same phi+step
	var init ssa.Value
	var inc *ssa.BinOp
	for _, e := range phi.Edges {
		if bo, ok := e.(*ssa.BinOp); ok && bo.X == ssa.Value(phi) && (bo.Op == token.ADD || bo.Op == token.SUB) {
			if inc != nil && inc != bo {
				return nil, false
			}
			inc = bo
			continue
		}
		if init != nil && init != e {
			return nil, false
		}
		init = e
	}
	if init == nil || inc == nil {
		return nil, false
	}
	step, ok := constInt(inc.Y)
	if !ok {
		return nil, false
	}
	if inc.Op == token.SUB {
		step = -step
	}
	if bo, isInc := idx.(*ssa.BinOp); isInc && bo != inc {
		return nil, false // phi+k with k not the loop's own increment
	}
	ct := &g12Counter{Phi: phi, Step: step}
	if k, ok := constInt(init); ok {
		ct.FirstK, ct.FirstOK = k+off, true
	} else if off == 0 {
		ct.First = init
	} else {
		return nil, false
	}
	// continuation test: the If ending the phi's block compares idx (or the phi) with a bound
	hb := phi.Block()
	if ifi, ok := hb.Instrs[len(hb.Instrs)-1].(*ssa.If); ok {
		if bo, ok := ifi.Cond.(*ssa.BinOp); ok {
			op := bo.Op
			var other ssa.Value
			if stripValue(bo.X) == idx {
				other = bo.Y
			} else if stripValue(bo.Y) == idx {
				other = bo.X
				op = swapOp(op)
			}
			if other != nil {
				ct.BoundOp, ct.Bound, ct.HasBound = op, other, true
			}
		}
	}
	return ct, true
}

// g12ElemIndex: v (a pointer to / copy of an element) derives from exactly one element access
// coll[idx] with coll satisfying isColl; returns idx.
func g12ElemIndex(v ssa.Value, isColl func(ssa.Value) bool) (ssa.Value, bool) {
	var idxs []ssa.Value
	backSlice(v, SliceOpts{StopAt: func(x ssa.Value) bool {
		switch x.(type) {
		case *ssa.IndexAddr, *ssa.Index, *ssa.Call:
			return true
		}
		return false
	}}, func(x ssa.Value) {
		switch e := x.(type) {
		case *ssa.IndexAddr:
			if isColl(e.X) {
				idxs = append(idxs, e.Index)
			}
		case *ssa.Index:
			if isColl(e.X) {
				idxs = append(idxs, e.Index)
			}
		}
	})
	if len(idxs) != 1 {
		return nil, false
	}
	return idxs[0], true
}

// g12Returns lists the Return instructions of fn in source order of their blocks.
func g12Returns(fn *ssa.Function) []*ssa.Return {
	var out []*ssa.Return
	for _, b := range fn.Blocks {
		if len(b.Instrs) == 0 {
			continue
		}
		if r, ok := b.Instrs[len(b.Instrs)-1].(*ssa.Return); ok {
			out = append(out, r)
		}
	}
	return out
}

// g12ReachFrom: blocks reachable from just after instruction `from` (its own block counts only
// for the instructions after it; the block is included again if a cycle leads back).
func g12ReachFrom(from ssa.Instruction) (after []ssa.Instruction, blocks map[*ssa.BasicBlock]bool) {
	b := from.Block()
	hit := false
	for _, in := range b.Instrs {
		if hit {
			after = append(after, in)
		}
		if in == from {
			hit = true
		}
	}
	blocks = map[*ssa.BasicBlock]bool{}
	work := append([]*ssa.BasicBlock{}, b.Succs...)
	for len(work) > 0 {
		x := work[0]
		work = work[1:]
		if blocks[x] {
			continue
		}
		blocks[x] = true
		work = append(work, x.Succs...)
	}
	return
}

// g12Pow2: v == 2^k.
func g12Pow2(v uint64) (int, bool) {
	if v == 0 || v&(v-1) != 0 {
		return 0, false
	}
	k := 0
	for v > 1 {
		v >>= 1
		k++
	}
	return k, true
}

// ---------------------------------------------------------------------------------------
// Purity closure (K14): starting from roots, every value influencing a function's outputs must
// come from its arguments through pure operations; module callees (and closures made by the
// function) are judged the same way.

// g12PureStd: standard-library calls whose result is a function of their arguments only.
func g12PureStd(o *types.Func) bool {
	if o == nil || o.Pkg() == nil {
		return false
	}
	switch o.Pkg().Path() {
	case "strings", "strconv", "unicode", "unicode/utf8", "bytes", "errors", "cmp", // text / value helpers
		"math", "math/bits", "encoding/binary", // arithmetic, byte order
		"slices", "sort", // deterministic reordering of their argument
		"iter":
		return true
	case "fmt": // formatting of the arguments; the Print family writes but returns counts nobody branches on
		return strings.HasPrefix(o.Name(), "Sprint") || o.Name() == "Errorf" || o.Name() == "Sprint"
	case "path", "path/filepath": // lexical path functions only (Glob/Walk read the file system)
		switch o.Name() {
		case "Join", "Base", "Dir", "Clean", "Ext", "IsAbs":
			return true
		}
	}
	return false
}

type g12PureOpts struct {
	Rule string
	// Env: calls that are inputs of the property by definition (reason returned), not followed.
	Env func(o *types.Func) string
	// OnValue lets the property inspect every influencing value (e.g. a field read set).
	OnValue func(fn *ssa.Function, v ssa.Value)
	// GlobalWriter reports a function writing the global after init ("" = constant table).
	GlobalWriter func(g *ssa.Global) string
}

// g12PureClosure emits one obligation per function reached: discharged when nothing but the
// arguments (and tabled environment inputs) influences its outputs. Returns the functions visited.
func g12PureClosure(c *Ctx, roots []*ssa.Function, o g12PureOpts) map[*ssa.Function]bool {
	seen := map[*ssa.Function]bool{}
	work := append([]*ssa.Function{}, roots...)
	for len(work) > 0 {
		fn := work[0]
		work = work[1:]
		if fn == nil || seen[fn] {
			continue
		}
		seen[fn] = true
		c.Funcs[fn.String()] = true
		infl := g12Influence(fn)
		bad, unk := 0, 0
		cons := fnName(fn)
		var envs []string
		report := func(isBad bool, v ssa.Value, what string) {
			pos := "?"
			if in, ok := v.(ssa.Instruction); ok {
				pos = c.instrPos(in)
			}
			kind := strings.SplitN(what, ":", 2)[0]
			if isBad {
				bad++
				c.Bad(o.Rule, fmt.Sprintf("%s:%s#%d", cons, kind, bad), pos, what+" influences what "+cons+" produces: the same arguments can give different results")
			} else {
				unk++
				c.Unknown(o.Rule, fmt.Sprintf("%s:%s#%d", cons, kind, unk), what+" influences what "+cons+" produces (at "+pos+"): not known to be a pure function of its arguments")
			}
		}
		for _, v := range infl.Order {
			if o.OnValue != nil {
				o.OnValue(fn, v)
			}
			switch x := v.(type) {
			case *ssa.Call:
				if bn := builtinName(x); bn != "" {
					switch bn {
					case "len", "cap", "min", "max", "append", "copy":
					default:
						report(false, x, "builtin "+bn)
					}
					continue
				}
				ob := calleeObj(x)
				if o.Env != nil && ob != nil {
					if why := o.Env(ob); why != "" {
						envs = append(envs, ob.Name())
						continue
					}
				}
				if f := x.Call.StaticCallee(); f != nil && f.Blocks != nil && strings.HasPrefix(pkgPathOf(f), nebulaMod) {
					work = append(work, f) // module callee: judged by its own influence slice
					continue
				}
				if why := g12NondetCallee(ob); why != "" {
					report(true, x, why+": call to "+ob.FullName())
				} else if ob == nil {
					// call through a function value: fine when the value is a closure made here or the
					// result of a pure call (iterator); anything else comes from outside
					okDyn := true
					backSlice(x.Call.Value, sliceLocal, func(y ssa.Value) {
						switch y.(type) {
						case *ssa.Parameter, *ssa.FreeVar, *ssa.Global, *ssa.FieldAddr, *ssa.Field, *ssa.Lookup:
							okDyn = false
						}
					})
					if !okDyn {
						report(false, x, "dynamic call")
					}
				} else if !g12PureStd(ob) {
					report(false, x, "call: "+ob.FullName())
				}
			case *ssa.MakeClosure:
				if f, ok := x.Fn.(*ssa.Function); ok {
					work = append(work, f)
				}
			case *ssa.Next:
				if g12IsMapRange(x) {
					report(true, x, "map iteration order")
				}
			case *ssa.UnOp:
				if x.Op == token.ARROW {
					report(true, x, "channel receive")
				}
			case *ssa.Select:
				report(true, x, "select")
			case *ssa.Convert:
				switch u := x.X.Type().Underlying().(type) {
				case *types.Pointer:
					report(true, x, "pointer identity")
				case *types.Basic:
					if u.Kind() == types.UnsafePointer && !types.Identical(x.Type().Underlying(), u) {
						report(true, x, "pointer identity")
					}
				}
			case *ssa.Global:
				if o.GlobalWriter != nil {
					if w := o.GlobalWriter(x); w != "" {
						report(true, x, "mutable package variable "+x.Name()+": written by "+w)
					}
				}
			case *ssa.FreeVar:
				if fn.Parent() == nil || !seen[fn.Parent()] {
					report(false, x, "closure state")
				}
			}
		}
		// a closure made here also acts through its stores to captured variables: judge it too
		for _, a := range fn.AnonFuncs {
			work = append(work, a)
		}
		if bad == 0 && unk == 0 {
			d := fmt.Sprintf("%d values influence the outputs; all derive from the arguments through pure operations", len(infl.Order))
			if len(envs) > 0 {
				d += " and the tabled inputs " + strings.Join(envs, ",")
			}
			c.OK(o.Rule, cons, d)
		}
	}
	return seen
}

// g12GlobalWriter: name of a module function (other than package initialisation) that stores to
// global g, or "" when g is never written after init.
func g12GlobalWriter(c *Ctx) func(g *ssa.Global) string {
	return func(g *ssa.Global) string {
		w := ""
		for _, fn := range c.moduleFuncs() {
			if fn.Name() == "init" || strings.HasPrefix(fn.Name(), "init#") {
				continue
			}
			eachInstr(fn, func(in ssa.Instruction) {
				if st, ok := in.(*ssa.Store); ok && w == "" {
					if root, _ := addrRoot(st.Addr); root == ssa.Value(g) {
						w = fnName(fn)
					}
				}
			})
		}
		return w
	}
}

// g12LenGuard: a test that decides whether a list (matched by isList) is empty, in any of the
// spellings len==0, len<1, len<=0, len!=0, len>0, len>=1 (either operand order, negations).
// The passing outcome is "empty" when wantEmpty, else "non-empty".
func g12LenGuard(name string, isList func(ssa.Value) bool, wantEmpty bool) Guard {
	isLen := isLenOf(isList)
	return Guard{Name: name, Match: func(cd Cond, _ *ssa.If) (bool, bool) {
		if cd.Kind != CondCmp {
			return false, false
		}
		bo := cd.Base.(*ssa.BinOp)
		op := bo.Op
		var k int64
		var ok bool
		switch {
		case isLen(bo.X):
			k, ok = constInt(bo.Y)
		case isLen(bo.Y):
			k, ok = constInt(bo.X)
			op = swapOp(op)
		}
		if !ok {
			return false, false
		}
		if cd.Neg {
			op = negOp(op)
		}
		// condition (len OP k) true <=> empty ?
		trueMeansEmpty := (op == token.EQL && k == 0) || (op == token.LSS && k == 1) || (op == token.LEQ && k == 0)
		trueMeansNonEmpty := (op == token.NEQ && k == 0) || (op == token.GTR && k == 0) || (op == token.GEQ && k == 1)
		if !trueMeansEmpty && !trueMeansNonEmpty {
			return false, false
		}
		return true, trueMeansEmpty == wantEmpty
	}}
}
