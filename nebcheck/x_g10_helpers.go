package main

import (
	"go/token"
	"go/types"
	"os"
	"sort"
	"strings"

	"golang.org/x/tools/go/ssa"
)

// ---------------------------------------------------------------------------------------
// One-level guard summaries (K1 "guard established in a callee").
//
// A guard family is written as a constructor over a resolver: inside a helper the helper's
// parameters stand for the caller's arguments, so the same value predicates decide both the
// in-line test and the test moved into a helper (`if !pathInside(cleaned, root) { return err }`).

// g10Res maps a value met while matching to the value it stands for in the outer function
// (identity outside a summarised callee; callee parameter -> caller argument inside one).
type g10Res func(ssa.Value) ssa.Value

func g10Ident(v ssa.Value) ssa.Value { return v }

// g10Val resolves v: conversions stripped, callee parameters replaced by caller arguments.
func g10Val(r g10Res, v ssa.Value) ssa.Value { return stripValue(r(stripValue(v))) }

// g10Summ: the guard built by mk, tested in line or inside a module function called with the
// values (one level): a bool helper all of whose `true` (or all of whose `false`) returns are
// behind the guard, or an error (any nil-able result) helper all of whose nil returns are.
func (c *Ctx) g10Summ(name string, mk func(r g10Res) Guard) Guard {
	direct := mk(g10Ident)
	return Guard{Name: name, Match: func(cd Cond, ifi *ssa.If) (bool, bool) {
		if is, p := direct.Match(cd, ifi); is {
			return is, p
		}
		if is, p := c.g10MatchSummary(cd, mk); is {
			return is, p
		}
		// a materialised boolean (`ok := a && g(...)`; `if ok`): a phi every non-false edge of which
		// is the guard's own value with true as the passing outcome
		if phi, isPhi := cd.Base.(*ssa.Phi); isPhi && cd.Kind == CondBool {
			n := 0
			for _, e := range phi.Edges {
				if b, isC := boolConst(e); isC && !b {
					continue
				}
				ecd := normCond(e)
				is, p := direct.Match(ecd, nil)
				if !is {
					is, p = c.g10MatchSummary(ecd, mk)
				}
				if !is || !p {
					return false, false
				}
				n++
			}
			if n > 0 {
				return true, !cd.Neg
			}
		}
		return false, false
	}}
}

func (c *Ctx) g10MatchSummary(cd Cond, mk func(r g10Res) Guard) (bool, bool) {
	if cd.Kind != CondBool && cd.Kind != CondNotNil {
		return false, false
	}
	call, idx := callOf(cd.Base)
	if call == nil || call.Call.IsInvoke() {
		return false, false
	}
	f := call.Call.StaticCallee()
	if f == nil || f.Blocks == nil || !strings.HasPrefix(pkgPathOf(f), nebulaMod) {
		return false, false
	}
	args := call.Call.Args
	r := func(v ssa.Value) ssa.Value {
		if p, ok := v.(*ssa.Parameter); ok && p.Parent() == f {
			for i, fp := range f.Params {
				if fp == p && i < len(args) {
					return args[i]
				}
			}
		}
		return v
	}
	g := mk(r)
	if idx < 0 {
		idx = 0
	}
	if idx >= f.Signature.Results().Len() {
		return false, false
	}
	rt := f.Signature.Results().At(idx).Type()
	switch {
	case cd.Kind == CondBool && g10IsBool(rt):
		if c.g10AllBehind(f, boolReturns(f, idx, true), idx, g, true) {
			return true, !cd.Neg // helper true => guard held
		}
		if c.g10AllBehind(f, boolReturns(f, idx, false), idx, g, false) {
			return true, cd.Neg // helper false => guard held
		}
	case cd.Kind == CondNotNil && g10Nilable(rt):
		if c.g10AllBehind(f, successReturns(f, idx), idx, g, true) {
			return true, cd.Neg // helper err == nil => guard held
		}
	}
	return false, false
}

func g10Nilable(t types.Type) bool {
	switch t.Underlying().(type) {
	case *types.Pointer, *types.Interface:
		return true
	}
	return false
}

func g10IsBool(t types.Type) bool {
	b, ok := t.Underlying().(*types.Basic)
	return ok && b.Kind() == types.Bool
}

// g10AllBehind: every sink of f lies behind a pass edge of g, or returns the guard's own value
// with the polarity that makes "returned want" imply "guard held".
func (c *Ctx) g10AllBehind(f *ssa.Function, sinks []Sink, idx int, g Guard, want bool) bool {
	if len(sinks) == 0 {
		return false
	}
	for _, s := range sinks {
		if v := g10SinkValue(s, idx); v != nil && g10IsBool(v.Type()) {
			if is, passTrue := g.Match(normCond(v), nil); is && passTrue == want {
				continue
			}
		}
		if ok, n, _ := c.mustPass(f, s, g); !ok || n == 0 {
			return false
		}
	}
	return true
}

// g10SinkValue: the value result #idx has at the sink (the phi edge of ViaPred for split sinks).
func g10SinkValue(s Sink, idx int) ssa.Value {
	ret, ok := s.Instr.(*ssa.Return)
	if !ok || idx >= len(ret.Results) {
		return nil
	}
	v := retResult(ret, idx)
	if phi, ok := v.(*ssa.Phi); ok && s.ViaPred != nil && phi.Block() == ret.Block() {
		for k, p := range ret.Block().Preds {
			if p == s.ViaPred {
				return phi.Edges[k]
			}
		}
	}
	return v
}

// g10ValueSinks splits the success returns of fn (error result errIdx may be nil) per incoming
// edge when the value result valIdx is a phi of the return block, so that each sink has one
// definite returned value.
type g10ValSink struct {
	Sink
	Val ssa.Value
}

func g10ValueSinks(fn *ssa.Function, errIdx, valIdx int) []g10ValSink {
	var out []g10ValSink
	for _, s := range successReturns(fn, errIdx) {
		ret := s.Instr.(*ssa.Return)
		v := retResult(ret, valIdx)
		phi, isPhi := v.(*ssa.Phi)
		if !isPhi || phi.Block() != ret.Block() {
			out = append(out, g10ValSink{s, v})
			continue
		}
		for k, p := range ret.Block().Preds {
			if s.ViaPred != nil && s.ViaPred != p {
				continue
			}
			out = append(out, g10ValSink{Sink{Instr: s.Instr, Desc: s.Desc, ViaPred: p}, phi.Edges[k]})
		}
	}
	return out
}

// ---------------------------------------------------------------------------------------
// value predicates used by several g10 properties

func g10IsStringConst(v ssa.Value, want string) bool {
	s, ok := constString(v)
	return ok && s == want
}

// g10CallResult: v is result #idx (-1: the single result) of a call to one of refs; returns the call.
func g10CallResult(v ssa.Value, idx int, refs ...Ref) *ssa.Call {
	call, i := callOf(v)
	if call == nil || !matchAny(calleeObj(call), refs) {
		return nil
	}
	if i != idx && !(idx <= 0 && i <= 0) {
		return nil
	}
	return call
}

// ---------------------------------------------------------------------------------------
// reachability over static callees *and* function values (callbacks stored in tables)

func g10Reach(roots []*ssa.Function, keep func(*ssa.Function) bool) []*ssa.Function {
	seen := map[*ssa.Function]bool{}
	var out []*ssa.Function
	var walk func(f *ssa.Function)
	walk = func(f *ssa.Function) {
		if f == nil || seen[f] || f.Blocks == nil || !keep(f) {
			return
		}
		seen[f] = true
		out = append(out, f)
		for _, a := range f.AnonFuncs {
			walk(a)
		}
		eachInstr(f, func(in ssa.Instruction) {
			var ops []*ssa.Value
			for _, op := range in.Operands(ops) {
				if op == nil || *op == nil {
					continue
				}
				switch x := (*op).(type) {
				case *ssa.Function:
					walk(x)
				case *ssa.MakeClosure:
					if cf, ok := x.Fn.(*ssa.Function); ok {
						walk(cf)
					}
				}
			}
		})
	}
	for _, r := range roots {
		walk(r)
	}
	return out
}

// ---------------------------------------------------------------------------------------
// inter-procedural origin of a value: through phis, local cells, closure captures and parameters
// (every static call site in the module), down to calls / constants / globals.

type g10Tracer struct {
	funcs []*ssa.Function
	sites map[*ssa.Function][]ssa.CallInstruction
}

func (c *Ctx) g10NewTracer() *g10Tracer {
	t := &g10Tracer{funcs: c.moduleFuncs(), sites: map[*ssa.Function][]ssa.CallInstruction{}}
	for _, fn := range t.funcs {
		eachInstr(fn, func(in ssa.Instruction) {
			if ci, ok := in.(ssa.CallInstruction); ok {
				if f := ci.Common().StaticCallee(); f != nil {
					t.sites[f] = append(t.sites[f], ci)
				}
			}
		})
	}
	return t
}

// origins returns the leaf values v can come from. A parameter of a function without static call
// sites (or a depth overrun) is returned as itself.
func (t *g10Tracer) origins(v ssa.Value) []ssa.Value {
	var out []ssa.Value
	seen := map[ssa.Value]bool{}
	var walk func(v ssa.Value, d int)
	walk = func(v ssa.Value, d int) {
		v = stripValue(v)
		if v == nil || seen[v] {
			return
		}
		seen[v] = true
		if d > 8 {
			out = append(out, v)
			return
		}
		switch x := v.(type) {
		case *ssa.Phi:
			for _, e := range x.Edges {
				walk(e, d+1)
			}
		case *ssa.Extract:
			out = append(out, v)
		case *ssa.UnOp:
			if x.Op != token.MUL {
				out = append(out, v)
				return
			}
			switch a := x.X.(type) {
			case *ssa.Alloc:
				for _, s := range storesInto(a) {
					walk(s, d+1)
				}
			case *ssa.FreeVar:
				walk(a, d+1)
			default:
				out = append(out, v)
			}
		case *ssa.Alloc: // the cell captured by a closure: what is stored into it
			st := storesInto(x)
			if len(st) == 0 {
				out = append(out, v)
			}
			for _, s := range st {
				walk(s, d+1)
			}
		case *ssa.FreeVar:
			fn := x.Parent()
			k := -1
			for i, fv := range fn.FreeVars {
				if fv == x {
					k = i
				}
			}
			found := false
			if p := fn.Parent(); p != nil && k >= 0 {
				eachInstr(p, func(in ssa.Instruction) {
					if mc, ok := in.(*ssa.MakeClosure); ok && mc.Fn == fn && k < len(mc.Bindings) {
						found = true
						walk(mc.Bindings[k], d+1)
					}
				})
			}
			if !found {
				out = append(out, v)
			}
		case *ssa.Parameter:
			fn := x.Parent()
			k := -1
			for i, p := range fn.Params {
				if p == x {
					k = i
				}
			}
			sites := t.sites[fn]
			if len(sites) == 0 || k < 0 {
				out = append(out, v)
				return
			}
			for _, ci := range sites {
				if a := ci.Common().Args; k < len(a) {
					walk(a[k], d+1)
				}
			}
		default:
			out = append(out, v)
		}
	}
	walk(v, 0)
	return out
}

// ---------------------------------------------------------------------------------------
// small shared pieces

// g10FilterCanaries keeps the canaries whose name contains one of the comma-separated parts of
// $NEBCHECK_CANARY (all when unset): a
// development aid to re-run one mutant; it never changes a verdict.
func g10FilterCanaries(cs []Canary) []Canary {
	f := os.Getenv("NEBCHECK_CANARY")
	if f == "" {
		return cs
	}
	var out []Canary
	for _, cn := range cs {
		for _, part := range strings.Split(f, ",") {
			if part != "" && strings.Contains(cn.Name, part) {
				out = append(out, cn)
				break
			}
		}
	}
	return out
}

func g10Keys(m map[string]string) []string {
	var out []string
	for k := range m {
		out = append(out, k)
	}
	sort.Strings(out)
	return out
}

// g10MustPassAll: every sink lies behind a pass edge of g. Returns ok, matching tests, witness.
func (c *Ctx) g10MustPassAll(fn *ssa.Function, sinks []Sink, g Guard) (bool, int, []string) {
	n := 0
	for _, s := range sinks {
		ok, k, path := c.mustPass(fn, s, g)
		n = k
		if !ok {
			return false, k, path
		}
	}
	return true, n, nil
}

func g10CallsInBlock(b *ssa.BasicBlock, refs ...Ref) []ssa.CallInstruction {
	var out []ssa.CallInstruction
	for _, in := range b.Instrs {
		if ci, ok := in.(ssa.CallInstruction); ok && matchAny(calleeObj(ci), refs) {
			out = append(out, ci)
		}
	}
	return out
}

// g10AvoidsPath: some entry->to path avoids every block holding an instruction matching cut and
// every edge in edges; returns a printable witness.
func (c *Ctx) g10AvoidsPath(fn *ssa.Function, to ssa.Instruction, cut func(ssa.Instruction) bool, edges map[Edge]bool) (bool, string) {
	blocked := map[Edge]bool{}
	for e := range edges {
		blocked[e] = true
	}
	for _, b := range fn.Blocks {
		for _, in := range b.Instrs {
			if cut(in) {
				for i := range b.Succs {
					blocked[Edge{b, i}] = true
				}
				break
			}
		}
	}
	for _, in := range to.Block().Instrs { // a cut in to's own block, before to
		if in == to {
			break
		}
		if cut(in) {
			return false, ""
		}
	}
	prev := reachable(fn.Blocks[0], blocked)
	if _, ok := prev[to.Block()]; ok && !cut(to) {
		return true, strings.Join(c.blockPath(prev, to.Block()), " -> ")
	}
	return false, ""
}

func g10IsAlloc(v ssa.Value) bool {
	_, ok := v.(*ssa.Alloc)
	return ok
}

// g10Load: a load of a local cell is replaced by the single value stored into it, when there is one.
func g10Load(v ssa.Value) ssa.Value {
	if u, ok := stripValue(v).(*ssa.UnOp); ok && u.Op == token.MUL {
		if st := storesInto(u.X); len(st) == 1 {
			return st[0]
		}
	}
	return v
}

// g10LenGuard: a comparison of len(x) (x matched by isX) with an integer constant, in any of its
// spellings (== 0, < 1, > 0, != 0, >= 1 ...). wantEmpty: the pass edge is the one that implies
// len(x) == 0; otherwise the one that implies len(x) != 0. Decided by evaluating the comparison at
// len = 0, 1 and a large value (the comparators are monotone).
func g10LenGuard(name string, isX func(ssa.Value) bool, wantEmpty bool) Guard {
	return Guard{Name: name, Match: func(cd Cond, _ *ssa.If) (bool, bool) {
		if cd.Kind != CondCmp {
			return false, false
		}
		bo := cd.Base.(*ssa.BinOp)
		op := bo.Op
		var k int64
		if kk, ok := constInt(bo.Y); ok && isLenOf(isX)(bo.X) {
			k = kk
		} else if kk, ok := constInt(bo.X); ok && isLenOf(isX)(bo.Y) {
			k, op = kk, swapOp(op)
		} else {
			return false, false
		}
		if cd.Neg {
			op = negOp(op)
		}
		at := func(n int64) bool {
			switch op {
			case token.EQL:
				return n == k
			case token.NEQ:
				return n != k
			case token.LSS:
				return n < k
			case token.LEQ:
				return n <= k
			case token.GTR:
				return n > k
			}
			return n >= k
		}
		c0, c1, cBig := at(0), at(1), at(1<<40)
		if wantEmpty {
			switch {
			case c0 && !c1 && !cBig:
				return true, true
			case !c0 && c1 && cBig:
				return true, false
			}
			return false, false
		}
		return true, !c0 // the edge on which the comparison differs from its value at len 0
	}}
}

// ---------------------------------------------------------------------------------------
// Path-sensitive exploration of one function over a finite abstract state (K8 with loops).
//
// The state carries the truth value of a few condition bases (boolean phis always; other bases as
// selected by Track) plus sticky event bits. Branches whose condition is known in the state are
// followed on one side only; all others on both sides, the taken outcome being remembered for
// tracked bases. No nebula value is ever formed: the states are (block, truth assignment, bits)
// triples, finitely many, and every reachable one is visited once.

type g10St struct {
	vals  map[ssa.Value]int8 // 1 true / non-nil, 2 false / nil; absent: unknown
	bits  uint32
	trail []int // block indexes from the entry (for witnesses)
}

func (s *g10St) clone() *g10St {
	n := &g10St{vals: make(map[ssa.Value]int8, len(s.vals)), bits: s.bits, trail: append([]int(nil), s.trail...)}
	for k, v := range s.vals {
		n.vals[k] = v
	}
	return n
}

func (s *g10St) set(v ssa.Value, t bool) {
	if t {
		s.vals[v] = 1
	} else {
		s.vals[v] = 2
	}
}

func (s *g10St) key() string {
	var ks []string
	for k, v := range s.vals {
		ks = append(ks, k.Name()+string('0'+rune(v)))
	}
	sort.Strings(ks)
	return strings.Join(ks, ",") + "|" + string(rune('0'+s.bits))
}

func (s *g10St) path() []string {
	var out []string
	for _, b := range s.trail {
		out = append(out, "b"+g10Itoa(b))
	}
	return out
}

func g10Itoa(i int) string {
	if i == 0 {
		return "0"
	}
	var b []byte
	for ; i > 0; i /= 10 {
		b = append([]byte{byte('0' + i%10)}, b...)
	}
	return string(b)
}

type g10Explorer struct {
	Fn *ssa.Function
	// Track: condition bases (besides boolean phis) whose outcome is remembered along the path.
	Track func(base ssa.Value) bool
	// Decide: truth fixed by the scenario for a base (bool value, or non-nil-ness for nil tests,
	// or the outcome of a comparison); known=false: explore both sides.
	Decide func(base ssa.Value, kind CondKind) (val, known bool)
	// OnInstr is called for every non-phi instruction; returning false abandons the path.
	OnInstr func(in ssa.Instruction, st *g10St) bool
	// OnEdge is called when a branch on base is taken with the given truth of the base.
	OnEdge func(base ssa.Value, kind CondKind, truth bool, st *g10St)
	Steps  int
}

func (e *g10Explorer) truth(v ssa.Value, kind CondKind, st *g10St) (bool, bool) {
	if kind == CondBool {
		if b, ok := boolConst(v); ok {
			return b, true
		}
		if u, ok := v.(*ssa.UnOp); ok && u.Op == token.NOT {
			t, k := e.truth(u.X, kind, st)
			return !t, k
		}
	}
	if kind == CondNotNil && isNilConst(v) {
		return false, true
	}
	if t, ok := st.vals[v]; ok {
		return t == 1, true
	}
	if e.Decide != nil {
		return e.Decide(v, kind)
	}
	return false, false
}

// Run explores every reachable abstract state. It returns false when the step budget is exhausted.
func (e *g10Explorer) Run() bool {
	type item struct {
		b, pred *ssa.BasicBlock
		st      *g10St
	}
	seen := map[string]bool{}
	work := []item{{e.Fn.Blocks[0], nil, &g10St{vals: map[ssa.Value]int8{}}}}
	budget := 200000
	for len(work) > 0 {
		it := work[len(work)-1]
		work = work[:len(work)-1]
		if budget--; budget < 0 {
			return false
		}
		e.Steps++
		b, st := it.b, it.st
		// phis, simultaneously, from the state before the block
		if it.pred != nil {
			idx := -1
			for i, p := range b.Preds {
				if p == it.pred {
					idx = i
				}
			}
			// a tracked value of unknown truth flowing into a boolean phi: decide it both ways first
			if idx >= 0 && e.Track != nil {
				forked := false
				for _, in := range b.Instrs {
					phi, ok := in.(*ssa.Phi)
					if !ok {
						break
					}
					op := phi.Edges[idx]
					if _, known := e.truth(op, CondBool, st); g10IsBool(phi.Type()) && !known && e.Track(op) {
						for _, outcome := range []bool{true, false} {
							ns := st.clone()
							ns.set(op, outcome)
							if e.OnEdge != nil {
								e.OnEdge(op, CondBool, outcome, ns)
							}
							work = append(work, item{b, it.pred, ns})
						}
						forked = true
						break
					}
				}
				if forked {
					continue
				}
			}
			upd := map[ssa.Value]int8{}
			for _, in := range b.Instrs {
				phi, ok := in.(*ssa.Phi)
				if !ok {
					break
				}
				if !g10IsBool(phi.Type()) || idx < 0 {
					continue
				}
				if t, known := e.truth(phi.Edges[idx], CondBool, st); known {
					upd[phi] = map[bool]int8{true: 1, false: 2}[t]
				} else {
					upd[phi] = 0
				}
			}
			for k, v := range upd {
				if v == 0 {
					delete(st.vals, k)
				} else {
					st.vals[k] = v
				}
			}
		}
		k := g10Itoa(b.Index) + "/" + st.key()
		if seen[k] {
			continue
		}
		seen[k] = true
		st.trail = append(st.trail, b.Index)
		alive := true
		for _, in := range b.Instrs {
			if _, isPhi := in.(*ssa.Phi); isPhi {
				continue
			}
			if e.OnInstr != nil && !e.OnInstr(in, st) {
				alive = false
				break
			}
		}
		if !alive || len(b.Instrs) == 0 {
			continue
		}
		switch x := b.Instrs[len(b.Instrs)-1].(type) {
		case *ssa.Jump:
			work = append(work, item{b.Succs[0], b, st})
		case *ssa.If:
			cd := normCond(x.Cond)
			t, known := e.truth(cd.Base, cd.Kind, st)
			for _, outcome := range []bool{true, false} { // outcome of the base
				if known && outcome != t {
					continue
				}
				ns := st.clone()
				_, isPhi := cd.Base.(*ssa.Phi)
				if isPhi || (e.Track != nil && e.Track(cd.Base)) {
					ns.set(cd.Base, outcome)
				}
				if e.OnEdge != nil {
					e.OnEdge(cd.Base, cd.Kind, outcome, ns)
				}
				succ := 0
				if outcome == cd.Neg { // condition value = outcome xor Neg; true -> Succs[0]
					succ = 1
				}
				work = append(work, item{b.Succs[succ], b, ns})
			}
		}
	}
	return true
}
