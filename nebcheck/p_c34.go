package main

import (
	"fmt"
	"go/types"
	"sort"
	"strings"

	"golang.org/x/tools/go/ssa"
)

func init() {
	register(&Property{
		ID: "C34", Title: "The packet engine is free of data races and deadlocks",
		Patterns:  []string{"./..."},
		Technique: "lock-order graph between mutex classes over the whole module (intra-procedural may-held lock state x transitive acquire sets of callees, interface calls resolved by VTA) with cycle detection; guarded-by tables checked by must-held lock-state dataflow (write mode for mutations, the unlocked* naming contract propagated to callers); immutability of *Relay values; no blocking channel operation under the hostmap / handshake-manager locks",
		LevelText: "Structural necessary conditions decided on all paths: the order in which the engine's mutex classes are acquired is acyclic (no lock-order inversion between HostMap, HandshakeManager, HandshakeHostInfo, RelayState, RemoteList, LightHouse, ConnectionState.writeLock, the connection manager's relay lock, conntrack, dns, Control) so no set of goroutines can deadlock on them; every access to the tabled shared maps and slices (hostmap indexes, pending-handshake indexes, relay state, lighthouse address map, remote-list internals, conntrack table, relay-in-use set, dns records) happens with its mutex held, in write mode for mutations; *Relay values are never modified after publication (the code's stated copy-on-write rule); no blocking channel send/receive happens while the hostmap or handshake-manager lock is held.",
		LevelNote: "Not decided: races on plain fields outside the tables (e.g. Interface.firewall pointer swap, HostInfo.lastRoam, HostInfo.remote), memory-model subtleties of atomics, instance-level aliasing (lock classes are per type and field: two RemoteList or HostInfo instances are one class; self-edges are not reported), calls through function values that are not resolvable in the calling function (callbacks are treated as opaque), liveness other than lock-order deadlock. A full race verdict needs the race detector under load - a different technique family.",
		Explanation: "K17 lock-order graph + cycles, K3 guarded-by tables via LockDiscipline, K2 immutability of Relay, K17 blocking-under-lock",
		Run:       runC34,
		Canaries: func(c *Ctx) []Canary {
			return []Canary{
				{Name: "lock-order-inversion-hm-hostmap", File: "handshake_manager.go", Old: "\thm.vpnIps[vpnAddr] = hh\n\thm.metricInitiated.Inc(1)\n", New: "\thm.vpnIps[vpnAddr] = hh\n\tif hm.mainHostMap.QueryVpnAddr(vpnAddr) != nil {\n\t\thm.metricInitiated.Inc(1)\n\t}\n\thm.metricInitiated.Inc(1)\n", Rule: "C34.lock-order"},
				{Name: "pending-index-read-unlocked", File: "handshake_manager.go", Old: "func (hm *HandshakeManager) queryIndex(index uint32) *HandshakeHostInfo {\n\thm.RLock()\n\tdefer hm.RUnlock()\n", New: "func (hm *HandshakeManager) queryIndex(index uint32) *HandshakeHostInfo {\n", Rule: "C34.guarded"},
				{Name: "relays-read-without-list-lock", File: "relay_manager.go", Old: "\trelays := hostinfo.remotes.CopyRelays()\n", New: "\trelays := hostinfo.remotes.relays\n", Rule: "C34.guarded"},
				{Name: "relay-mutated-in-place", File: "hostmap.go", Old: "func (rs *RelayState) CompleteRelayByIdx(", New: "func (rs *RelayState) markEstablishedInPlace(idx uint32) {\n\trs.RLock()\n\tdefer rs.RUnlock()\n\tif r, ok := rs.relayForByIdx[idx]; ok {\n\t\tr.State = Established\n\t}\n}\n\nfunc (rs *RelayState) CompleteRelayByIdx(", Rule: "C34.relay-immutable"},
				{Name: "relay-state-write-under-read-lock", File: "hostmap.go", Old: "func (rs *RelayState) DeleteRelay(ip netip.Addr) {\n\trs.Lock()\n\tdefer rs.Unlock()", New: "func (rs *RelayState) DeleteRelay(ip netip.Addr) {\n\trs.RLock()\n\tdefer rs.RUnlock()", Rule: "C34.guarded"},
				{Name: "relay-used-read-unlocked", File: "connection_manager.go", Old: "\tcm.relayUsedLock.RLock()\n\t// If this already exists, return\n\tif _, ok := cm.relayUsed[localIndex]; ok {\n\t\tcm.relayUsedLock.RUnlock()\n\t\treturn\n\t}\n\tcm.relayUsedLock.RUnlock()\n", New: "\t// If this already exists, return\n\tif _, ok := cm.relayUsed[localIndex]; ok {\n\t\treturn\n\t}\n", Rule: "C34.guarded"},
				{Name: "blocking-send-under-hm-lock", File: "handshake_manager.go", Old: "\tif doTrigger {\n\t\tselect {\n\t\tcase hm.trigger <- vpnAddr:\n\t\tdefault:\n\t\t}\n\t}\n\n\thm.Unlock()", New: "\tif doTrigger {\n\t\thm.trigger <- vpnAddr\n\t}\n\n\thm.Unlock()", Rule: "C34.blocking-under-lock"},
			}
		},
	})
}

func runC34(c *Ctx) {
	c.Rule("C34.lock-order", "K17: the acquisition-order graph between mutex classes (held set at every Lock/RLock and at every call x classes the callee may acquire) has no cycle", 1)
	c.Rule("C34.guarded", "K3: every access to a tabled shared field holds its mutex (write mode for mutations); functions named unlocked* require the lock on entry and pass the requirement to their callers", 60)
	c.Rule("C34.relay-immutable", "K2: no store to a field of a *Relay except on a value allocated in the same function (copy-on-write, as the RelayState comment requires)", 1)
	c.Rule("C34.blocking-under-lock", "K17: no blocking channel send / receive / select without default while the HostMap or HandshakeManager lock may be held", 1)

	funcs := c49Scope(c)

	// ---- lock order
	lo := c.newLockOrder(funcs)
	cycles := lo.Cycles()
	var edges []string
	for e := range lo.Edges {
		edges = append(edges, string(e.From)+" -> "+string(e.To))
	}
	sort.Strings(edges)
	c.Note("lock-order graph: %d edges between mutex classes: %s", len(edges), strings.Join(edges, "; "))
	if len(edges) < 15 {
		c.Unknown("C34.lock-order", "graph", fmt.Sprintf("only %d acquisition edges found (30+ confirmed by reading): the analysis no longer sees the engine's locks", len(edges)))
	}
	if len(cycles) == 0 {
		c.OK("C34.lock-order", "acyclic", fmt.Sprintf("%d edges, no cycle", len(edges)))
	}
	for _, cy := range cycles {
		var desc []string
		for i := range cy {
			from, to := cy[i], cy[(i+1)%len(cy)]
			desc = append(desc, fmt.Sprintf("%s -> %s in %s", from, to, lo.Edges[lockEdge{from, to}]))
		}
		names := make([]string, len(cy))
		for i, k := range cy {
			names[i] = string(k)
		}
		sort.Strings(names)
		c.Bad("C34.lock-order", "cycle:"+strings.Join(names, ","), "", "lock-order inversion (potential deadlock): "+strings.Join(desc, " ; "))
	}

	// ---- guarded-by tables
	tables := []*LockDiscipline{
		hostMapDiscipline("C34.guarded"),
		{Rule: "C34.guarded", Owner: "HandshakeManager", Key: "HandshakeManager.RWMutex", Fields: []string{"vpnIps", "indexes"}, Prefix: "unlocked",
			Exempt: map[string]string{"nebula.NewHandshakeManager": "constructor"}},
		{Rule: "C34.guarded", Owner: "RelayState", Key: "RelayState.RWMutex", Fields: []string{"relays", "relayForByAddr", "relayForByIdx"}},
		{Rule: "C34.guarded", Owner: "LightHouse", Key: "LightHouse.RWMutex", Fields: []string{"addrMap"}, Prefix: "unlocked",
			Exempt: map[string]string{"nebula.NewLightHouseFromConfig": "constructor: not yet shared"}},
		{Rule: "C34.guarded", Owner: "RemoteList", Key: "RemoteList.RWMutex", Fields: []string{"addrs", "relays", "cache", "badRemotes", "shouldRebuild", "vpnAddrs"}, Prefix: "unlocked",
			Exempt: map[string]string{"nebula.NewRemoteList": "constructor: not yet shared"}},
		{Rule: "C34.guarded", Owner: "FirewallConntrack", Key: "FirewallConntrack.Mutex", Fields: []string{"Conns"},
			Extra: map[string]int{"(*nebula.Firewall).evict": lkW}, // contract comment: "evict assumes the conntrack lock is held"
			Exempt: map[string]string{"nebula.newFirewall": "constructor", "nebula.NewFirewall": "constructor"}},
		{Rule: "C34.guarded", Owner: "connectionManager", Key: "connectionManager.relayUsedLock", Fields: []string{"relayUsed"},
			Exempt: map[string]string{"nebula.newConnectionManagerFromConfig": "constructor", "nebula.newConnectionManager": "constructor"}},
		{Rule: "C34.guarded", Owner: "dnsServer", Key: "dnsServer.RWMutex", Fields: []string{"dnsMap4", "dnsMap6"},
			Exempt: map[string]string{"nebula.newDnsServerFromConfig": "constructor", "nebula.newDnsRecords": "constructor"}},
	}
	for _, ld := range tables {
		ld.run(c)
	}

	// ---- Relay immutability
	if relay := c.NamedType("", "Relay"); relay != nil {
		n, bad := 0, 0
		for _, f := range funcs {
			eachInstr(f, func(in ssa.Instruction) {
				st, ok := in.(*ssa.Store)
				if !ok {
					return
				}
				fa, ok := st.Addr.(*ssa.FieldAddr)
				if !ok {
					return
				}
				nt := recvNamed(fa.X.Type())
				if nt == nil || nt.Obj() != relay.Obj() {
					return
				}
				n++
				if isFreshAllocDeep(fa.X) {
					return
				}
				bad++
				c.Bad("C34.relay-immutable", fmt.Sprintf("%s:Relay.%s#%d", fnName(f), fieldOfAddr(fa).Name(), bad), c.instrPos(in), "a *Relay that may already be published in a RelayState map is modified in place: readers holding the pointer (taken under RLock, used after) race with this write")
			})
		}
		if bad == 0 {
			c.OK("C34.relay-immutable", "Relay", fmt.Sprintf("%d field stores, all into values allocated in the storing function", n))
		}
	}

	// ---- blocking channel operations under the big locks
	{
		watched := map[lockKey]bool{"HostMap.RWMutex": true, "HandshakeManager.RWMutex": true}
		n, bad := 0, 0
		for _, f := range funcs {
			hasLock := false
			eachInstr(f, func(in ssa.Instruction) {
				if ci, ok := in.(ssa.CallInstruction); ok {
					if k, _, ok := lockOpOf(ci); ok && watched[k] {
						hasLock = true
					}
				}
			})
			if !hasLock {
				continue
			}
			lf := lockFlow(f, nil, nil)
			eachInstr(f, func(in ssa.Instruction) {
				k := blockingKind(in)
				if k != "send" && k != "recv" && k != "select" && k != "range-chan" {
					return
				}
				n++
				for w := range watched {
					if m, live := lf.mayAt(in, w); live && m != lkNone {
						bad++
						c.Bad("C34.blocking-under-lock", fmt.Sprintf("%s:%s#%d", fnName(f), k, bad), c.instrPos(in), fmt.Sprintf("a blocking channel %s is executed while %s may be held: every packet path needing that lock stalls behind the channel peer", k, w))
					}
				}
			})
		}
		if bad == 0 {
			c.OK("C34.blocking-under-lock", "HostMap/HandshakeManager", fmt.Sprintf("%d blocking channel operations in functions taking those locks, none under them", n))
		}
	}
	_ = types.Typ
}
