package main

import (
	"fmt"
	"go/token"
	"go/types"
	"strings"

	"golang.org/x/tools/go/ssa"
)

func init() {
	register(&Property{
		ID: "C40", Title: "Multipath routing is deterministic and weight-proportional",
		Patterns:    []string{"."},
		Technique:   "influence slice (data + control dependence) of BalancePacket / hashPacket / CalculateBucketsForGateways for determinism and the packet-field read set; loop-counter and element-index agreement of the bucket scan; bit provenance of the hash range against the fixed-point scale of the bucket bounds; provenance of the bound formula (running sum including the own weight, normalised by the completed total); unsigned-wrap obligation on the scaling; who-may-write the bucket fields; must-calculate-before-insert on every route-table insertion; guard reachability of the fallback gateways in getOrHandshakeConsiderRouting",
		LevelText:   "Structural necessary conditions on every path: the gateway choice is a function of the flow-identity fields of the packet and of the gateway list only (no other packet field, no clock/random/shared counter/map order/global state, through data or control flow); the scan walks the whole list in ascending order and returns the first gateway whose bound admits the hash, the address returned being that of the element tested; bounds are written in the same ascending order, each from the running weight sum including its own gateway, normalised by the total over the whole list computed beforehand, scaled by 2^S with S equal to the number of hash bits, with an offset that leaves no hash value above the last bound; the scaling cannot wrap; only CalculateBucketsForGateways writes bounds and only the constructor writes weights; every gateway list inserted into a route table had its buckets calculated; the caller uses the balanced gateway first and any other only after the balanced one was not ready.",
		LevelNote:   "Not decided: the numeric quality of the hash (uniformity), exact rounding of each share, stability of the gateway list between packets (route reload / system route updates replace lists), the treatment of IP fragments (their ports are zeroed before the hash by the firewall packet parser), 32-bit `int` platforms (weight sums >= 2^31 wrap there; only linux/amd64 is analysed). Trusts go/types and go/ssa.",
		Explanation: "K14 determinism + K6-dual read set via influence slices, K8/K11 scan shape, K9 hash width vs K7 scale constant, K11 formula provenance, K13 wrap obligation, K2 writers, K1 calculate-before-insert closed over callee returns and map-held lists, K1 fallback only after not-ready",
		Run:         runC40,
		Canaries: func(c *Ctx) []Canary {
			return []Canary{
				{Name: "scan-strict-less", File: "routing/balance.go", Old: "if hash <= gateways[i].BucketUpperBound() {", New: "if hash < gateways[i].BucketUpperBound() {", Rule: "C40.scan"},
				{Name: "scan-descending", File: "routing/balance.go", Old: "\tfor i := range gateways {\n", New: "\tfor i := len(gateways) - 1; i >= 0; i-- {\n", Rule: "C40.scan"},
				{Name: "scan-returns-next-gateway", File: "routing/balance.go", Old: "\t\t\treturn gateways[i].Addr(), true", New: "\t\t\treturn gateways[(i+1)%len(gateways)].Addr(), true", Rule: "C40.scan"},
				{Name: "hash-depends-on-fragment-flag", File: "routing/balance.go", Old: "\tx ^= x >> 16\n", New: "\tif p.Fragment {\n\t\tx++\n\t}\n\tx ^= x >> 16\n", Rule: "C40.flow-key"},
				{Name: "balance-reads-fragment-flag", File: "routing/balance.go", Old: "\thash := hashPacket(fwPacket)\n", New: "\thash := hashPacket(fwPacket)\n\tif fwPacket.Fragment {\n\t\thash = 0\n\t}\n", Rule: "C40.flow-key"},
				{Name: "hash-perturbed-by-map-order", File: "routing/balance.go", Old: "\tx ^= x >> 16\n", New: "\tfor k := range map[uint32]bool{1: true, 2: true} {\n\t\tx += k\n\t\tbreak\n\t}\n\tx ^= x >> 16\n", Rule: "C40.deterministic"},
				{Name: "hash-32-bits", File: "routing/balance.go", Old: "return int(x) & 0x7FFFFFFF", New: "return int(x) & 0xFFFFFFFF", Rule: "C40.space"},
				{Name: "scale-32-bits", File: "routing/gateway.go", Old: "hi, lo := bits.Mul64(w, 1<<31)", New: "hi, lo := bits.Mul64(w, 1<<32)", Rule: "C40.space"},
				{Name: "bound-offset-minus-two", File: "routing/gateway.go", Old: "uint64(totalWeight))) - 1", New: "uint64(totalWeight))) - 2", Rule: "C40.space"},
				{Name: "bound-before-own-weight", File: "routing/gateway.go", Old: "\t\tloopWeight += gateways[i].weight\n\t\tgateways[i].bucketUpperBound = int(scaleAndRound(uint64(loopWeight), uint64(totalWeight))) - 1\n", New: "\t\tgateways[i].bucketUpperBound = int(scaleAndRound(uint64(loopWeight), uint64(totalWeight))) - 1\n\t\tloopWeight += gateways[i].weight\n", Rule: "C40.buckets"},
				{Name: "normalised-by-running-sum", File: "routing/gateway.go", Old: "scaleAndRound(uint64(loopWeight), uint64(totalWeight))", New: "scaleAndRound(uint64(loopWeight), uint64(loopWeight))", Rule: "C40.buckets"},
				{Name: "second-weight-writer", File: "routing/gateway.go", Old: "func (g *Gateway) Addr() netip.Addr {", New: "func (g *Gateway) SetWeight(w int) { g.weight = w }\n\nfunc (g *Gateway) Addr() netip.Addr {", Rule: "C40.bucket-writers"},
				{Name: "route-tree-without-buckets", File: "overlay/route.go", Old: "\t\t\trouting.CalculateBucketsForGateways(gateways)\n", New: "", Rule: "C40.calc-before-insert"},
				{Name: "system-route-without-buckets", File: "overlay/tun_linux.go", Old: "\trouting.CalculateBucketsForGateways(gateways)\n\treturn gateways\n", New: "\treturn gateways\n", Rule: "C40.calc-before-insert"},
				{Name: "balanced-gateway-not-preferred", File: "inside.go", Old: "\t\tif hostinfo, ready = f.handshakeManager.GetOrHandshake(gatewayAddr, hhReceiver); ready {\n\t\t\treturn hostinfo, true\n\t\t}\n", New: "\t\thostinfo, ready = f.handshakeManager.GetOrHandshake(gatewayAddr, hhReceiver)\n", Rule: "C40.sticky"},
				{Name: "first-gateway-instead-of-balanced", File: "inside.go", Old: "f.handshakeManager.GetOrHandshake(gatewayAddr, hhReceiver); ready {", New: "f.handshakeManager.GetOrHandshake(gateways[0].Addr(), hhReceiver); ready {", Rule: "C40.sticky"},
			}
		},
	})
}

// c40FlowKey: fields of firewall.Packet the gateway choice may depend on. Every packet of a flow
// carries the same value in these; any other field (today: Fragment) differs between packets of
// one flow, so a choice that reads it splits the flow across gateways.
var c40FlowKey = map[string]string{
	"LocalPort":  "half of the port pair the property quantifies over",
	"RemotePort": "half of the port pair the property quantifies over",
	"LocalAddr":  "flow identity: constant for all packets of a flow",
	"RemoteAddr": "flow identity: constant for all packets of a flow",
	"Protocol":   "flow identity: constant for all packets of a flow",
}

func runC40(c *Ctx) {
	c.Rule("C40.flow-key", "K6-dual: the only firewall.Packet fields that influence (data or control) the choice are flow-identity fields (table c40FlowKey)", 2)
	c.Rule("C40.deterministic", "K14: nothing but the arguments influences BalancePacket's result / the bounds written by CalculateBucketsForGateways: no clock, random source, atomic/shared counter, map iteration order, channel, pointer identity or mutable package variable, transitively through module callees", 3)
	c.Rule("C40.scan", "K8/K11: success returns of BalancePacket pass `hash <= bound(gateways[i])` (strict `<` only if bounds are exclusive), return the address of that same element, and i counts 0,1,.. over the whole list", 3)
	c.Rule("C40.buckets", "K11: each bound is stored at gateways[i] for i = 0,1,.. over the whole list, from a running sum that already includes gateways[i].weight, normalised by the total of all weights completed in an earlier loop", 4)
	c.Rule("C40.space", "K9/K7: hashPacket's result has exactly S significant bits (sign and higher bits zero) where 2^S is the scale of the bounds; the bound's constant offset leaves no hash value above the last bound", 2)
	c.Rule("C40.no-wrap", "K13: the fixed-point scaling of the weight sum cannot wrap its integer type for any accepted gateway list (128-bit multiply, or a dominating bound on the sum)", 1)
	c.Rule("C40.bucket-writers", "K2: bucketUpperBound is written only by the constructor (sentinel) and CalculateBucketsForGateways; weight only by the constructor", 3)
	c.Rule("C40.calc-before-insert", "K1: every routing.Gateways value inserted into a route table passed CalculateBucketsForGateways on every path (directly, in the callee that returned it, or before it was stored in the map it is read from)", 3)
	c.Rule("C40.sticky", "K1/K11: getOrHandshakeConsiderRouting balances the packet it routes over the gateways of that packet's destination, hands the balanced address to the first handshake attempt and reaches any other gateway only after that attempt was not ready", 3)

	hash := c.Func(Ref{"routing", "", "hashPacket"})
	bal := c.Func(Ref{"routing", "", "BalancePacket"})
	calc := c.Func(Ref{"routing", "", "CalculateBucketsForGateways"})
	pkt := c.NamedType("firewall", "Packet")
	gwT := c.NamedType("routing", "Gateway")
	fBound := c.Field("routing", "Gateway", "bucketUpperBound")
	fWeight := c.Field("routing", "Gateway", "weight")
	if hash == nil || bal == nil || calc == nil || pkt == nil || gwT == nil || fBound == nil || fWeight == nil {
		return
	}
	c40Determinism(c, []*ssa.Function{bal, calc, hash}, pkt)
	inclusiveOff, scale, okCalc := c40Buckets(c, calc, gwT, fBound, fWeight)
	c40Scan(c, bal, hash, gwT, fBound, inclusiveOff, okCalc)
	c40Space(c, hash, calc, scale, inclusiveOff, okCalc)
	c40Writers(c, calc, fBound, fWeight)
	c40CalcBeforeInsert(c, calc)
	c40Sticky(c, bal, pkt)
}

// ---------------------------------------------------------------------------------------
// determinism and packet read set

func c40Determinism(c *Ctx, roots []*ssa.Function, pkt *types.Named) {
	isPkt := func(t types.Type) bool { n := recvNamed(t); return n != nil && n.Obj() == pkt.Obj() }
	g12PureClosure(c, roots, g12PureOpts{Rule: "C40.deterministic", GlobalWriter: g12GlobalWriter(c),
		OnValue: func(fn *ssa.Function, v ssa.Value) {
			switch x := v.(type) {
			case *ssa.FieldAddr:
				if isPkt(x.X.Type()) {
					c40PktField(c, fn, x, fieldOfAddr(x).Name())
				}
			case *ssa.Field:
				if isPkt(x.X.Type()) {
					c40PktField(c, fn, x, fieldOfVal(x).Name())
				}
			}
		}})
}

func c40PktField(c *Ctx, fn *ssa.Function, at ssa.Instruction, field string) {
	cons := fnName(fn) + ":Packet." + field
	if why, ok := c40FlowKey[field]; ok {
		c.OK("C40.flow-key", cons, why)
	} else {
		c.Bad("C40.flow-key", cons, c.instrPos(at), "the gateway choice depends on Packet."+field+", which is not part of the flow identity: packets of one flow that differ only in this field can be sent to different gateways")
	}
}

// ---------------------------------------------------------------------------------------
// shared matchers

// c40GwParam: the parameter of fn holding the gateway list ([]routing.Gateway / routing.Gateways).
func c40GwParam(fn *ssa.Function, gwT *types.Named) *ssa.Parameter {
	for _, p := range fn.Params {
		if s, ok := p.Type().Underlying().(*types.Slice); ok {
			if n := recvNamed(s.Elem()); n != nil && n.Obj() == gwT.Obj() {
				return p
			}
		}
	}
	return nil
}

// c40WholeAscending: idx counts 0,1,2,.. while idx < len(coll).
func c40WholeAscending(idx ssa.Value, coll ssa.Value) (ok bool, recognised bool, why string) {
	ct, isCt := g12CounterOf(idx)
	if !isCt {
		return false, false, "index is not a recognised loop counter"
	}
	if ct.Step != 1 {
		return false, true, fmt.Sprintf("the loop steps by %+d (expected +1 from 0: first match in list order)", ct.Step)
	}
	if !ct.FirstOK || !ct.HasBound {
		return false, false, "loop counter with non-constant start or unrecognised continuation test"
	}
	if ct.FirstK != 0 {
		return false, true, fmt.Sprintf("the loop starts at %d (expected 0: the whole list)", ct.FirstK)
	}
	if ct.BoundOp != token.LSS || !isLenOf(func(v ssa.Value) bool { return stripValue(v) == coll })(ct.Bound) {
		return false, true, "the loop does not run while index < len(gateways): part of the list is not visited"
	}
	return true, true, ""
}

// c40FieldOfElem: v is gateways[i].<f> read directly or through a one-line accessor method that
// returns the field; returns the receiver/element address.
func c40FieldOfElem(c *Ctx, v ssa.Value, f *types.Var) (ssa.Value, bool) {
	v = stripValue(v)
	if call, ok := v.(*ssa.Call); ok {
		callee := call.Call.StaticCallee()
		if callee == nil || callee.Blocks == nil || len(call.Call.Args) != 1 {
			return nil, false
		}
		rets := g12Returns(callee)
		if len(rets) != 1 || len(rets[0].Results) != 1 || !loadsField(rets[0].Results[0], f) {
			return nil, false
		}
		// the accessor must read the field of its own receiver
		u := stripValue(rets[0].Results[0])
		if uo, ok := u.(*ssa.UnOp); ok {
			if fa, ok := uo.X.(*ssa.FieldAddr); ok && fa.X == ssa.Value(callee.Params[0]) {
				return call.Call.Args[0], true
			}
		}
		return nil, false
	}
	if u, ok := v.(*ssa.UnOp); ok && u.Op == token.MUL {
		if fa, ok := u.X.(*ssa.FieldAddr); ok && fieldOfAddr(fa) == f {
			return fa.X, true
		}
	}
	return nil, false
}

// ---------------------------------------------------------------------------------------
// CalculateBucketsForGateways: formula provenance. Returns the constant offset of the bound
// (-1 = inclusive upper bound), the scale exponent S and whether both were recognised.

type c40Scale struct {
	S     int
	Instr ssa.Instruction // the shift / multiply / bits.Mul64 call
	Wide  bool            // done in 128 bits (math/bits.Mul64)
	Width int             // width of the integer type it is done in
	Opnd  []ssa.Value     // the scaled operand, as value(s) of the function the search started in
	Fn    *ssa.Function
}

// c40FindScales lists the "multiply by 2^k" operations in the backward slice of v (call arguments
// followed; module callees entered one level through their returned values).
func c40FindScales(fn *ssa.Function, v ssa.Value, depth int) []c40Scale {
	var out []c40Scale
	backSlice(v, sliceThrough, func(x ssa.Value) {
		switch e := x.(type) {
		case *ssa.BinOp:
			w, _ := intWidth(e.Type())
			switch e.Op {
			case token.SHL:
				if k, ok := constUint(e.Y); ok && k > 0 {
					out = append(out, c40Scale{S: int(k), Instr: e, Width: w, Opnd: []ssa.Value{e.X}, Fn: fn})
				}
			case token.MUL:
				for i, side := range []ssa.Value{e.X, e.Y} {
					if k, ok := constUint(side); ok {
						if s, p2 := g12Pow2(k); p2 && s > 0 {
							out = append(out, c40Scale{S: s, Instr: e, Width: w, Opnd: []ssa.Value{[]ssa.Value{e.Y, e.X}[i]}, Fn: fn})
						}
					}
				}
			}
		case *ssa.Call:
			if o := calleeObj(e); o != nil && o.Pkg() != nil && o.Pkg().Path() == "math/bits" && o.Name() == "Mul64" {
				for i, a := range e.Call.Args {
					if k, ok := constUint(a); ok {
						if s, p2 := g12Pow2(k); p2 && s > 0 {
							out = append(out, c40Scale{S: s, Instr: e, Wide: true, Width: 128, Opnd: []ssa.Value{e.Call.Args[1-i]}, Fn: fn})
						}
					}
				}
			} else if f := e.Call.StaticCallee(); f != nil && f.Blocks != nil && depth < 2 && strings.HasPrefix(pkgPathOf(f), nebulaMod) {
				for _, r := range g12Returns(f) {
					for _, res := range r.Results {
						for _, sc := range c40FindScales(f, res, depth+1) {
							// express the callee's operand in the caller: the arguments bound to the
							// parameters it derives from
							var args []ssa.Value
							for _, o := range sc.Opnd {
								for i, p := range f.Params {
									if i < len(e.Call.Args) && derivesFrom(o, sliceThrough, func(y ssa.Value) bool { return y == ssa.Value(p) }) {
										args = append(args, e.Call.Args[i])
									}
								}
							}
							sc.Opnd = args
							out = append(out, sc)
						}
					}
				}
			}
		}
	})
	return out
}

// c40Offset peels `x - k` / `x + k` off a bound expression, entering module helpers that have a
// single return; returns the summed constant and the innermost expression of the outer function.
func c40Offset(v ssa.Value, depth int) (int64, ssa.Value) {
	switch x := v.(type) {
	case *ssa.BinOp:
		if k, ok := constInt(x.Y); ok && (x.Op == token.SUB || x.Op == token.ADD) {
			if x.Op == token.SUB {
				k = -k
			}
			k2, inner := c40Offset(x.X, depth)
			return k + k2, inner
		}
	case *ssa.Call:
		if f := x.Call.StaticCallee(); f != nil && f.Blocks != nil && depth < 2 && strings.HasPrefix(pkgPathOf(f), nebulaMod) {
			if rets := g12Returns(f); len(rets) == 1 && len(rets[0].Results) == 1 {
				k, _ := c40Offset(rets[0].Results[0], depth+1)
				return k, v
			}
		}
	}
	return 0, v
}

// c40SumPhi: phi is a loop-header accumulator {0, phi + gateways[i].weight}; returns the element
// (address) whose weight is added.
func c40SumPhi(fn *ssa.Function, phi *ssa.Phi, fWeight *types.Var) (elem ssa.Value, ok bool) {
	l := innermostLoop(naturalLoops(fn), phi.Block())
	if l == nil || l.Header != phi.Block() {
		return nil, false
	}
	zero := false
	for _, e := range phi.Edges {
		if k, isK := constInt(e); isK && k == 0 {
			zero = true
			continue
		}
		bo, isBo := e.(*ssa.BinOp)
		if !isBo || bo.Op != token.ADD || (bo.X != ssa.Value(phi) && bo.Y != ssa.Value(phi)) {
			return nil, false
		}
		other := bo.Y
		if bo.Y == ssa.Value(phi) {
			other = bo.X
		}
		u, isU := stripValue(other).(*ssa.UnOp)
		if !isU || !loadsField(other, fWeight) {
			return nil, false
		}
		elem = u.X.(*ssa.FieldAddr).X
	}
	return elem, zero && elem != nil
}

func c40Buckets(c *Ctx, calc *ssa.Function, gwT *types.Named, fBound, fWeight *types.Var) (off int64, scale *c40Scale, ok bool) {
	gws := c40GwParam(calc, gwT)
	if gws == nil {
		c.Unknown("C40.buckets", "CalculateBucketsForGateways", "no []Gateway parameter")
		return 0, nil, false
	}
	isColl := func(v ssa.Value) bool { return stripValue(v) == ssa.Value(gws) }
	var stores []*ssa.Store
	eachInstr(calc, func(in ssa.Instruction) {
		if st, ok := in.(*ssa.Store); ok {
			if fa, ok := st.Addr.(*ssa.FieldAddr); ok && fieldOfAddr(fa) == fBound {
				stores = append(stores, st)
			}
		}
	})
	if len(stores) != 1 {
		c.Unknown("C40.buckets", "CalculateBucketsForGateways:store", fmt.Sprintf("%d stores to bucketUpperBound (expected one, inside the loop over the list)", len(stores)))
		return 0, nil, false
	}
	st := stores[0]
	pos := c.instrPos(st)
	idx, okIdx := g12ElemIndex(st.Addr.(*ssa.FieldAddr).X, isColl)
	if !okIdx {
		c.Unknown("C40.buckets", "CalculateBucketsForGateways:order", "the bound is not stored into an element gateways[i] of the parameter")
		return 0, nil, false
	}
	if good, rec, why := c40WholeAscending(idx, gws); !rec {
		c.Unknown("C40.buckets", "CalculateBucketsForGateways:order", why)
	} else {
		c.Check(good, "C40.buckets", "CalculateBucketsForGateways:order", pos, "bounds are written for i = 0,1,..,len-1", "bounds are not cumulative in list order over the whole list: "+why+"; the scan in BalancePacket walks the list in ascending order, so shares are no longer proportional / some gateways keep the not-calculated sentinel")
	}
	// weight of the element written: a load of .weight at the same index
	ownWeight := func(x ssa.Value) bool {
		if !loadsField(x, fWeight) {
			return false
		}
		u, ok := stripValue(x).(*ssa.UnOp)
		if !ok {
			return false
		}
		fa, ok := u.X.(*ssa.FieldAddr)
		if !ok {
			return false
		}
		i2, ok := g12ElemIndex(fa.X, isColl)
		return ok && stripValue(i2) == stripValue(idx)
	}
	noPhi := SliceOpts{ThroughCalls: true, StopAt: func(x ssa.Value) bool { _, isPhi := x.(*ssa.Phi); return isPhi }}
	// constant offset (looked for behind conversions and one-return module helpers)
	off, val := c40Offset(st.Val, 0)
	scales := c40FindScales(calc, val, 0)
	if len(scales) != 1 {
		c.Unknown("C40.space", "CalculateBucketsForGateways:scale", fmt.Sprintf("%d power-of-two scalings found in the bound formula (expected one: weight sum * 2^S / total)", len(scales)))
		return off, nil, false
	}
	scale = &scales[0]
	// the scaled operand is the running sum including the own weight
	opndFrom := func(o SliceOpts, pred func(ssa.Value) bool) bool {
		for _, v := range scale.Opnd {
			if derivesFrom(v, o, pred) {
				return true
			}
		}
		return false
	}
	own := opndFrom(noPhi, ownWeight)
	c.Check(own, "C40.buckets", "CalculateBucketsForGateways:includes-own-weight", pos, "the scaled sum includes gateways[i].weight of the element written",
		"the bound stored at gateways[i] is computed from the weight sum before gateways[i].weight was added: the first gateway gets an empty share (bound -1) and the last bound stays below the top of the hash space, leaving a gap")
	loops := naturalLoops(calc)
	stLoop := innermostLoop(loops, st.Block())
	running := opndFrom(sliceThrough, func(x ssa.Value) bool {
		phi, ok := x.(*ssa.Phi)
		if !ok {
			return false
		}
		_, isSum := c40SumPhi(calc, phi, fWeight)
		return isSum && stLoop != nil && phi.Block() == stLoop.Header
	})
	if stLoop == nil {
		c.Unknown("C40.buckets", "CalculateBucketsForGateways:running-sum", "the store is not inside a loop")
	} else {
		c.Check(running, "C40.buckets", "CalculateBucketsForGateways:running-sum", pos, "scaled operand accumulates weight over the iterations of the storing loop",
			"the scaled value is not the running sum of the weights seen so far: bounds are not cumulative, so shares overlap or are not proportional to the weights")
	}
	// total: a completed sum over the whole list - an earlier loop of this function, or a helper
	// that sums the list it is given - used outside the scaled operand
	whole := func(fn *ssa.Function, widx ssa.Value, coll *ssa.Parameter) bool {
		i2, ok := g12ElemIndex(widx, func(v ssa.Value) bool { return stripValue(v) == ssa.Value(coll) })
		if !ok {
			return false
		}
		good, _, _ := c40WholeAscending(i2, coll)
		return good
	}
	type total struct {
		v     ssa.Value
		whole bool
	}
	var totals []total
	eachInstr(calc, func(in ssa.Instruction) {
		switch x := in.(type) {
		case *ssa.Phi:
			if elem, ok := c40SumPhi(calc, x, fWeight); ok && (stLoop == nil || x.Block() != stLoop.Header) {
				tl := innermostLoop(loops, x.Block())
				done := tl != nil && !tl.Body[st.Block()] && x.Block().Dominates(st.Block())
				totals = append(totals, total{x, done && whole(calc, elem, gws)})
			}
		case *ssa.Call:
			f := x.Call.StaticCallee()
			if f == nil || f.Blocks == nil || !strings.HasPrefix(pkgPathOf(f), nebulaMod) {
				return
			}
			fp := c40GwParam(f, gwT)
			rets := g12Returns(f)
			if fp == nil || len(rets) != 1 || len(rets[0].Results) != 1 {
				return
			}
			phi, ok := stripValue(rets[0].Results[0]).(*ssa.Phi)
			if !ok {
				return
			}
			if elem, ok := c40SumPhi(f, phi, fWeight); ok {
				given := false
				for i, p := range f.Params {
					if p == fp && i < len(x.Call.Args) && stripValue(x.Call.Args[i]) == ssa.Value(gws) {
						given = true
					}
				}
				totals = append(totals, total{x, given && whole(f, elem, fp) && x.Block().Dominates(st.Block()) && (stLoop == nil || !stLoop.Body[x.Block()])})
			}
		}
	})
	usesTotal, wholeTotal := false, false
	for _, t := range totals {
		is := func(x ssa.Value) bool { return x == t.v }
		if derivesFrom(st.Val, sliceThrough, is) && !opndFrom(sliceThrough, is) {
			usesTotal = true
			wholeTotal = wholeTotal || t.whole
		}
	}
	switch {
	case len(totals) == 0:
		c.Unknown("C40.buckets", "CalculateBucketsForGateways:total", "no sum of the weights computed before the storing loop was recognised")
	case !usesTotal:
		c.Bad("C40.buckets", "CalculateBucketsForGateways:total", pos, "the bound is not normalised by the total weight computed beforehand: shares are not proportional to weight/total and the last bound is not the top of the hash space")
	default:
		c.Check(wholeTotal, "C40.buckets", "CalculateBucketsForGateways:total", pos, "normalised by the sum of all weights, complete before the first bound is written",
			"the total used for normalisation does not cover the whole gateway list or is not complete when bounds are written")
	}
	c40NoWrap(c, calc, scale, fWeight, st)
	return off, scale, true
}

// c40NoWrap: the scaling sum * 2^S must not wrap. The sum is unbounded by the types (any number
// of gateways, each weight up to 2^31-1 accepted by the configuration), so either the product is
// formed in 128 bits or a comparison bounding a weight sum dominates the store.
func c40NoWrap(c *Ctx, calc *ssa.Function, sc *c40Scale, fWeight *types.Var, st *ssa.Store) {
	cons := "CalculateBucketsForGateways:scale-2^" + fmt.Sprint(sc.S)
	if sc.Wide {
		c.OK("C40.no-wrap", cons, "128-bit multiply (math/bits.Mul64)")
		c40WideCarry(c, sc)
		return
	}
	if sc.Width == 0 || sc.Width <= sc.S {
		c.Unknown("C40.no-wrap", cons, "width of the scaled type not recognised")
		return
	}
	limit := uint64(1) << uint(sc.Width-sc.S) // operand must stay below this
	fromWeights := func(v ssa.Value) bool {
		return derivesFrom(v, sliceThrough, func(x ssa.Value) bool { return loadsField(x, fWeight) })
	}
	g := gCmp(fmt.Sprintf("weight sum < 2^%d", sc.Width-sc.S), fromWeights, func(v ssa.Value) bool {
		k, ok := constUint(v)
		return ok && k <= limit && k > 0
	}, func(op token.Token) (bool, bool) {
		switch op {
		case token.LSS:
			return true, true
		case token.GEQ:
			return true, false
		}
		return false, false
	})
	if ok, n, _ := c.mustPass(calc, Sink{Instr: st}, g); ok && n > 0 {
		c.OK("C40.no-wrap", cons, "a dominating comparison bounds the weight sum")
		return
	}
	c.Bad("C40.no-wrap", cons, c.instrPos(sc.Instr), fmt.Sprintf("the weight sum is multiplied by 2^%d in %d bits with nothing bounding it below 2^%d: it wraps once the cumulative weight reaches 2^%d (e.g. five gateways of weight 2147483647, which the configuration accepts); the bounds then stop being monotone, later gateways shadow earlier ones and hashes above the last bound fall out of every bucket", sc.S, sc.Width, sc.Width-sc.S, sc.Width-sc.S))
}

// ---------------------------------------------------------------------------------------
// BalancePacket scan

func c40Scan(c *Ctx, bal, hash *ssa.Function, gwT *types.Named, fBound *types.Var, off int64, okCalc bool) {
	gws := c40GwParam(bal, gwT)
	if gws == nil || bal.Signature.Results().Len() == 0 {
		c.Unknown("C40.scan", "BalancePacket", "no []Gateway parameter")
		return
	}
	okIdx := bal.Signature.Results().Len() - 1
	if b, isB := bal.Signature.Results().At(okIdx).Type().Underlying().(*types.Basic); !isB || b.Kind() != types.Bool {
		c.Unknown("C40.scan", "BalancePacket", "last result is not the bool `buckets were usable`")
		return
	}
	isColl := func(v ssa.Value) bool { return stripValue(v) == ssa.Value(gws) }
	hashRef := Ref{"routing", "", "hashPacket"}
	isHash := func(v ssa.Value) bool {
		return derivesFrom(v, sliceLocal, isCallTo(hashRef)) && !derivesFrom(v, sliceLocal, isColl)
	}
	isBoundV := func(v ssa.Value) bool { _, ok := c40FieldOfElem(c, v, fBound); return ok }
	// bounds are inclusive (offset < 0) => hash == bound must be admitted
	strictOK := okCalc && off >= 0
	// recog: the If compares the hash with the bound of gateways[idx]; op is normalised to
	// `hash op bound`. Either a direct comparison or a one-line predicate helper
	// (`func (g *Gateway) admits(h int) bool { return h <= g.bucketUpperBound }`).
	recog := func(cond ssa.Value) (op token.Token, idx ssa.Value, ok bool) {
		cd := normCond(cond)
		var x, y ssa.Value // operands as values of BalancePacket
		switch cd.Kind {
		case CondCmp:
			bo := cd.Base.(*ssa.BinOp)
			op, x, y = bo.Op, bo.X, bo.Y
		case CondBool:
			call, isCall := stripValue(cd.Base).(*ssa.Call)
			if !isCall {
				return 0, nil, false
			}
			f := call.Call.StaticCallee()
			if f == nil || f.Blocks == nil || !strings.HasPrefix(pkgPathOf(f), nebulaMod) {
				return 0, nil, false
			}
			rets := g12Returns(f)
			if len(rets) != 1 || len(rets[0].Results) != 1 {
				return 0, nil, false
			}
			bo, isBo := rets[0].Results[0].(*ssa.BinOp)
			if !isBo {
				return 0, nil, false
			}
			// translate the helper's operands: a parameter -> the argument; a load of the bound field
			// of a parameter -> "bound of that argument"
			tr := func(v ssa.Value) ssa.Value {
				if p, ok := stripValue(v).(*ssa.Parameter); ok {
					for i, q := range f.Params {
						if q == p && i < len(call.Call.Args) {
							return call.Call.Args[i]
						}
					}
				}
				return nil
			}
			op = bo.Op
			for k, side := range []ssa.Value{bo.X, bo.Y} {
				var got ssa.Value
				if recv, isF := c40FieldOfElem(c, side, fBound); isF {
					if arg := tr(recv); arg != nil {
						if i2, okI := g12ElemIndex(arg, isColl); okI {
							idx = i2
							got = side
						}
					}
				} else if arg := tr(side); arg != nil && isHash(arg) {
					got = arg
				}
				if got == nil {
					return 0, nil, false
				}
				if k == 0 {
					x = got
				} else {
					y = got
				}
			}
			if idx == nil {
				return 0, nil, false
			}
			// exactly one side is the bound
			if _, xb := c40FieldOfElem(c, x, fBound); xb {
				op = swapOp(op)
			}
			if cd.Neg {
				op = negOp(op)
			}
			return op, idx, true
		default:
			return 0, nil, false
		}
		switch {
		case isHash(x) && isBoundV(y):
		case isHash(y) && isBoundV(x):
			op, x, y = swapOp(op), y, x
		default:
			return 0, nil, false
		}
		recv, _ := c40FieldOfElem(c, y, fBound)
		i2, okI := g12ElemIndex(recv, isColl)
		if !okI {
			return 0, nil, false
		}
		if cd.Neg {
			op = negOp(op)
		}
		return op, i2, true
	}
	g := Guard{Name: "hash <= bound of the element", Match: func(_ Cond, ifi *ssa.If) (bool, bool) {
		op, _, ok := recog(ifi.Cond)
		if !ok {
			return false, false
		}
		switch op {
		case token.LEQ:
			return true, true
		case token.GTR:
			return true, false
		case token.LSS:
			return strictOK, true
		case token.GEQ:
			return strictOK, false
		}
		return false, false
	}}
	sinks := boolReturns(bal, okIdx, true)
	// the comparisons of the hash with a bound, with the element index each one reads
	type test struct {
		blk *ssa.BasicBlock
		idx ssa.Value
	}
	var tests []test
	for _, b := range bal.Blocks {
		if ifi, ok := b.Instrs[len(b.Instrs)-1].(*ssa.If); ok {
			if _, idx, ok := recog(ifi.Cond); ok {
				tests = append(tests, test{b, idx})
			}
		}
	}
	if len(tests) == 0 {
		c.Unknown("C40.scan", "BalancePacket:test", "no comparison of the packet hash with a gateway's bucket bound was recognised")
		return
	}
	c.requireGuards("C40.scan", bal, sinks, "return(addr,true)", g)
	for i, s := range sinks {
		ret := s.Instr.(*ssa.Return)
		cons := fmt.Sprintf("BalancePacket:return(addr,true)#%d", i)
		ridx, ok := g12ElemIndex(ret.Results[0], isColl)
		if !ok {
			// through the Addr() accessor
			if call, _ := callOf(ret.Results[0]); call != nil && len(call.Call.Args) == 1 {
				ridx, ok = g12ElemIndex(call.Call.Args[0], isColl)
			}
		}
		if !ok {
			c.Unknown("C40.scan", cons+":same-element", "the returned address is not read from one element gateways[i]")
			continue
		}
		same := false
		for _, t := range tests {
			if stripValue(t.idx) == stripValue(ridx) && t.blk.Dominates(ret.Block()) {
				same = true
			}
		}
		c.Check(same, "C40.scan", cons+":same-element", c.instrPos(ret), "address of the element whose bound admitted the hash",
			"the address returned with ok=true is not that of the element whose bound was compared with the hash: flows land on a gateway whose bucket they are not in")
		if good, rec, why := c40WholeAscending(ridx, gws); !rec {
			c.Unknown("C40.scan", cons+":order", why)
		} else {
			c.Check(good, "C40.scan", cons+":order", c.instrPos(ret), "first match over i = 0,1,..,len-1",
				"the scan is not first-match in ascending list order over the whole list: "+why+"; bounds are cumulative in ascending order, so another order sends every hash to the gateway with the largest bound")
		}
	}
}

// ---------------------------------------------------------------------------------------
// hash range vs scale

func c40Space(c *Ctx, hash, calc *ssa.Function, sc *c40Scale, off int64, okCalc bool) {
	width := -1
	for _, r := range g12Returns(hash) {
		bv := bitProv(r.Results[0], func(ssa.Value) (BitVec, bool) { return nil, false })
		if bv == nil {
			width = -2
			break
		}
		h := 0
		for i, b := range bv {
			if b.Kind != 0 {
				h = i + 1
			}
		}
		if h > width {
			width = h
		}
	}
	if width < 0 || width >= 64 {
		// a sign removed by negation instead of a mask: -MinInt is MinInt, the one value that stays negative
		var neg *ssa.UnOp
		for _, r := range g12Returns(hash) {
			backSlice(r.Results[0], sliceLocal, func(x ssa.Value) {
				if u, ok := x.(*ssa.UnOp); ok && u.Op == token.SUB {
					if w, unsigned := intWidth(u.Type()); w > 0 && !unsigned {
						neg = u
					}
				}
			})
		}
		if neg != nil {
			w, _ := intWidth(neg.Type())
			c.Bad("C40.space", "hashPacket:range", c.instrPos(neg), fmt.Sprintf("the sign of the hash is removed by negating a signed %d-bit value: for the input that mixes to -2^%d the negation wraps and the hash stays negative, below every bucket bound - that flow always goes to the first gateway (also when its buckets were never calculated)", w, w-1))
			return
		}
		c.Unknown("C40.space", "hashPacket:range", "the sign / high bits of the hash are not provably zero by bit provenance (mask, shift): its range cannot be compared with the bucket scale")
		return
	}
	if !okCalc || sc == nil {
		return // reported by c40Buckets
	}
	c.Check(width == sc.S, "C40.space", "hashPacket~CalculateBucketsForGateways:width", c.P.Pos(hash.Pos()), fmt.Sprintf("hash has %d significant bits, bounds are scaled by 2^%d", width, sc.S),
		fmt.Sprintf("the hash ranges over [0,2^%d) but the bucket bounds partition [0,2^%d): %s", width, sc.S,
			map[bool]string{true: "hashes above the last bound match no bucket (BalancePacket falls back and reports false)", false: "only the lower part of the bounds is ever hit: the first gateways absorb the whole traffic"}[width > sc.S]))
	// last bound = 2^S + off must be >= max hash = 2^S - 1  (with `<=`; the scan rule ties `<` to off >= 0)
	c.Check(off >= -1, "C40.space", "CalculateBucketsForGateways:offset", c.instrPos(sc.Instr), fmt.Sprintf("last bound = 2^%d%+d covers the largest hash 2^%d-1", sc.S, off, sc.S),
		fmt.Sprintf("the last bound is 2^%d%+d, below the largest hash value 2^%d-1: the top of the hash space belongs to no gateway", sc.S, off, sc.S))
}

// ---------------------------------------------------------------------------------------
// writers

func c40Writers(c *Ctx, calc *ssa.Function, fBound, fWeight *types.Var) {
	funcs := c.moduleFuncs()
	allowed := map[*types.Var]map[string]string{
		fBound: {
			"routing.CalculateBucketsForGateways": "the one place bounds are computed (all of them, in one pass)",
			"routing.NewGateway":                  "constructor: stores the not-calculated sentinel",
		},
		fWeight: {
			"routing.NewGateway": "constructor: weights are immutable afterwards, so calculated bounds stay valid",
		},
	}
	for _, f := range []*types.Var{fBound, fWeight} {
		n := map[string]int{}
		for _, w := range fieldWriters(funcs, f) {
			name := fnName(topFunc(w.Fn))
			n[name]++
			cons := fmt.Sprintf("Gateway.%s<-%s#%d", f.Name(), name, n[name])
			if why, ok := allowed[f][name]; ok && w.Kind == "store" {
				c.OK("C40.bucket-writers", cons, why)
			} else {
				c.Bad("C40.bucket-writers", cons, c.instrPos(w.Instr), fmt.Sprintf("%s writes Gateway.%s (%s) outside the bucket calculation: bounds already calculated for the list no longer match the weights / no longer tile the hash space", name, f.Name(), w.Kind))
			}
		}
	}
}

// ---------------------------------------------------------------------------------------
// calculate before insert

var c40TableMutators = map[string]bool{"Insert": true, "InsertPersist": true}
var c40TableOther = map[string]bool{"Modify": true, "ModifyPersist": true, "Union": true, "UnionPersist": true}

func c40SameSlice(a, b ssa.Value) bool {
	a, b = stripValue(a), stripValue(b)
	if a == b || sameVar(a, b) {
		return true
	}
	ua, ok1 := a.(*ssa.UnOp)
	ub, ok2 := b.(*ssa.UnOp)
	if !ok1 || !ok2 || ua.Op != token.MUL || ub.Op != token.MUL {
		return false
	}
	// two loads through structurally equal field paths of the same root
	ra, pa := addrRoot(ua.X)
	rb, pb := addrRoot(ub.X)
	if ra != rb || len(pa) != len(pb) {
		return false
	}
	for i := range pa {
		if pa[i] != pb[i] || pa[i] < 0 {
			return false
		}
	}
	return true
}

func c40CalcBeforeInsert(c *Ctx, calc *ssa.Function) {
	gwsT := c.NamedType("routing", "Gateways")
	if gwsT == nil {
		return
	}
	calcObj := fnObj(calc)
	isGws := func(t types.Type) bool { n, ok := types.Unalias(t).(*types.Named); return ok && n.Obj() == gwsT.Obj() }
	funcs := c.moduleFuncs()
	var calculated func(fn *ssa.Function, v ssa.Value, at ssa.Instruction, depth int) (bool, string, []string)
	calculated = func(fn *ssa.Function, v ssa.Value, at ssa.Instruction, depth int) (bool, string, []string) {
		if depth > 3 {
			return false, "provenance too deep", nil
		}
		if isNilConst(v) {
			return true, "nil list", nil
		}
		// (a) calculated in this function on every path to the use
		isCalc := func(in ssa.Instruction) bool {
			ci, ok := in.(*ssa.Call)
			return ok && calleeObj(ci) == calcObj && c40SameSlice(ci.Call.Args[0], v)
		}
		has := false
		eachInstr(fn, func(in ssa.Instruction) { has = has || isCalc(in) })
		if has {
			if av, path := c.avoidsCut(fn, nil, at, isCalc); av {
				return false, "a path reaches the use without CalculateBucketsForGateways on this list", path
			}
			return true, "calculated in " + fnName(fn), nil
		}
		sv := stripValue(v)
		// (b) phi: every incoming list
		if phi, ok := sv.(*ssa.Phi); ok {
			for _, e := range phi.Edges {
				if e == ssa.Value(phi) {
					continue
				}
				if ok, why, p := calculated(fn, e, at, depth+1); !ok {
					return false, why, p
				}
			}
			return true, "every incoming list calculated", nil
		}
		// (c) returned by a module function all of whose returns are calculated (or nil)
		if call, _ := callOf(sv); call != nil {
			if g := call.Call.StaticCallee(); g != nil && g.Blocks != nil && strings.HasPrefix(pkgPathOf(g), nebulaMod) {
				for _, r := range g12Returns(g) {
					for _, res := range r.Results {
						if !isGws(res.Type()) {
							continue
						}
						if ok, why, p := calculated(g, res, r, depth+1); !ok {
							return false, fnName(g) + " can return a list that was not calculated: " + why, p
						}
					}
				}
				return true, "every return of " + fnName(g) + " is calculated", nil
			}
		}
		// (d) read from a map held in a struct field: every value stored there was calculated
		var mapField *types.Var
		backSlice(sv, SliceOpts{StopAt: func(x ssa.Value) bool { _, isCall := x.(*ssa.Call); return isCall }}, func(x ssa.Value) {
			var m ssa.Value
			switch e := x.(type) {
			case *ssa.Range:
				m = e.X
			case *ssa.Lookup:
				m = e.X
			}
			if m == nil {
				return
			}
			if u, ok := stripValue(m).(*ssa.UnOp); ok {
				if fa, ok := u.X.(*ssa.FieldAddr); ok {
					mapField = fieldOfAddr(fa)
				}
			}
		})
		if mapField != nil {
			n := 0
			for _, f := range funcs {
				var res []string
				var bad string
				eachInstr(f, func(in ssa.Instruction) {
					mu, ok := in.(*ssa.MapUpdate)
					if !ok || !loadsField(mu.Map, mapField) || bad != "" {
						return
					}
					n++
					if ok, why, p := calculated(f, mu.Value, mu, depth+1); !ok {
						bad, res = fmt.Sprintf("%s stores a list into %s that was not calculated: %s", fnName(f), mapField.Name(), why), p
					}
				})
				if bad != "" {
					return false, bad, res
				}
			}
			if n > 0 {
				return true, fmt.Sprintf("every list stored in %s (%d sites) was calculated", mapField.Name(), n), nil
			}
		}
		return false, "no CalculateBucketsForGateways call on this list was found", nil
	}
	n := map[string]int{}
	for _, fn := range funcs {
		eachInstr(fn, func(in ssa.Instruction) {
			ci, ok := in.(ssa.CallInstruction)
			if !ok {
				return
			}
			o := calleeObj(ci)
			if o == nil || o.Pkg() == nil || o.Pkg().Path() != "github.com/gaissmai/bart" {
				return
			}
			args := callArgs(ci)
			if len(args) == 0 {
				return
			}
			rn := recvNamed(args[0].Type())
			if rn == nil || rn.TypeArgs() == nil || rn.TypeArgs().Len() != 1 || !isGws(rn.TypeArgs().At(0)) {
				return
			}
			name := fnName(topFunc(fn))
			if c40TableOther[o.Name()] {
				c.Unknown("C40.calc-before-insert", name+":"+o.Name(), "route table of gateway lists changed through "+o.Name()+": values not tracked")
				return
			}
			if !c40TableMutators[o.Name()] || len(args) < 3 {
				return
			}
			n[name]++
			cons := fmt.Sprintf("%s:%s#%d", name, o.Name(), n[name])
			if ok, why, path := calculated(fn, args[2], in, 0); ok {
				c.OK("C40.calc-before-insert", cons, why)
			} else {
				c.Bad("C40.calc-before-insert", cons, c.instrPos(in), "a gateway list enters the route table with bounds that were not calculated ("+why+"): BalancePacket finds no bucket (sentinel -1) and falls back to hash%len, ignoring the weights", path...)
			}
		})
	}
}

// ---------------------------------------------------------------------------------------
// the caller

func c40Sticky(c *Ctx, bal *ssa.Function, pkt *types.Named) {
	fn := c.Func(Ref{"", "Interface", "getOrHandshakeConsiderRouting"})
	fRemote := c.Field("firewall", "Packet", "RemoteAddr")
	if fn == nil || fRemote == nil {
		return
	}
	var pp *ssa.Parameter
	for _, p := range fn.Params {
		if n := recvNamed(p.Type()); n != nil && n.Obj() == pkt.Obj() {
			pp = p
		}
	}
	balRef := Ref{"routing", "", "BalancePacket"}
	calls := callsIn(fn, balRef)
	if pp == nil || len(calls) != 1 {
		c.Unknown("C40.sticky", "getOrHandshakeConsiderRouting:BalancePacket", fmt.Sprintf("%d BalancePacket calls / packet parameter not found", len(calls)))
		return
	}
	bc := calls[0].(*ssa.Call)
	pos := c.instrPos(bc)
	c.Check(stripValue(bc.Call.Args[0]) == ssa.Value(pp), "C40.sticky", "getOrHandshakeConsiderRouting:balances-own-packet", pos, "the packet being routed is the one hashed", "BalancePacket is not given the packet being routed")
	dest := func(v ssa.Value) bool {
		return derivesFrom(v, sliceLocal, func(x ssa.Value) bool {
			return loadsField(x, fRemote) && derivesFrom(x, sliceLocal, func(y ssa.Value) bool { return y == ssa.Value(pp) })
		})
	}
	routesFor := func(x ssa.Value) bool {
		call, ok := x.(*ssa.Call)
		if !ok {
			return false
		}
		o := calleeObj(call)
		return o != nil && o.Name() == "RoutesFor" && o.Pkg() != nil && o.Pkg().Path() == PkgPath("overlay") && len(call.Call.Args) == 1 && dest(call.Call.Args[0])
	}
	c.Check(derivesFrom(bc.Call.Args[1], sliceLocal, routesFor), "C40.sticky", "getOrHandshakeConsiderRouting:gateways-of-destination", pos, "balances over RoutesFor(packet.RemoteAddr)", "the gateway list balanced over is not the route of the packet's own destination")
	chosen := func(v ssa.Value) bool {
		return derivesFrom(v, sliceLocal, func(x ssa.Value) bool {
			ex, ok := x.(*ssa.Extract)
			return ok && ex.Tuple == ssa.Value(bc) && ex.Index == 0
		})
	}
	gohRef := Ref{"", "HandshakeManager", "GetOrHandshake"}
	var primary, fallback []Sink
	for _, ci := range callsIn(fn, gohRef) {
		if !bc.Block().Dominates(ci.Block()) {
			continue // single-gateway / no-route arms
		}
		if chosen(callArgs(ci)[1]) {
			primary = append(primary, Sink{Instr: ci, Desc: "GetOrHandshake(balanced)"})
		} else {
			fallback = append(fallback, Sink{Instr: ci, Desc: "GetOrHandshake(other gateway)"})
		}
	}
	c.Check(len(primary) > 0, "C40.sticky", "getOrHandshakeConsiderRouting:uses-balanced", pos, fmt.Sprintf("%d handshake lookup(s) on the balanced address", len(primary)), "no GetOrHandshake call receives the address BalancePacket chose: the balancing result is ignored")
	if len(primary) > 0 && len(fallback) > 0 {
		notReady := gBool("balanced gateway not ready", false, 1, CallSpec{Refs: []Ref{gohRef}, Args: map[int]func(ssa.Value) bool{1: chosen}})
		c.requireGuards("C40.sticky", fn, fallback, "GetOrHandshake(other)", notReady)
	}
}

// c40WideCarry: once the product lives in two 64-bit words, everything added to the low word before
// the 128/64 division must carry into the high word: a plain 64-bit add on the low word wraps (the
// rounding term total/2 is unbounded) and the quotient is then short by 2^64/total.
func c40WideCarry(c *Ctx, sc *c40Scale) {
	mul, ok := sc.Instr.(*ssa.Call)
	if !ok {
		return
	}
	fn := mul.Parent()
	cons := fnName(fn) + ":low-word-carry"
	isBits := func(call *ssa.Call, name string) bool {
		o := calleeObj(call)
		return o != nil && o.Pkg() != nil && o.Pkg().Path() == "math/bits" && o.Name() == name
	}
	fromLo := func(v ssa.Value) bool {
		return derivesFrom(v, sliceThrough, func(x ssa.Value) bool {
			ex, ok := x.(*ssa.Extract)
			return ok && ex.Tuple == ssa.Value(mul) && ex.Index == 1
		})
	}
	var divs []*ssa.Call
	eachInstr(fn, func(in ssa.Instruction) {
		if call, ok := in.(*ssa.Call); ok && isBits(call, "Div64") && fromLo(call.Call.Args[1]) {
			divs = append(divs, call)
		}
	})
	if len(divs) == 0 {
		return // the product is not divided in two-word form here: nothing to carry
	}
	for _, div := range divs {
		hi, lo := div.Call.Args[0], div.Call.Args[1]
		var plain []*ssa.BinOp
		var adds []*ssa.Call
		backSlice(lo, sliceThrough, func(x ssa.Value) {
			switch e := x.(type) {
			case *ssa.BinOp:
				if e.Op == token.ADD && (fromLo(e.X) || fromLo(e.Y)) {
					plain = append(plain, e)
				}
			case *ssa.Extract:
				if call, ok := e.Tuple.(*ssa.Call); ok && e.Index == 0 && isBits(call, "Add64") {
					adds = append(adds, call)
				}
			}
		})
		carried := true
		for _, a := range adds {
			carried = carried && derivesFrom(hi, sliceThrough, func(x ssa.Value) bool {
				ex, ok := x.(*ssa.Extract)
				return ok && ex.Tuple == ssa.Value(a) && ex.Index == 1
			})
		}
		switch {
		case len(plain) > 0:
			// a manual carry (a comparison of the sum feeding the high word) is not followed
			manual := derivesFrom(hi, sliceThrough, func(x ssa.Value) bool {
				b, ok := x.(*ssa.BinOp)
				return ok && (b.Op == token.LSS || b.Op == token.GTR || b.Op == token.LEQ || b.Op == token.GEQ)
			})
			if manual {
				c.Unknown("C40.no-wrap", cons, "the low word is added to with a plain add and the high word depends on a comparison: manual carry not followed")
			} else {
				c.Bad("C40.no-wrap", cons, c.instrPos(plain[0]), "a term is added to the low word of the 128-bit product with a 64-bit add whose carry is dropped before the division: once the low word plus the rounding term reaches 2^64 (cumulative weight near 2^33 with a total of 2^32 or more, which the configuration accepts) the bound comes out short by 2^64/total, bounds stop being monotone and part of the hash space falls out of every bucket")
			}
		case !carried:
			c.Bad("C40.no-wrap", cons, c.instrPos(div), "the carry of the 128-bit addition on the low word does not reach the high word handed to the division: the quotient is short by 2^64/total whenever the addition carries")
		default:
			c.OK("C40.no-wrap", cons, fmt.Sprintf("%d addition(s) on the low word, carry folded into the high word", len(adds)))
		}
	}
}
