package main

import (
	"fmt"
	"go/token"
	"go/types"
	"sort"

	"golang.org/x/tools/go/ssa"
)

func init() {
	register(&Property{
		ID: "C20", Title: "Packet classification matches what the host will process",
		Patterns:    []string{"./iputil", "."},
		Technique:   "value-set dataflow over the header bytes tested on each path (which next-header / version / IHL / direction values can reach a return, a store or a call), enumeration of the header-length and fragment expressions over all byte values, length-guard reachability for every read of the packet (stable-predicate case split), provenance of the fields parseV6 takes from the extension-header walker, must-store-before-success for every classification field, direction agreement between newPacket and Firewall.Drop",
		LevelText:   "Structural necessary conditions decided on every path of newPacket/parseV4/parseV6 and iputil.IPv6FindUpperProtocol: the walker hands out a protocol with nil error only after testing that it is none of the extension headers it walks (so an unresolved chain, including one longer than its limit, is rejected), reports a non-first fragment only inside the fragment-header arm and exactly when the 13 offset bits are non-zero, advances by the RFC 8200 / RFC 4302 length of each header and re-reads the next header at the new offset; parseV6 takes protocol, header length and both fragment flags unchanged from the walker and rejects on its error; parseV4 computes IHL, protocol and both fragment flags as the RFC 791 bit fields and rejects IHL < 5; newPacket dispatches on the version nibble; addresses, ports and the ICMP identifier are taken from the source/destination ranges with Local/Remote chosen by the direction flag, and callers pass the same direction to the parser and to the firewall; every classification field is written on every accepting path (the result struct is reused); every read of the packet is preceded on every path by a length test that covers it (no index panic).",
		LevelNote:   "Not decided: equality with an independent parser beyond these structural facts (e.g. that IPv4 ports are read for every non-ICMP protocol and the ICMPv4 identifier for every ICMP type is today's design, not checked against a reference decoder); integer overflow of the IPv6 offset (bounded by 9 headers of at most 2048 bytes); netip.AddrFromSlice and encoding/binary contracts are trusted; the reset of IPHdrLen/FragAny on rejection is not part of the statement and not checked.",
		Explanation: "K1 by value sets (classified-before-returned, fragment arm, version/IHL dispatch), K8-style enumeration of length/flag expressions over all byte values, K1 length discipline with stable predicates, K11 walker provenance in parseV6, K7 orientation table per store, K6xK1 all fields stored before success, K2/K7 direction at the call sites",
		Run:         runC20,
		Canaries: func(c *Ctx) []Canary {
			return []Canary{
				{Name: "post-loop-return-nil (F4 regression)", File: "iputil/packet.go", Old: "\t// More than maxIPv6ExtHeaders extension headers, nextHeader has not been classified as an upper-layer protocol\n\treturn nextHeader, offset, isFragment, anyFragment, ErrIPv6CouldNotFindPayload", New: "\treturn nextHeader, offset, isFragment, anyFragment, nil", Rule: "C20.classified"},
				{Name: "destination-options-not-walked", File: "iputil/packet.go", Old: "case 0, 43, 60: // Hop-by-Hop, Routing, Destination", New: "case 0, 43: // Hop-by-Hop, Routing", Rule: "C20.classified"},
				{Name: "ah-length-in-8-octet-units", File: "iputil/packet.go", Old: "offset += (int(packet[offset+1]) + 2) << 2", New: "offset += (int(packet[offset+1]) + 2) << 3", Rule: "C20.walk-step"},
				{Name: "ext-length-wraps-in-byte", File: "iputil/packet.go", Old: "offset += (int(packet[offset+1]) + 1) << 3", New: "offset += int((packet[offset+1] + 1) << 3)", Rule: "C20.walk-step"},
				{Name: "fragment-offset-mask-too-narrow", File: "iputil/packet.go", Old: "packet[offset+3]&0xf8 != 0", New: "packet[offset+3]&0xf0 != 0", Rule: "C20.frag-offset"},
				{Name: "any-fragment-not-recorded", File: "iputil/packet.go", Old: "\t\t\tanyFragment = true\n", New: "", Rule: "C20.any-fragment"},
				{Name: "walker-length-guard-too-short", File: "iputil/packet.go", Old: "if len(packet) < offset+8 {", New: "if len(packet) < offset+2 {", Rule: "C20.bounds"},
				{Name: "parseV6-ignores-walker-error", File: "outside.go", Old: "\tproto, offset, isFragment, anyFragment, err := iputil.IPv6FindUpperProtocol(data)\n\tif err != nil {\n\t\treturn ErrIPv6PacketTooShort\n\t}\n", New: "\tproto, offset, isFragment, anyFragment, _ := iputil.IPv6FindUpperProtocol(data)\n", Rule: "C20.from-walker"},
				{Name: "v6-outgoing-ports-not-swapped", File: "outside.go", Old: "\t\t} else {\n\t\t\tfp.LocalPort = binary.BigEndian.Uint16(data[offset : offset+2])\n\t\t\tfp.RemotePort = binary.BigEndian.Uint16(data[offset+2 : offset+4])", New: "\t\t} else {\n\t\t\tfp.RemotePort = binary.BigEndian.Uint16(data[offset : offset+2])\n\t\t\tfp.LocalPort = binary.BigEndian.Uint16(data[offset+2 : offset+4])", Rule: "C20.orient"},
				{Name: "v4-incoming-addresses-swapped", File: "outside.go", Old: "\t\tfp.RemoteAddr, _ = netip.AddrFromSlice(data[12:16])\n\t\tfp.LocalAddr, _ = netip.AddrFromSlice(data[16:20])\n\t} else {", New: "\t\tfp.LocalAddr, _ = netip.AddrFromSlice(data[12:16])\n\t\tfp.RemoteAddr, _ = netip.AddrFromSlice(data[16:20])\n\t} else {", Rule: "C20.orient"},
				{Name: "v4-fragment-mask-includes-MF", File: "outside.go", Old: "fp.Fragment = (flagsfrags & 0x1FFF) != 0", New: "fp.Fragment = (flagsfrags & 0x3FFF) != 0", Rule: "C20.v4-fields"},
				{Name: "v4-icmp-length-guard-short", File: "outside.go", Old: "minLen += minFwPacketLen + 2", New: "minLen += minFwPacketLen", Rule: "C20.bounds"},
				{Name: "v4-ihl-check-dropped", File: "outside.go", Old: "\tif ihl < ipv4.HeaderLen {\n\t\treturn ErrIPv4InvalidHeaderLength\n\t}\n", New: "", Rule: "C20.v4-ihl"},
				{Name: "v6-fragment-arm-keeps-old-ports", File: "outside.go", Old: "\t\t// Non-first fragments carry no transport header, so we have no ports to read\n\t\tfp.RemotePort = 0\n\t\tfp.LocalPort = 0\n\t\treturn nil", New: "\t\treturn nil", Rule: "C20.all-fields"},
				{Name: "version-5-parsed-as-v4", File: "outside.go", Old: "\tcase ipv4.Version:\n\t\treturn parseV4(data, incoming, fp)", New: "\tcase ipv4.Version, 5:\n\t\treturn parseV4(data, incoming, fp)", Rule: "C20.dispatch"},
				{Name: "inbound-parsed-as-outgoing", File: "outside.go", Old: "err := newPacket(out, true, rxc.fwPacket)", New: "err := newPacket(out, false, rxc.fwPacket)", Rule: "C20.direction"},
			}
		},
	})
}

// the extension headers the walker is specified to walk (RFC 8200 §4, RFC 4302); every other
// value is a terminal protocol by the function's own contract
var c20ExtHdr = map[int]string{
	0:  "hop-by-hop options: length (L+1)*8",
	43: "routing: length (L+1)*8",
	60: "destination options: length (L+1)*8",
	44: "fragment: fixed 8 bytes",
	51: "authentication header: length (L+2)*4 (RFC 4302)",
}

// c20StepLen: the header length an independent parser uses, from the Hdr Ext Len byte.
func c20StepLen(hdr int, l int64) int64 {
	switch hdr {
	case 0, 43, 60:
		return (l + 1) * 8
	case 51:
		return (l + 2) * 4
	}
	return 8
}

func runC20(c *Ctx) {
	c.Rule("C20.classified", "K1/value sets: IPv6FindUpperProtocol returns a nil error with isFragment=false only with a next-header value tested to be none of {0,43,44,51,60}", 1)
	c.Rule("C20.fragment-return", "K1/value sets: the isFragment=true return lies in the arm of next-header 44 only and reports anyFragment=true", 1)
	c.Rule("C20.frag-offset", "enumeration over the two fragment-offset bytes: the non-first-fragment return is taken exactly when the 13 offset bits (byte 2, top 5 bits of byte 3) are non-zero", 2)
	c.Rule("C20.walk-step", "enumeration over the Hdr Ext Len byte: each extension-header arm advances the offset by that header's RFC length and re-reads next-header at the old offset; the walk starts at byte 6 / offset 40", 8)
	c.Rule("C20.any-fragment", "anyFragment becomes true exactly on the fragment-header arm", 3)
	c.Rule("C20.from-walker", "K11+K1: parseV6 stores the walker's protocol / offset / isFragment / anyFragment unchanged and accepts only if the walker's error is nil", 5)
	c.Rule("C20.v4-fields", "enumeration over header bytes: parseV4 stores IHL*4, protocol byte 9, Fragment = offset bits != 0, FragAny = MF|offset bits != 0", 4)
	c.Rule("C20.v4-ihl", "K1/value sets: parseV4 accepts only IHL >= 5", 1)
	c.Rule("C20.dispatch", "K1/value sets: newPacket calls parseV4 only for version nibble 4 and parseV6 only for 6, passes its arguments through unchanged, and accepts only through them", 3)
	c.Rule("C20.orient", "K7: every store of an address / port / identifier takes the source or destination range that the direction flag, the protocol and the fragment status on that path call for", 27)
	c.Rule("C20.all-fields", "K6xK1: every accepting path of parseV4/parseV6 writes all 8 fields of the reused firewall.ParsedPacket", 16)
	c.Rule("C20.bounds", "K1: every index/slice/encoding-binary read of the packet in newPacket, parseV4, parseV6 and the walker is preceded on every path by a length test covering it (case split on stable predicates)", 30)
	c.Rule("C20.direction", "K2/K7: each caller of newPacket passes a constant direction equal to the one it passes to Firewall.Drop; tun-side callers false, the decrypted-inbound handler true", 3)

	walker := c.Func(Ref{"iputil", "", "IPv6FindUpperProtocol"})
	if walker != nil {
		c20Walker(c, walker)
	}
	if c.P.SSAPkgs[nebulaMod] == nil {
		c.Unknown("anchor", "nebula", "root package not loaded")
		return
	}
	newPkt := c.Func(Ref{"", "", "newPacket"})
	p4 := c.Func(Ref{"", "", "parseV4"})
	p6 := c.Func(Ref{"", "", "parseV6"})
	fld := map[string]*types.Var{}
	for _, n := range []string{"LocalAddr", "RemoteAddr", "LocalPort", "RemotePort", "Protocol", "Fragment"} {
		fld[n] = c.Field("firewall", "Packet", n)
	}
	for _, n := range []string{"IPHdrLen", "FragAny"} {
		fld[n] = c.Field("firewall", "ParsedPacket", n)
	}
	for _, f := range fld {
		if f == nil {
			return
		}
	}
	for _, fn := range []*ssa.Function{newPkt, p4, p6} {
		if fn == nil {
			continue
		}
		if !c20ParserSig(fn) {
			c.Unknown("anchor", fnName(fn), "signature is no longer (data []byte, incoming bool, fp *firewall.ParsedPacket) error: the rules anchored on the parameters cannot be decided")
			return
		}
	}
	if p6 != nil && walker != nil {
		c20FromWalker(c, p6, fld)
	}
	if p4 != nil {
		c20V4Fields(c, p4, fld)
	}
	if newPkt != nil {
		c20Dispatch(c, newPkt)
		c.g3CheckBounds("C20.bounds", newPkt, newPkt.Params[0], "data", 0)
	}
	for _, fn := range []*ssa.Function{p4, p6} {
		if fn == nil {
			continue
		}
		c20Orient(c, fn, fn == p6, fld)
		c20AllFields(c, fn, fld)
		c.g3CheckBounds("C20.bounds", fn, fn.Params[0], "data", 0)
	}
	c20Direction(c)
}

func c20ParserSig(fn *ssa.Function) bool {
	if len(fn.Params) != 3 || errResultIndex(fn) != 0 {
		return false
	}
	if s, ok := fn.Params[0].Type().Underlying().(*types.Slice); !ok || !isByte(s.Elem()) {
		return false
	}
	if b, ok := fn.Params[1].Type().Underlying().(*types.Basic); !ok || b.Kind() != types.Bool {
		return false
	}
	n := recvNamed(fn.Params[2].Type())
	return n != nil && n.Obj().Name() == "ParsedPacket"
}

func isByte(t types.Type) bool {
	b, ok := t.Underlying().(*types.Basic)
	return ok && b.Kind() == types.Uint8
}

// ---------------------------------------------------------------------------------------
// iputil.IPv6FindUpperProtocol

func c20Walker(c *Ctx, fn *ssa.Function) {
	res := fn.Signature.Results()
	okSig := len(fn.Params) == 1 && res.Len() == 5 && isByte(res.At(0).Type()) && errResultIndex(fn) == 4
	if okSig {
		for _, i := range []int{2, 3} {
			b, ok := res.At(i).Type().Underlying().(*types.Basic)
			okSig = okSig && ok && b.Kind() == types.Bool
		}
	}
	if !okSig {
		c.Unknown("anchor", fnName(fn), "signature is no longer (packet) (nextHeader uint8, offset int, isFragment, anyFragment bool, err error)")
		return
	}
	packet := fn.Params[0]
	c.g3CheckBounds("C20.bounds", fn, packet, "packet", 0)

	var normal, frag []Sink
	for _, s := range successReturns(fn, 4) {
		ret := s.Instr.(*ssa.Return)
		if isF, ok := boolConst(retResult(ret, 2)); !ok {
			c.Unknown("C20.classified", fnName(fn)+":isFragment", "a nil-error return yields a computed isFragment at "+c.instrPos(ret)+": unrecognised shape")
			return
		} else if isF {
			frag = append(frag, s)
		} else {
			normal = append(normal, s)
		}
	}
	if len(normal) == 0 {
		c.Unknown("C20.classified", fnName(fn)+":return", "no nil-error return with isFragment=false found")
		return
	}
	// ---- classified before returned
	var hdrV, offV *ssa.Phi // the loop-carried current header / offset
	var loopRet *ssa.Return // the accepting return inside the loop they are taken from
	for i, s := range normal {
		ret := s.Instr.(*ssa.Return)
		v := retResult(ret, 0)
		cons := fmt.Sprintf("%s:return#%d", fnName(fn), i)
		vals, open := c20PossibleBytes(fn, v, ret.Block(), s.ViaPred, 0)
		var ext []int
		for _, x := range vals {
			if _, is := c20ExtHdr[x]; is {
				ext = append(ext, x)
			}
		}
		switch {
		case len(ext) == 0:
			c.OK("C20.classified", cons, fmt.Sprintf("returned protocol is one of %d values, none an extension header", len(vals)))
			if p, ok := v.(*ssa.Phi); ok && hdrV == nil {
				hdrV, loopRet = p, ret
				offV, _ = retResult(ret, 1).(*ssa.Phi)
			}
		case open:
			c.Unknown("C20.classified", cons, "a test on the next-header value could not be evaluated; cannot show the returned value is not an extension header")
		default:
			c.Bad("C20.classified", cons, c.instrPos(ret), fmt.Sprintf("nil error is returned with a next-header value that was not tested to be a terminal protocol: it can be extension header %v (%s) - the caller would treat an extension header as the upper-layer protocol", ext, c20ExtHdr[ext[0]]), c.blockPath(reachable(fn.Blocks[0], nil), ret.Block())...)
		}
	}
	if hdrV == nil || offV == nil || hdrV.Block() != offV.Block() {
		c.Unknown("C20.walk-step", fnName(fn)+":loop", "the current next-header and offset are not loop-carried values of one loop: unrecognised walker shape")
		return
	}
	loop := hdrV.Block()
	hdrSets := g3ValueSets(fn, g3OneValue(256, func(v ssa.Value) bool { return v == ssa.Value(hdrV) }), loop, nil)
	only := func(set []int, allowed ...int) bool {
		ok, _ := g3All(set, func(x int) bool {
			for _, a := range allowed {
				if a == x {
					return true
				}
			}
			return false
		})
		return ok && len(set) > 0
	}
	// ---- fragment return
	for i, s := range frag {
		ret := s.Instr.(*ssa.Return)
		cons := fmt.Sprintf("%s:fragment-return#%d", fnName(fn), i)
		set := hdrSets.At(ret.Block(), s.ViaPred)
		anyT, isC := boolConst(retResult(ret, 3))
		switch {
		case !only(set, 44):
			c.Bad("C20.fragment-return", cons, c.instrPos(ret), fmt.Sprintf("isFragment=true is returned where the current header can be %s, not only the fragment header (44)", g3SetStr(set)))
		case !isC || !anyT:
			c.Bad("C20.fragment-return", cons, c.instrPos(ret), "a non-first fragment is reported without anyFragment=true")
		default:
			c.OK("C20.fragment-return", cons, "only in the arm of header 44, anyFragment=true")
		}
	}
	// ---- fragment offset bits (bytes offset+2, offset+3 of the fragment header)
	atOff := func(k int64) func(ssa.Value) bool {
		return func(v ssa.Value) bool {
			l, ok := g3ByteLoadOff(v, packet)
			return ok && l.Base == ssa.Value(offV) && l.K == k
		}
	}
	pair := g3Domain{N: 65536, Leaf: func(d int, v ssa.Value) (int64, bool) {
		return g3BytesLeaf(packet, offV, func(k int64) (int64, bool) {
			switch k {
			case 2:
				return int64(d >> 8), true
			case 3:
				return int64(d & 255), true
			}
			return 0, false
		})(v)
	}}
	nonFirst := func(d int) bool { return d>>8 != 0 || d&0xf8 != 0 }
	fragSets := g3ValueSets(fn, pair, loop, nil)
	for i, s := range frag {
		ret := s.Instr.(*ssa.Return)
		cons := fmt.Sprintf("%s:fragment-return#%d:offset-nonzero", fnName(fn), i)
		ok, cex := g3All(fragSets.At(ret.Block(), s.ViaPred), nonFirst)
		c.Check(ok, "C20.frag-offset", cons, c.instrPos(ret), "reached only with a non-zero 13-bit fragment offset",
			fmt.Sprintf("a first fragment (offset bytes %#02x %#02x: 13-bit offset zero) is reported as a non-first fragment: its transport header would be ignored", cex>>8, cex&255))
	}
	// ---- per-arm step, next-header reload, anyFragment, and the fragment arm's continue side
	lenByte := atOff(1)
	inLoop := func(lf g3PhiLeaf) bool { return lf.Pred != nil && loop.Dominates(lf.Pred) }
	anyAt := map[*ssa.BasicBlock]ssa.Value{} // value of anyFragment carried by the back edge leaving block p
	anyV := retResult(loopRet, 3)
	for _, lf := range g3PhiLeaves(anyV) {
		if inLoop(lf) {
			anyAt[lf.Pred] = lf.Val
		} else if lf.Pred != nil {
			bv, isC := boolConst(lf.Val)
			c.Check(isC && !bv, "C20.any-fragment", fnName(fn)+":initial", c.P.Pos(fn.Pos()), "starts false", "anyFragment does not start as false")
		}
	}
	nArm := 0
	for _, lf := range g3PhiLeaves(offV) {
		if !inLoop(lf) {
			k, isK := constInt(lf.Val)
			c.Check(isK && k == 40, "C20.walk-step", fnName(fn)+":initial-offset", c.P.Pos(fn.Pos()), "walk starts after the 40-byte fixed header", "the walk does not start at offset 40 (end of the fixed IPv6 header)")
			continue
		}
		set := hdrSets.At(lf.Pred, nil)
		arm := fmt.Sprintf("%s:arm%v", fnName(fn), set)
		pos := c.instrPos(lf.Pred.Instrs[0])
		nArm++
		if len(set) == 0 {
			c.Unknown("C20.walk-step", arm+":offset", "arm not reachable for any header value")
			continue
		}
		var delta ssa.Value
		constDelta := int64(-1)
		if bo, ok := lf.Val.(*ssa.BinOp); ok && bo.Op == token.ADD {
			switch {
			case bo.X == ssa.Value(offV):
				delta = bo.Y
			case bo.Y == ssa.Value(offV):
				delta = bo.X
			}
		}
		if l := g3LinOf(lf.Val); l.Base == ssa.Value(offV) {
			constDelta, delta = l.K, nil
		}
		bad := ""
		if delta == nil && constDelta < 0 {
			bad = "?"
		}
		for _, h := range set {
			if bad != "" {
				break
			}
			if _, isExt := c20ExtHdr[h]; !isExt {
				bad = fmt.Sprintf("header %d, which is not an extension header, is stepped over", h)
			}
			for l := int64(0); l < 256 && bad == ""; l++ {
				got := constDelta
				if delta != nil {
					ll := l
					var ok bool
					got, ok = g3Eval(delta, func(v ssa.Value) (int64, bool) {
						if lenByte(v) {
							return ll, true
						}
						return 0, false
					})
					if !ok {
						bad = "?"
						break
					}
				}
				if want := c20StepLen(h, l); got != want {
					bad = fmt.Sprintf("header %d (%s) with Hdr Ext Len %d advances by %d bytes, an independent parser by %d: the upper-layer header is looked for at the wrong place", h, c20ExtHdr[h], l, got, want)
				}
			}
		}
		switch bad {
		case "":
			c.OK("C20.walk-step", arm+":offset", "advance equals the RFC length for all 256 length bytes")
		case "?":
			c.Unknown("C20.walk-step", arm+":offset", "new offset is not old offset + a length computed from the Hdr Ext Len byte: unrecognised shape")
		default:
			c.Bad("C20.walk-step", arm+":offset", pos, bad)
		}
		// anyFragment along the same back edge
		av := anyAt[lf.Pred]
		if av == nil {
			av = anyV // not loop-carried at all: the one value it always has
		}
		bv, isC := boolConst(av)
		has44 := false
		for _, h := range set {
			has44 = has44 || h == 44
		}
		switch {
		case only(set, 44):
			c.Check(isC && bv, "C20.any-fragment", arm, pos, "fragment arm sets anyFragment", "a packet with a fragment header continues the walk without anyFragment=true: a first fragment would be treated as unfragmented")
			ok, cex := g3All(fragSets.At(lf.Pred, nil), func(d int) bool { return !nonFirst(d) })
			c.Check(ok, "C20.frag-offset", arm+":offset-zero", pos, "the walk continues past a fragment header only when the 13-bit offset is zero",
				fmt.Sprintf("a non-first fragment (offset bytes %#02x %#02x) is walked as if it carried the upper-layer header: payload bytes would be read as ports", cex>>8, cex&255))
		case !has44:
			c.Check(av == anyV, "C20.any-fragment", arm, pos, "non-fragment arm leaves anyFragment unchanged", "anyFragment is changed on an arm that is not the fragment header's")
		default:
			c.Unknown("C20.any-fragment", arm, "arm shared by the fragment header and others")
		}
	}
	for _, lf := range g3PhiLeaves(hdrV) {
		if !inLoop(lf) {
			c.Check(g3IsByteLoad(packet, 6)(lf.Val), "C20.walk-step", fnName(fn)+":initial-header", c.P.Pos(fn.Pos()), "first next-header is byte 6 of the fixed header", "the first next-header value is not read from byte 6 of the fixed header")
			continue
		}
		set := hdrSets.At(lf.Pred, nil)
		c.Check(atOff(0)(lf.Val), "C20.walk-step", fmt.Sprintf("%s:arm%v:next-header", fnName(fn), set), c.instrPos(lf.Pred.Instrs[0]), "next-header re-read from the first byte of the current extension header", "the next header value is not the first byte of the current extension header")
	}
	if nArm < 3 {
		c.Unknown("C20.walk-step", fnName(fn)+":arms", fmt.Sprintf("only %d stepping arms found", nArm))
	}
}

// c20PossibleBytes: the byte values v can have at block b (arriving from via), from the tests made
// on v since its definition; a merge (phi) that was not itself tested is the union of its inputs.
func c20PossibleBytes(fn *ssa.Function, v ssa.Value, b, via *ssa.BasicBlock, depth int) (vals []int, open bool) {
	if k, ok := constInt(v); ok {
		return []int{int(k)}, false
	}
	var reset *ssa.BasicBlock
	if in, ok := v.(ssa.Instruction); ok {
		reset = in.Block()
	}
	s := g3ValueSets(fn, g3OneValue(256, func(x ssa.Value) bool { return x == v }), reset, nil)
	vals = s.At(b, via)
	open = len(s.Open) > 0
	phi, isPhi := v.(*ssa.Phi)
	if len(vals) < 256 || !isPhi || depth > 2 {
		return
	}
	seen := map[int]bool{}
	for i, e := range phi.Edges {
		if e == v {
			continue
		}
		sub, o := c20PossibleBytes(fn, e, phi.Block(), phi.Block().Preds[i], depth+1)
		open = open || o
		for _, x := range sub {
			seen[x] = true
		}
	}
	vals = vals[:0]
	for x := range seen {
		vals = append(vals, x)
	}
	sort.Ints(vals)
	return
}

// ---------------------------------------------------------------------------------------
// parseV6 takes its classification from the walker

func c20FromWalker(c *Ctx, fn *ssa.Function, fld map[string]*types.Var) {
	wref := Ref{"iputil", "", "IPv6FindUpperProtocol"}
	calls := callsIn(fn, wref)
	if len(calls) != 1 {
		c.Bad("C20.from-walker", fnName(fn)+":walker-call", c.P.Pos(fn.Pos()), fmt.Sprintf("parseV6 calls the extension-header walker %d times (expected once): protocol and offset do not come from the single source of truth", len(calls)))
		return
	}
	call := calls[0].(*ssa.Call)
	c.Check(call.Call.Args[0] == ssa.Value(fn.Params[0]), "C20.from-walker", fnName(fn)+":walker-arg", c.instrPos(call), "walker runs on the whole packet", "the walker is not given the packet parseV6 received")
	for _, w := range []struct {
		field string
		idx   int
	}{{"Protocol", 0}, {"IPHdrLen", 1}, {"Fragment", 2}, {"FragAny", 3}} {
		n := 0
		eachInstr(fn, func(in ssa.Instruction) {
			st, ok := g3FieldStore(in, fld[w.field], fn.Params[2])
			if !ok {
				return
			}
			n++
			ex, isEx := stripValue(st.Val).(*ssa.Extract)
			same := isEx && ex.Tuple == ssa.Value(call) && ex.Index == w.idx
			cons := fmt.Sprintf("%s:%s#%d", fnName(fn), w.field, n)
			switch {
			case same:
				c.OK("C20.from-walker", cons, fmt.Sprintf("result #%d of the walker", w.idx))
			case derivesFrom(st.Val, sliceLocal, func(x ssa.Value) bool {
				e, ok := x.(*ssa.Extract)
				return ok && e.Tuple == ssa.Value(call) && e.Index == w.idx
			}):
				c.Unknown("C20.from-walker", cons, "value is computed from the walker's result, not the result itself: unrecognised shape")
			default:
				c.Bad("C20.from-walker", cons, c.instrPos(st), fmt.Sprintf("fp.%s is not the walker's result #%d: the firewall would see a %s the extension-header walk did not produce", w.field, w.idx, w.field))
			}
		})
		if n == 0 {
			c.Unknown("C20.from-walker", fnName(fn)+":"+w.field, "no store of the field found")
		}
	}
	c.requireGuards("C20.from-walker", fn, successReturns(fn, 0), "accept", gErrNil("walker error is nil", callTo(wref)))
}

// ---------------------------------------------------------------------------------------
// parseV4 header fields

// c20HeaderBytes collects the constant packet offsets v is computed from (byte loads and
// encoding/binary reads of constant sub-slices); ok=false when it reads anything else.
func c20HeaderBytes(v, data ssa.Value) (offs []int64, ok bool) {
	ok = true
	set := map[int64]bool{}
	var walk func(x ssa.Value, d int)
	walk = func(x ssa.Value, d int) {
		if l, is := g3ByteLoadOff(x, data); is {
			ok = ok && l.Base == nil
			set[l.K] = true
			return
		}
		switch y := x.(type) {
		case *ssa.Const:
		case *ssa.BinOp:
			walk(y.X, d+1)
			walk(y.Y, d+1)
		case *ssa.Convert:
			walk(y.X, d+1)
		case *ssa.ChangeType:
			walk(y.X, d+1)
		case *ssa.UnOp:
			if fw, is := c20ForwardedLoad(y); is && d <= 20 {
				walk(fw, d+1)
				return
			}
			if y.Op == token.MUL || d > 20 {
				ok = false
				return
			}
			walk(y.X, d+1)
		case *ssa.Phi:
			// a loop-free merge (&& / ||): its inputs and the conditions that select among them
			if d > 6 || y.Block().Idom() == nil {
				ok = false
				return
			}
			for _, e := range y.Edges {
				walk(e, d+3)
			}
			for _, b := range g3MergeRegion(y) {
				if ifi, is := b.Instrs[len(b.Instrs)-1].(*ssa.If); is {
					walk(ifi.Cond, d+3)
				}
			}
		case *ssa.Call:
			_, w, put, buf, is := g3BinaryCall(y)
			ref, r := g3ResolveBuf(buf, data)
			if !is || put || !r || ref.Off.Base != nil || ref.Open || ref.Width != int64(w) {
				ok = false
				return
			}
			for i := int64(0); i < int64(w); i++ {
				set[ref.Off.K+i] = true
			}
		default:
			ok = false
		}
	}
	walk(v, 0)
	for k := range set {
		offs = append(offs, k)
	}
	sort.Slice(offs, func(i, j int) bool { return offs[i] < offs[j] })
	return
}

// c20ForwardedLoad: v re-reads a field of a parameter struct (fp.X) that this function stored exactly
// once, on a point dominating the read, with no call in between that receives the struct: the read
// is that stored value.
func c20ForwardedLoad(v ssa.Value) (ssa.Value, bool) {
	u, ok := v.(*ssa.UnOp)
	if !ok || u.Op != token.MUL {
		return nil, false
	}
	fa, ok := u.X.(*ssa.FieldAddr)
	if !ok {
		return nil, false
	}
	if _, isParam := fa.X.(*ssa.Parameter); !isParam {
		return nil, false
	}
	var st *ssa.Store
	n := 0
	eachInstr(u.Parent(), func(in ssa.Instruction) {
		s, is := in.(*ssa.Store)
		if !is {
			return
		}
		if a, is := s.Addr.(*ssa.FieldAddr); is && a.X == fa.X && a.Field == fa.Field {
			st = s
			n++
		}
	})
	if n != 1 {
		return nil, false
	}
	sb, lb := st.Block(), u.Block()
	if sb == lb {
		si, li := -1, -1
		for i, in := range sb.Instrs {
			if in == ssa.Instruction(st) {
				si = i
			}
			if in == ssa.Instruction(u) {
				li = i
			}
		}
		if si < 0 || li < 0 || si > li {
			return nil, false
		}
	} else if !sb.Dominates(lb) {
		return nil, false
	}
	// the struct must not escape to a callee that could rewrite the field
	esc := false
	eachInstr(u.Parent(), func(in ssa.Instruction) {
		if ci, is := in.(ssa.CallInstruction); is {
			for _, a := range ci.Common().Args {
				if a == fa.X {
					esc = true
				}
			}
		}
	})
	if esc {
		return nil, false
	}
	return st.Val, true
}

// c20ByteLeaf evaluates byte loads / big- or little-endian reads of data at constant offsets under
// an assignment of packet bytes.
func c20ByteLeaf(data ssa.Value, bytes map[int64]int64) g3Leaf {
	return g3BytesLeaf(data, nil, func(k int64) (int64, bool) { b, ok := bytes[k]; return b, ok })
}

func c20V4Fields(c *Ctx, fn *ssa.Function, fld map[string]*types.Var) {
	data, fp := fn.Params[0], fn.Params[2]
	b2i := func(b bool) int64 {
		if b {
			return 1
		}
		return 0
	}
	spec := map[string]struct {
		offs []int64
		f    func(b map[int64]int64) int64
		what string
	}{
		"IPHdrLen": {[]int64{0}, func(b map[int64]int64) int64 { return (b[0] & 15) * 4 }, "IHL (low nibble of byte 0) * 4"},
		"Protocol": {[]int64{9}, func(b map[int64]int64) int64 { return b[9] }, "byte 9"},
		"Fragment": {[]int64{6, 7}, func(b map[int64]int64) int64 { return b2i((b[6]<<8|b[7])&0x1fff != 0) }, "13-bit fragment offset != 0"},
		"FragAny":  {[]int64{6, 7}, func(b map[int64]int64) int64 { return b2i((b[6]<<8|b[7])&0x3fff != 0) }, "MF flag or fragment offset != 0"},
	}
	for _, name := range []string{"IPHdrLen", "Protocol", "Fragment", "FragAny"} {
		sp := spec[name]
		n := 0
		eachInstr(fn, func(in ssa.Instruction) {
			st, ok := g3FieldStore(in, fld[name], fp)
			if !ok {
				return
			}
			n++
			cons := fmt.Sprintf("%s:%s#%d", fnName(fn), name, n)
			offs, ok := c20HeaderBytes(st.Val, data)
			if !ok || len(offs) > 2 {
				c.Unknown("C20.v4-fields", cons, "value is not a function of at most two constant header bytes: unrecognised shape")
				return
			}
			all := map[int64]bool{}
			for _, o := range append(append([]int64{}, offs...), sp.offs...) {
				all[o] = true
			}
			var keys []int64
			for k := range all {
				keys = append(keys, k)
			}
			sort.Slice(keys, func(i, j int) bool { return keys[i] < keys[j] })
			if len(keys) > 2 {
				c.Bad("C20.v4-fields", cons, c.instrPos(st), fmt.Sprintf("fp.%s is computed from header bytes %v, an independent parser uses %s", name, offs, sp.what))
				return
			}
			total := 1
			for range keys {
				total *= 256
			}
			for m := 0; m < total; m++ {
				bytes := map[int64]int64{}
				for i, k := range keys {
					bytes[k] = int64(m >> (8 * uint(i)) & 255)
				}
				base := c20ByteLeaf(data, bytes)
				var leaf g3Leaf
				leaf = func(x ssa.Value) (int64, bool) {
					if r, ok := base(x); ok {
						return r, true
					}
					if fw, is := c20ForwardedLoad(x); is {
						return g3Eval(fw, leaf)
					}
					return 0, false
				}
				got, ok := g3Eval(st.Val, leaf)
				if !ok {
					c.Unknown("C20.v4-fields", cons, "expression not evaluable")
					return
				}
				if want := sp.f(bytes); got != want {
					c.Bad("C20.v4-fields", cons, c.instrPos(st), fmt.Sprintf("with header bytes %v fp.%s becomes %d, an independent parser finds %d (%s)", bytes, name, got, want, sp.what))
					return
				}
			}
			c.OK("C20.v4-fields", cons, fmt.Sprintf("equals %s for all %d values of bytes %v", sp.what, total, keys))
		})
		if n == 0 {
			c.Unknown("C20.v4-fields", fnName(fn)+":"+name, "no store of the field found")
		}
	}
	// IHL >= 5 on every accepting path
	sets := g3ValueSets(fn, g3OneValue(256, g3IsByteLoad(data, 0)), nil, nil)
	for i, s := range successReturns(fn, 0) {
		set := sets.At(s.Instr.Block(), s.ViaPred)
		ok, cex := g3All(set, func(b int) bool { return b&15 >= 5 })
		c.Check(ok && len(set) > 0, "C20.v4-ihl", fmt.Sprintf("%s:accept#%d", fnName(fn), i), c.instrPos(s.Instr), fmt.Sprintf("accepted only with IHL >= 5 (%d first-byte values)", len(set)),
			fmt.Sprintf("a packet whose first byte is %#02x (IHL %d < 5, header shorter than the fixed 20 bytes) is accepted: ports would be read from inside the IP header", cex, cex&15))
	}
}

// ---------------------------------------------------------------------------------------
// newPacket dispatch

func c20Dispatch(c *Ctx, fn *ssa.Function) {
	data := fn.Params[0]
	sets := g3ValueSets(fn, g3OneValue(256, g3IsByteLoad(data, 0)), nil, nil)
	accepted := map[ssa.Value]bool{}
	for _, d := range []struct {
		ref Ref
		ver int
	}{{Ref{"", "", "parseV4"}, 4}, {Ref{"", "", "parseV6"}, 6}} {
		calls := callsIn(fn, d.ref)
		if len(calls) == 0 {
			c.Unknown("C20.dispatch", fnName(fn)+":"+d.ref.Name, "no call found")
			continue
		}
		for i, ci := range calls {
			call := ci.(*ssa.Call)
			accepted[call] = true
			cons := fmt.Sprintf("%s:%s#%d", fnName(fn), d.ref.Name, i)
			set := sets.At(call.Block(), nil)
			ok, cex := g3All(set, func(b int) bool { return b>>4 == d.ver })
			same := true
			for k, a := range call.Call.Args {
				same = same && k < len(fn.Params) && a == ssa.Value(fn.Params[k])
			}
			switch {
			case !ok || len(set) == 0:
				c.Bad("C20.dispatch", cons, c.instrPos(call), fmt.Sprintf("%s is reached for a packet whose first byte is %#02x (version %d): parsed with the wrong header layout", d.ref.Name, cex, cex>>4))
			case !same:
				c.Bad("C20.dispatch", cons, c.instrPos(call), d.ref.Name+" is not given newPacket's own (data, incoming, fp): the direction or the packet differs from what the caller passed")
			default:
				c.OK("C20.dispatch", cons, fmt.Sprintf("only for version nibble %d, arguments passed through", d.ver))
			}
		}
	}
	okRet := true
	for _, ret := range g3ReturnsOf(fn) {
		v := retResult(ret, 0)
		if definitelyNonNil(v, 0) || accepted[stripValue(v)] {
			continue
		}
		okRet = false
		c.Bad("C20.dispatch", fnName(fn)+":returns", c.instrPos(ret), "newPacket can return a nil error without the verdict of parseV4/parseV6: a packet is accepted unparsed")
	}
	if okRet {
		c.OK("C20.dispatch", fnName(fn)+":returns", "every return is an error or the verdict of parseV4/parseV6")
	}
}

// ---------------------------------------------------------------------------------------
// orientation of addresses, ports and identifier

func c20Orient(c *Ctx, fn *ssa.Function, v6 bool, fld map[string]*types.Var) {
	data, incoming, fp := fn.Params[0], fn.Params[1], fn.Params[2]
	srcAddr, dstAddr, icmp := [2]int64{12, 16}, [2]int64{16, 20}, 1 // RFC 791 source / destination address; ICMP
	if v6 {
		srcAddr, dstAddr, icmp = [2]int64{8, 24}, [2]int64{24, 40}, 58 // RFC 8200; ICMPv6
	}
	// the header length the ports are relative to: the single value stored into IPHdrLen
	var hdr ssa.Value
	nHdr := 0
	var protoSt, fragSt *ssa.Store
	eachInstr(fn, func(in ssa.Instruction) {
		if st, ok := g3FieldStore(in, fld["IPHdrLen"], fp); ok {
			hdr = st.Val
			nHdr++
		}
		if st, ok := g3FieldStore(in, fld["Protocol"], fp); ok {
			protoSt = st
		}
		if st, ok := g3FieldStore(in, fld["Fragment"], fp); ok {
			fragSt = st
		}
	})
	if nHdr != 1 || protoSt == nil || fragSt == nil {
		c.Unknown("C20.orient", fnName(fn)+":header-length", "IPHdrLen / Protocol / Fragment are not stored exactly once: cannot relate the port offsets and the arms to them")
		return
	}
	// protocol / fragment status on a path: the stored SSA value itself, or a re-load of the field
	// after its single store
	isProto := func(v ssa.Value) bool {
		return stripValue(v) == stripValue(protoSt.Val) || (g3FieldLoadOf(fld["Protocol"], fp)(v) && protoSt.Block().Dominates(v.(ssa.Instruction).Block()))
	}
	isFrag := func(v ssa.Value) bool {
		return v == fragSt.Val || (g3FieldLoadOf(fld["Fragment"], fp)(v) && fragSt.Block().Dominates(v.(ssa.Instruction).Block()))
	}
	// element = incoming<<9 | fragment<<8 | protocol
	dom := g3Domain{N: 1024, Leaf: func(d int, v ssa.Value) (int64, bool) {
		switch {
		case v == ssa.Value(incoming):
			return int64(d >> 9 & 1), true
		case isFrag(v):
			return int64(d >> 8 & 1), true
		case isProto(v):
			return int64(d & 255), true
		}
		return 0, false
	}}
	sets := g3ValueSets(fn, dom, nil, nil)
	typeSets := g3ValueSets(fn, g3OneValue(256, func(v ssa.Value) bool {
		l, ok := g3ByteLoadOff(v, data)
		return ok && l.Base == hdr && l.K == 0
	}), nil, nil)
	desc := func(d int) string {
		return fmt.Sprintf("incoming=%v fragment=%v protocol=%d", d>>9&1 == 1, d>>8&1 == 1, d&255)
	}
	ord := map[string]int{}
	eachInstr(fn, func(in ssa.Instruction) {
		for _, name := range []string{"LocalAddr", "RemoteAddr", "LocalPort", "RemotePort"} {
			st, ok := g3FieldStore(in, fld[name], fp)
			if !ok {
				continue
			}
			ord[name]++
			cons := fmt.Sprintf("%s:%s#%d", fnName(fn), name, ord[name])
			set := sets.At(st.Block(), nil)
			if len(set) == 0 {
				c.Unknown("C20.orient", cons, "store not reachable for any (direction, fragment, protocol)")
				continue
			}
			remote := name == "RemoteAddr" || name == "RemotePort"
			var check func(d int) bool
			var what, want string
			isAddr := name == "LocalAddr" || name == "RemoteAddr"
			kind, lo, hi := c20Source(st.Val, data, hdr)
			switch {
			case isAddr && kind == "addr" && ([2]int64{lo, hi} == srcAddr || [2]int64{lo, hi} == dstAddr):
				isSrc := [2]int64{lo, hi} == srcAddr
				what = fmt.Sprintf("bytes %d:%d", lo, hi)
				want = "the source address is the remote end of an incoming packet and the local end of an outgoing one"
				check = func(d int) bool { return (d>>9&1 == 1) == (isSrc == remote) }
			case !isAddr && kind == "port" && (lo == 0 || lo == 2) && hi == lo+2:
				isSrc := lo == 0
				what = fmt.Sprintf("transport bytes %d:%d", lo, hi)
				want = "the source port is the remote port of an incoming packet and the local port of an outgoing one; fragments and ICMP carry no ports"
				check = func(d int) bool { return (d>>9&1 == 1) == (isSrc == remote) && d>>8&1 == 0 && d&255 != icmp }
			case !isAddr && kind == "port" && lo == 4 && hi == 6:
				what = "transport bytes 4:6 (ICMP echo identifier)"
				want = "the identifier belongs in RemotePort, for unfragmented ICMP only"
				check = func(d int) bool { return remote && d>>8&1 == 0 && d&255 == icmp }
				if v6 {
					ts := typeSets.At(st.Block(), nil)
					if ok, cex := g3All(ts, func(t int) bool { return t == 128 || t == 129 }); !ok || len(ts) == 0 {
						c.Bad("C20.orient", cons, c.instrPos(st), fmt.Sprintf("the ICMPv6 identifier is read for message type %d, which has none (only echo request 128 / reply 129 do)", cex))
						continue
					}
				}
			case !isAddr && kind == "zero":
				what = "0"
				want = "an unfragmented TCP/UDP packet has ports"
				check = func(d int) bool { return d>>8&1 == 1 || (d&255 != 6 && d&255 != 17) }
				if v6 && remote {
					// zero identifier only for non-echo ICMPv6
					if ok, _ := g3All(set, func(d int) bool { return d&255 == icmp && d>>8&1 == 0 }); ok {
						ts := typeSets.At(st.Block(), nil)
						if ok, cex := g3All(ts, func(t int) bool { return t != 128 && t != 129 }); !ok {
							c.Bad("C20.orient", cons, c.instrPos(st), fmt.Sprintf("RemotePort is zeroed for ICMPv6 type %d, an echo message whose identifier keys the flow", cex))
							continue
						}
					}
				}
			default:
				if kind == "?" {
					c.Unknown("C20.orient", cons, "stored value is neither netip.AddrFromSlice(data[a:b]), BigEndian.Uint16(data[hdr+a:hdr+b]) nor zero: unrecognised shape")
				} else {
					c.Bad("C20.orient", cons, c.instrPos(st), fmt.Sprintf("fp.%s is taken from %s %d:%d, which is not where an independent parser finds it", name, kind, lo, hi))
				}
				continue
			}
			ok, cex := g3All(set, check)
			c.Check(ok, "C20.orient", cons, c.instrPos(st), fmt.Sprintf("%s in %d (direction, fragment, protocol) cases", what, len(set)),
				fmt.Sprintf("fp.%s = %s is reached with %s, but %s", name, what, desc(cex), want))
		}
	})
}

// c20Source classifies a stored value: ("addr", lo, hi) netip.AddrFromSlice(data[lo:hi]);
// ("port", a, b) BigEndian.Uint16(data[hdr+a:hdr+b]); ("zero"); ("LE-port"...) wrong endianness; "?".
func c20Source(v, data, hdr ssa.Value) (string, int64, int64) {
	if k, ok := constInt(v); ok && k == 0 {
		return "zero", 0, 0
	}
	if ex, ok := v.(*ssa.Extract); ok && ex.Index == 0 {
		if call, ok := ex.Tuple.(*ssa.Call); ok && matchFunc(calleeObj(call), Ref{"net/netip", "", "AddrFromSlice"}) {
			if ref, ok := g3ResolveBuf(call.Call.Args[0], data); ok && !ref.Open && ref.Off.Base == nil && ref.Width >= 0 {
				return "addr", ref.Off.K, ref.Off.K + ref.Width
			}
		}
		return "?", 0, 0
	}
	if call, ok := v.(*ssa.Call); ok {
		if e, w, put, buf, ok := g3BinaryCall(call); ok && !put && w == 2 {
			if ref, ok := g3ResolveBuf(buf, data); ok && !ref.Open && ref.Width == 2 && ref.Off.Base == hdr {
				if e != "BE" {
					return "little-endian transport bytes", ref.Off.K, ref.Off.K + 2
				}
				return "port", ref.Off.K, ref.Off.K + 2
			}
			if ref, ok := g3ResolveBuf(buf, data); ok && ref.Off.Base == nil {
				return "fixed packet bytes", ref.Off.K, ref.Off.K + 2
			}
		}
	}
	return "?", 0, 0
}

// ---------------------------------------------------------------------------------------
// every accepting path writes every field

func c20AllFields(c *Ctx, fn *ssa.Function, fld map[string]*types.Var) {
	fp := fn.Params[2]
	sinks := successReturns(fn, 0)
	if len(sinks) == 0 {
		c.Unknown("C20.all-fields", fnName(fn), "no accepting return found")
		return
	}
	var names []string
	for n := range fld {
		names = append(names, n)
	}
	sort.Strings(names)
	for _, name := range names {
		f := fld[name]
		bad := false
		for _, s := range sinks {
			if av, path := c.avoidsCut(fn, nil, s.Instr, func(in ssa.Instruction) bool { _, ok := g3FieldStore(in, f, fp); return ok }); av {
				bad = true
				c.Bad("C20.all-fields", fnName(fn)+":"+name, c.instrPos(s.Instr), "a packet is accepted on a path that never writes fp."+name+": the reused ParsedPacket keeps the previous packet's value", path...)
				break
			}
		}
		if !bad {
			c.OK("C20.all-fields", fnName(fn)+":"+name, fmt.Sprintf("written on every path to the %d accepting return(s)", len(sinks)))
		}
	}
}

// ---------------------------------------------------------------------------------------
// direction at the call sites

// callers of newPacket whose direction is fixed by where their packets come from
var c20Callers = map[string]struct {
	incoming bool
	why      string
}{
	"consumeInsidePacket":        {false, "packets read from the tun device are outgoing"},
	"sendMessageNow":             {false, "cached packets that were read from the tun device before the tunnel was up"},
	"handleOutsideMessagePacket": {true, "packets decrypted from a peer are incoming"},
}

func c20Direction(c *Ctx) {
	np := Ref{"", "", "newPacket"}
	drop := Ref{"", "Firewall", "Drop"}
	var funcs []*ssa.Function
	for _, f := range c.moduleFuncs() {
		if pkgPathOf(f) == nebulaMod {
			funcs = append(funcs, f)
		}
	}
	ord := map[string]int{}
	for _, cs := range callersOf(funcs, np) {
		name := topFunc(cs.Fn).Name()
		ord[name]++
		cons := fmt.Sprintf("%s:newPacket#%d", name, ord[name])
		ci, isCall := cs.Instr.(ssa.CallInstruction)
		if !isCall || cs.Kind != "call" {
			c.Unknown("C20.direction", cons, "newPacket is used as a function value: its direction argument cannot be decided")
			continue
		}
		dir, isC := boolConst(ci.Common().Args[1])
		if !isC {
			c.Unknown("C20.direction", cons, "direction argument is not a constant")
			continue
		}
		tab, tabled := c20Callers[name]
		if tabled && tab.incoming != dir {
			c.Bad("C20.direction", cons, c.instrPos(cs.Instr), fmt.Sprintf("%s parses with incoming=%v, but %s: Local/Remote would be swapped", name, dir, tab.why))
			continue
		}
		// the firewall must be asked with the same direction
		agree, nDrop := true, 0
		for _, f := range funcsWithAnon(topFunc(cs.Fn)) {
			for _, d := range callsIn(f, drop) {
				nDrop++
				dd, ok := boolConst(callArgs(d)[2])
				agree = agree && ok && dd == dir
			}
		}
		switch {
		case !agree:
			c.Bad("C20.direction", cons, c.instrPos(cs.Instr), fmt.Sprintf("%s parses the packet with incoming=%v but evaluates the firewall with the other direction", name, dir))
		case !tabled && nDrop == 0:
			c.Unknown("C20.direction", cons, "caller is not in the direction table and does not call Firewall.Drop: its direction cannot be decided")
		default:
			c.OK("C20.direction", cons, fmt.Sprintf("incoming=%v, same as %d Firewall.Drop call(s)", dir, nDrop))
		}
	}
}
