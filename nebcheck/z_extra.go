package main

// Rules added after the independent seeded regressions were run against the checks (DESIGN.md §7.1): each closes a gap one of
// them exposed. They are attached to the property's Run so the property files written earlier stay untouched.

import (
	"fmt"
	"go/token"
	"go/types"
	"strings"

	"golang.org/x/tools/go/ssa"
)

func init() {
	extend := func(id string, canaries []Canary, extra func(c *Ctx)) {
		p := registry[id]
		if p == nil {
			panic("z_extra: property " + id + " not registered")
		}
		orig, origCan := p.Run, p.Canaries
		p.Run = func(c *Ctx) { orig(c); extra(c) }
		p.Canaries = func(c *Ctx) []Canary {
			var out []Canary
			if origCan != nil {
				out = origCan(c)
			}
			return append(out, canaries...)
		}
	}
	extend("C34", []Canary{
		{Name: "cache-callback-under-read-lock", File: "handshake_manager.go", Old: "func (hm *HandshakeManager) StartHandshake(vpnAddr netip.Addr, cacheCb func(*HandshakeHostInfo)) *HostInfo {\n\thm.Lock()\n\n\tif hh, ok := hm.vpnIps[vpnAddr]; ok {\n\t\t// We are already trying to handshake with this vpn ip\n\t\tif cacheCb != nil {\n\t\t\tcacheCb(hh)\n\t\t}\n\t\thm.Unlock()\n\t\treturn hh.hostinfo\n\t}\n", New: "func (hm *HandshakeManager) StartHandshake(vpnAddr netip.Addr, cacheCb func(*HandshakeHostInfo)) *HostInfo {\n\thm.RLock()\n\tif hh, ok := hm.vpnIps[vpnAddr]; ok {\n\t\tif cacheCb != nil {\n\t\t\tcacheCb(hh)\n\t\t}\n\t\thm.RUnlock()\n\t\treturn hh.hostinfo\n\t}\n\thm.RUnlock()\n\thm.Lock()\n\n\tif hh, ok := hm.vpnIps[vpnAddr]; ok {\n\t\t// We are already trying to handshake with this vpn ip\n\t\tif cacheCb != nil {\n\t\t\tcacheCb(hh)\n\t\t}\n\t\thm.Unlock()\n\t\treturn hh.hostinfo\n\t}\n", Rule: "C34.callback-exclusive"},
	}, c34CallbackExclusive)
	extend("C02", []Canary{
		{Name: "fingerprint-memoised-and-copied", File: "cert/cert_v2.go", Old: "func (c *certificateV2) Fingerprint() (string, error) {\n\tif len(c.rawDetails) == 0 {\n\t\treturn \"\", ErrMissingDetails\n\t}\n", New: "func (c *certificateV2) Fingerprint() (string, error) {\n\tif c.curve == Curve_P256 && len(c.signature) == 1 {\n\t\treturn string(c.publicKey), nil\n\t}\n\tif len(c.rawDetails) == 0 {\n\t\treturn \"\", ErrMissingDetails\n\t}\n", Rule: "C02.fingerprint-fresh"},
	}, c02FingerprintFresh)
	extend("C04", []Canary{
		{Name: "normalize-own-low-s-test", File: "cert/p256/p256.go", Old: "\tif checkLowS(r, s) {\n\t\treturn sig, nil\n\t}\n", New: "\tif len(s) < 32 || (len(s) == 32 && s[0] < 0x80) {\n\t\treturn sig, nil\n\t}\n", Rule: "C04.low-s"},
		{Name: "low-s-excludes-midpoint", File: "cert/p256/p256.go", Old: "\treturn bigS.Cmp(halfN) <= 0\n", New: "\treturn bigS.Cmp(halfN) < 0 || len(s) == 0\n", Rule: "C04.low-s"},
	}, c04LowSAgreement)
	extend("C08", []Canary{
		{Name: "envelope-returns-after-first-details", File: "handshake/payload.go", Old: "\t\t\tif err := unmarshalPayloadDetails(&p, details); err != nil {\n\t\t\t\treturn p, err\n\t\t\t}\n", New: "\t\t\tif err := unmarshalPayloadDetails(&p, details); err != nil {\n\t\t\t\treturn p, err\n\t\t\t}\n\t\t\treturn p, nil\n", Rule: "C08.exhausted"},
	}, c08Exhausted)
}

// ---------------------------------------------------------------------------------------
// C34: the cache callback handed to StartHandshake / GetOrHandshake appends to HandshakeHostInfo.packetStore, which has no lock
// of its own on that path: the appends of concurrent senders are serialised only by the handshake manager's WRITE lock held
// around the callback. (Seed C34: the lookup-and-callback was moved under the read lock.)
func c34CallbackExclusive(c *Ctx) {
	c.Rule("C34.callback-exclusive", "K3: a func(*HandshakeHostInfo) callback received as a parameter by a HandshakeManager method is invoked only with the manager's write lock held (it appends to the pending handshake's packet store, which has no other lock on that path)", 2)
	hhi := c.NamedType("", "HandshakeHostInfo")
	if hhi == nil {
		return
	}
	isCb := func(t types.Type) bool {
		sig, ok := t.Underlying().(*types.Signature)
		if !ok || sig.Params().Len() != 1 {
			return false
		}
		n := recvNamed(sig.Params().At(0).Type())
		return n != nil && n.Obj() == hhi.Obj()
	}
	for _, f := range c49Scope(c) {
		if f.Signature.Recv() == nil {
			continue
		}
		if n := recvNamed(f.Signature.Recv().Type()); n == nil || n.Obj().Name() != "HandshakeManager" {
			continue
		}
		var calls []ssa.Instruction
		eachInstr(f, func(in ssa.Instruction) {
			if call, ok := in.(*ssa.Call); ok && !call.Call.IsInvoke() {
				if p, ok := call.Call.Value.(*ssa.Parameter); ok && isCb(p.Type()) {
					calls = append(calls, in)
				}
			}
		})
		if len(calls) == 0 {
			continue
		}
		lf := lockFlow(f, nil, nil)
		for k, in := range calls {
			m, live := lf.mustAt(in, lockKey("HandshakeManager.RWMutex"))
			if !live {
				continue
			}
			c.Check(m == lkW, "C34.callback-exclusive", fmt.Sprintf("%s:callback#%d", fnName(f), k+1), c.instrPos(in), "manager write-locked", "the packet-cache callback runs with the handshake manager "+modeName(m)+": two senders to the same pending peer append to HandshakeHostInfo.packetStore concurrently (data race, lost packets)")
		}
	}
}

// ---------------------------------------------------------------------------------------
// C02: a fingerprint must be computed from the certificate's current bytes. (Seed C02: Fingerprint memoised its result in a
// field that Copy() carried over and setSignature() did not reset, so the alternate-signature fingerprint equalled the original.)
func c02FingerprintFresh(c *Ctx) {
	c.Rule("C02.fingerprint-fresh", "K11 on all paths: every non-error return of Fingerprint() derives from the sha256 of the current bytes; a stored value may be returned only if setSignature resets that field and Copy does not carry it", 2)
	for _, recv := range []string{"certificateV1", "certificateV2"} {
		fn := c.Func(Ref{"cert", recv, "Fingerprint"})
		if fn == nil {
			continue
		}
		named := c.NamedType("cert", recv)
		isHash := func(v ssa.Value) bool {
			call, _ := callOf(v)
			return call != nil && matchFunc(calleeObj(call), Ref{"crypto/sha256", "", "Sum256"})
		}
		var stale []*types.Var
		var fresh func(v ssa.Value, d int) bool
		fresh = func(v ssa.Value, d int) bool {
			if d > 10 {
				return false
			}
			if isHash(v) {
				return true
			}
			switch x := v.(type) {
			case *ssa.Const:
				return true // "" with an error, decided by the error result
			case *ssa.Phi:
				for _, e := range x.Edges {
					if !fresh(e, d+1) {
						return false
					}
				}
				return true
			case *ssa.Call:
				for _, a := range callArgs(x) {
					if fresh(a, d+1) {
						return true
					}
				}
				return false
			case *ssa.Slice:
				return fresh(x.X, d+1)
			case *ssa.Convert:
				return fresh(x.X, d+1)
			case *ssa.ChangeType:
				return fresh(x.X, d+1)
			case *ssa.Extract:
				return fresh(x.Tuple, d+1)
			case *ssa.Alloc:
				sts := storesInto(x)
				if len(sts) == 0 {
					return false
				}
				for _, s := range sts {
					if !fresh(s, d+1) {
						return false
					}
				}
				return true
			case *ssa.UnOp:
				if x.Op == token.MUL {
					if fa, ok := x.X.(*ssa.FieldAddr); ok {
						if n := recvNamed(fa.X.Type()); n != nil && named != nil && n.Obj() == named.Obj() {
							stale = append(stale, fieldOfAddr(fa))
							return false
						}
					}
					return fresh(x.X, d+1)
				}
			}
			return false
		}
		bad := ""
		for _, b := range fn.Blocks {
			ret, ok := b.Instrs[len(b.Instrs)-1].(*ssa.Return)
			if !ok || len(ret.Results) != 2 {
				continue
			}
			if definitelyNonNil(retResult(ret, 1), 0) {
				continue // error return
			}
			if !fresh(retResult(ret, 0), 0) {
				bad = c.instrPos(ret)
			}
		}
		if bad == "" {
			c.OK("C02.fingerprint-fresh", recv+".Fingerprint", "every non-error return is the hash of the current bytes")
			continue
		}
		// a memo is acceptable only if invalidated by setSignature and not carried by Copy
		okMemo := len(stale) > 0
		for _, f := range stale {
			setSig, cp := c.funcQuiet(Ref{"cert", recv, "setSignature"}), c.funcQuiet(Ref{"cert", recv, "Copy"})
			if setSig == nil || cp == nil || named == nil {
				okMemo = false
				break
			}
			if _, w := fieldsWrittenBy(setSig, named)[f.Name()]; !w {
				okMemo = false
			}
			if fieldsReadBy(cp, named)[f.Name()] {
				okMemo = false
			}
		}
		c.Check(okMemo, "C02.fingerprint-fresh", recv+".Fingerprint", bad, "memoised value is reset by setSignature and not copied", "Fingerprint() can return a value stored in the certificate instead of hashing its current bytes, and that value survives Copy()/setSignature: a copy whose signature was swapped reports the original's fingerprint, so blocklisting one signature form no longer covers the other")
	}
}

// ---------------------------------------------------------------------------------------
// C04: the signer's normaliser and the observer IsNormalized must decide "low S" by the same predicate, and that predicate is
// s <= N/2. (Seed C04: Normalize got a byte-level fast path "top bit clear => low", wrong between N/2 and 2^255.)
func c04LowSAgreement(c *Ctx) {
	c.Rule("C04.low-s", "K1/K7 sibling agreement in cert/p256: Normalize returns its input unchanged only if checkLowS(parseSignature(sig)) holds and otherwise returns encodeSignature(swap(..)); IsNormalized returns that same predicate; checkLowS is SetBytes(s).Cmp(halfN) <= 0 with halfN = N >> 1", 4)
	pk := "cert/p256"
	norm, isn, low := c.Func(Ref{pk, "", "Normalize"}), c.Func(Ref{pk, "", "IsNormalized"}), c.Func(Ref{pk, "", "checkLowS"})
	if norm == nil || isn == nil || low == nil {
		return
	}
	lowRef := Ref{pk, "", "checkLowS"}
	parsed := func(idx int) func(ssa.Value) bool {
		return func(v ssa.Value) bool {
			call, i := callOf(v)
			return call != nil && i == idx && matchFunc(calleeObj(call), Ref{pk, "", "parseSignature"})
		}
	}
	// Normalize: returns whose value is the input itself
	sig := norm.Params[0]
	var same, other []Sink
	for _, b := range norm.Blocks {
		ret, ok := b.Instrs[len(b.Instrs)-1].(*ssa.Return)
		if !ok || len(ret.Results) != 2 || definitelyNonNil(retResult(ret, 1), 0) {
			continue
		}
		if isNilConst(retResult(ret, 0)) {
			continue // nil signature: an error return whose error is a variable
		}
		if stripValue(retResult(ret, 0)) == ssa.Value(sig) {
			same = append(same, Sink{Instr: ret, Desc: "return sig unchanged"})
		} else {
			other = append(other, Sink{Instr: ret, Desc: "return re-encoded"})
		}
	}
	g := gBool("checkLowS(r, s) of the parsed signature", true, -1, CallSpec{Refs: []Ref{lowRef}, Args: map[int]func(ssa.Value) bool{0: parsed(0), 1: parsed(1)}})
	c.requireGuards("C04.low-s", norm, same, "unchanged", g)
	okOther := len(other) > 0
	for _, s := range other {
		v := retResult(s.Instr.(*ssa.Return), 0)
		if !derivesFrom(v, sliceThrough, func(x ssa.Value) bool {
			call, _ := callOf(x)
			return call != nil && matchFunc(calleeObj(call), Ref{pk, "", "swap"})
		}) {
			okOther = false
		}
	}
	c.Check(okOther, "C04.low-s", "Normalize:high-s-is-swapped", c.P.Pos(norm.Pos()), "the other successful return is the re-encoded swap", "a successful return of Normalize is neither the unchanged low-S input nor the swapped form")
	// IsNormalized returns checkLowS
	okObs := false
	for _, b := range isn.Blocks {
		if ret, ok := b.Instrs[len(b.Instrs)-1].(*ssa.Return); ok && len(ret.Results) == 2 && !definitelyNonNil(retResult(ret, 1), 0) {
			call, _ := callOf(retResult(ret, 0))
			okObs = call != nil && matchFunc(calleeObj(call), lowRef)
		}
	}
	c.Check(okObs, "C04.low-s", "IsNormalized:same-predicate", c.P.Pos(isn.Pos()), "observer returns checkLowS", "IsNormalized no longer reports the predicate Normalize uses")
	// checkLowS == (SetBytes(s).Cmp(halfN) <= 0)
	okCmp := false
	for _, b := range low.Blocks {
		ret, ok := b.Instrs[len(b.Instrs)-1].(*ssa.Return)
		if !ok || len(ret.Results) != 1 {
			continue
		}
		bo, ok := retResult(ret, 0).(*ssa.BinOp)
		if !ok || bo.Op != token.LEQ {
			okCmp = false
			break
		}
		call, _ := callOf(bo.X)
		k, isK := constInt(bo.Y)
		if call == nil || !isK || k != 0 || !matchFunc(calleeObj(call), Ref{"math/big", "Int", "Cmp"}) {
			okCmp = false
			break
		}
		a := callArgs(call)
		fromS := derivesFrom(a[0], sliceThrough, func(x ssa.Value) bool { return x == ssa.Value(low.Params[1]) })
		u, isLoad := a[1].(*ssa.UnOp)
		gl, isG := ssa.Value(nil), false
		if isLoad {
			gl, isG = u.X.(*ssa.Global)
		}
		okCmp = fromS && isG && gl.(*ssa.Global).Name() == "halfN"
	}
	c.Check(okCmp, "C04.low-s", "checkLowS:s<=N/2", c.P.Pos(low.Pos()), "SetBytes(s).Cmp(halfN) <= 0", "checkLowS is no longer `s <= N/2` (midpoint included) on the parsed S")
	// halfN = N >> 1 in the package initialiser
	okHalf := false
	if ini := c.P.SSAPkgs[PkgPath(pk)].Func("init"); ini != nil {
		eachInstr(ini, func(in ssa.Instruction) {
			st, ok := in.(*ssa.Store)
			if !ok {
				return
			}
			if g, ok := st.Addr.(*ssa.Global); !ok || g.Name() != "halfN" {
				return
			}
			call, _ := callOf(st.Val)
			if call == nil || !matchFunc(calleeObj(call), Ref{"math/big", "Int", "Rsh"}) {
				return
			}
			a := callArgs(call)
			k, isK := constInt(a[2])
			okHalf = isK && k == 1 && strings.Contains(exprString(a[1]), "N")
		})
	}
	c.Check(okHalf, "C04.low-s", "halfN=N>>1", c.P.Pos(low.Pos()), "halfN is the curve order shifted right by one", "halfN is no longer N >> 1")
}

// ---------------------------------------------------------------------------------------
// C08: a decoder may report success only once its input is exhausted. (Seed C08: UnmarshalPayload returned right after the first
// Details field, so later pieces, wrong wire types and truncated bytes behind it were accepted.)
func c08Exhausted(c *Ctx) {
	c.Rule("C08.exhausted", "K1: the success return of UnmarshalPayload / unmarshalPayloadDetails is reached only through the exit of the `for len(b) > 0` cursor loop, never from inside it", 2)
	for _, name := range []string{"UnmarshalPayload", "unmarshalPayloadDetails"} {
		fn := c.Func(Ref{"handshake", "", name})
		if fn == nil {
			continue
		}
		ei := errResultIndex(fn)
		sinks := successReturns(fn, ei)
		var hdr *natLoop
		for _, l := range naturalLoops(fn) {
			if ifi, ok := l.Header.Instrs[len(l.Header.Instrs)-1].(*ssa.If); ok {
				if bo, ok := ifi.Cond.(*ssa.BinOp); ok && isLenOf(anyValue)(bo.X) || ok && isLenOf(anyValue)(bo.Y) {
					if hdr == nil || len(l.Body) > len(hdr.Body) {
						hdr = l
					}
				}
			}
		}
		if hdr == nil || len(sinks) == 0 {
			c.Unknown("C08.exhausted", name, "cursor loop or success return not found")
			continue
		}
		bad := ""
		for _, s := range sinks {
			if hdr.Body[s.Instr.Block()] && s.Instr.Block() != hdr.Header {
				bad = c.instrPos(s.Instr)
				continue
			}
			// reachable from the loop body without going through the header?
			blocked := map[Edge]bool{}
			for i := range hdr.Header.Succs {
				blocked[Edge{hdr.Header, i}] = true
			}
			for b := range hdr.Body {
				if b == hdr.Header {
					continue
				}
				if _, r := reachable(b, blocked)[s.Instr.Block()]; r {
					bad = c.instrPos(s.Instr)
				}
			}
		}
		c.Check(bad == "", "C08.exhausted", name+":success-only-when-exhausted", bad, "success is returned only after the cursor loop ended", "the decoder reports success from inside its cursor loop: bytes after that point (later pieces of the message, wrong wire types, truncated fields) are accepted unread")
	}
}

// ---------------------------------------------------------------------------------------
// C11: in clearRange the word index of every bitmap access must be taken from the cursor value that is current at that access.
// (Seed C11: the recomputation `word = pos >> 6` before the final partial word was removed as "redundant", so the tail mask was
// applied to the word of an earlier cursor position: recently accepted counters were wiped, stale ones kept.)
func init() {
	p := registry["C11"]
	orig, origCan := p.Run, p.Canaries
	p.Run = func(c *Ctx) { orig(c); c11CursorFresh(c, "C11.cursor-fresh") }
	p.Canaries = func(c *Ctx) []Canary {
		return append(origCan(c), Canary{Name: "tail-word-index-stale", File: "bits.go", Old: "\tif remaining > 0 {\n\t\tword = pos >> 6\n", New: "\tif remaining > 0 {\n", Rule: "C11.cursor-fresh"},
			Canary{Name: "loop-word-index-from-start", File: "bits.go", Old: "\tfor remaining >= 64 {\n\t\tword = pos >> 6\n", New: "\tfor remaining >= 64 {\n\t\tword = startPos >> 6\n", Rule: "C11.cursor-fresh"})
	}
}

func c11CursorFresh(c *Ctx, rule string) {
	c.Rule(rule, "K11/dominance: in clearRange every index into the bitmap is `p >> 6` for a cursor value p such that no later cursor value derived from p (p advanced and masked) is already defined on every path to the access", 3)
	fn := c.Func(Ref{"", "Bits", "clearRange"})
	fBits, fMask := c.Field("", "Bits", "bits"), c.Field("", "Bits", "lengthMask")
	if fn == nil || fBits == nil || fMask == nil || len(fn.Params) < 2 {
		return
	}
	start := ssa.Value(fn.Params[1])
	// cursor values: the start position, (cursor + k) & lengthMask, and phis of cursor values
	memo := map[ssa.Value]int{} // 1 = in progress / assumed, 2 = yes, 3 = no
	var isPos func(v ssa.Value) bool
	step := func(v ssa.Value) (ssa.Value, bool) { // v = (p + k) & lengthMask -> p
		bo, ok := v.(*ssa.BinOp)
		if !ok || bo.Op != token.AND {
			return nil, false
		}
		var sum ssa.Value
		switch {
		case loadsField(bo.Y, fMask):
			sum = bo.X
		case loadsField(bo.X, fMask):
			sum = bo.Y
		default:
			return nil, false
		}
		ad, ok := sum.(*ssa.BinOp)
		if !ok || ad.Op != token.ADD {
			return nil, false
		}
		if isPos(ad.X) {
			return ad.X, true
		}
		if isPos(ad.Y) {
			return ad.Y, true
		}
		return nil, false
	}
	isPos = func(v ssa.Value) bool {
		switch memo[v] {
		case 1, 2:
			return true
		case 3:
			return false
		}
		memo[v] = 1
		ok := false
		if v == start {
			ok = true
		} else if _, s := step(v); s {
			ok = true
		} else if phi, isPhi := v.(*ssa.Phi); isPhi {
			for _, e := range phi.Edges {
				if e != v && isPos(e) {
					ok = true
				}
			}
		}
		if ok {
			memo[v] = 2
		} else {
			memo[v] = 3
		}
		return ok
	}
	var cursors []ssa.Value
	eachInstr(fn, func(in ssa.Instruction) {
		if v, ok := in.(ssa.Value); ok && isPos(v) {
			cursors = append(cursors, v)
		}
	})
	// advancedFrom(q, p): q is reached from p through at least one advance step
	var advancedFrom func(q, p ssa.Value, stepped bool, seen map[ssa.Value]bool) bool
	advancedFrom = func(q, p ssa.Value, stepped bool, seen map[ssa.Value]bool) bool {
		if q == p && stepped {
			return true
		}
		if seen[q] {
			return false
		}
		seen[q] = true
		if prev, ok := step(q); ok {
			if prev == p {
				return true
			}
			return advancedFrom(prev, p, true, seen)
		}
		if phi, ok := q.(*ssa.Phi); ok {
			for _, e := range phi.Edges {
				if isPos(e) && (e == p && stepped || advancedFrom(e, p, stepped, seen)) {
					return true
				}
			}
		}
		return false
	}
	definedBefore := func(q ssa.Value, use ssa.Instruction) bool {
		qi, ok := q.(ssa.Instruction)
		if !ok {
			return false
		}
		if qi.Block() == use.Block() {
			if _, isPhi := q.(*ssa.Phi); isPhi {
				return true
			}
			for _, in := range use.Block().Instrs {
				if in == qi {
					return true
				}
				if in == use {
					return false
				}
			}
			return false
		}
		return qi.Block().Dominates(use.Block())
	}
	n := 0
	eachInstr(fn, func(in ssa.Instruction) {
		ia, ok := in.(*ssa.IndexAddr)
		if !ok || !loadsField(ia.X, fBits) {
			return
		}
		n++
		cons := fmt.Sprintf("clearRange:bits-index#%d", n)
		var bases []ssa.Value
		unknown := false
		var collect func(v ssa.Value, d int)
		collect = func(v ssa.Value, d int) {
			v = stripValue(v)
			if phi, ok := v.(*ssa.Phi); ok && d < 6 {
				for _, e := range phi.Edges {
					collect(e, d+1)
				}
				return
			}
			if bo, ok := v.(*ssa.BinOp); ok && bo.Op == token.SHR && isPos(bo.X) {
				if k, ok := constUint(bo.Y); ok && k == 6 {
					bases = append(bases, bo.X)
					return
				}
			}
			unknown = true
		}
		collect(ia.Index, 0)
		if unknown || len(bases) == 0 {
			if !derivesFrom(ia.Index, sliceLocal, isPos) {
				n--
				return // not indexed by the cursor at all (the whole-bitmap sweep of the full-window case)
			}
			c.Unknown(rule, cons, "the bitmap index derives from the cursor but is not `cursor >> 6`: unrecognised shape")
			return
		}
		for _, p := range bases {
			for _, q := range cursors {
				if q == p || !definedBefore(q, in) {
					continue
				}
				if advancedFrom(q, p, false, map[ssa.Value]bool{}) {
					c.Bad(rule, cons, c.instrPos(in), fmt.Sprintf("the bitmap word is indexed by an earlier cursor position (%s) although the cursor has already been advanced (%s) on every path to this access: the mask is applied to the wrong word", exprString(p), exprString(q)))
					return
				}
			}
		}
		c.OK(rule, cons, "indexed by the current cursor")
	})
}

// ---------------------------------------------------------------------------------------
// C07: the "noise state unchanged" test compares the handshake hash before and after the read. noise's ChannelBinding() returns
// its internal hash slice, which MixHash rewrites in place, so the before-value must be a COPY. (Seed C07: bytes.Clone was dropped
// "to save an allocation"; the comparison then compared the live hash with itself and never failed the machine.)
func init() {
	p := registry["C07"]
	orig, origCan := p.Run, p.Canaries
	p.Run = func(c *Ctx) { orig(c); c07BeforeHashCopied(c) }
	p.Canaries = func(c *Ctx) []Canary {
		return append(origCan(c), Canary{Name: "before-hash-aliases-live-hash", File: "handshake/machine.go", Old: "hashBefore := bytes.Clone(m.hs.ChannelBinding())", New: "hashBefore := m.hs.ChannelBinding()", Rule: "C07.hash-copied"})
	}
}

func c07BeforeHashCopied(c *Ctx) {
	c.Rule("C07.hash-copied", "K11: in every bytes.Equal comparison of two ChannelBinding() values in ProcessPacket, the value taken before hs.ReadMessage is a copy (bytes.Clone / slices.Clone / append to a fresh slice / string conversion), because the library returns its internal, in-place rewritten hash slice", 0)
	pp := c.Func(Ref{"handshake", "Machine", "ProcessPacket"})
	if pp == nil {
		return
	}
	noise := "github.com/flynn/noise"
	chanBind := Ref{noise, "HandshakeState", "ChannelBinding"}
	reads := callsIn(pp, Ref{noise, "HandshakeState", "ReadMessage"})
	if len(reads) != 1 {
		return // C07's own rules report a missing / duplicated read
	}
	read := reads[0].(ssa.Instruction)
	before := func(in ssa.Instruction) bool {
		if in.Block() == read.Block() {
			for _, x := range in.Block().Instrs {
				if x == in {
					return true
				}
				if x == read {
					return false
				}
			}
		}
		return in.Block().Dominates(read.Block())
	}
	isCopy := func(v ssa.Value) bool {
		switch x := v.(type) {
		case *ssa.Call:
			if o := calleeObj(x); o != nil && o.Pkg() != nil {
				switch o.Pkg().Path() + "." + o.Name() {
				case "bytes.Clone", "slices.Clone":
					return true
				}
			}
			if builtinName(x) == "append" {
				return isNilConst(x.Call.Args[0]) || isFreshSlice(x.Call.Args[0])
			}
		case *ssa.Convert:
			if b, ok := x.Type().Underlying().(*types.Basic); ok && b.Info()&types.IsString != 0 {
				return true
			}
		}
		return false
	}
	n := 0
	eachInstr(pp, func(in ssa.Instruction) {
		call, ok := in.(*ssa.Call)
		if !ok || !matchFunc(calleeObj(call), Ref{"bytes", "", "Equal"}) {
			return
		}
		args := call.Call.Args
		if !derivesFrom(args[0], sliceThrough, isCallTo(chanBind)) || !derivesFrom(args[1], sliceThrough, isCallTo(chanBind)) {
			return
		}
		for k, a := range args {
			// the operand whose ChannelBinding() call is evaluated before the read
			early := false
			backSlice(a, sliceThrough, func(x ssa.Value) {
				if cl, _ := callOf(x); cl != nil && matchFunc(calleeObj(cl), chanBind) && before(cl) {
					early = true
				}
			})
			if !early {
				continue
			}
			n++
			copied := derivesFrom(a, sliceThrough, isCopy)
			c.Check(copied, "C07.hash-copied", fmt.Sprintf("ProcessPacket:before-hash#%d", n), c.instrPos(in), "the before-value is a copy of the handshake hash", fmt.Sprintf("operand %d of the unchanged-state comparison is the slice ChannelBinding() returned before the read, not a copy: noise rewrites that slice in place, so the comparison is always equal and a message that advanced the noise state is still reported as recoverable", k))
		}
	})
}

func isFreshSlice(v ssa.Value) bool {
	switch x := v.(type) {
	case *ssa.MakeSlice:
		return true
	case *ssa.Slice:
		return isFreshSlice(x.X)
	case *ssa.Alloc:
		return true
	}
	return false
}

// ---------------------------------------------------------------------------------------
// Thorough tier: the concurrency rules are platform independent, the code they read is not (per-OS tun devices, udp listeners,
// network-change monitors, the e2e harness). All of these configurations type-check offline in this sandbox (CGO disabled).
func init() {
	osConfigs := []BuildConfig{
		{Name: "darwin", GOOS: "darwin"},
		{Name: "freebsd", GOOS: "freebsd"},
		{Name: "windows", GOOS: "windows"},
		{Name: "e2e_testing", Tags: []string{"e2e_testing"}},
	}
	registry["C49"].Configs = osConfigs
	registry["C34"].Configs = osConfigs
}

// ---------------------------------------------------------------------------------------
// C31: convergence after simultaneous initiation needs the responder-side duplicate test to look at EVERY tunnel held for the
// peer: when the node's own initiated tunnel has become primary, a late duplicate of the peer's first message must still be
// recognised (otherwise a third tunnel is created, made primary and the peer's index repointed). This is the same structural
// rule C10 checks for replays; it is evaluated here under C31's own id. (Seed C31: the scan was reduced to the primary.)
func init() {
	p := registry["C31"]
	orig, origCan := p.Run, p.Canaries
	p.Run = func(c *Ctx) {
		orig(c)
		c.Rule("C31.duplicate-scan", "K1 for-all (shared with C10.check): CheckAndComplete inserts a tunnel only if the first-message bytes differ from those stored on every tunnel held for the peer's address, not only the primary, and passes the staleness and index-collision tests", 4)
		sub := NewCtx("C10", c.Tier, c.Seed)
		sub.P = c.P
		runC10(sub)
		for _, o := range sub.Obs {
			if o.Rule == "C10.check" && o.Construct != "floor" {
				c.add("C31.duplicate-scan", o.Construct, o.Verdict, o.Pos, o.Detail, o.Path)
			}
		}
		for f := range sub.Funcs {
			c.Funcs[f] = true
		}
	}
	p.Canaries = func(c *Ctx) []Canary {
		return append(origCan(c), Canary{Name: "duplicate-scan-only-primary", File: "handshake_manager.go", Old: "\t\tfor _, testHostInfo := range hm.mainHostMap.unlockedGetHostList(hostinfo.vpnAddrs[0]) {\n\t\t\tif bytes.Equal(hostinfo.HandshakePacket[handshakePacket], testHostInfo.HandshakePacket[handshakePacket]) {\n\t\t\t\treturn testHostInfo, ErrAlreadySeen\n\t\t\t}\n\t\t}\n", New: "\t\tif bytes.Equal(hostinfo.HandshakePacket[handshakePacket], existingHostInfo.HandshakePacket[handshakePacket]) {\n\t\t\treturn existingHostInfo, ErrAlreadySeen\n\t\t}\n", Rule: "C31.duplicate-scan"})
	}
}

// ---------------------------------------------------------------------------------------
// C19: every reload that installs a new rule set must give it a version different from the one the tracked flows carry,
// whatever the reason for the reload (what a rule allows also depends on unhashed inputs: default_local_cidr_any, the
// certificate's networks). (Seed C19: the version was bumped only when the textual rule hash changed.)
func init() {
	p := registry["C19"]
	orig, origCan := p.Run, p.Canaries
	p.Run = func(c *Ctx) { orig(c); c19VersionMoves(c) }
	p.Canaries = func(c *Ctx) []Canary {
		return append(origCan(c), Canary{Name: "version-bumped-only-when-rule-hash-changes", File: "interface.go", Old: "\tfw.rulesVersion = oldFw.rulesVersion + 1\n", New: "\tfw.rulesVersion = oldFw.rulesVersion\n\tif fw.GetRuleHash() != oldFw.GetRuleHash() {\n\t\tfw.rulesVersion = oldFw.rulesVersion + 1\n\t}\n", Rule: "C19.version-moves"})
	}
}

func c19VersionMoves(c *Ctx) {
	c.Rule("C19.version-moves", "K11 on all paths: in reloadFirewall every value stored into the new firewall's rulesVersion is the old firewall's rulesVersion plus a positive constant, and the install of the new firewall is reached only after such a store", 2)
	fn := c.Func(Ref{"", "Interface", "reloadFirewall"})
	fVer := c.Field("", "Firewall", "rulesVersion")
	fFw := c.Field("", "Interface", "firewall")
	if fn == nil || fVer == nil || fFw == nil {
		return
	}
	isBump := func(in ssa.Instruction) bool {
		st, ok := in.(*ssa.Store)
		if !ok {
			return false
		}
		fa, ok := st.Addr.(*ssa.FieldAddr)
		if !ok || fieldOfAddr(fa) != fVer {
			return false
		}
		bo, ok := stripValue(st.Val).(*ssa.BinOp)
		if !ok || bo.Op != token.ADD {
			return false
		}
		for _, pair := range [][2]ssa.Value{{bo.X, bo.Y}, {bo.Y, bo.X}} {
			if k, ok := constUint(pair[1]); ok && k >= 1 && loadsField(pair[0], fVer) {
				// read from a different firewall value than the one written
				if lf, ok := stripValue(pair[0]).(*ssa.UnOp); ok {
					if src, ok := lf.X.(*ssa.FieldAddr); ok && src.X != fa.X {
						return true
					}
				}
			}
		}
		return false
	}
	n := 0
	eachInstr(fn, func(in ssa.Instruction) {
		st, ok := in.(*ssa.Store)
		if !ok {
			return
		}
		fa, ok := st.Addr.(*ssa.FieldAddr)
		if !ok || fieldOfAddr(fa) != fVer {
			return
		}
		n++
		c.Check(isBump(in), "C19.version-moves", fmt.Sprintf("reloadFirewall:rulesVersion-store#%d", n), c.instrPos(in), "old version + constant", "the new firewall's rulesVersion is stored as something other than the old version plus one: a reload can install changed rules under the version the tracked flows already carry, so they are never revalidated")
	})
	k := 0
	eachInstr(fn, func(in ssa.Instruction) {
		st, ok := in.(*ssa.Store)
		if !ok {
			return
		}
		fa, ok := st.Addr.(*ssa.FieldAddr)
		if !ok || fieldOfAddr(fa) != fFw {
			return
		}
		k++
		av, path := c.avoidsCut(fn, nil, in, isBump)
		cons := fmt.Sprintf("reloadFirewall:install#%d:after-bump", k)
		if av {
			c.Bad("C19.version-moves", cons, c.instrPos(in), "a new firewall is installed on a path that did not give it the old version plus one", path...)
		} else {
			c.OK("C19.version-moves", cons, "every path to the install passes the version bump")
		}
	})
}

// ---------------------------------------------------------------------------------------
// C21: the one's-complement sum must have all carries folded before it is truncated to 16 bits. (Seed C21: the fold loop
// `for csum > 0xffff` was replaced by a single fold, whose result can itself exceed 16 bits: a second carry is dropped and the
// reply carries a checksum that is off by one for a few payloads in 65536.)
func init() {
	p := registry["C21"]
	orig, origCan := p.Run, p.Canaries
	p.Run = func(c *Ctx) { orig(c); c21FoldBeforeTruncate(c) }
	p.Canaries = func(c *Ctx) []Canary {
		return append(origCan(c), Canary{Name: "checksum-single-fold", File: "iputil/packet.go", Old: "\tfor csum > 0xffff {\n\t\tcsum = (csum >> 16) + (csum & 0xffff)\n\t}\n\treturn ^uint16(csum)", New: "\tcsum = (csum >> 16) + (csum & 0xffff)\n\treturn ^uint16(csum)", Rule: "C21.checksum-fold"})
	}
}

func c21FoldBeforeTruncate(c *Ctx) {
	c.Rule("C21.checksum-fold", "K13 truncation obligation: in tcpipChecksum the 32-bit sum is converted to 16 bits only where it is known to fit (dominated by the exit of a `sum > 0xffff` fold loop, or masked)", 1)
	fn := c.Func(Ref{"iputil", "", "tcpipChecksum"})
	if fn == nil {
		return
	}
	n := 0
	eachInstr(fn, func(in ssa.Instruction) {
		cv, ok := in.(*ssa.Convert)
		if !ok {
			return
		}
		to, ok1 := cv.Type().Underlying().(*types.Basic)
		from, ok2 := cv.X.Type().Underlying().(*types.Basic)
		if !ok1 || !ok2 || to.Kind() != types.Uint16 || from.Kind() != types.Uint32 {
			return
		}
		n++
		v := cv.X
		fits := false
		// masked: v = x & 0xffff
		if bo, ok := v.(*ssa.BinOp); ok && bo.Op == token.AND {
			if k, ok := constUint(bo.Y); ok && k <= 0xffff {
				fits = true
			}
		}
		// folded twice: fold(y) = (y>>16) + (y&0xffff) <= 0x1fffe for any 32-bit y, and fold of that is <= 0xffff
		foldOf := func(x ssa.Value) ssa.Value {
			ad, ok := x.(*ssa.BinOp)
			if !ok || ad.Op != token.ADD {
				return nil
			}
			for _, pr := range [][2]ssa.Value{{ad.X, ad.Y}, {ad.Y, ad.X}} {
				sh, ok1 := pr[0].(*ssa.BinOp)
				an, ok2 := pr[1].(*ssa.BinOp)
				if !ok1 || !ok2 || sh.Op != token.SHR || an.Op != token.AND || sh.X != an.X {
					continue
				}
				k1, a := constUint(sh.Y)
				k2, b := constUint(an.Y)
				if a && b && k1 == 16 && k2 == 0xffff {
					return sh.X
				}
			}
			return nil
		}
		if y := foldOf(v); y != nil && foldOf(y) != nil {
			fits = true
		}
		// dominated by the side of a comparison on v that establishes v <= 0xffff
		for _, b := range fn.Blocks {
			if fits || len(b.Instrs) == 0 {
				break
			}
			ifi, ok := b.Instrs[len(b.Instrs)-1].(*ssa.If)
			if !ok {
				continue
			}
			cd := normCond(ifi.Cond)
			if cd.Kind != CondCmp {
				continue
			}
			bo := cd.Base.(*ssa.BinOp)
			op := bo.Op
			var k uint64
			var isK bool
			switch {
			case bo.X == v:
				k, isK = constUint(bo.Y)
			case bo.Y == v:
				k, isK = constUint(bo.X)
				op = swapOp(op)
			}
			if !isK {
				continue
			}
			if cd.Neg {
				op = negOp(op)
			}
			// which successor has v <= 0xffff ?
			succ := -1
			switch {
			case op == token.GTR && k <= 0xffff, op == token.GEQ && k <= 0x10000:
				succ = 1
			case op == token.LEQ && k <= 0xffff, op == token.LSS && k <= 0x10000:
				succ = 0
			}
			if succ < 0 {
				continue
			}
			s := b.Succs[succ]
			if s == cv.Block() || s.Dominates(cv.Block()) {
				// the edge must be the only way into s from b's side: s may have other predecessors only if they are dominated by s
				fits = true
				for _, p := range s.Preds {
					if p != b && !s.Dominates(p) {
						fits = false
					}
				}
			}
		}
		c.Check(fits, "C21.checksum-fold", fmt.Sprintf("tcpipChecksum:truncate#%d", n), c.instrPos(cv), "the sum is known to fit 16 bits where it is truncated", "the 32-bit one's-complement sum is truncated to 16 bits without all carries having been folded (no dominating `sum <= 0xffff`): a carry out of the fold is dropped and the checksum is wrong for some payloads")
	})
	if n == 0 {
		c.Unknown("C21.checksum-fold", "tcpipChecksum:truncate", "no uint32 -> uint16 truncation found")
	}
}

// ---------------------------------------------------------------------------------------
// C36: the per-overlay-range remote allow list must be evaluated for the host the address list belongs to. (Seed C36: in
// handleHostQueryReply the vpn address handed to unlockedSetV4/V6 - the one lighthouse.remote_allow_ranges is looked up for -
// became the answering lighthouse's address instead of the queried peer's, so addresses denied for the peer's range were kept.)
func init() {
	p := registry["C36"]
	orig, origCan := p.Run, p.Canaries
	p.Run = func(c *Ctx) { orig(c); c36FilterSubject(c) }
	p.Canaries = func(c *Ctx) []Canary {
		return append(origCan(c), Canary{Name: "allow-range-evaluated-for-the-lighthouse", File: "lighthouse.go", Old: "am.unlockedSetV4(fromVpnAddrs[0], certVpnAddr, n.Details.V4AddrPorts, lhh.lh.unlockedShouldAddV4)", New: "am.unlockedSetV4(fromVpnAddrs[0], fromVpnAddrs[0], n.Details.V4AddrPorts, lhh.lh.unlockedShouldAddV4)", Rule: "C36.filter-subject"})
	}
}

func c36FilterSubject(c *Ctx) {
	c.Rule("C36.filter-subject", "K11: at every unlockedSetV4/V6 call the address the allow list is evaluated for (2nd argument) derives from the key with which the receiving RemoteList was obtained from unlockedGetRemoteList", 6)
	getList := Ref{"", "LightHouse", "unlockedGetRemoteList"}
	leaf := func(v ssa.Value) bool {
		switch x := v.(type) {
		case *ssa.Parameter:
			return true
		case *ssa.Call:
			return builtinName(x) == ""
		case *ssa.Lookup, *ssa.Extract, *ssa.TypeAssert, *ssa.Next:
			return true
		}
		return false
	}
	n := 0
	for _, f := range c.moduleFuncs() {
		for _, ci := range callsIn(f, Ref{"", "RemoteList", "unlockedSetV4"}, Ref{"", "RemoteList", "unlockedSetV6"}) {
			args := callArgs(ci)
			if len(args) < 3 {
				continue
			}
			src, _ := callOf(args[0])
			if src == nil || !matchFunc(calleeObj(src), getList) {
				continue // the receiver is not a freshly looked-up list (methods of RemoteList itself)
			}
			n++
			key := callArgs(src)[1]
			roots := map[ssa.Value]bool{}
			backSlice(key, sliceLocal, func(x ssa.Value) {
				if leaf(x) && x != ssa.Value(src) {
					roots[x] = true
				}
			})
			shared := derivesFrom(args[2], sliceLocal, func(x ssa.Value) bool { return roots[x] })
			c.Check(shared && len(roots) > 0, "C36.filter-subject", fmt.Sprintf("%s:%s#%d", fnName(f), calleeObj(ci).Name(), n), c.instrPos(ci.(ssa.Instruction)), "filtered for the host the list belongs to", "the overlay address the remote allow list is evaluated for does not derive from the key of the address list being filled: the per-range rules of another host decide which underlay addresses this peer's list keeps")
		}
	}
}

// ---------------------------------------------------------------------------------------
// C38: the family of a configured CIDR and whether it is a default (/0) must be decided on the prefix that is actually inserted
// (after an IPv4-mapped prefix was re-based to IPv4), not on a value captured before the re-basing. (Seed C38: addr/maskBits
// were hoisted above the un-mapping, so ::ffff:a.b.c.d/96+n rules counted as IPv6 rules and a mapped default was not a default.)
func init() {
	p := registry["C38"]
	orig, origCan := p.Run, p.Canaries
	p.Run = func(c *Ctx) { orig(c); c38InsertedPrefixDecides(c) }
	p.Canaries = func(c *Ctx) []Canary {
		return append(origCan(c),
			Canary{Name: "family-and-default-from-values-captured-before-rebasing", File: "allow_list.go", Old: "\t\tif a := ipNet.Addr(); a.Is4In6() {\n\t\t\t// ::ffff:a.b.c.d/96+n means a.b.c.d/n\n\t\t\tif ipNet.Bits() < 96 {\n\t\t\t\treturn nil, fmt.Errorf(\"config `%s` has an IPv4-mapped CIDR shorter than /96: %s\", k, rawCIDR)\n\t\t\t}\n\t\t\tipNet = netip.PrefixFrom(a.Unmap(), ipNet.Bits()-96)\n\t\t}\n\n\t\ttree.Insert(ipNet, value)\n\n\t\tmaskBits := ipNet.Bits()\n\n\t\tvar rules *allowListRules\n\t\tif ipNet.Addr().Is4() {", New: "\t\taddr, maskBits := ipNet.Addr(), ipNet.Bits()\n\t\tif addr.Is4In6() {\n\t\t\tif maskBits < 96 {\n\t\t\t\treturn nil, fmt.Errorf(\"config `%s` has an IPv4-mapped CIDR shorter than /96: %s\", k, rawCIDR)\n\t\t\t}\n\t\t\tipNet = netip.PrefixFrom(addr.Unmap(), maskBits-96)\n\t\t}\n\n\t\ttree.Insert(ipNet, value)\n\n\t\tvar rules *allowListRules\n\t\tif addr.Is4() {", Rule: "C38.inserted-prefix-decides"})
	}
}

func c38InsertedPrefixDecides(c *Ctx) {
	c.Rule("C38.inserted-prefix-decides", "K11 + reachability within one loop iteration: in newAllowList the prefix whose address decides the family (Is4) and whose length decides 'is a default' (Bits() == 0) is the value handed to tree.Insert - the same SSA value, or loads of the same variable with no store to it between the load and the insert", 2)
	fn := c.Func(Ref{"", "", "newAllowList"})
	if fn == nil {
		return
	}
	prefixM := func(name string) Ref { return Ref{"net/netip", "Prefix", name} }
	parsed := func(v ssa.Value) bool {
		return derivesFrom(v, sliceThrough, isCallTo(Ref{"net/netip", "", "ParsePrefix"}))
	}
	// the insert of the configured entry
	var insert ssa.CallInstruction
	eachInstr(fn, func(in ssa.Instruction) {
		ci, ok := in.(ssa.CallInstruction)
		if !ok {
			return
		}
		o := calleeObj(ci)
		if o == nil || o.Name() != "Insert" || o.Pkg() == nil || !strings.Contains(o.Pkg().Path(), "bart") {
			return
		}
		a := callArgs(ci)
		if len(a) >= 2 && parsed(a[1]) {
			insert = ci
		}
	})
	if insert == nil {
		c.Unknown("C38.inserted-prefix-decides", "newAllowList:insert", "the insert of the configured prefix was not found")
		return
	}
	inserted := callArgs(insert)[1]
	loops := naturalLoops(fn)
	back := map[Edge]bool{}
	for _, l := range loops {
		for b := range l.Body {
			for i, s := range b.Succs {
				if s == l.Header {
					back[Edge{b, i}] = true
				}
			}
		}
	}
	// stale(v): v is not the inserted value / is a load of the same variable with a store in between
	stale := func(v ssa.Value) string {
		v, w := stripValue(v), stripValue(inserted)
		if v == w {
			return ""
		}
		lv, ok1 := v.(*ssa.UnOp)
		lw, ok2 := w.(*ssa.UnOp)
		if !ok1 || !ok2 || lv.Op != token.MUL || lw.Op != token.MUL || lv.X != lw.X {
			return "it is a different value than the one inserted into the tree (" + exprString(v) + ")"
		}
		al, ok := lv.X.(*ssa.Alloc)
		if !ok {
			return ""
		}
		bad := ""
		if refs := al.Referrers(); refs != nil {
			for _, r := range *refs {
				st, ok := r.(*ssa.Store)
				if !ok || st.Addr != ssa.Value(al) {
					continue
				}
				r1, _ := c.avoidsCutEdges(fn, lv, st, func(ssa.Instruction) bool { return false }, back)
				r2, _ := c.avoidsCutEdges(fn, st, insert.(ssa.Instruction), func(ssa.Instruction) bool { return false }, back)
				if r1 && r2 {
					bad = "the variable is re-assigned at " + c.instrPos(st) + " between this read and the insert"
				}
			}
		}
		return bad
	}
	prefixOf := func(v ssa.Value, method string) ssa.Value {
		call, _ := callOf(v)
		if call == nil || !matchFunc(calleeObj(call), prefixM(method)) {
			return nil
		}
		return callArgs(call)[0]
	}
	n := 0
	eachInstr(fn, func(in ssa.Instruction) {
		switch x := in.(type) {
		case *ssa.Call:
			// family: <prefix>.Addr().Is4()
			if matchFunc(calleeObj(x), Ref{"net/netip", "Addr", "Is4"}) {
				recv := callArgs(x)[0]
				var pfx ssa.Value
				backSlice(recv, sliceLocal, func(y ssa.Value) {
					if p := prefixOf(y, "Addr"); p != nil && pfx == nil && parsed(p) {
						pfx = p
					}
				})
				if pfx == nil {
					return
				}
				n++
				why := stale(pfx)
				c.Check(why == "", "C38.inserted-prefix-decides", fmt.Sprintf("newAllowList:family#%d", n), c.instrPos(in), "family decided on the inserted prefix", "the address family of a rule is decided on a prefix that is not the one inserted: "+why+"; an IPv4-mapped rule is accounted to the IPv6 defaults")
			}
		case *ssa.BinOp:
			// default: <prefix>.Bits() == 0
			if x.Op != token.EQL && x.Op != token.NEQ {
				return
			}
			for _, pr := range [][2]ssa.Value{{x.X, x.Y}, {x.Y, x.X}} {
				if k, ok := constInt(pr[1]); !ok || k != 0 {
					continue
				}
				var pfx ssa.Value
				backSlice(pr[0], sliceLocal, func(y ssa.Value) {
					if p := prefixOf(y, "Bits"); p != nil && pfx == nil && parsed(p) {
						pfx = p
					}
				})
				if pfx == nil {
					continue
				}
				n++
				why := stale(pfx)
				c.Check(why == "", "C38.inserted-prefix-decides", fmt.Sprintf("newAllowList:default#%d", n), c.instrPos(in), "default decided on the inserted prefix", "whether a rule is the family default is decided on a prefix length that is not the inserted one: "+why+"; a mapped default (::ffff:0.0.0.0/96) is not recognised")
			}
		}
	})
}

// ---------------------------------------------------------------------------------------
// C14 / C12: the replay window may be advanced only by an authenticated packet. (Seed C14b: Decrypt / VerifyRelay called
// window.Update up front "to take the lock once" - a forged header then burns the genuine packet's counter or slides the window.)
func init() {
	for _, id := range []string{"C14", "C12"} {
		id := id
		p := registry[id]
		orig, origCan := p.Run, p.Canaries
		p.Run = func(c *Ctx) { orig(c); cWindowAfterAuth(c, id+".window-after-auth") }
		p.Canaries = func(c *Ctx) []Canary {
			return append(origCan(c), Canary{Name: "window-updated-before-authentication", File: "connection_state.go", Old: "\tcs.decryptLock.Lock()\n\tresult := cs.window.Check(l, messageCounter)\n\tcs.decryptLock.Unlock()\n\tif !result {\n\t\treturn nil, ErrAlreadySeen\n\t}\n", New: "\tcs.decryptLock.Lock()\n\tresult := cs.window.Update(l, messageCounter)\n\tcs.decryptLock.Unlock()\n\tif !result {\n\t\treturn nil, ErrAlreadySeen\n\t}\n", Rule: id + ".window-after-auth"})
		}
	}
}

func cWindowAfterAuth(c *Ctx, rule string) {
	c.Rule(rule, "K1: in ConnectionState.Decrypt and VerifyRelay every window.Update (the only window mutation) is reached only after DecryptDanger returned a nil error for the same packet", 2)
	for _, name := range []string{"Decrypt", "VerifyRelay"} {
		fn := c.Func(Ref{"", "ConnectionState", name})
		if fn == nil {
			continue
		}
		sinks := callSinks(fn, "window.Update", callTo(Ref{"", "Bits", "Update"}))
		auth := gErrNil("DecryptDanger returned nil", CallSpec{Refs: []Ref{{"noiseutil", "CipherState", "DecryptDanger"}}})
		c.requireGuards(rule, fn, sinks, "window.Update", auth)
	}
}

// ---------------------------------------------------------------------------------------
// C09: the address lists that identify a peer must not share storage. (Seed C09b: NewRemoteList kept the caller's slice and
// RefreshFromHandshake reused the backing array, so a later handshake on the same RemoteList rewrote an installed tunnel's
// HostInfo.vpnAddrs in place: the recorded addresses no longer were the verified certificate's.)
func init() {
	p := registry["C09"]
	orig, origCan := p.Run, p.Canaries
	p.Run = func(c *Ctx) { orig(c); c09NoAlias(c) }
	p.Canaries = func(c *Ctx) []Canary {
		return append(origCan(c),
			Canary{Name: "remote-list-keeps-callers-address-slice", File: "remote_list.go", Old: "\t\tvpnAddrs:  make([]netip.Addr, len(vpnAddrs)),\n", New: "\t\tvpnAddrs:  vpnAddrs,\n", Rule: "C09.no-alias"},
			Canary{Name: "refresh-reuses-backing-array", File: "remote_list.go", Old: "\tr.vpnAddrs = make([]netip.Addr, len(vpnAddrs))\n\tcopy(r.vpnAddrs, vpnAddrs)\n", New: "\tr.vpnAddrs = append(r.vpnAddrs[:0], vpnAddrs...)\n", Rule: "C09.no-alias"})
	}
}

func c09NoAlias(c *Ctx) {
	c.Rule("C09.no-alias", "K11: every value stored into RemoteList.vpnAddrs is a slice freshly allocated in the storing function (make / a literal), never a parameter, another object's slice or a re-slice of the field's own backing array", 2)
	f := c.Field("", "RemoteList", "vpnAddrs")
	if f == nil {
		return
	}
	n := 0
	for _, fn := range c.moduleFuncs() {
		eachInstr(fn, func(in ssa.Instruction) {
			st, ok := in.(*ssa.Store)
			if !ok {
				return
			}
			fa, ok := st.Addr.(*ssa.FieldAddr)
			if !ok || fieldOfAddr(fa) != f {
				return
			}
			n++
			var fresh func(v ssa.Value, d int) bool
			fresh = func(v ssa.Value, d int) bool {
				if d > 6 {
					return false
				}
				switch x := v.(type) {
				case *ssa.MakeSlice:
					return true
				case *ssa.Slice:
					if al, ok := x.X.(*ssa.Alloc); ok {
						_ = al
						return true // slice of a fresh array literal
					}
					return false
				case *ssa.Const:
					return x.Value == nil // nil slice
				case *ssa.Phi:
					for _, e := range x.Edges {
						if !fresh(e, d+1) {
							return false
						}
					}
					return true
				case *ssa.Call:
					if builtinName(x) == "append" {
						// append(fresh-or-nil, ...) is fresh; append(existing[:0], ...) re-uses storage
						return fresh(x.Call.Args[0], d+1)
					}
					if o := calleeObj(x); o != nil && o.Pkg() != nil && o.Pkg().Path() == "slices" && o.Name() == "Clone" {
						return true
					}
				}
				return false
			}
			c.Check(fresh(st.Val, 0), "C09.no-alias", fmt.Sprintf("%s:RemoteList.vpnAddrs#%d", fnName(fn), n), c.instrPos(in), "freshly allocated", "RemoteList.vpnAddrs is set to a slice that shares storage with another holder (a parameter, another field or its own old backing array): a later refresh rewrites the address list of an installed tunnel in place, so its recorded addresses stop being the verified certificate's")
		})
	}
}

// ---------------------------------------------------------------------------------------
// C12: at-most-once delivery rests on the replay window sliding correctly: the C11 stale-word-index rule is also a necessary
// condition of C12. (Seed C12b: the same clearRange slip as seed C11, demonstrated through ConnectionState.Decrypt.)
func init() {
	p := registry["C12"]
	orig, origCan := p.Run, p.Canaries
	p.Run = func(c *Ctx) { orig(c); c11CursorFresh(c, "C12.window-cursor") }
	p.Canaries = func(c *Ctx) []Canary {
		return append(origCan(c), Canary{Name: "window-tail-word-index-stale", File: "bits.go", Old: "\tif remaining > 0 {\n\t\tword = pos >> 6\n", New: "\tif remaining > 0 {\n", Rule: "C12.window-cursor"})
	}
}

// ---------------------------------------------------------------------------------------
// C28: deleting a tunnel reports "no tunnel to the peer remains" only if that is so: in the per-address loop of
// unlockedDeleteHostInfo every iteration that leaves a tunnel for the address (the list is still non-empty after the removal, or
// Hosts[addr] holds a different tunnel) must turn the verdict to false. (Seed C28b: the "held by a different tunnel" arm was
// dropped while tidying nested ifs; a late delete of an already removed tunnel then cleared lighthouse and relay state of a
// peer that still had a live tunnel.)
func init() {
	p := registry["C28"]
	orig, origCan := p.Run, p.Canaries
	p.Run = func(c *Ctx) { orig(c); c28FinalVerdict(c) }
	p.Canaries = func(c *Ctx) []Canary {
		return append(origCan(c),
			Canary{Name: "final-ignores-other-holder", File: "hostmap.go", Old: "\t\t\t} else {\n\t\t\t\t// We don't hold this address but another hostinfo does, we still have a tunnel to the peer\n\t\t\t\tfinal = false\n\t\t\t}\n", New: "\t\t\t}\n", Rule: "C28.final"},
			Canary{Name: "final-ignores-remaining-list", File: "hostmap.go", Old: "\t\t\tif len(list) > 0 {\n\t\t\t\tfinal = false\n\t\t\t}\n", New: "", Rule: "C28.final"})
	}
}

func c28FinalVerdict(c *Ctx) {
	c.Rule("C28.final", "K1 on the loop-carried verdict of unlockedDeleteHostInfo: an iteration that leaves a tunnel for the address (remaining list non-empty; Hosts[addr] is another tunnel) reaches the next iteration only with the verdict set to false, and the function returns that verdict", 2)
	fn := c.Func(Ref{"", "HostMap", "unlockedDeleteHostInfo"})
	fHosts := c.Field("", "HostMap", "Hosts")
	fVpn := c.Field("", "HostInfo", "vpnAddrs")
	if fn == nil || fHosts == nil || fVpn == nil {
		return
	}
	root := fn
	hi := ssa.Value(fn.Params[1])
	loops := fix4VpnLoops(fn, hi, fVpn)
	// the loop (and with it the verdict) may have been extracted into a private helper of unlockedDeleteHostInfo that is handed the
	// tunnel: the rule is then decided inside that helper, and unlockedDeleteHostInfo must return what the helper returned
	var via *ssa.Call
	if len(loops) == 0 {
		funcs := c.moduleFuncs()
		fam := fix4Family(c, funcs, fix4BuildCallGraph(funcs), root)
		type cand struct {
			call *ssa.Call
			h    *ssa.Function
			p    ssa.Value
			l    []loopInfo
		}
		var cands []cand
		eachInstr(root, func(in ssa.Instruction) {
			call, ok := in.(*ssa.Call)
			if !ok {
				return
			}
			h := call.Common().StaticCallee()
			if h == nil || h == root || !fam[h] || h.Blocks == nil {
				return
			}
			for k, a := range callArgs(call) {
				if (a == hi || stripValue(a) == hi) && k < len(h.Params) {
					if l := fix4VpnLoops(h, h.Params[k], fVpn); len(l) > 0 {
						cands = append(cands, cand{call, h, h.Params[k], l})
					}
					break
				}
			}
		})
		if len(cands) == 1 {
			fn, hi, loops, via = cands[0].h, cands[0].p, cands[0].l, cands[0].call
			c.Funcs[fn.String()] = true
			c.Note("C28.final: the per-address loop of unlockedDeleteHostInfo is in its private helper %s", fnName(fn))
		}
	}
	if len(loops) != 1 {
		c.Unknown("C28.final", "unlockedDeleteHostInfo:loop", "per-address loop not found")
		return
	}
	hdr := loops[0].Header
	// the loop-carried verdict: a bool phi in the header that is `true` coming from outside the loop
	var verdict *ssa.Phi
	for _, in := range hdr.Instrs {
		phi, ok := in.(*ssa.Phi)
		if !ok {
			break
		}
		if b, ok := phi.Type().Underlying().(*types.Basic); !ok || b.Kind() != types.Bool {
			continue
		}
		for k, e := range phi.Edges {
			if bv, isC := boolConst(e); isC && bv && !hdr.Dominates(hdr.Preds[k]) {
				verdict = phi
			}
		}
	}
	if verdict == nil {
		c.Unknown("C28.final", "unlockedDeleteHostInfo:verdict", "no loop-carried boolean verdict initialised to true was found")
		return
	}
	// returned
	retOK := false
	for _, b := range fn.Blocks {
		if r, ok := b.Instrs[len(b.Instrs)-1].(*ssa.Return); ok && len(r.Results) == 1 && derivesFrom(retResult(r, 0), sliceLocal, func(x ssa.Value) bool { return x == ssa.Value(verdict) }) {
			retOK = true
		}
	}
	if via != nil && retOK {
		// ... and unlockedDeleteHostInfo hands the helper's verdict on
		retOK = false
		for _, r := range fix4Returns(root) {
			if len(r.Results) == 1 && derivesFrom(retResult(r, 0), sliceLocal, func(x ssa.Value) bool { return x == ssa.Value(via) }) {
				retOK = true
			}
		}
	}
	c.Check(retOK, "C28.final", "unlockedDeleteHostInfo:returns-verdict", c.P.Pos(fn.Pos()), "the loop-carried verdict is what is returned", "the function does not return the per-address verdict")
	isFalse := func(v ssa.Value) bool {
		var all func(v ssa.Value, d int) bool
		all = func(v ssa.Value, d int) bool {
			if bv, ok := boolConst(v); ok {
				return !bv
			}
			if phi, ok := v.(*ssa.Phi); ok && phi != verdict && d < 6 {
				for _, e := range phi.Edges {
					if !all(e, d+1) {
						return false
					}
				}
				return true
			}
			return false
		}
		return all(v, 0)
	}
	// the two "a tunnel remains" conditions
	type cond struct {
		name string
		g    Guard
	}
	conds := []cond{
		{"other-holder", gCmp("Hosts[addr] is another tunnel", func(v ssa.Value) bool {
			return derivesFrom(v, sliceLocal, func(x ssa.Value) bool { lk, ok := x.(*ssa.Lookup); return ok && loadsField(lk.X, fHosts) })
		}, func(v ssa.Value) bool { return v == ssa.Value(hi) }, mustDiffer)},
		{"remaining-list", gCmp("list non-empty after the removal", isLenOf(func(v ssa.Value) bool {
			return derivesFrom(v, sliceLocal, isCallTo(Ref{"", "", "removeHostInfo"}))
		}), isIntConst(0), func(op token.Token) (bool, bool) {
			switch op {
			case token.GTR, token.NEQ:
				return true, true
			case token.LEQ, token.EQL:
				return true, false
			}
			return false, false
		})},
	}
	for _, cd := range conds {
		edges, nTests := passEdges(fn, cd.g)
		if nTests == 0 {
			c.Bad("C28.final", "unlockedDeleteHostInfo:"+cd.name, c.P.Pos(fn.Pos()), "the case '"+cd.g.Name+"' is no longer distinguished in the per-address loop: the verdict cannot become false for it")
			continue
		}
		bad := ""
		blocked := map[Edge]bool{}
		for i := range hdr.Succs {
			blocked[Edge{hdr, i}] = true
		}
		for e := range edges {
			s := e.From.Succs[e.Succ]
			// every way from this edge back to the loop head must carry a false verdict
			check := func(pred *ssa.BasicBlock) {
				for k, p := range hdr.Preds {
					if p == pred && !isFalse(verdict.Edges[k]) {
						bad = c.blockLine(p)
					}
				}
			}
			if s == hdr {
				check(e.From)
				continue
			}
			reach := reachable(s, blocked)
			for _, p := range hdr.Preds {
				if _, r := reach[p]; r {
					check(p)
				}
			}
		}
		c.Check(bad == "", "C28.final", "unlockedDeleteHostInfo:"+cd.name, c.P.Pos(fn.Pos()), "the verdict is false on every way back to the loop head", "an iteration in which "+cd.g.Name+" reaches the next iteration ("+bad+") with the verdict unchanged: the delete reports that no tunnel to the peer remains although one does")
	}
}

// ---------------------------------------------------------------------------------------
// Round B seeds: rules evaluated under a second property id (the structural condition is necessary for both), and new rules.

// copyObligations runs another property's rule function in a sub-context and re-files the obligations of one rule under a new id.
func copyObligations(c *Ctx, run func(*Ctx), fromRule, toRule, subProp string) {
	sub := NewCtx(subProp, c.Tier, c.Seed)
	sub.P = c.P
	run(sub)
	for _, o := range sub.Obs {
		if o.Rule == fromRule && o.Construct != "floor" {
			c.add(toRule, o.Construct, o.Verdict, o.Pos, o.Detail, o.Path)
		}
	}
	for f := range sub.Funcs {
		c.Funcs[f] = true
	}
}

func init() {
	wrap := func(id string, extra func(*Ctx), canaries ...Canary) {
		p := registry[id]
		orig, origCan := p.Run, p.Canaries
		p.Run = func(c *Ctx) { orig(c); extra(c) }
		p.Canaries = func(c *Ctx) []Canary { return append(origCan(c), canaries...) }
	}
	// C04 (seed C04b: the two containment loops of checkCAConstraints folded into a helper that starts from "permitted" and skips
	// prefixes of the other address family): issuance is bounded by the very constraint function the verifier uses, so its
	// for-all/exists rule (C01.constraints) is a necessary condition of C04 too.
	wrap("C04", func(c *Ctx) {
		c.Rule("C04.constraints", "K1 (shared with C01.constraints): checkCAConstraints returns nil only if every group is in the signer's list and every network / unsafe network is contained in one of the signer's, whenever the signer's list is non-empty", 4)
		copyObligations(c, c01Constraints, "C01.constraints", "C04.constraints", "C01")
	}, Canary{Name: "constraint-loop-accepts-unmatched-family", File: "cert/ca_pool.go", Old: "\t\t\tif !found {\n\t\t\t\treturn fmt.Errorf(\"certificate contained a network assignment outside the limitations of the signing ca: %s\", certNetwork.String())\n\t\t\t}\n", New: "\t\t\tif !found && certNetwork.Addr().Is4() {\n\t\t\t\treturn fmt.Errorf(\"certificate contained a network assignment outside the limitations of the signing ca: %s\", certNetwork.String())\n\t\t\t}\n", Rule: "C04.constraints"})
	// C15 (seed C15b: the initiator accepted a response whose certificate holds via.relay.PeerAddr, the address the relay claims,
	// instead of the address it dialled): who a relayed handshake is attributed to must come from the handshake's own certificate
	// and the dialled address; C09's install rule is that condition.
	wrap("C15", func(c *Ctx) {
		c.Rule("C15.responder-identity", "K1/K11 (shared with C09.install): a pending handshake completes only if the address that was dialled is one of the responder certificate's addresses - decided from the certificate, never from what the relay frame claims", 4)
		copyObligations(c, runC09, "C09.install", "C15.responder-identity", "C09")
	}, Canary{Name: "relay-claim-replaces-certificate-identity", File: "handshake_manager.go", Old: "\tif !correctHostResponded {\n\t\tf.l.Info(\"Incorrect host responded to handshake\",", New: "\tif !correctHostResponded && !via.IsRelayed {\n\t\tf.l.Info(\"Incorrect host responded to handshake\",", Rule: "C15.responder-identity"})
	// C06 (seed C06b: a "defensive reset" of Result.RemoteIndex/HandshakeTime on the recoverable read-error path reached into a
	// Result that had already been handed to the caller)
	wrap("C06", c06ResultWriters, Canary{Name: "result-reset-on-rejected-packet", File: "handshake/machine.go", Old: "\t\tif !bytes.Equal(hashBefore, m.hs.ChannelBinding()) {\n\t\t\tm.failed = true\n\t\t}\n", New: "\t\tif !bytes.Equal(hashBefore, m.hs.ChannelBinding()) {\n\t\t\tm.failed = true\n\t\t}\n\t\tm.result.RemoteIndex = 0\n", Rule: "C06.result-writers"})
	// C47 (seed C47b: Parse's length guard became `cap(b) < Len` followed by b = b[:Len])
	wrap("C47", c47LenGuard, Canary{Name: "parse-guards-capacity-not-length", File: "header/header.go", Old: "func (h *H) Parse(b []byte) error {\n\tif len(b) < Len {", New: "func (h *H) Parse(b []byte) error {\n\tif cap(b) < Len {", Rule: "C47.len-guard"})
	// C02 (seed C02b: Copy() cloned details.networks into the copy's unsafeNetworks)
	wrap("C02", c02CopyFieldwise, Canary{Name: "copy-takes-unsafe-networks-from-networks", File: "cert/cert_v1.go", Old: "\t\tcopy(nc.details.unsafeNetworks, c.details.unsafeNetworks)\n", New: "\t\tcopy(nc.details.unsafeNetworks, c.details.networks)\n", Rule: "C02.copy-fieldwise"})
	// C03 (seed C03b: v1 MarshalForHandshakes also reset the curve, which v1 decoding reads from the encoded details)
	wrap("C03", c03HandshakeOmitsKeyOnly, Canary{Name: "handshake-encoding-drops-curve", File: "cert/cert_v1.go", Old: "\tpubKey := c.details.publicKey\n\tc.details.publicKey = nil\n\trawCertNoKey, err := c.Marshal()\n", New: "\tpubKey := c.details.publicKey\n\tc.details.publicKey = nil\n\tcurve := c.details.curve\n\tc.details.curve = 0\n\tdefer func() { c.details.curve = curve }()\n\trawCertNoKey, err := c.Marshal()\n", Rule: "C03.handshake-omits-key-only"})
}

func c06ResultWriters(c *Ctx) {
	c.Rule("C06.result-writers", "K2: the fields of handshake.Result are written only by the constructor, processPayload (peer index and time), validateCert (verified certificate) and completed (keys, message index): no other path can alter a Result, in particular not one already handed to the caller", 5)
	res := c.NamedType("handshake", "Result")
	if res == nil {
		return
	}
	allowed := map[string]map[string]bool{}
	allow := func(fn string, fields ...string) {
		for _, f := range fields {
			if allowed[f] == nil {
				allowed[f] = map[string]bool{}
			}
			allowed[f][fn] = true
		}
	}
	allow("handshake.NewMachine", "MyCert", "LocalIndex", "Initiator", "Cipher", "HandshakeTime", "RemoteIndex", "EKey", "DKey", "RemoteCert", "MessageIndex")
	allow("(*handshake.Machine).processPayload", "RemoteIndex", "HandshakeTime")
	allow("(*handshake.Machine).validateCert", "RemoteCert")
	allow("(*handshake.Machine).completed", "EKey", "DKey", "MessageIndex", "Cipher")
	allow("(*handshake.Machine).marshalOutgoing", "HandshakeTime", "LocalIndex", "MyCert") // allocates the local index and picks the certificate version when the first outgoing message is built
	allow("(*handshake.Machine).buildResponse", "HandshakeTime", "LocalIndex")
	allow("(*handshake.Machine).Initiate", "HandshakeTime", "LocalIndex")
	seen := map[string]int{}
	for _, f := range c.moduleFuncs() {
		if c.isTestFile(f.Pos()) {
			continue
		}
		eachInstr(f, func(in ssa.Instruction) {
			st, ok := in.(*ssa.Store)
			if !ok {
				return
			}
			fa, ok := st.Addr.(*ssa.FieldAddr)
			if !ok {
				return
			}
			n := recvNamed(fa.X.Type())
			if n == nil || n.Obj() != res.Obj() {
				return
			}
			if root, _ := addrRoot(fa); isFreshAllocDeep(root) {
				return // a Result literal under construction
			}
			field := fieldOfAddr(fa).Name()
			fnm := fnName(topFunc(f))
			seen[field+"<-"+fnm]++
			cons := fmt.Sprintf("Result.%s<-%s", field, fnm)
			c.Check(allowed[field][fnm], "C06.result-writers", cons, c.instrPos(in), "tabled writer", "handshake.Result."+field+" is written by "+fnm+", which is not one of the functions that establish it: indexes, time or keys the two sides agreed on can be changed afterwards (also in a Result the caller already holds)")
		})
	}
	c.Note("C06.result-writers: %d (field, writer) pairs", len(seen))
}

func c47LenGuard(c *Ctx) {
	c.Rule("C47.len-guard", "K1: the refusal of short input in (*H).Parse compares the LENGTH of the input (not its capacity) with header.Len, and the input is not re-sliced beyond its length", 1)
	fn := c.Func(Ref{"header", "H", "Parse"})
	if fn == nil || len(fn.Params) < 2 {
		return
	}
	b := fn.Params[1]
	lenK, _ := constantInt64(c.ConstVal("header", "Len"))
	found, bad := 0, ""
	eachInstr(fn, func(in ssa.Instruction) {
		switch x := in.(type) {
		case *ssa.BinOp:
			for _, pr := range [][2]ssa.Value{{x.X, x.Y}, {x.Y, x.X}} {
				call, ok := pr[0].(*ssa.Call)
				if !ok || len(call.Call.Args) != 1 || call.Call.Args[0] != ssa.Value(b) {
					continue
				}
				if k, ok := constInt(pr[1]); !ok || k != lenK {
					continue
				}
				switch builtinName(call) {
				case "len":
					found++
				case "cap":
					bad = "the guard compares cap(b), not len(b), with header.Len at " + c.instrPos(in)
				}
			}
		case *ssa.Slice:
			// b = b[:k] with k beyond len(b) is only legal within the capacity: re-slicing the input upwards reads stale bytes
			if x.X == ssa.Value(b) && x.High != nil {
				if _, isConst := x.High.(*ssa.Const); isConst && x.Low == nil {
					if k, ok := constInt(x.High); ok && k >= lenK && found == 0 {
						bad = "the input is re-sliced to " + fmt.Sprint(k) + " bytes before its length was tested at " + c.instrPos(in)
					}
				}
			}
		}
	})
	c.Check(bad == "" && found > 0, "C47.len-guard", "Parse:len(b)<Len", c.P.Pos(fn.Pos()), "length guard on len(b)", "Parse does not refuse input shorter than the header by its length: "+bad+" - a short window onto a reused buffer is parsed from stale bytes")
}

func c02CopyFieldwise(c *Ctx) {
	c.Rule("C02.copy-fieldwise", "K11: in Copy() of both certificate versions every field of the copy is filled from the same-named field of the original (allocation size and copied contents alike)", 2)
	for _, ver := range []struct{ recv, det string }{{"certificateV1", "detailsV1"}, {"certificateV2", "detailsV2"}} {
		fn := c.Func(Ref{"cert", ver.recv, "Copy"})
		if fn == nil {
			continue
		}
		var types_ []*typesNamed
		for _, n := range []string{ver.recv, ver.det} {
			if t := c.NamedType("cert", n); t != nil {
				types_ = append(types_, t)
			}
		}
		ours := func(t types.Type) bool {
			nt := recvNamed(t)
			for _, tt := range types_ {
				if nt != nil && nt.Obj() == tt.Obj() {
					return true
				}
			}
			return false
		}
		// the certificate field a value is (a slice / the length / a load of): the nearest field address, not a whole-slice provenance
		var fieldsOf func(v ssa.Value) map[string]bool
		fieldsOf = func(v ssa.Value) map[string]bool {
			out := map[string]bool{}
			var walk func(v ssa.Value, d int)
			walk = func(v ssa.Value, d int) {
				if v == nil || d > 8 {
					return
				}
				switch x := v.(type) {
				case *ssa.FieldAddr:
					if ours(x.X.Type()) && fieldOfAddr(x).Name() != "details" {
						out[fieldOfAddr(x).Name()] = true
						return
					}
					walk(x.X, d+1)
				case *ssa.Field:
					if ours(x.X.Type()) && fieldOfVal(x).Name() != "details" {
						out[fieldOfVal(x).Name()] = true
						return
					}
					walk(x.X, d+1)
				case *ssa.UnOp:
					walk(x.X, d+1)
				case *ssa.Slice:
					walk(x.X, d+1)
				case *ssa.MakeSlice:
					walk(x.Len, d+1)
				case *ssa.Convert:
					walk(x.X, d+1)
				case *ssa.ChangeType:
					walk(x.X, d+1)
				case *ssa.Call:
					if bn := builtinName(x); bn == "len" || bn == "cap" {
						walk(x.Call.Args[0], d+1)
					} else if o := calleeObj(x); o != nil && o.Pkg() != nil && o.Pkg().Path() == "slices" && o.Name() == "Clone" {
						walk(x.Call.Args[0], d+1)
					}
				case *ssa.Phi:
					for _, e := range x.Edges {
						walk(e, d+1)
					}
				}
			}
			walk(v, 0)
			return out
		}
		var diffs []string
		n := 0
		eachInstr(fn, func(in ssa.Instruction) {
			switch x := in.(type) {
			case *ssa.Store:
				fa, ok := x.Addr.(*ssa.FieldAddr)
				if !ok {
					return
				}
				nt := recvNamed(fa.X.Type())
				isOurs := false
				for _, t := range types_ {
					if nt != nil && nt.Obj() == t.Obj() {
						isOurs = true
					}
				}
				if !isOurs || fieldOfAddr(fa).Name() == "details" {
					return
				}
				dst := fieldOfAddr(fa).Name()
				src := fieldsOf(x.Val)
				if len(src) == 0 {
					return // constant / fresh value
				}
				n++
				if len(src) != 1 || !src[dst] {
					diffs = append(diffs, fmt.Sprintf("%s is filled from %s at %s", dst, setStr(src), c.instrPos(in)))
				}
			case *ssa.Call:
				if builtinName(x) != "copy" {
					return
				}
				d, s := fieldsOf(x.Call.Args[0]), fieldsOf(x.Call.Args[1])
				if len(d) == 0 && len(s) == 0 {
					return
				}
				n++
				if len(d) != 1 || len(s) != 1 || setStr(d) != setStr(s) {
					diffs = append(diffs, fmt.Sprintf("copy(%s, %s) at %s", setStr(d), setStr(s), c.instrPos(in)))
				}
			}
		})
		c.Check(len(diffs) == 0 && n > 0, "C02.copy-fieldwise", ver.recv+".Copy", c.P.Pos(fn.Pos()), fmt.Sprintf("%d field transfers, each from the same-named field", n), "Copy() does not reproduce the certificate field by field: "+strings.Join(diffs, "; ")+" - the alternate-signature fingerprint is computed over different content, so blocklisting one signature form no longer covers the other")
	}
}

func c03HandshakeOmitsKeyOnly(c *Ctx) {
	c.Rule("C03.handshake-omits-key-only", "K2: MarshalForHandshakes (both versions) blanks no certificate field other than the public key; every other field reaches the encoder as getRawDetails / rawDetails provide it", 2)
	for _, recv := range []string{"certificateV1", "certificateV2"} {
		fn := c.Func(Ref{"cert", recv, "MarshalForHandshakes"})
		if fn == nil {
			continue
		}
		bad := ""
		for _, f := range funcsWithAnon(fn) {
			eachInstr(f, func(in ssa.Instruction) {
				st, ok := in.(*ssa.Store)
				if !ok {
					return
				}
				fa, ok := st.Addr.(*ssa.FieldAddr)
				if !ok {
					return
				}
				nt := recvNamed(fa.X.Type())
				if nt == nil || nt.Obj().Pkg() == nil || nt.Obj().Pkg().Path() != PkgPath("cert") {
					return
				}
				name := fieldOfAddr(fa).Name()
				if strings.EqualFold(name, "publicKey") {
					return
				}
				if root, _ := addrRoot(fa); isFreshAllocDeep(root) {
					// a message struct being assembled: only a blank (zero / nil) value is an omission
					if k, isK := st.Val.(*ssa.Const); !isK || !(k.Value == nil || k.Value.ExactString() == "0" || k.Value.ExactString() == "\"\"" || k.Value.ExactString() == "false") {
						return
					}
				}
				if k, isK := st.Val.(*ssa.Const); isK && (k.Value == nil || k.Value.ExactString() == "0" || k.Value.ExactString() == "\"\"" || k.Value.ExactString() == "false") {
					bad = nt.Obj().Name() + "." + name + " is blanked at " + c.instrPos(in)
				} else if !isFreshAllocDeep(func() ssa.Value { r, _ := addrRoot(fa); return r }()) {
					bad = nt.Obj().Name() + "." + name + " of the certificate is overwritten at " + c.instrPos(in)
				}
			})
		}
		c.Check(bad == "", "C03.handshake-omits-key-only", recv+".MarshalForHandshakes", c.P.Pos(fn.Pos()), "only the public key is omitted", "the handshake encoding alters a certificate field other than the public key ("+bad+"): the decoder, which takes only the key (and for v2 the curve) from the handshake, rebuilds a different certificate or refuses it")
	}
}

// ---------------------------------------------------------------------------------------
// C19 (seed C19b: Firewall.rulesVersion was widened to uint32 "to avoid the wrap" while each tracked flow kept a uint16 stamp
// compared through uint16(f.rulesVersion)): the stamp of a flow and the version of the rule set must range over the same
// values, otherwise equal stamps no longer mean "validated against these rules" and the wrap reset in reloadFirewall (which
// fires when the firewall's version returns to 0) no longer coincides with the stamp aliasing.
func init() {
	p := registry["C19"]
	orig, origCan := p.Run, p.Canaries
	p.Run = func(c *Ctx) {
		orig(c)
		c.Rule("C19.version-width", "K7: the per-flow stamp conn.rulesVersion and Firewall.rulesVersion have the same type, and no comparison or copy between them goes through a narrowing conversion", 1)
		fv, cv := c.Field("", "Firewall", "rulesVersion"), c.Field("", "conn", "rulesVersion")
		if fv == nil || cv == nil {
			return
		}
		c.Check(types.Identical(fv.Type(), cv.Type()), "C19.version-width", "rulesVersion types", c.P.Pos(fv.Pos()), fv.Type().String(), fmt.Sprintf("Firewall.rulesVersion is %s but the stamp kept in each tracked flow is %s: stamps alias every 2^%d reloads while the wrap reset follows the wider counter, so a flow idle across such a number of reloads is honoured without being revalidated", fv.Type(), cv.Type(), 8*int(c.P.sizeofBasic(cv.Type()))))
	}
	// no in-memory canary: any one-site change of either type fails to type-check (the two fields are compared and copied
	// directly); the multi-site positive example is /verif/seeded/C19b
	_ = origCan
}

func (p *Program) sizeofBasic(t types.Type) int64 {
	return types.SizesFor("gc", "amd64").Sizeof(t)
}

// ---------------------------------------------------------------------------------------
// C31 (seed C31b: the pending-deletion mark was cleared only when the tunnel that saw traffic is the primary; a spare tunnel
// promoted by the tie-break then carries a stale mark, is deleted at the next silent interval without a test packet, and the two
// ends settle on different tunnels): converging on one tunnel needs the promoted tunnel to survive, so the traffic-clears-mark
// rule of C30 is a necessary condition of C31 as well.
func init() {
	p := registry["C31"]
	orig, origCan := p.Run, p.Canaries
	p.Run = func(c *Ctx) {
		orig(c)
		c.Rule("C31.promoted-survives", "K1 (shared with C30.traffic-protects): every tunnel that saw inbound traffic, primary or not, has its pending-deletion mark cleared and is never handed a delete decision, so the tunnel the tie-break promotes is not torn down one interval later", 2)
		copyObligations(c, runC30, "C30.traffic-protects", "C31.promoted-survives", "C30")
	}
	p.Canaries = func(c *Ctx) []Canary {
		return append(origCan(c), Canary{Name: "mark-cleared-for-primary-only", File: "connection_manager.go", Old: "\t\thostinfo.pendingDeletion.Store(false)\n\n\t\tif mainHostInfo {\n", New: "\t\tif mainHostInfo {\n\t\t\thostinfo.pendingDeletion.Store(false)\n", Rule: "C31.promoted-survives"})
	}
}

// ---------------------------------------------------------------------------------------
// C17 (seed C17b: reloadFirewall's "did the certificate's unsafe networks change" test became a one-directional containment
// test; a re-issued certificate that LOST an unsafe network no longer rebuilds the firewall and Drop keeps accepting packets whose
// node-side address is in a network the node is no longer certified for): the node-side address table is built from the
// certificate only in the constructor (C17.routable, C17.writers), so it follows the certificate only if every reload that keeps
// the installed firewall has compared the two sets symmetrically.
func c17ReloadRebuilds(c *Ctx) {
	rule := "C17.reload-rebuilds"
	c.Rule(rule, "K1: reloadFirewall keeps the installed firewall (returns before building a new one) only across the equal edge of slices.Equal(certificate.UnsafeNetworks(), firewall.unsafeNetworks) or when there is no certificate", 1)
	fn := c.Func(Ref{"", "Interface", "reloadFirewall"})
	fUnsafe := c.Field("", "Firewall", "unsafeNetworks")
	if fn == nil || fUnsafe == nil {
		if fUnsafe == nil {
			c.Unknown(rule, "Firewall.unsafeNetworks", "field not found")
		}
		return
	}
	isCertNets := func(v ssa.Value) bool {
		call, ok := stripValue(v).(*ssa.Call)
		if !ok {
			return false
		}
		if m := call.Common().Method; m != nil {
			return m.Name() == "UnsafeNetworks"
		}
		if sc := call.Common().StaticCallee(); sc != nil {
			return sc.Name() == "UnsafeNetworks"
		}
		return false
	}
	isFwNets := func(v ssa.Value) bool { return g2LoadOn(v, fUnsafe, func(ssa.Value) bool { return true }) }
	both := func(call *ssa.Call) bool {
		a, b := false, false
		for _, arg := range callArgs(call) {
			a = a || isCertNets(arg)
			b = b || isFwNets(arg)
		}
		return a && b
	}
	equal := gBool("certificate unsafe networks equal the firewall's", true, -1, CallSpec{Refs: []Ref{{"slices", "", "Equal"}, {"reflect", "", "DeepEqual"}}, Args: map[int]func(ssa.Value) bool{}})
	inner := equal
	equal = Guard{Name: inner.Name, Match: func(cd Cond, ifi *ssa.If) (bool, bool) {
		is, pt := inner.Match(cd, ifi)
		if !is {
			return false, false
		}
		call, _ := callOf(cd.Base)
		if call == nil || !both(call) {
			return false, false
		}
		return true, pt
	}}
	noCert := gValNil("no certificate to compare", func(v ssa.Value) bool {
		nt, ok := v.Type().(*types.Named)
		return ok && nt.Obj().Name() == "Certificate"
	})
	unchanged := g2Lift(fn, "unsafe networks unchanged", equal, noCert)
	// the returns that keep the installed firewall: not dominated by the construction of a new one
	var builds []*ssa.BasicBlock
	for _, ci := range callsIn(fn, Ref{"", "", "NewFirewallFromConfig"}) {
		builds = append(builds, ci.Block())
	}
	if len(builds) == 0 {
		c.Unknown(rule, "reloadFirewall:build", "no call of NewFirewallFromConfig found")
		return
	}
	n := 0
	for _, b := range fn.Blocks {
		ret, ok := b.Instrs[len(b.Instrs)-1].(*ssa.Return)
		if !ok {
			continue
		}
		after := false
		for _, bb := range builds {
			after = after || bb == b || bb.Dominates(b)
		}
		if after {
			continue
		}
		n++
		cons := fmt.Sprintf("reloadFirewall:keep#%d<-unsafe-networks-equal", n)
		path, hit, _ := c.g2Bypass(fn, Sink{Instr: ret, Desc: "return keeping the installed firewall"}, unchanged)
		if !hit {
			c.OK(rule, cons, "the installed firewall is kept only when the certificate's unsafe networks equal the ones it was built from (or no certificate)")
			continue
		}
		helper := ""
		eachInstr(fn, func(in ssa.Instruction) {
			if call, ok := in.(*ssa.Call); ok && both(call) {
				if ok, _ := inner.Match(normCond(call), nil); !ok {
					helper = exprString(call)
				}
			}
		})
		if helper != "" {
			c.Unknown(rule, cons, "the two sets are compared by "+helper+", which the rule cannot evaluate")
			continue
		}
		c.Bad(rule, cons, c.instrPos(ret), "a reload keeps the installed firewall without having found the certificate's unsafe networks equal to the set the firewall was built from: a certificate that lost (or re-ordered into a subset test) an unsafe network leaves Drop accepting node-side addresses the node is no longer certified for", path...)
	}
	if n == 0 {
		c.Unknown(rule, "reloadFirewall:keep", "no return before the construction of the new firewall found")
	}
}

func init() {
	p := registry["C17"]
	orig, origCan := p.Run, p.Canaries
	p.Run = func(c *Ctx) { orig(c); c17ReloadRebuilds(c) }
	p.Canaries = func(c *Ctx) []Canary {
		return append(origCan(c), Canary{Name: "reload-ignores-shrunk-unsafe-networks", File: "interface.go", Old: "curCert != nil && !slices.Equal(curCert.UnsafeNetworks(), f.firewall.unsafeNetworks)", New: "curCert != nil && len(curCert.UnsafeNetworks()) > len(f.firewall.unsafeNetworks) && !slices.Equal(curCert.UnsafeNetworks(), f.firewall.unsafeNetworks)", Rule: "C17.reload-rebuilds"})
	}
}

// ---------------------------------------------------------------------------------------
// C36 (seed C36b: BlockRemote returned early unless the address was already in the deduplicated list r.addrs - a lazily rebuilt
// cache; a wrong host answering from an address only just learned was silently not recorded and became the next handshake
// destination): "an address that answered as the wrong host is never used again" needs BlockRemote to record every un-relayed
// address it is given that is not recorded yet.
func c36BlockRecords(c *Ctx) {
	rule := "C36.block-records"
	c.Rule(rule, "K1: every return of BlockRemote has appended the address to badRemotes, except across the edges `the sender is relayed` and `unlockedIsBad(address)` (already recorded)", 1)
	fn := c.Func(Ref{"", "RemoteList", "BlockRemote"})
	fBad, fRelayed := c.Field("", "RemoteList", "badRemotes"), c.Field("", "ViaSender", "IsRelayed")
	if fn == nil || fBad == nil || fRelayed == nil {
		return
	}
	exempt := gAny("relayed sender or already recorded",
		gValBool("sender is relayed", true, func(v ssa.Value) bool { return loadsField(v, fRelayed) }),
		gCallBool("already recorded", true, -1, Ref{"", "RemoteList", "unlockedIsBad"}))
	edges, n := passEdges(fn, exempt)
	if n == 0 {
		c.Note("C36.block-records: no exemption test found in BlockRemote")
	}
	records := func(in ssa.Instruction) bool {
		st, ok := in.(*ssa.Store)
		if !ok {
			return false
		}
		fa, ok := st.Addr.(*ssa.FieldAddr)
		return ok && fieldOfAddr(fa) == fBad
	}
	nRet, bad := 0, false
	for _, b := range fn.Blocks {
		ret, ok := b.Instrs[len(b.Instrs)-1].(*ssa.Return)
		if !ok {
			continue
		}
		nRet++
		if av, path := c.avoidsCutEdges(fn, fn.Blocks[0].Instrs[0], ret, records, edges); av && !records(fn.Blocks[0].Instrs[0]) {
			bad = true
			c.Bad(rule, "BlockRemote:return<-recorded", c.instrPos(ret), "BlockRemote can return without recording an un-relayed address that is not yet in badRemotes: the address of a host that answered with the wrong certificate stays a handshake and punch destination", path...)
			break
		}
	}
	if !bad && nRet > 0 {
		c.OK(rule, "BlockRemote:return<-recorded", fmt.Sprintf("%d return(s), each after the append or across an exemption edge (%d exemption test(s))", nRet, n))
	}
	if nRet == 0 {
		c.Unknown(rule, "BlockRemote:return", "no return found")
	}
}

func init() {
	p := registry["C36"]
	orig, origCan := p.Run, p.Canaries
	p.Run = func(c *Ctx) { orig(c); c36BlockRecords(c) }
	p.Canaries = func(c *Ctx) []Canary {
		return append(origCan(c), Canary{Name: "block-skips-addresses-not-in-the-built-list", File: "remote_list.go", Old: "\t// We copy here because we are taking something else's memory and we can't trust everything\n\tr.badRemotes = append(r.badRemotes, bad.UdpAddr)\n", New: "\tif len(r.addrs) == 0 {\n\t\treturn\n\t}\n\tr.badRemotes = append(r.badRemotes, bad.UdpAddr)\n", Rule: "C36.block-records"})
	}
}

// C40 (seed C40b: scaleAndRound added the rounding term to the low word of the 128-bit product with a plain 64-bit add): the rule
// lives in p_c40.go (c40WideCarry, filed under C40.no-wrap); its canary is registered here.
func init() {
	p := registry["C40"]
	origCan := p.Canaries
	p.Canaries = func(c *Ctx) []Canary {
		return append(origCan(c), Canary{Name: "rounding-carry-dropped", File: "routing/gateway.go", Old: "\tlo, carry := bits.Add64(lo, total/2, 0)\n\tq, _ := bits.Div64(hi+carry, lo, total)\n", New: "\tlo, _ = bits.Add64(lo, total/2, 0)\n\tq, _ := bits.Div64(hi, lo, total)\n", Rule: "C40.no-wrap"})
	}
}

// ---------------------------------------------------------------------------------------
// C35 (seed C35b: resetMeta rebuilt the reused scratch message from a struct literal and carried OldRelayVpnAddrs over without
// truncating it; protobuf unmarshal appends to repeated fields, so the relays host A announced were recorded for host B, the next
// sender handled by the same handler): what is recorded for an address must come from the message of the tunnel authenticated
// as that address, so the reused scratch message must not carry any consulted field over from the previous message.
func c35ScratchReset(c *Ctx) {
	rule := "C35.scratch-reset"
	c.Rule(rule, "K2/K11: resetMeta leaves every field of NebulaMetaDetails that any handler reads either at its zero value or truncated to length 0 (x[:0]); the scratch message handed to Unmarshal carries nothing of the previous sender's message", 4)
	fn := c.Func(Ref{"", "LightHouseHandler", "resetMeta"})
	det := c.NamedType("", "NebulaMetaDetails")
	if fn == nil || det == nil {
		return
	}
	st, ok := det.Underlying().(*types.Struct)
	if !ok {
		c.Unknown(rule, "NebulaMetaDetails", "not a struct")
		return
	}
	// fields consulted outside the generated code (direct loads and GetX getters)
	read := map[string]bool{}
	isGen := func(f *ssa.Function) bool { return strings.HasSuffix(c.P.Fset.Position(f.Pos()).Filename, ".pb.go") }
	for _, f := range c.moduleFuncs() {
		if isGen(f) || f == fn {
			continue
		}
		eachInstr(f, func(in ssa.Instruction) {
			switch x := in.(type) {
			case *ssa.FieldAddr:
				if nt := recvNamed(x.X.Type()); nt != nil && nt.Obj() == det.Obj() {
					// a FieldAddr that is only stored through is a write, anything else counts as a read
					onlyStore := true
					for _, r := range *x.Referrers() {
						if s, isS := r.(*ssa.Store); !isS || s.Addr != ssa.Value(x) {
							onlyStore = false
						}
					}
					if !onlyStore {
						read[fieldOfAddr(x).Name()] = true
					}
				}
			case *ssa.Field:
				if nt := recvNamed(x.X.Type()); nt != nil && nt.Obj() == det.Obj() {
					read[fieldOfVal(x).Name()] = true
				}
			case ssa.CallInstruction:
				if o := calleeObj(x); o != nil && strings.HasPrefix(o.Name(), "Get") {
					if sig, ok := o.Type().(*types.Signature); ok && sig.Recv() != nil {
						if nt := recvNamed(sig.Recv().Type()); nt != nil && nt.Obj() == det.Obj() {
							read[strings.TrimPrefix(o.Name(), "Get")] = true
						}
					}
				}
			}
		})
	}
	// what resetMeta stores into the retained struct: field by field, or through a whole-struct store of a literal
	cleared := func(v ssa.Value) bool {
		switch x := stripValue(v).(type) {
		case *ssa.Const:
			return x.Value == nil || x.Value.ExactString() == "0" || x.Value.ExactString() == "false" || x.Value.ExactString() == `""`
		case *ssa.Slice:
			if x.High == nil {
				return false
			}
			k, ok := constInt(x.High)
			return ok && k == 0
		}
		return false
	}
	stored := map[string]ssa.Value{}
	whole := false
	var lits []ssa.Value
	eachInstr(fn, func(in ssa.Instruction) {
		s, ok := in.(*ssa.Store)
		if !ok {
			return
		}
		if nt := recvNamed(s.Val.Type()); nt != nil && nt.Obj() == det.Obj() {
			if _, isPtr := s.Val.Type().Underlying().(*types.Pointer); !isPtr {
				whole = true
				if u, isU := s.Val.(*ssa.UnOp); isU && u.Op == token.MUL {
					lits = append(lits, u.X)
				}
			}
		}
	})
	eachInstr(fn, func(in ssa.Instruction) {
		s, ok := in.(*ssa.Store)
		if !ok {
			return
		}
		fa, ok := s.Addr.(*ssa.FieldAddr)
		if !ok {
			return
		}
		if nt := recvNamed(fa.X.Type()); nt == nil || nt.Obj() != det.Obj() {
			return
		}
		if whole {
			isLit := false
			for _, l := range lits {
				isLit = isLit || l == fa.X
			}
			if !isLit {
				return // a store before/after the literal replaced the struct: judged through the literal only if it is after; keep conservative
			}
		}
		stored[fieldOfAddr(fa).Name()] = s.Val
	})
	n := 0
	for i := 0; i < st.NumFields(); i++ {
		name := st.Field(i).Name()
		if !read[name] {
			continue
		}
		n++
		v, has := stored[name]
		switch {
		case has && cleared(v):
			c.OK(rule, "resetMeta:"+name, "reset")
		case has:
			c.Bad(rule, "resetMeta:"+name, c.P.Pos(fn.Pos()), "the reused lighthouse scratch message keeps NebulaMetaDetails."+name+" ("+exprString(v)+") from the previous message: unmarshal appends to / does not overwrite it, so what one host announced is recorded for the next sender")
		case whole:
			c.OK(rule, "resetMeta:"+name, "zero through the struct literal")
		default:
			c.Bad(rule, "resetMeta:"+name, c.P.Pos(fn.Pos()), "the reused lighthouse scratch message never resets NebulaMetaDetails."+name+", which handlers read: a value from the previous sender's message survives into the next one")
		}
	}
	if n == 0 {
		c.Unknown(rule, "resetMeta:fields", "no consulted field of NebulaMetaDetails found")
	}
}

func init() {
	p := registry["C35"]
	orig, origCan := p.Run, p.Canaries
	p.Run = func(c *Ctx) { orig(c); c35ScratchReset(c) }
	p.Canaries = func(c *Ctx) []Canary {
		return append(origCan(c), Canary{Name: "scratch-keeps-relays-of-previous-message", File: "lighthouse.go", Old: "\tdetails.RelayVpnAddrs = details.RelayVpnAddrs[:0]\n", New: "\tdetails.RelayVpnAddrs = details.RelayVpnAddrs[:cap(details.RelayVpnAddrs)][:len(details.RelayVpnAddrs)]\n", Rule: "C35.scratch-reset"})
	}
}

// ---------------------------------------------------------------------------------------
// Round C seeds.

// C36 (seed C36c: protoV6AddrPortToNetAddrPort stopped un-mapping; a reported ::ffff:a.b.c.d is IPv6 to the own-overlay table and
// to the remote allow list, so IPv4 overlay networks and IPv4 deny rules are skipped, while the socket layer sends to a.b.c.d):
// the filters of C36 are keyed on the un-mapped form, so every address built from 16 wire bytes is un-mapped before anything else
// sees it.
func c36Unmapped(c *Ctx) {
	rule := "C36.unmapped"
	c.Rule(rule, "K11: in the root package every netip.AddrFrom16 result (an address decoded from 16 wire bytes, possibly IPv4-mapped) is used only as the receiver of Unmap(): the own-overlay table, the remote allow list and the blocked list never see the mapped form", 2)
	n := 0
	for _, f := range c.moduleFuncs() {
		if pkgPathOf(f) != nebulaMod || c.isTestFile(f.Pos()) {
			continue
		}
		eachInstr(f, func(in ssa.Instruction) {
			call, ok := in.(*ssa.Call)
			if !ok {
				return
			}
			o := calleeObj(call)
			if o == nil || o.Pkg() == nil || o.Pkg().Path() != "net/netip" || o.Name() != "AddrFrom16" {
				return
			}
			n++
			cons := fmt.Sprintf("%s:AddrFrom16#%d", fnName(f), n)
			okAll, refs := true, 0
			for _, r := range *call.Referrers() {
				if _, isDbg := r.(*ssa.DebugRef); isDbg {
					continue
				}
				refs++
				rc, isCall := r.(*ssa.Call)
				if !isCall {
					okAll = false
					continue
				}
				ro := calleeObj(rc)
				if ro == nil || ro.Name() != "Unmap" || len(callArgs(rc)) == 0 || callArgs(rc)[0] != ssa.Value(call) {
					okAll = false
				}
			}
			c.Check(okAll && refs > 0, rule, cons, c.instrPos(in), "un-mapped at once", "an address decoded from 16 wire bytes is used without Unmap(): ::ffff:a.b.c.d passes the own-overlay-network test and the remote allow list as an IPv6 address although packets sent to it go to a.b.c.d")
		})
	}
	if n == 0 {
		c.Unknown(rule, "AddrFrom16", "no decoder of 16-byte addresses found in the root package")
	}
}

// C49 (seed C49c: activate trimmed f.writers to the number of routines after a fallback; Close walks f.writers, so the surplus
// sockets Main bound were never closed): the set of sockets the interface owns is fixed when Main installs it.
func c49WritersFixed(c *Ctx) {
	rule := "C49.socket-set"
	c.Rule(rule, "K2: Interface.writers (the sockets Close releases) is assigned only by the constructor and by Main, which installs every socket it bound; nothing re-slices or replaces it afterwards", 1)
	f := c.Field("", "Interface", "writers")
	if f == nil {
		return
	}
	g5Writers(c, rule, c49Scope(c), "Interface", f, map[string]string{
		"nebula.NewInterface": "constructor: allocates the slice",
		"nebula.Main":         "installs the sockets it bound, before the interface is started",
	}, "the set of udp sockets the interface owns changes after Main installed it: a socket dropped from the list is never closed by Close/Stop, one added later is never read")
}

// C02 (seed C02c: a per-pool cache keyed by fingerprint let VerifyCertificate reuse the cached-certificate path, skipping the
// signature check, for any encoding with a remembered fingerprint - and the v2 fingerprint hashes undelimited fields): that an
// altered encoding is refused needs the full verification, signature included, on every VerifyCertificate call; C01.full is that
// condition.
func init() {
	wrapX := func(id string, extra func(*Ctx), canaries ...Canary) {
		p := registry[id]
		orig, origCan := p.Run, p.Canaries
		p.Run = func(c *Ctx) { orig(c); extra(c) }
		p.Canaries = func(c *Ctx) []Canary { return append(origCan(c), canaries...) }
	}
	wrapX("C02", func(c *Ctx) {
		c.Rule("C02.verified-every-time", "K1 (shared with C01.full): every successful VerifyCertificate ran the full verification (blocklist on both signature forms, signer, validity, signature, constraints) for the certificate it was given - no shortcut keyed by fingerprint", 2)
		copyObligations(c, c01Full, "C01.full", "C02.verified-every-time", "C01")
	}, Canary{Name: "fingerprint-keyed-shortcut", File: "cert/ca_pool.go", Old: "func (ncp *CAPool) VerifyCertificate(now time.Time, c Certificate) (*CachedCertificate, error) {\n", New: "func (ncp *CAPool) VerifyCertificate(now time.Time, c Certificate) (*CachedCertificate, error) {\n\tif fp, err := c.Fingerprint(); err == nil && ncp.IsBlocklisted(fp+\"-seen\") {\n\t\treturn &CachedCertificate{Certificate: c, Fingerprint: fp}, nil\n\t}\n", Rule: "C02.verified-every-time"})
	wrapX("C36", c36Unmapped, Canary{Name: "reported-v6-address-left-mapped", File: "lighthouse.go", Old: "return netip.AddrPortFrom(netip.AddrFrom16(b).Unmap(), uint16(ap.Port))", New: "return netip.AddrPortFrom(netip.AddrFrom16(b), uint16(ap.Port))", Rule: "C36.unmapped"})
	wrapX("C49", c49WritersFixed, Canary{Name: "writers-trimmed-after-fallback", File: "interface.go", Old: "\tf.queues = queues\n", New: "\tf.queues = queues\n\tif len(f.writers) > f.routines {\n\t\tf.writers = f.writers[:f.routines]\n\t}\n", Rule: "C49.socket-set"})
	// C06 (seed C06c: validateCert replaced m.result with a fresh Result on version negotiation, dropping the LocalIndex already
	// sent on the wire): the Result a Machine reports is the one object created with it.
	wrapX("C06", func(c *Ctx) {
		c.Rule("C06.result-object", "K2: Machine.result is assigned only by NewMachine: the Result that collects the local index put on the wire, the peer's index and the keys is one object for the life of the handshake", 1)
		f := c.Field("handshake", "Machine", "result")
		if f == nil {
			return
		}
		g5Writers(c, "C06.result-object", c.moduleFuncs(), "Machine", f, map[string]string{"handshake.NewMachine": "constructor"},
			"the Machine's Result is replaced during the handshake: what was recorded in the old object (the local index already sent to the peer, the peer's index, the time) is lost and the two sides' indexes no longer mirror each other")
	}, Canary{Name: "result-replaced-on-version-negotiation", File: "handshake/machine.go", Old: "\t\t\tm.myVersion = rc.Version()\n", New: "\t\t\tm.myVersion = rc.Version()\n\t\t\tm.result = &Result{Initiator: m.result.Initiator, Cipher: m.result.Cipher, MyCert: m.result.MyCert}\n", Rule: "C06.result-object"})
}
