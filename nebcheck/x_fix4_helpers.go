package main

import (
	"go/types"

	"golang.org/x/tools/go/ssa"
)

// Helpers for rules that are anchored on a named function but must keep deciding when a block of that function was extracted
// into a private helper, or when the function was inlined into its only caller.
//
// A "family" is a set of root functions plus every private helper of them: an unexported function declared in the same
// package, never used as a function value, never the target of a go statement from outside, whose every static call site
// lies in a function of the family. Such a helper cannot run except as a part of one of the roots, so what it does is what
// the roots do.

type fix4CallGraph struct {
	callers map[*ssa.Function][]fix4Site // static call sites per callee (closures attributed to their enclosing declaration)
	escapes map[*ssa.Function]bool       // used as a function value / bound method somewhere
	invoked map[string]bool              // method names called through an interface somewhere in the module
}

type fix4Site struct {
	Fn *ssa.Function // function containing the call (may be a closure)
	In ssa.CallInstruction
}

func fix4BuildCallGraph(funcs []*ssa.Function) *fix4CallGraph {
	g := &fix4CallGraph{callers: map[*ssa.Function][]fix4Site{}, escapes: map[*ssa.Function]bool{}, invoked: map[string]bool{}}
	for _, fn := range funcs {
		eachInstr(fn, func(in ssa.Instruction) {
			var calleeOp *ssa.Value
			if ci, ok := in.(ssa.CallInstruction); ok {
				cc := ci.Common()
				if cc.IsInvoke() {
					g.invoked[cc.Method.Name()] = true
				} else if f, isF := cc.Value.(*ssa.Function); isF {
					calleeOp = &cc.Value
					g.callers[f] = append(g.callers[f], fix4Site{fn, ci})
				}
			}
			var ops []*ssa.Value
			ops = in.Operands(ops)
			for _, op := range ops {
				if op == nil || *op == nil || op == calleeOp {
					continue
				}
				f, ok := (*op).(*ssa.Function)
				if !ok {
					continue
				}
				g.escapes[f] = true
				if f.Synthetic != "" {
					if o := boundTarget(f); o != nil {
						g.invoked["\x00bound:"+o.FullName()] = true
					}
				}
			}
		})
	}
	return g
}

func (g *fix4CallGraph) escaped(f *ssa.Function) bool {
	if g.escapes[f] {
		return true
	}
	if o := fnObj(f); o != nil {
		if g.invoked["\x00bound:"+o.FullName()] {
			return true
		}
		if sig, ok := o.Type().(*types.Signature); ok && sig.Recv() != nil && g.invoked[o.Name()] {
			return true // a method of that name is called through an interface: callers cannot be enumerated
		}
	}
	return false
}

// fix4Family closes roots under private helpers.
func fix4Family(c *Ctx, funcs []*ssa.Function, g *fix4CallGraph, roots ...*ssa.Function) map[*ssa.Function]bool {
	fam := map[*ssa.Function]bool{}
	var pkg *ssa.Package
	for _, r := range roots {
		if r != nil {
			fam[r] = true
			pkg = r.Pkg
		}
	}
	if pkg == nil {
		return fam
	}
	for changed := true; changed; {
		changed = false
		for _, f := range funcs {
			if fam[f] || f.Parent() != nil || f.Synthetic != "" || f.Pkg != pkg || f.Blocks == nil {
				continue
			}
			o := fnObj(f)
			if o == nil || o.Exported() || c.isTestFile(f.Pos()) || g.escaped(f) {
				continue
			}
			sites := g.callers[f]
			n, ok := 0, true
			for _, s := range sites {
				t := topFunc(s.Fn)
				if t == f {
					continue
				}
				n++
				if _, isGo := s.In.(*ssa.Go); isGo || !fam[t] {
					ok = false
				}
			}
			if ok && n > 0 {
				fam[f] = true
				changed = true
			}
		}
	}
	return fam
}

// fix4BindParam propagates "the value v of root" through the calls inside the family: bind[h] is the parameter of helper h that
// receives v at every one of its call sites. A helper some call site of which does not pass v directly gets no binding (nil).
func fix4BindParam(fam map[*ssa.Function]bool, g *fix4CallGraph, root *ssa.Function, v ssa.Value) map[*ssa.Function]ssa.Value {
	bind := map[*ssa.Function]ssa.Value{root: v}
	for round := 0; round < 4; round++ {
		for h := range fam {
			if h == root {
				continue
			}
			var got ssa.Value
			ok := true
			seen := 0
			for _, s := range g.callers[h] {
				if s.Fn == h {
					continue
				}
				cv, bound := bind[s.Fn]
				if !bound || cv == nil {
					ok = false // caller is a closure, outside the family, or not (yet) bound
					continue
				}
				seen++
				k := -1
				for i, a := range callArgs(s.In) {
					if stripValue(a) == cv || a == cv {
						k = i
						break
					}
				}
				if k < 0 || k >= len(h.Params) {
					ok = false
					continue
				}
				if got == nil {
					got = h.Params[k]
				} else if got != ssa.Value(h.Params[k]) {
					ok = false
				}
			}
			if ok && seen > 0 && got != nil {
				bind[h] = got
			}
		}
	}
	return bind
}

// fix4Cut describes something every return of a function must have passed: directly, or inside a family helper on every path
// through that helper.
type fix4Cut struct {
	Name   string
	Direct func(f *ssa.Function, hi ssa.Value) func(ssa.Instruction) bool
	// Skip: edges through which the cut may legitimately be bypassed (computed per function), may be nil
	Skip func(f *ssa.Function, hi ssa.Value) map[Edge]bool
}

type fix4MustPass struct {
	c    *Ctx
	fam  map[*ssa.Function]bool
	root *ssa.Function
	// Unfollowed is set when a family helper was called without the tracked value among its arguments, so what it does for the
	// tracked tunnel could not be mapped back
	Unfollowed bool
}

func fix4Returns(fn *ssa.Function) []*ssa.Return {
	var rets []*ssa.Return
	for _, b := range fn.Blocks {
		if len(b.Instrs) == 0 {
			continue
		}
		if r, ok := b.Instrs[len(b.Instrs)-1].(*ssa.Return); ok {
			rets = append(rets, r)
		}
	}
	return rets
}

func (m *fix4MustPass) pred(f *ssa.Function, hi ssa.Value, spec fix4Cut, depth int) func(ssa.Instruction) bool {
	d := spec.Direct(f, hi)
	memo := map[ssa.Instruction]bool{}
	return func(in ssa.Instruction) bool {
		if d(in) {
			return true
		}
		ci, ok := in.(*ssa.Call)
		if !ok {
			return false
		}
		h := ci.Common().StaticCallee()
		if h == nil || !m.fam[h] || h == m.root || h == f || h.Blocks == nil {
			return false
		}
		if v, done := memo[in]; done {
			return v
		}
		res := false
		if depth >= 3 {
			m.Unfollowed = true
		} else {
			k := -1
			for i, a := range callArgs(ci) {
				if a == hi || stripValue(a) == hi {
					k = i
					break
				}
			}
			if k < 0 || k >= len(h.Params) {
				if m.mentions(h, spec, 0) {
					m.Unfollowed = true
				}
			} else {
				res = m.allReturnsPass(h, h.Params[k], spec, depth+1)
			}
		}
		memo[in] = res
		return res
	}
}

// mentions: the helper (or a family helper below it) contains the construct for some binding of its parameters.
func (m *fix4MustPass) mentions(h *ssa.Function, spec fix4Cut, depth int) bool {
	cands := []ssa.Value{nil}
	for _, p := range h.Params {
		cands = append(cands, p)
	}
	found := false
	for _, p := range cands {
		d := spec.Direct(h, p)
		eachInstr(h, func(in ssa.Instruction) {
			if d(in) {
				found = true
			}
		})
	}
	if found || depth >= 3 {
		return found
	}
	eachInstr(h, func(in ssa.Instruction) {
		if ci, ok := in.(ssa.CallInstruction); ok {
			if g := ci.Common().StaticCallee(); g != nil && m.fam[g] && g != h && g != m.root && g.Blocks != nil && !found {
				found = m.mentions(g, spec, depth+1)
			}
		}
	})
	return found
}

func (m *fix4MustPass) allReturnsPass(f *ssa.Function, hi ssa.Value, spec fix4Cut, depth int) bool {
	ok, _, _ := m.check(f, hi, spec, depth)
	return ok
}

// check: does every return of f pass the cut? On failure the return and a witness path are given.
func (m *fix4MustPass) check(f *ssa.Function, hi ssa.Value, spec fix4Cut, depth int) (bool, *ssa.Return, []string) {
	cut := m.pred(f, hi, spec, depth)
	var skip map[Edge]bool
	if spec.Skip != nil {
		skip = spec.Skip(f, hi)
	}
	rets := fix4Returns(f)
	if len(rets) == 0 {
		return false, nil, nil
	}
	for _, r := range rets {
		var av bool
		var path []string
		if len(skip) > 0 {
			av, path = m.c.avoidsCutEdges(f, f.Blocks[0].Instrs[0], r, cut, skip)
		} else {
			av, path = m.c.avoidsCut(f, nil, r, cut)
		}
		if av {
			return false, r, path
		}
	}
	return true, nil, nil
}

// fix4HostInfoLoops: range loops of f over hi.vpnAddrs
func fix4VpnLoops(f *ssa.Function, hi ssa.Value, fVpn *types.Var) []loopInfo {
	return findRangeLoops(f, func(v ssa.Value) bool {
		return loadsField(v, fVpn) && derivesFrom(v, sliceLocal, func(x ssa.Value) bool { return x == hi })
	})
}

// fix4FamilyOrder lists a family deterministically (roots first is not needed; by name).
func fix4FamilyList(funcs []*ssa.Function, fam map[*ssa.Function]bool) []*ssa.Function {
	var out []*ssa.Function
	for _, f := range funcs {
		if fam[f] {
			out = append(out, f)
		}
	}
	return out
}

// fix4ReachFamily: the members of fam that root reaches through static calls inside the family (root included).
func fix4ReachFamily(fam map[*ssa.Function]bool, root *ssa.Function) map[*ssa.Function]bool {
	out := map[*ssa.Function]bool{}
	var walk func(f *ssa.Function)
	walk = func(f *ssa.Function) {
		if out[f] {
			return
		}
		out[f] = true
		for _, ff := range funcsWithAnon(f) {
			eachInstr(ff, func(in ssa.Instruction) {
				if ci, ok := in.(ssa.CallInstruction); ok {
					if h := ci.Common().StaticCallee(); h != nil && fam[h] && h.Blocks != nil {
						walk(h)
					}
				}
			})
		}
	}
	walk(root)
	return out
}

// fix4PrependElems: for `append(S, tail...)` where S is a slice literal, the values stored into the literal.
func fix4PrependElems(call *ssa.Call) []ssa.Value {
	if len(call.Call.Args) != 2 {
		return nil
	}
	sl, ok := call.Call.Args[0].(*ssa.Slice)
	if !ok {
		return nil
	}
	al, ok := sl.X.(*ssa.Alloc)
	if !ok {
		return nil
	}
	var out []ssa.Value
	clean := true
	for _, ref := range *al.Referrers() {
		switch r := ref.(type) {
		case *ssa.IndexAddr:
			for _, rr := range *r.Referrers() {
				if st, isSt := rr.(*ssa.Store); isSt && st.Addr == ssa.Value(r) {
					out = append(out, st.Val)
				} else {
					clean = false
				}
			}
		case *ssa.Slice:
		default:
			clean = false
		}
	}
	if !clean {
		return nil
	}
	return out
}

// fix4AllEdges: v (through phis) satisfies pred on every incoming edge; otherwise the first value that does not.
func fix4AllEdges(v ssa.Value, pred func(ssa.Value) bool) (bool, ssa.Value) {
	seen := map[ssa.Value]bool{}
	var walk func(v ssa.Value) (bool, ssa.Value)
	walk = func(v ssa.Value) (bool, ssa.Value) {
		if seen[v] {
			return true, nil
		}
		seen[v] = true
		if pred(v) {
			return true, nil
		}
		if phi, ok := v.(*ssa.Phi); ok {
			for _, e := range phi.Edges {
				if ok, bad := walk(e); !ok {
					return false, bad
				}
			}
			return true, nil
		}
		return false, v
	}
	return walk(v)
}
