package main

import (
	"fmt"
	"go/token"
	"sort"
	"strings"

	"golang.org/x/tools/go/ssa"
)

func init() {
	register(&Property{
		ID: "C03", Title: "Every issued certificate decodes back to itself",
		Patterns:  []string{"./cert/..."},
		Technique: "decoder/validator constraint agreement (content conditions of the v2 decoder mapped to the field they constrain and required in validate()), dominating validate() on both decoders, PEM banner writer/reader table, version dispatch exhaustiveness, no-panic constructs on the decode call graph",
		LevelText: "Structural necessary conditions: every content constraint the v2 decoder enforces on a decoded field (non-empty, maximum length) is also enforced, at least as strongly, by the validate() that signing runs — otherwise Sign can emit a certificate that cannot be decoded; both decoders return only after the same validate() the signer uses; each PEM banner written is the one its decoder arm accepts for the same version; Recombine dispatches every version SignWith can produce; the decode call graph contains no panic() and no unchecked type assertion.",
		LevelNote: "Not decided: byte-exact round trip of values (encoding arithmetic of protobuf / ASN.1), bounds of computed indexes inside the decoders.",
		Explanation: "K7-style agreement between unmarshalDetails' content conditions and certificateV2.validate, K1 validate-before-success on unmarshalCertificateV1/V2, K7 banner table MarshalPEM vs unmarshalCertificateBlock, K15 Recombine version switch, K12 no-panic scan over the static call closure of the decode roots",
		Run:       runC03,
		Canaries: func(c *Ctx) []Canary {
			return []Canary{
				{Name: "decoder-max-name-lowered", File: "cert/cert_v2.go", Old: "|| name.Empty() || len(name) > MaxNameLength {", New: "|| name.Empty() || len(name) > MaxNameLength-3 {", Rule: "C03.agreement"},
				{Name: "v2-unmarshal-skips-validate", File: "cert/cert_v2.go", Old: "\terr = c.validate()\n\tif err != nil {\n\t\treturn nil, err\n\t}\n\n\treturn c, nil\n}\n\nfunc unmarshalDetails", New: "\treturn c, nil\n}\n\nfunc unmarshalDetails", Rule: "C03.validate"},
				{Name: "v2-banner-decoded-as-v1", File: "cert/pem.go", Old: "\tcase CertificateBanner:\n\t\treturn unmarshalCertificateV1(block.Bytes, nil)\n\tcase CertificateV2Banner:", New: "\tcase CertificateBanner, CertificateV2Banner:\n\t\treturn unmarshalCertificateV1(block.Bytes, nil)\n\tcase \"NEBULA CERTIFICATE V3\":", Rule: "C03.banner"},
				{Name: "decoder-rejects-long-groups", File: "cert/cert_v2.go", Old: "if !subString.ReadASN1(&val, asn1.UTF8String) || val.Empty() {", New: "if !subString.ReadASN1(&val, asn1.UTF8String) || val.Empty() || len(val) > 64 {", Rule: "C03.agreement"},
			}
		},
	})
}

type decConstraint struct {
	Field string
	Kind  string // nonempty | maxlen
	K     int64
	Pos   string
}

func runC03(c *Ctx) {
	c.Rule("C03.agreement", "K7: each content constraint (non-empty / max length) that unmarshalDetails enforces on a decoded field is enforced at least as strongly by certificateV2.validate (which fromTBSCertificate runs before signing)", 3)
	c.Rule("C03.validate", "K1: unmarshalCertificateV1/V2 succeed only after validate() of the decoded certificate returned nil", 2)
	c.Rule("C03.banner", "K7: the PEM banner MarshalPEM writes for a version is the banner unmarshalCertificateBlock routes to that version's decoder", 2)
	c.Rule("C03.dispatch", "K15: Recombine has a decoding arm for every Version constant and refuses others", 2)
	c.Rule("C03.no-panic", "K12: no panic() and no single-result type assertion in the static call closure of the decode entry points inside package cert", 1)

	d2 := c.NamedType("cert", "detailsV2")
	ud := c.Func(Ref{"cert", "", "unmarshalDetails"})
	val2 := c.Func(Ref{"cert", "certificateV2", "validate"})
	if d2 == nil || ud == nil || val2 == nil {
		return
	}
	cons := c03DecoderConstraints(c, ud, d2)
	c.Note("decoder content constraints found: %v", cons)
	for _, dc := range cons {
		c03RequireInValidate(c, val2, dc)
	}
	// validate dominates success in both decoders
	for _, v := range []struct{ fn, recv string }{{"unmarshalCertificateV1", "certificateV1"}, {"unmarshalCertificateV2", "certificateV2"}} {
		fn := c.Func(Ref{"cert", "", v.fn})
		if fn == nil {
			continue
		}
		c.requireGuards("C03.validate", fn, successReturns(fn, 1), "success-return", gErrNil("validate() == nil", callTo(Ref{"cert", v.recv, "validate"})))
	}
	c03Banners(c)
	c03Dispatch(c)
	c03NoPanic(c)
}

// c03DecoderConstraints finds conditions `X.Empty()` and `len(X) > K` on cryptobyte values in the
// decoder and maps X to the details field it feeds.
func c03DecoderConstraints(c *Ctx, fn *ssa.Function, det *typesNamed) []decConstraint {
	loops := naturalLoops(fn)
	fieldVals := fieldsWrittenBy(fn, det)
	// which fields does local variable V (an Alloc) feed, given the block of the condition
	// follow ordinary calls (conversions, hex encoding, UnmarshalBinary out-parameters) but not the
	// cryptobyte readers, which all share the input cursor
	opts := SliceOpts{Transparent: func(call *ssa.Call) bool {
		o := calleeObj(call)
		if o == nil {
			return builtinName(call) != ""
		}
		if o.Pkg() != nil && o.Pkg().Path() == "golang.org/x/crypto/cryptobyte" {
			return false
		}
		// helpers that take the reader cursor (*cryptobyte.String) are readers too
		sig := o.Type().(*typesSignature)
		for i := 0; i < sig.Params().Len(); i++ {
			if n := recvNamed(sig.Params().At(i).Type()); n != nil && n.Obj().Pkg() != nil && n.Obj().Pkg().Path() == "golang.org/x/crypto/cryptobyte" {
				return false
			}
		}
		return true
	}}
	fieldsFor := func(v *ssa.Alloc, blk *ssa.BasicBlock) []string {
		var out []string
		l := innermostLoop(loops, blk)
		for name, fv := range fieldVals {
			hit := false
			backSlice(fv, opts, func(x ssa.Value) {
				if hit {
					return
				}
				if l != nil {
					// an append (or element producing call) located in the same loop
					if call, ok := x.(*ssa.Call); ok && builtinName(call) == "append" && l.Body[call.Block()] {
						// and that append consumes V
						if derivesFrom(call, opts, func(y ssa.Value) bool { return y == v }) {
							hit = true
						}
					}
				} else if x == v {
					hit = true
				}
			})
			if hit {
				out = append(out, name)
			}
		}
		sort.Strings(out)
		return out
	}
	allocOf := func(v ssa.Value) *ssa.Alloc {
		v = stripValue(v)
		if u, ok := v.(*ssa.UnOp); ok && u.Op == token.MUL {
			v = u.X
		}
		a, _ := v.(*ssa.Alloc)
		return a
	}
	var out []decConstraint
	for _, b := range fn.Blocks {
		if len(b.Instrs) == 0 {
			continue
		}
		ifi, ok := b.Instrs[len(b.Instrs)-1].(*ssa.If)
		if !ok {
			continue
		}
		cd := normCond(ifi.Cond)
		var v *ssa.Alloc
		kind := ""
		var k int64
		switch cd.Kind {
		case CondBool:
			if call, _ := callOf(cd.Base); call != nil && matchFunc(calleeObj(call), Ref{"golang.org/x/crypto/cryptobyte", "String", "Empty"}) {
				v = allocOf(callArgs(call)[0])
				kind = "nonempty"
			}
		case CondCmp:
			bo := cd.Base.(*ssa.BinOp)
			if call, ok := stripValue(bo.X).(*ssa.Call); ok && builtinName(call) == "len" && bo.Op == token.GTR {
				if kk, isK := constInt(bo.Y); isK {
					v = allocOf(call.Call.Args[0])
					kind, k = "maxlen", kk
				}
			}
		}
		if v == nil {
			continue
		}
		fs := fieldsFor(v, b)
		if len(fs) == 0 {
			continue // framing value (envelope), not a decoded field
		}
		for _, f := range fs {
			out = append(out, decConstraint{Field: f, Kind: kind, K: k, Pos: c.instrPos(ifi)})
		}
	}
	sort.Slice(out, func(i, j int) bool { return out[i].Field+out[i].Kind < out[j].Field+out[j].Kind })
	return out
}

// c03RequireInValidate demands the matching rejecting condition in validate().
func c03RequireInValidate(c *Ctx, val *ssa.Function, dc decConstraint) {
	cons := fmt.Sprintf("detailsV2.%s:%s", dc.Field, dc.Kind)
	fld := c.Field("cert", "detailsV2", dc.Field)
	if fld == nil {
		return
	}
	fromField := func(v ssa.Value) bool {
		return derivesFrom(v, sliceLocal, func(x ssa.Value) bool { return loadsField(x, fld) })
	}
	sinks := successReturns(val, 0)
	emptyStr := func(v ssa.Value) bool { s, ok := constString(v); return ok && s == "" }
	nonEmpty := gAny("value non-empty",
		gCmp("x != \"\"", fromField, emptyStr, mustDiffer),
		gCmp("len(x) != 0", isLenOf(fromField), isIntConst(0), func(op token.Token) (bool, bool) {
			switch op {
			case token.EQL, token.LEQ:
				return true, false
			case token.NEQ, token.GTR:
				return true, true
			}
			return false, false
		}))
	switch dc.Field {
	case "networks", "unsafeNetworks":
		// the decoder's conditions test the *encoded* prefix bytes (1..17 bytes); for the decoded
		// value the equivalent content rule is "a valid prefix" (netip.Prefix.MarshalBinary of a
		// valid prefix is 1..17 bytes, of the zero prefix 0 bytes). validate must require IsValid.
		loops := findRangeLoops(val, func(v ssa.Value) bool { return loadsField(v, fld) })
		if len(loops) == 0 {
			c.Bad("C03.agreement", cons, c.P.Pos(val.Pos()), "validate() has no loop over "+dc.Field+" although the decoder constrains its elements ("+dc.Pos+")")
			return
		}
		for _, li := range loops {
			c.forAllGuard("C03.agreement", cons, val, li, sinks, gBool("prefix.IsValid()", true, -1, callTo(Ref{"net/netip", "Prefix", "IsValid"}).withArg(0, fromField)))
		}
		return
	}
	ft := fld.Type().Underlying()
	_, isSlice := ft.(*typesSlice)
	if isSlice {
		loops := findRangeLoops(val, func(v ssa.Value) bool { return loadsField(v, fld) })
		if len(loops) == 0 {
			c.Bad("C03.agreement", cons, c.P.Pos(val.Pos()), fmt.Sprintf("the decoder rejects %s elements that are %s (%s) but validate(), which signing relies on, has no test on the elements of %s: Sign can emit a certificate that cannot be decoded", dc.Field, dc.describe(), dc.Pos, dc.Field))
			return
		}
		for _, li := range loops {
			if dc.Kind == "nonempty" {
				c.forAllGuard("C03.agreement", cons, val, li, sinks, nonEmpty)
			} else {
				c.forAllGuard("C03.agreement", cons, val, li, sinks, c03MaxLen(fromField, dc.K))
			}
		}
		return
	}
	var g Guard
	if dc.Kind == "nonempty" {
		g = nonEmpty
	} else {
		g = c03MaxLen(fromField, dc.K)
	}
	bad := false
	for _, s := range sinks {
		ok, n, path := c.mustPass(val, s, g)
		if !ok {
			bad = true
			c.Bad("C03.agreement", cons, c.instrPos(s.Instr), fmt.Sprintf("the decoder rejects a %s that is %s (%s) but validate(), which signing relies on, can succeed without testing it (%d matching tests): Sign can emit a certificate that cannot be decoded", dc.Field, dc.describe(), dc.Pos, n), path...)
			break
		}
	}
	if !bad {
		c.OK("C03.agreement", cons, "validate() enforces the decoder's constraint")
	}
}

func (d decConstraint) describe() string {
	if d.Kind == "nonempty" {
		return "empty"
	}
	return fmt.Sprintf("longer than %d bytes", d.K)
}

func c03MaxLen(from func(ssa.Value) bool, k int64) Guard {
	return gCmp(fmt.Sprintf("len(x) <= %d", k), isLenOf(from), func(v ssa.Value) bool {
		kk, ok := constInt(v)
		return ok && kk <= k
	}, func(op token.Token) (bool, bool) {
		switch op {
		case token.GTR:
			return true, false
		case token.LEQ:
			return true, true
		}
		return false, false
	})
}

func c03Banners(c *Ctx) {
	blk := c.Func(Ref{"cert", "", "unmarshalCertificateBlock"})
	if blk == nil {
		return
	}
	// reader: banner constant -> decoder function reached on the equal side
	reader := map[string]string{}
	for _, b := range blk.Blocks {
		if len(b.Instrs) == 0 {
			continue
		}
		ifi, ok := b.Instrs[len(b.Instrs)-1].(*ssa.If)
		if !ok {
			continue
		}
		cd := normCond(ifi.Cond)
		if cd.Kind != CondCmp {
			continue
		}
		bo := cd.Base.(*ssa.BinOp)
		s, isS := constString(bo.Y)
		if !isS {
			s, isS = constString(bo.X)
		}
		if !isS || (bo.Op != token.EQL && bo.Op != token.NEQ) {
			continue
		}
		eq := b.Succs[0]
		if (bo.Op == token.NEQ) != cd.Neg {
			eq = b.Succs[1]
		}
		// follow jumps to the arm body
		for i := 0; i < 4; i++ {
			found := false
			for _, in := range eq.Instrs {
				if ci, ok := in.(ssa.CallInstruction); ok {
					if o := calleeObj(ci); o != nil && strings.HasPrefix(o.Name(), "unmarshalCertificateV") {
						reader[s] = o.Name()
						found = true
					}
				}
			}
			if found || len(eq.Succs) != 1 {
				break
			}
			eq = eq.Succs[0]
		}
	}
	for _, v := range []struct{ recv, dec string }{{"certificateV1", "unmarshalCertificateV1"}, {"certificateV2", "unmarshalCertificateV2"}} {
		fn := c.Func(Ref{"cert", v.recv, "MarshalPEM"})
		if fn == nil {
			continue
		}
		banner := ""
		typ := c.Field("encoding/pem", "Block", "Type")
		eachInstr(fn, func(in ssa.Instruction) {
			if st, ok := in.(*ssa.Store); ok {
				if fa, ok := st.Addr.(*ssa.FieldAddr); ok && fieldOfAddr(fa) == typ {
					banner, _ = constString(st.Val)
				}
			}
		})
		c.Check(banner != "" && reader[banner] == v.dec, "C03.banner", v.recv+".MarshalPEM", c.P.Pos(fn.Pos()), fmt.Sprintf("banner %q is decoded by %s", banner, v.dec),
			fmt.Sprintf("banner %q written for %s is routed to %q by unmarshalCertificateBlock", banner, v.recv, reader[banner]))
	}
}

func c03Dispatch(c *Ctx) {
	fn := c.Func(Ref{"cert", "", "Recombine"})
	tp := c.P.TypesPkg("cert")
	vt := c.NamedType("cert", "Version")
	if fn == nil || tp == nil || vt == nil {
		return
	}
	pv := fn.Params[0]
	handled := map[int64]bool{}
	eachInstr(fn, func(in ssa.Instruction) {
		if bo, ok := in.(*ssa.BinOp); ok && bo.Op == token.EQL && stripValue(bo.X) == pv {
			if k, ok := constInt(bo.Y); ok {
				handled[k] = true
			}
		}
	})
	for _, n := range tp.Scope().Names() {
		k, ok := tp.Scope().Lookup(n).(*typesConst)
		if !ok || !typesIdentical(k.Type(), vt) {
			continue
		}
		v, _ := constInt64(k)
		c.Check(handled[v], "C03.dispatch", "Recombine:"+n, c.P.Pos(fn.Pos()), "has a decoding arm", "Version constant without a decoding arm in Recombine: a certificate signed with it cannot be recombined")
	}
	// every success return goes through a decoder
	c.requireGuards("C03.dispatch", fn, successReturns(fn, 1), "success-return",
		gErrNil("decoder ok", callTo(Ref{"cert", "", "unmarshalCertificateV1"}, Ref{"cert", "", "unmarshalCertificateV2"})))
}

func c03NoPanic(c *Ctx) {
	var roots []*ssa.Function
	for _, r := range []Ref{{"cert", "", "UnmarshalCertificateFromPEM"}, {"cert", "", "Recombine"}, {"cert", "", "NewCAPoolFromPEMReader"}, {"cert", "", "NewCAPoolFromPEM"}} {
		if f := c.Func(r); f != nil {
			roots = append(roots, f)
		}
	}
	fs := reachableFuncs(roots, func(f *ssa.Function) bool {
		return f.Pkg != nil && strings.HasPrefix(f.Pkg.Pkg.Path(), PkgPath("cert"))
	})
	bad := 0
	for _, f := range fs {
		c.Funcs[f.String()] = true
		eachInstr(f, func(in ssa.Instruction) {
			switch x := in.(type) {
			case *ssa.Panic:
				bad++
				c.Bad("C03.no-panic", fnName(f)+":panic", c.instrPos(x), "explicit panic reachable from certificate decoding")
			case *ssa.TypeAssert:
				if !x.CommaOk {
					bad++
					c.Bad("C03.no-panic", fnName(f)+":type-assert", c.instrPos(x), "single-result type assertion reachable from certificate decoding")
				}
			}
		})
	}
	if bad == 0 {
		c.OK("C03.no-panic", "decode-closure", fmt.Sprintf("%d functions in the decode call closure, no panic()/unchecked assertion", len(fs)))
	}
}
