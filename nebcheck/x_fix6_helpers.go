package main

import (
	"sort"
	"strings"

	"golang.org/x/tools/go/ssa"
)

// fix6: inline policies for the g1 explorer that follow a block of a tabled function after it was
// extracted into a same-package helper (and, symmetrically, see nothing new when a helper is
// inlined into its caller: the explorer then simply finds the code in place).
//
// Inlining a callee is always sound for the g1 rules: the callee's decisions, calls and stores are
// seen exactly as if they were written in place (the explorer substitutes the argument terms for
// the parameters), so every obligation is checked on strictly more precise paths. What a policy
// has to bound is cost (paths) only. Loops of an inlined helper are followed under the same bound
// as loops of the root (MaxVisits per activation); paths beyond the bound are dropped exactly as
// for a loop written in place.

const fix6MaxBlocks = 40

// fix6SmallLocal: a function of the root's package (a method or plain function declared next to
// the function under analysis), with a body, of bounded size. Exported or not does not matter:
// the code is analysed in place either way.
func fix6SmallLocal(g *g1Sym, fn *ssa.Function) bool {
	return fn != nil && len(fn.Blocks) > 0 && len(fn.Blocks) <= fix6MaxBlocks && fn.Synthetic == "" && pkgPathOf(fn) == g.rootPkg
}

// fix6InlineReaching: follow exactly those same-package helpers that can reach one of the rule's
// atoms (g.Stop); every other callee stays an uninterpreted call (for rules whose root calls many
// helpers that only multiply the paths: purge, evict, logging). Loops are allowed.
func fix6InlineReaching(g *g1Sym) func(*ssa.Function) bool {
	return func(fn *ssa.Function) bool {
		return fix6SmallLocal(g, fn) && g.reaches(fn) != ""
	}
}

// fix6InlineLoops: the explorer's default policy (same package, small, loop-free), widened to
// small same-package helpers WITH loops when they either can reach an atom of the rule or return
// only booleans (a predicate such as "the certificate has every group of the list": the for-all
// loop is then seen as if written in place and the rule recognises it by its decisions).
func fix6InlineLoops(g *g1Sym) func(*ssa.Function) bool {
	return func(fn *ssa.Function) bool {
		if !fix6SmallLocal(g, fn) {
			return false
		}
		if len(fn.Blocks) <= 30 && len(naturalLoops(fn)) == 0 {
			return true // the default policy
		}
		if g.reaches(fn) != "" {
			return true
		}
		res := fn.Signature.Results()
		if res.Len() == 0 {
			return false
		}
		for i := 0; i < res.Len(); i++ {
			if !g1TBool(res.At(i).Type()) {
				return false
			}
		}
		return true
	}
}

// ---------------------------------------------------------------------------------------
// K2 allow-tables that name functions

// fix6PartOfTabled decides whether fn, which is not itself in a writer/caller allow-table, is
// merely a part of a tabled function: a NEW unexported function of the tabled functions' package
// that is only ever called (never used as a function value, never started with go / deferred
// through a value) and whose every caller is a tabled function, or again such a part (bounded
// depth). tabled receives fnName(topFunc(caller)). The returned string names the tabled functions
// it belongs to. Anything else (exported, other package, no caller, a caller outside the table,
// a reference as a value) is refused; callers in test files are ignored as the rules ignore them: the caller of this helper then reports
// exactly as before.
func (c *Ctx) fix6PartOfTabled(funcs []*ssa.Function, fn *ssa.Function, pkg string, tabled func(string) bool) (bool, string) {
	seen := map[*ssa.Function]bool{}
	owners := map[string]bool{}
	var part func(f *ssa.Function, depth int) bool
	part = func(f *ssa.Function, depth int) bool {
		f = topFunc(f)
		if depth > 3 || seen[f] {
			return false // cycles and long chains are not followed
		}
		seen[f] = true
		obj := fnObj(f)
		if obj == nil || obj.Exported() || f.Synthetic != "" || pkgPathOf(f) != pkg {
			return false
		}
		n := 0
		for _, g := range funcs {
			ok := true
			eachInstr(g, func(in ssa.Instruction) {
				if !ok {
					return
				}
				// any mention of f that is not the callee position of a plain call is an escape
				direct := false
				if call, isCall := in.(*ssa.Call); isCall && !call.Common().IsInvoke() {
					if cf, isFn := call.Common().Value.(*ssa.Function); isFn && fix6SameFunc(cf, f) {
						direct = true
					}
				}
				mentions := 0
				for _, op := range in.Operands(nil) {
					if op == nil || *op == nil {
						continue
					}
					switch v := (*op).(type) {
					case *ssa.Function:
						if fix6SameFunc(v, f) {
							mentions++
						}
					case *ssa.MakeClosure:
						if cf, isFn := v.Fn.(*ssa.Function); isFn && fix6SameFunc(cf, f) {
							mentions++
						}
					}
				}
				if mentions == 0 {
					return
				}
				if c.isTestHelperFile(in) {
					return // test code is outside the rule, as for the tabled functions themselves
				}
				if !direct || mentions > 1 {
					ok = false
					return
				}
				n++
				caller := topFunc(g)
				if nm := fnName(caller); tabled(nm) {
					owners[nm] = true
				} else if !part(caller, depth+1) {
					ok = false
				}
			})
			if !ok {
				return false
			}
		}
		return n > 0
	}
	if !part(fn, 0) {
		return false, ""
	}
	var names []string
	for n := range owners {
		names = append(names, n)
	}
	sort.Strings(names)
	return len(names) > 0, strings.Join(names, ", ")
}

// fix6SameFunc: v is f, or a synthetic wrapper (bound method / thunk) of the same declared function.
func fix6SameFunc(v, f *ssa.Function) bool {
	if v == f {
		return true
	}
	if v == nil || f == nil || v.Object() == nil {
		return false
	}
	return v.Object() == f.Object()
}
