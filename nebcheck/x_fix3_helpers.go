package main

import (
	"go/token"
	"go/types"
	"sort"
	"strings"

	"golang.org/x/tools/go/ssa"
)

// Helpers added when the collector rules of C36 / C37 were taught to follow delegation (prefix fix3).
//
// An accumulator (`addrs := r.addrs[:0]; ...; addrs = append(addrs, u); ...; r.addrs = addrs`) is walked backwards from the
// value finally stored: through phis, through the builtin append, and - new - through calls of module functions that take the
// accumulator as a parameter and hand it back as a result:
//
//	addrs = r.unlockedAppendUnlessBad(addrs, u)            (result is the slice)
//	addrs, ok = r.appendIfGood(u, addrs)                   (result is element #0 of a tuple, parameter order free)
//	addrs, relays = r.collectV4(c, addrs, relays)          (two accumulators threaded through one helper)
//
// Such a helper H is *transparent for result #i* when the same walk inside H, started at result #i of every return of H,
// ends at a slice parameter of H (returned as is, or extended by appends / by further transparent helpers) on at least one
// path, and H does not store into the elements of that parameter. The walk then goes on with the caller's argument. Other
// values the result of H can be built on (`return append(r.addrs, u)`, `return nil`) are handed to the rule as starting
// points of the accumulation, exactly as if H were inlined. The appends met inside H are reported with the stack of calls
// leading to them, so that a rule can look at the appended value at every level: as H sees it (its parameter) and as each
// caller sees it (the argument). A helper that is not transparent (recursive, overwrites elements, no parameter reaches the
// result) is left in place as a *base* of the chain: the rules then report an unrecognised shape (UNDECIDED); nothing is
// assumed about it.

// fix3Site is one builtin append reached by the walk.
type fix3Site struct {
	Append *ssa.Call   // the builtin append call
	Stack  []*ssa.Call // helper calls leading to it: Stack[0] lies in the root function, Stack[i] in the callee of Stack[i-1]
}

// Root: the instruction of the root function that stands for the site (the append itself, or the outermost helper call).
func (s fix3Site) Root() ssa.Instruction {
	if len(s.Stack) > 0 {
		return s.Stack[0]
	}
	return s.Append
}

func (s fix3Site) String() string {
	var parts []string
	for _, c := range s.Stack {
		if h := c.Call.StaticCallee(); h != nil {
			parts = append(parts, h.Name())
		}
	}
	if len(parts) == 0 {
		return "append"
	}
	return "append in " + strings.Join(parts, " -> ")
}

// fix3Level: the appended value as one function of the call stack sees it.
type fix3Level struct {
	Fn  *ssa.Function
	At  ssa.Instruction // innermost: the append; outer levels: the call of the helper
	Val ssa.Value
}

type fix3Chain struct {
	Sites  []fix3Site
	Bases  []ssa.Value // values of the root function the accumulation starts from
	Opaque []string    // module helpers that take and return the slice but are not transparent (why)
}

type fix3SumKey struct {
	fn  *ssa.Function
	idx int
}

type fix3Summary struct {
	ok      bool
	params  []int       // the slice parameters of the helper the result can be built on
	foreign []ssa.Value // other values (of the helper) the result can be built on
	sites   []fix3Site  // stacks relative to the helper
	why     string
}

type fix3Walker struct {
	memo map[fix3SumKey]*fix3Summary
	busy map[fix3SumKey]bool
}

func fix3NewWalker() *fix3Walker {
	return &fix3Walker{memo: map[fix3SumKey]*fix3Summary{}, busy: map[fix3SumKey]bool{}}
}

// fix3ParamIndex: v is parameter #k of fn (never reassigned), -1 otherwise.
func fix3ParamIndex(fn *ssa.Function, v ssa.Value) int {
	for k, p := range fn.Params {
		if g6IsParamValue(v, p) {
			return k
		}
	}
	return -1
}

// fix3HelperOf: the module function with a body a plain call invokes statically (nil otherwise).
func fix3HelperOf(call *ssa.Call) *ssa.Function {
	if call == nil || call.Call.IsInvoke() {
		return nil
	}
	h := call.Call.StaticCallee()
	if h == nil || h.Blocks == nil || !strings.HasPrefix(pkgPathOf(h), nebulaMod) {
		return nil
	}
	return h
}

// summary decides whether result #idx of h is one of h's slice parameters extended by appends.
func (w *fix3Walker) summary(h *ssa.Function, idx int) *fix3Summary {
	k := fix3SumKey{h, idx}
	if w.busy[k] {
		return &fix3Summary{why: h.Name() + " is recursive"}
	}
	if s := w.memo[k]; s != nil {
		return s
	}
	w.busy[k] = true
	defer func() { w.busy[k] = false }()
	s := &fix3Summary{}
	w.memo[k] = s
	res := h.Signature.Results()
	if idx < 0 || idx >= res.Len() {
		s.why = h.Name() + " has no such result"
		return s
	}
	if _, isSlice := res.At(idx).Type().Underlying().(*types.Slice); !isSlice {
		s.why = "result of " + h.Name() + " is not a slice"
		return s
	}
	rets := g6Returns(h)
	if len(rets) == 0 {
		s.why = h.Name() + " never returns"
		return s
	}
	ch := &fix3Chain{}
	for _, r := range rets {
		if idx >= len(r.Results) {
			s.why = h.Name() + ": return without the result"
			return s
		}
		w.walk(retResult(r, idx), nil, ch, map[ssa.Value]bool{})
	}
	if len(ch.Opaque) > 0 {
		s.why = ch.Opaque[0]
		return s
	}
	// what the result is built on: slice parameters of the helper (the walk goes on with the caller's argument) and other
	// values (handed to the caller's rule as starting points of the accumulation, exactly as if the helper were inlined)
	for _, b := range ch.Bases {
		j := fix3ParamIndex(h, b)
		if j < 0 || !types.Identical(h.Params[j].Type(), res.At(idx).Type()) {
			s.foreign = append(s.foreign, b)
			continue
		}
		dup := false
		for _, k := range s.params {
			if k == j {
				dup = true
			}
		}
		if !dup {
			s.params = append(s.params, j)
		}
	}
	if len(s.params) == 0 {
		s.why = h.Name() + ": no slice parameter reaches the result"
		return s
	}
	// the helper must not overwrite elements of the accumulator it was given
	for _, j := range s.params {
		if why := fix3ElementStores(h, h.Params[j]); why != "" {
			s.why = h.Name() + " " + why
			return s
		}
	}
	s.ok, s.sites = true, ch.Sites
	return s
}

// fix3ElementStores: fn stores into an element of (a re-slice of) the slice parameter p.
func fix3ElementStores(fn *ssa.Function, p *ssa.Parameter) string {
	why := ""
	eachInstr(fn, func(in ssa.Instruction) {
		st, ok := in.(*ssa.Store)
		if !ok || why != "" {
			return
		}
		ia, ok := st.Addr.(*ssa.IndexAddr)
		if !ok {
			return
		}
		if derivesFrom(ia.X, SliceOpts{}, func(x ssa.Value) bool { return g6IsParamValue(x, p) }) {
			why = "stores into an element of the accumulator it was given"
		}
	})
	return why
}

// walk follows an accumulated slice value backwards inside one function.
func (w *fix3Walker) walk(v ssa.Value, stack []*ssa.Call, out *fix3Chain, seen map[ssa.Value]bool) {
	v = stripValue(v)
	if v == nil || seen[v] {
		return
	}
	seen[v] = true
	switch x := v.(type) {
	case *ssa.Phi:
		for _, e := range x.Edges {
			w.walk(e, stack, out, seen)
		}
		return
	case *ssa.Call:
		if builtinName(x) == "append" {
			out.Sites = append(out.Sites, fix3Site{Append: x, Stack: append([]*ssa.Call{}, stack...)})
			w.walk(x.Call.Args[0], stack, out, seen)
			return
		}
		if x.Call.Signature().Results().Len() == 1 && w.through(x, 0, stack, out, seen) {
			return
		}
	case *ssa.Extract:
		if call, ok := x.Tuple.(*ssa.Call); ok && w.through(call, x.Index, stack, out, seen) {
			return
		}
	case *ssa.UnOp:
		// the accumulator kept in a local memory cell: every value stored into the cell; a cell shared with a function
		// literal (`add := func(u T) { acc = append(acc, u) }`) is updated where this walk does not look
		if al, ok := x.X.(*ssa.Alloc); ok && x.Op == token.MUL {
			if refs := al.Referrers(); refs != nil {
				for _, r := range *refs {
					if _, isMC := r.(*ssa.MakeClosure); isMC {
						out.Opaque = append(out.Opaque, "the accumulator variable "+al.Comment+" is captured by a function literal")
						return
					}
				}
			}
			vals := storesInto(al)
			if len(vals) > 0 {
				for _, sv := range vals {
					w.walk(sv, stack, out, seen)
				}
				return
			}
		}
	}
	out.Bases = append(out.Bases, v)
}

// through continues the walk behind a transparent helper call; false: the call stays a base.
func (w *fix3Walker) through(call *ssa.Call, idx int, stack []*ssa.Call, out *fix3Chain, seen map[ssa.Value]bool) bool {
	h := fix3HelperOf(call)
	if h == nil {
		return false
	}
	s := w.summary(h, idx)
	if !s.ok {
		// a helper that takes a slice of the result's type and returns one: the accumulator went in, something came out
		rt := call.Type()
		if tup, isTuple := rt.(*types.Tuple); isTuple && idx < tup.Len() {
			rt = tup.At(idx).Type()
		}
		for _, a := range call.Call.Args {
			if types.Identical(a.Type(), rt) {
				out.Opaque = append(out.Opaque, s.why)
				break
			}
		}
		return false
	}
	for _, j := range s.params {
		if j >= len(call.Call.Args) {
			return false
		}
	}
	prefix := append(append([]*ssa.Call{}, stack...), call)
	for _, site := range s.sites {
		out.Sites = append(out.Sites, fix3Site{Append: site.Append, Stack: append(append([]*ssa.Call{}, prefix...), site.Stack...)})
	}
	out.Bases = append(out.Bases, s.foreign...)
	for _, j := range s.params {
		w.walk(call.Call.Args[j], stack, out, seen)
	}
	return true
}

// fix3ChainOf walks the accumulator value v of a root function.
func fix3ChainOf(w *fix3Walker, v ssa.Value) *fix3Chain {
	ch := &fix3Chain{}
	w.walk(v, nil, ch, map[ssa.Value]bool{})
	sort.SliceStable(ch.Sites, func(i, j int) bool {
		a, b := ch.Sites[i], ch.Sites[j]
		if a.Root().Pos() != b.Root().Pos() {
			return a.Root().Pos() < b.Root().Pos()
		}
		return a.Append.Pos() < b.Append.Pos()
	})
	return ch
}

// merge adds the sites / bases / opaque helpers of o that c does not have yet.
func (c *fix3Chain) merge(o *fix3Chain) {
	for _, s := range o.Sites {
		if !c.has(s) {
			c.Sites = append(c.Sites, s)
		}
	}
	for _, b := range o.Bases {
		dup := false
		for _, x := range c.Bases {
			if x == b {
				dup = true
			}
		}
		if !dup {
			c.Bases = append(c.Bases, b)
		}
	}
	c.Opaque = append(c.Opaque, o.Opaque...)
}

func (c *fix3Chain) has(s fix3Site) bool {
	for _, x := range c.Sites {
		if x.Append != s.Append || len(x.Stack) != len(s.Stack) {
			continue
		}
		same := true
		for i := range x.Stack {
			if x.Stack[i] != s.Stack[i] {
				same = false
			}
		}
		if same {
			return true
		}
	}
	return false
}

// fix3Levels lists the appended value v (a value of the function holding the append) as every function of the stack sees
// it, innermost first. The list ends where the value is no longer exactly a parameter handed in by the caller.
func fix3Levels(s fix3Site, v ssa.Value) []fix3Level {
	lv := []fix3Level{{Fn: s.Append.Parent(), At: s.Append, Val: v}}
	cur := v
	for i := len(s.Stack) - 1; i >= 0; i-- {
		call := s.Stack[i]
		h := call.Call.StaticCallee()
		if h == nil {
			break
		}
		k := fix3ParamIndex(h, cur)
		if k < 0 || k >= len(call.Call.Args) {
			break
		}
		cur = call.Call.Args[k]
		lv = append(lv, fix3Level{Fn: call.Parent(), At: call, Val: cur})
	}
	return lv
}

// fix3BackSliceUp visits the backward slice of v (a value of the function holding the append of s) and, wherever the slice
// meets a parameter of a helper of the stack, continues with the corresponding argument in the caller.
func fix3BackSliceUp(s fix3Site, v ssa.Value, o SliceOpts, visit func(ssa.Value)) {
	type key struct {
		v     ssa.Value
		level int
	}
	seen := map[key]bool{}
	var up func(v ssa.Value, level int)
	up = func(v ssa.Value, level int) { // level = number of stack entries above the function v lives in
		if seen[key{v, level}] {
			return
		}
		seen[key{v, level}] = true
		backSlice(v, o, func(x ssa.Value) {
			visit(x)
			p, ok := x.(*ssa.Parameter)
			if !ok || level == 0 {
				return
			}
			call := s.Stack[level-1]
			h := call.Call.StaticCallee()
			if h == nil || p.Parent() != h {
				return
			}
			for k, q := range h.Params {
				if q == p && k < len(call.Call.Args) {
					up(call.Call.Args[k], level-1)
				}
			}
		})
	}
	up(v, len(s.Stack))
}

// fix3PassAtSomeLevel: the guard built by mk for the value of a level holds on every path to that level's program point, for
// at least one level. Returns (passed, sink unreachable at some level without any test, witness path of the innermost level).
func fix3PassAtSomeLevel(c *Ctx, levels []fix3Level, mk func(fix3Level) Guard) (pass, dead bool, where string, path []string) {
	for i, lv := range levels {
		ok, n, p := c.mustPass(lv.Fn, Sink{Instr: lv.At}, mk(lv))
		if ok && n > 0 {
			return true, false, lv.Fn.Name(), nil
		}
		if ok && n == 0 {
			dead = true
		}
		if i == 0 {
			path = p
		}
	}
	return false, dead, "", path
}

// fix3ComparesWithElemOf: fn compares (==, !=) the value with something read out of field f: the membership test the
// guards look for exists here in a form they do not recognise (inlined loop, flag variable).
func fix3ComparesWithElemOf(fn *ssa.Function, isVal func(ssa.Value) bool, f *types.Var) bool {
	found := false
	fromF := func(v ssa.Value) bool {
		return derivesFrom(v, sliceLocal, func(x ssa.Value) bool { return loadsField(x, f) })
	}
	eachInstr(fn, func(in ssa.Instruction) {
		bo, ok := in.(*ssa.BinOp)
		if !ok || found || (bo.Op != token.EQL && bo.Op != token.NEQ) {
			return
		}
		if (isVal(bo.X) && fromF(bo.Y)) || (isVal(bo.Y) && fromF(bo.X)) {
			found = true
		}
	})
	return found
}

// fix3NotBlocked: the "address is not in the blocked list" test on the value recognised by isVal:
// !r.unlockedIsBad(v), or its body written with the library: !slices.Contains(r.badRemotes, v).
func fix3NotBlocked(name string, fBad *types.Var, isVal func(ssa.Value) bool) Guard {
	gs := []Guard{gBool(name, false, -1, callTo(Ref{"", "RemoteList", "unlockedIsBad"}).withArg(1, isVal))}
	if fBad != nil {
		gs = append(gs, gBool(name, false, -1, callTo(Ref{"slices", "", "Contains"}).withArg(0, func(v ssa.Value) bool { return loadsField(v, fBad) }).withArg(1, isVal)))
	}
	return gAny(name, gs...)
}

// ---------------------------------------------------------------------------------------
// Rebuild: delegation of its body

// fix3Must summarises "every return of a method is preceded by a call of target" for the methods of one type called on the
// caller's own receiver, so that a step of Rebuild extracted into a helper method still counts as that step.
type fix3Must struct {
	c      *Ctx
	rl     *types.Named
	target Ref
	memo   map[*ssa.Function]int // 1 busy, 2 always, 3 not always
}

func fix3NewMust(c *Ctx, rl *types.Named, target Ref) *fix3Must {
	return &fix3Must{c: c, rl: rl, target: target, memo: map[*ssa.Function]int{}}
}

// helper: in is a plain call (not go / defer) of a method of the type on caller's own receiver.
func (m *fix3Must) helper(caller *ssa.Function, in ssa.Instruction) *ssa.Function {
	call, ok := in.(*ssa.Call)
	if !ok {
		return nil
	}
	h := fix3HelperOf(call)
	if h == nil || h == caller || !g6RecvIs(h, m.rl) || !g6RecvIs(caller, m.rl) || caller.Parent() != nil {
		return nil
	}
	if len(call.Call.Args) == 0 || len(caller.Params) == 0 || !g6IsParamValue(call.Call.Args[0], caller.Params[0]) {
		return nil
	}
	return h
}

func (m *fix3Must) always(fn *ssa.Function) bool {
	switch m.memo[fn] {
	case 1, 3:
		return false
	case 2:
		return true
	}
	m.memo[fn] = 1
	ev := m.event(fn)
	all := true
	rets := g6Returns(fn)
	for _, r := range rets {
		if av, _ := m.c.avoidsCut(fn, nil, r, ev); av {
			all = false
		}
	}
	if len(rets) == 0 {
		all = false
	}
	if all {
		m.memo[fn] = 2
		m.c.Funcs[fn.String()] = true
	} else {
		m.memo[fn] = 3
	}
	return all
}

// event: a direct call of the target, or a call of a helper method on the same receiver that always makes one.
func (m *fix3Must) event(caller *ssa.Function) func(ssa.Instruction) bool {
	direct := g6IsCallTo(m.target)
	return func(in ssa.Instruction) bool {
		if direct(in) {
			return true
		}
		if h := m.helper(caller, in); h != nil {
			return m.always(h)
		}
		return false
	}
}

// may: a direct call of the target, or a call of a same-package function from which the target is reachable.
func (m *fix3Must) may(in ssa.Instruction) bool {
	if g6IsCallTo(m.target)(in) {
		return true
	}
	ci, ok := in.(ssa.CallInstruction)
	if !ok {
		return false
	}
	h := ci.Common().StaticCallee()
	if h == nil || h.Blocks == nil || h.Pkg != in.Parent().Pkg || h == in.Parent() {
		return false
	}
	return len(callsInTransitive(h, m.target, 3)) > 0
}

// fix3RebuildCore: Rebuild may be a wrapper (lock; defer unlock) around one helper method that holds its body. The helper
// is accepted as the function the Rebuild rules are decided on when the wrapper itself neither sorts nor collects, calls
// exactly one method on its receiver from which unlockedSort is reachable, makes that call before every return and hands its
// own preferred-ranges parameter through unchanged. Returns the function to analyse and the wrappers passed.
func fix3RebuildCore(c *Ctx, rebuild *ssa.Function, rl *types.Named, sortRef, collectRef Ref) (*ssa.Function, []*ssa.Function) {
	core := rebuild
	var wrappers []*ssa.Function
	m := fix3NewMust(c, rl, sortRef)
	for depth := 0; depth < 3; depth++ {
		if len(callsIn(core, sortRef, collectRef)) > 0 || len(core.Params) < 2 {
			break
		}
		var cands []*ssa.Call
		eachInstr(core, func(in ssa.Instruction) {
			if h := m.helper(core, in); h != nil && len(callsInTransitive(h, sortRef, 3)) > 0 {
				cands = append(cands, in.(*ssa.Call))
			}
		})
		if len(cands) != 1 {
			break
		}
		cc := cands[0]
		h := fix3HelperOf(cc)
		before := true
		for _, r := range g6Returns(core) {
			if av, _ := c.avoidsCut(core, nil, r, func(in ssa.Instruction) bool { return in == ssa.Instruction(cc) }); av {
				before = false
			}
		}
		// the ranges go through: exactly one parameter of the helper has the type, and it receives the wrapper's own
		rp := core.Params[1]
		hi := g5ParamIndex(h, func(t types.Type) bool { return types.Identical(t, rp.Type()) })
		if !before || hi < 0 || hi >= len(cc.Call.Args) || !g6IsParamValue(cc.Call.Args[hi], rp) || hi != 1 {
			break
		}
		wrappers = append(wrappers, core)
		core = h
		c.Funcs[h.String()] = true
	}
	return core, wrappers
}

// fix3SameReceiverCall: the call's receiver argument is the receiver of the (top-level) method the call lies in, also when
// the call is made inside a function literal of that method (the receiver then is a captured variable).
func fix3SameReceiverCall(fn *ssa.Function, recvArg ssa.Value) bool {
	for depth := 0; depth < 4; depth++ {
		if fn.Parent() == nil {
			return len(fn.Params) > 0 && fn.Signature.Recv() != nil && g6IsParamValue(recvArg, fn.Params[0])
		}
		v := stripValue(recvArg)
		if u, ok := v.(*ssa.UnOp); ok && u.Op == token.MUL {
			v = u.X
		}
		fv, ok := v.(*ssa.FreeVar)
		if !ok {
			return false
		}
		var bound ssa.Value
		n := 0
		eachInstr(fn.Parent(), func(pi ssa.Instruction) {
			mc, ok := pi.(*ssa.MakeClosure)
			if !ok || mc.Fn != ssa.Value(fn) {
				return
			}
			for i, b := range mc.Bindings {
				if i < len(fn.FreeVars) && fn.FreeVars[i] == fv {
					bound = b
					n++
				}
			}
		})
		if n != 1 || bound == nil {
			return false
		}
		// the binding is the cell the parent keeps the variable in (or the parent's own free variable)
		if al, isAlloc := bound.(*ssa.Alloc); isAlloc {
			vals := storesInto(al)
			if len(vals) != 1 {
				return false
			}
			recvArg = vals[0]
		} else {
			recvArg = bound
		}
		fn = fn.Parent()
	}
	return false
}

// fix3ToRoot expresses a value seen at level li of fix3Levels(s, ..) (0 = the function holding the append) as a value of the
// root function, following it upwards while it is exactly a parameter handed in by the caller; nil when it is not.
func fix3ToRoot(s fix3Site, li int, v ssa.Value) ssa.Value {
	for d := len(s.Stack) - li; d > 0; d-- {
		call := s.Stack[d-1]
		h := call.Call.StaticCallee()
		if h == nil {
			return nil
		}
		k := fix3ParamIndex(h, v)
		if k < 0 || k >= len(call.Call.Args) {
			return nil
		}
		v = call.Call.Args[k]
	}
	return v
}

// fix3OnePerCall: the call hands the slice argument #j to a transparent helper that gives it back unchanged or extended by
// exactly one element (every append inside the helper is `append(<that parameter>, e)`): the call is an
// `append(args[j], e)` as far as lengths are concerned. ok=false otherwise.
func fix3OnePerCall(w *fix3Walker, v ssa.Value) (base ssa.Value, ok bool) {
	call, idx := callOf(v)
	if call == nil {
		return nil, false
	}
	h := fix3HelperOf(call)
	if h == nil {
		return nil, false
	}
	if idx < 0 {
		idx = 0
	}
	s := w.summary(h, idx)
	if !s.ok || len(s.params) != 1 || len(s.foreign) != 0 || len(s.sites) == 0 {
		return nil, false
	}
	p := h.Params[s.params[0]]
	for _, site := range s.sites {
		if len(site.Stack) != 0 || len(g5AppendedElems(site.Append)) != 1 || !g6IsParamValue(site.Append.Call.Args[0], p) {
			return nil, false
		}
	}
	return call.Call.Args[s.params[0]], true
}
