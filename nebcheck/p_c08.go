package main

import (
	"fmt"
	"go/token"
	"go/types"
	"os"
	"path/filepath"
	"regexp"
	"sort"
	"strings"

	"golang.org/x/tools/go/ssa"
)

const c08PW = "google.golang.org/protobuf/encoding/protowire"

func init() {
	register(&Property{
		ID: "C08", Title: "Handshake payload encoding is lossless and wire-compatible",
		Patterns:    []string{"./handshake"},
		Technique:   "finite behaviour tables of the hand-written codec computed by path-sensitive constant propagation over interval classes (encoder: every zero/non-zero assignment of the Payload fields; decoder: one record of every field number x wire type x {value ok, truncated, out of range}) and compared with the table derived from handshake.proto; SSA cursor discipline of the decode loops; no-panic scan of the decode call closure",
		LevelText:   "Structural necessary conditions decided for every input class: MarshalPayload emits, for every non-zero field, exactly the (number, wire type, unmodified value) the schema assigns to the same-named field, nested in the schema's envelope field, and nothing else; the two decode loops accept a record only under the schema's number and wire type, store exactly the consumed value into the same-named Payload field, reject a known number with any other wire type, a failed protowire.Consume*, and a uint32 field above MaxUint32 (accepting everything up to it), skip every other number with ConsumeFieldValue, and advance the cursor by exactly the lengths protowire reported, each slice taken only after the `n < 0` test; the decode closure has no panic, unchecked assertion or unrecognised indexing.",
		LevelNote:   "Not decided: the varint/length arithmetic inside protowire (trusted by its documented contract: negative length = error, value and length otherwise); that handshake.proto equals the schema compiled into other nebula versions (the file declares itself the schema of record); nil versus empty Cert; behaviour across iterations beyond last-wins assignment (each record is evaluated alone, the cursor rule links them). Helper functions that take over the cursor make the cursor rule UNDECIDED.",
		Explanation: "K7 three-way table handshake.proto = MarshalPayload = UnmarshalPayload/unmarshalPayloadDetails obtained by K8 enumeration (absEval with protowire oracles, in-package helpers evaluated in place), K6 Payload field coverage, K1/K11 cursor chain b -> b[n_tag:] -> b[n_val:] per back edge with the n>=0 guard, K12 panic constructs in the decode closure",
		Run:         runC08,
		Canaries: func(c *Ctx) []Canary {
			return []Canary{
				{Name: "certversion-range-check-dropped", File: "handshake/payload.go", Old: "if n < 0 || v > math.MaxUint32 {\n\t\t\t\treturn errInvalidHandshakeDetails\n\t\t\t}\n\t\t\tp.CertVersion = uint32(v)", New: "if n < 0 {\n\t\t\t\treturn errInvalidHandshakeDetails\n\t\t\t}\n\t\t\tp.CertVersion = uint32(v)", Rule: "C08.range"},
				{Name: "range-check-off-by-one", File: "handshake/payload.go", Old: "if n < 0 || v > math.MaxUint32 {\n\t\t\t\treturn errInvalidHandshakeDetails\n\t\t\t}\n\t\t\tp.InitiatorIndex = uint32(v)", New: "if n < 0 || v >= math.MaxUint32 {\n\t\t\t\treturn errInvalidHandshakeDetails\n\t\t\t}\n\t\t\tp.InitiatorIndex = uint32(v)", Rule: "C08.decode-accept"},
				{Name: "time-wire-type-not-checked", File: "handshake/payload.go", Old: "\t\tcase fieldTime:\n\t\t\tif typ != protowire.VarintType {\n\t\t\t\treturn errInvalidHandshakeDetails\n\t\t\t}\n", New: "\t\tcase fieldTime:\n", Rule: "C08.wiretype"},
				{Name: "time-moved-to-cookie-number", File: "handshake/payload.go", Old: "fieldTime           = 5 // uint64", New: "fieldTime           = 4 // uint64", Rule: "C08.schema-encode"},
				{Name: "responder-emits-initiator-value", File: "handshake/payload.go", Old: "details = protowire.AppendVarint(details, uint64(p.ResponderIndex))", New: "details = protowire.AppendVarint(details, uint64(p.InitiatorIndex))", Rule: "C08.schema-encode"},
				{Name: "responder-emitted-only-with-initiator", File: "handshake/payload.go", Old: "\tif p.ResponderIndex != 0 {", New: "\tif p.InitiatorIndex != 0 {", Rule: "C08.schema-encode"},
				{Name: "cert-dropped-when-one-byte", File: "handshake/payload.go", Old: "\tif len(p.Cert) > 0 {", New: "\tif len(p.Cert) > 1 {", Rule: "C08.schema-encode"},
				{Name: "details-not-nested-in-envelope", File: "handshake/payload.go", Old: "\tout = protowire.AppendTag(out, 1, protowire.BytesType)\n\tout = protowire.AppendBytes(out, details)\n", New: "\tout = append(out, details...)\n", Rule: "C08.schema-encode"},
				{Name: "decoded-responder-stored-as-initiator", File: "handshake/payload.go", Old: "p.ResponderIndex = uint32(v)", New: "p.InitiatorIndex = uint32(v)", Rule: "C08.decode-accept"},
				{Name: "unknown-field-length-unchecked", File: "handshake/payload.go", Old: "\t\t\tn := protowire.ConsumeFieldValue(num, typ, b)\n\t\t\tif n < 0 {\n\t\t\t\treturn errInvalidHandshakeDetails\n\t\t\t}\n", New: "\t\t\tn := protowire.ConsumeFieldValue(num, typ, b)\n", Rule: "C08.truncated"},
				{Name: "cookie-field-rejected", File: "handshake/payload.go", Old: "\t\tdefault:\n\t\t\tn := protowire.ConsumeFieldValue(num, typ, b)\n\t\t\tif n < 0 {\n\t\t\t\treturn errInvalidHandshakeDetails", New: "\t\tcase 4:\n\t\t\treturn errInvalidHandshakeDetails\n\t\tdefault:\n\t\t\tn := protowire.ConsumeFieldValue(num, typ, b)\n\t\t\tif n < 0 {\n\t\t\t\treturn errInvalidHandshakeDetails", Rule: "C08.unknown-skip"},
				{Name: "cert-cursor-advanced-by-value-length", File: "handshake/payload.go", Old: "p.Cert = append([]byte(nil), v...)\n\t\t\tb = b[n:]", New: "p.Cert = append([]byte(nil), v...)\n\t\t\tb = b[len(v):]", Rule: "C08.cursor"},
				{Name: "tag-sliced-before-length-test", File: "handshake/payload.go", Old: "\t\tnum, typ, n := protowire.ConsumeTag(b)\n\t\tif n < 0 {\n\t\t\treturn errInvalidHandshakeDetails\n\t\t}\n\t\tb = b[n:]\n", New: "\t\tnum, typ, n := protowire.ConsumeTag(b)\n\t\tb = b[max(n, 0):]\n\t\tif n < 0 {\n\t\t\treturn errInvalidHandshakeDetails\n\t\t}\n", Rule: "C08.cursor"},
				{Name: "payload-gains-field-unknown-to-schema", File: "handshake/payload.go", Old: "\tCertVersion    uint32\n}", New: "\tCertVersion    uint32\n\tEpoch          uint64\n}", Rule: "C08.fields"},
				{Name: "payload-gains-unencoded-cookie", File: "handshake/payload.go", Old: "\tCertVersion    uint32\n}", New: "\tCertVersion    uint32\n\tCookie         uint64\n}", Rule: "C08.schema-encode"},
				{Name: "envelope-under-hmac-number", File: "handshake/payload.go", Old: "out = protowire.AppendTag(out, 1, protowire.BytesType)", New: "out = protowire.AppendTag(out, 2, protowire.BytesType)", Rule: "C08.schema-encode"},
				{Name: "decoder-panics-on-unknown-outer-field", File: "handshake/payload.go", Old: "\t\t\tn := protowire.ConsumeFieldValue(num, typ, b)\n\t\t\tif n < 0 {\n\t\t\t\treturn p, errInvalidHandshakeMessage\n\t\t\t}\n", New: "\t\t\tn := protowire.ConsumeFieldValue(num, typ, b)\n\t\t\tif n < 0 {\n\t\t\t\tpanic(protowire.ParseError(n))\n\t\t\t}\n", Rule: "C08.no-panic"},
			}
		},
	})
}

// c08Field is one row of the reference table: a schema field the hand-written codec carries.
type c08Field struct {
	Name   string // schema field name == Payload field name ("Details" for the envelope)
	Num    int64
	Wire   int64
	Codec  string // protowire Append<Codec>/Consume<Codec>
	GoType string
}

type c08Codec struct {
	c       *Ctx
	pay     *types.Named
	fields  []string // Payload field names
	details *ssa.Function
	errVars map[string]bool // package-level error variables of the package
}

func runC08(c *Ctx) {
	c.Rule("C08.fields", "K6/K7: every Payload field has a same-named field in message NebulaHandshakeDetails of handshake.proto whose scalar type is the field's Go type; the envelope NebulaHandshake has a field of that message type", 6)
	c.Rule("C08.schema-encode", "K8/K7: for every zero/non-zero class assignment of the Payload fields MarshalPayload returns out + envelope(tag, bytes(details)) where details holds, for every non-zero field, tag(schema number, schema wire type) followed by the unmodified field value, and no record under any other number", 6)
	c.Rule("C08.decode-accept", "K8/K7: a record with a schema number and wire type and any in-range value is consumed with the matching protowire consumer, stored unmodified into the same-named Payload field only, and decoding continues to success; empty input succeeds", 8)
	c.Rule("C08.wiretype", "K8: a record whose number the decoder knows but whose wire type differs from the schema's is rejected without touching the Payload", 6)
	c.Rule("C08.range", "K8/K13: a varint above MaxUint32 for a uint32 field is rejected without touching the Payload", 3)
	c.Rule("C08.truncated", "K8: a negative length from protowire.ConsumeTag / Consume<value> / ConsumeFieldValue (truncated or malformed input), or an error from the nested decoder, makes the decoder return an error without touching the Payload", 10)
	c.Rule("C08.unknown-skip", "K8: every number the schema does not map to a Payload field (other schema fields, reserved, unknown) is skipped under every wire type with ConsumeFieldValue(num, typ, ...) of that very tag and decoding continues", 8)
	c.Rule("C08.cursor", "K1/K11: in each decode loop the buffer of the next iteration is b[n_tag:][n_val:] with n_tag/n_val the lengths returned by ConsumeTag and by exactly one value consumer applied to exactly the slice they measure, each slice guarded by n >= 0; the first iteration starts at the input", 10)
	c.Rule("C08.no-panic", "K12: no panic(), unchecked type assertion, or indexing/slicing other than the guarded cursor slices in the in-package call closure of UnmarshalPayload", 1)

	pay := c.NamedType("handshake", "Payload")
	marshal := c.Func(Ref{"handshake", "", "MarshalPayload"})
	unmarshal := c.Func(Ref{"handshake", "", "UnmarshalPayload"})
	details := c.Func(Ref{"handshake", "", "unmarshalPayloadDetails"})
	if pay == nil || marshal == nil || unmarshal == nil || details == nil {
		return
	}
	// ---- the schema of record, next to the codec's source file
	protoPath := filepath.Join(filepath.Dir(c.P.Fset.Position(marshal.Pos()).Filename), "handshake.proto")
	src, err := os.ReadFile(protoPath)
	if err != nil {
		c.Unknown("anchor", "handshake/handshake.proto", "schema file not readable: "+err.Error())
		return
	}
	msgs, syntax, perr := g9ParseProto(string(src))
	if perr != nil || syntax != "proto3" {
		c.Unknown("anchor", "handshake/handshake.proto", fmt.Sprintf("schema not in the supported proto3 subset (syntax %q, %v)", syntax, perr))
		return
	}
	outer, inner := msgs["NebulaHandshake"], msgs["NebulaHandshakeDetails"]
	if outer == nil || inner == nil {
		c.Unknown("anchor", "handshake.proto:NebulaHandshake/NebulaHandshakeDetails", "message not found in the schema")
		return
	}
	for _, m := range []*g9ProtoMsg{outer, inner} {
		if len(m.Unsupported) > 0 {
			c.Unknown("anchor", "handshake.proto:"+m.Name, fmt.Sprintf("message uses constructs outside the supported subset: %v", m.Unsupported))
			return
		}
	}
	protoPos := "handshake/handshake.proto"
	// ---- K6/K7 field table
	var env *c08Field
	for _, f := range outer.Fields {
		if f.Type == inner.Name && f.Label == "" {
			env = &c08Field{Name: f.Name, Num: f.Num, Wire: 2, Codec: "Bytes", GoType: "message"}
		}
	}
	if env == nil {
		c.Bad("C08.fields", "NebulaHandshake:envelope", protoPos, "the envelope message has no singular field of type "+inner.Name)
		return
	}
	c.OK("C08.fields", "NebulaHandshake:envelope", fmt.Sprintf("%s = %d", env.Name, env.Num))
	var table []c08Field
	st := pay.Underlying().(*types.Struct)
	cd := &c08Codec{c: c, pay: pay, details: details, errVars: map[string]bool{}}
	tableOK := true
	for i := 0; i < st.NumFields(); i++ {
		gf := st.Field(i)
		cd.fields = append(cd.fields, gf.Name())
		cons := "Payload." + gf.Name()
		pf := inner.byName(gf.Name())
		if pf == nil {
			tableOK = false
			c.Bad("C08.fields", cons, c.P.Pos(gf.Pos()), "Payload field has no same-named field in message "+inner.Name+" of handshake.proto: it cannot be carried in a schema-compatible way")
			continue
		}
		wt, codec, goT, ok := g9Wire(pf.Type, msgs)
		if !ok || pf.Label != "" {
			tableOK = false
			c.Unknown("C08.fields", cons, fmt.Sprintf("schema type %q %s is outside the modelled identity encodings", pf.Type, pf.Label))
			continue
		}
		have := types.TypeString(gf.Type(), nil)
		c.Check(have == goT, "C08.fields", cons, c.P.Pos(gf.Pos()), fmt.Sprintf("%s %s = %d", pf.Type, pf.Name, pf.Num), fmt.Sprintf("Go type %s is not the type of schema type %s (expected %s): values do not round-trip with the schema's other readers and writers", have, pf.Type, goT))
		table = append(table, c08Field{Name: pf.Name, Num: pf.Num, Wire: wt, Codec: codec, GoType: goT})
	}
	// a field the table could not place is already reported above; the remaining rules go on with
	// the fields that were placed (they are independent per field)
	_ = tableOK
	if sc := marshal.Pkg.Pkg.Scope(); sc != nil {
		for _, n := range sc.Names() {
			if v, ok := sc.Lookup(n).(*types.Var); ok && isErrorType(v.Type()) {
				cd.errVars[n] = true
			}
		}
	}
	c.Note("reference table from %s: envelope %s=%d; %v", protoPos, env.Name, env.Num, table)

	cd.checkEncoder(marshal, *env, table, inner)
	cd.checkDecoder(details, table, inner, false)
	cd.checkDecoder(unmarshal, []c08Field{*env}, outer, true)
	for _, fn := range []*ssa.Function{unmarshal, details} {
		cd.checkCursor(fn)
	}
	cd.checkNoPanic(unmarshal)
}

// ---------------------------------------------------------------------------------------
// encoder

type c08Rec struct {
	Kind     string // in | tag | <Codec>
	Num, Typ int64
	Val      string
}

func (r c08Rec) String() string {
	if r.Kind == "tag" {
		return fmt.Sprintf("tag(%d,%d)", r.Num, r.Typ)
	}
	return r.Kind + "(" + r.Val + ")"
}

// evalMarshal runs MarshalPayload abstractly with the given class per field; returns the returned
// buffer's records and the table of all buffers.
func (cd *c08Codec) evalMarshal(fn *ssa.Function, outP, payP *ssa.Parameter, classes map[string]g9Iv) ([]c08Rec, map[string][]c08Rec, string) {
	bufs := map[string][]c08Rec{"B0": {{Kind: "in"}}}
	fail := ""
	// a buffer is nil, a tracked protowire.Append* result, or the builtin append(x, y...) of two buffers
	// (absEval renders that as the symbol "append([x y])")
	var bufSym func(s string) ([]c08Rec, string, bool)
	bufSym = func(s string) ([]c08Rec, string, bool) {
		if rest, ok := strings.CutPrefix(s, "append(["); ok {
			a, rest, ok1 := bufSym(rest)
			rest, ok2 := strings.CutPrefix(rest, " ")
			b, rest, ok3 := bufSym(rest)
			rest, ok4 := strings.CutPrefix(rest, "])")
			return append(append([]c08Rec{}, a...), b...), rest, ok1 && ok2 && ok3 && ok4
		}
		if rest, ok := strings.CutPrefix(s, "nil"); ok {
			return nil, rest, true
		}
		i := 0
		for i < len(s) && (s[i] == 'B' && i == 0 || s[i] >= '0' && s[i] <= '9') {
			i++
		}
		r, ok := bufs[s[:i]]
		return r, s[i:], ok
	}
	bufOf := func(a AVal) ([]c08Rec, bool) {
		if a.Nil {
			return nil, true
		}
		r, rest, ok := bufSym(a.Sym)
		return r, ok && rest == ""
	}
	newBuf := func(old []c08Rec, r c08Rec) AVal {
		s := fmt.Sprintf("B%d", len(bufs))
		bufs[s] = append(append([]c08Rec{}, old...), r)
		return aSym(s)
	}
	ivs := map[string]g9Iv{}
	for f, iv := range classes {
		ivs["F:"+f] = iv
		ivs["len([F:"+f+"])"] = iv
	}
	var effects []string
	env := &AbsEnv{Effects: &effects, MaxSteps: 20000}
	env.Params = map[string]AVal{outP.Name(): aSym("B0")}
	env.Load = func(name string) (AVal, bool) {
		for _, f := range cd.fields {
			if strings.HasSuffix(name, "."+f) {
				return aSym("F:" + f), true
			}
		}
		return AVal{}, false
	}
	env.SymCmp = g9SymCmp(ivs, nil, nil)
	env.Oracle = func(o *types.Func, args []AVal) (AVal, bool) {
		if o.Pkg() != nil && o.Pkg().Path() == c08PW && strings.HasPrefix(o.Name(), "Append") && len(args) >= 2 {
			b, ok := bufOf(args[0])
			if !ok {
				fail = "protowire." + o.Name() + " appends to a buffer the table does not track (" + args[0].String() + ")"
				return AVal{}, false
			}
			if o.Name() == "AppendTag" && len(args) == 3 {
				n, ok1 := g9ConstInt(args[1])
				t, ok2 := g9ConstInt(args[2])
				if !ok1 || !ok2 {
					fail = "AppendTag with a non-constant number or wire type"
					return AVal{}, false
				}
				return newBuf(b, c08Rec{Kind: "tag", Num: n, Typ: t}), true
			}
			return newBuf(b, c08Rec{Kind: strings.TrimPrefix(o.Name(), "Append"), Val: args[1].String()}), true
		}
		if f := cd.c.P.SSA.FuncValue(o); f != nil && f.Blocks != nil && f.Pkg == fn.Pkg {
			r, err := g9SubEval(f, env, args)
			if err != "" {
				fail = err
				return AVal{}, false
			}
			return r, true
		}
		return g9Opaque(o, args), true
	}
	res, err := absEval(fn, env)
	if fail != "" {
		return nil, nil, fail
	}
	if err != "" {
		return nil, nil, err
	}
	if len(res) != 1 {
		return nil, nil, "unexpected result arity"
	}
	out, ok := bufOf(res[0])
	if !ok {
		return nil, nil, "returned value is not a buffer built by protowire.Append* (" + res[0].String() + ")"
	}
	return out, bufs, ""
}

func (cd *c08Codec) checkEncoder(fn *ssa.Function, env c08Field, table []c08Field, inner *g9ProtoMsg) {
	c := cd.c
	outPs := g9ParamsOfType(fn, g9IsByteSlice)
	payPs := g9ParamsOfType(fn, func(t types.Type) bool { n := recvNamed(t); return n != nil && n.Obj() == cd.pay.Obj() })
	if len(outPs) != 1 || len(payPs) != 1 {
		c.Unknown("C08.schema-encode", "MarshalPayload:signature", "expected one []byte and one Payload parameter")
		return
	}
	byName := map[string]c08Field{}
	for _, f := range table {
		byName[f.Name] = f
	}
	nonzero := func(f c08Field) g9Iv {
		switch f.GoType {
		case "uint32":
			return g9Range(1, 1<<32-1)
		case "uint64":
			return g9Range(1, 1<<64-1)
		}
		return g9AtLeast(1) // length of bytes/string
	}
	problems := map[string][]string{} // field name / "envelope" -> messages
	undecided := map[string][]string{}
	addP := func(m map[string][]string, k, msg string) {
		for _, x := range m[k] {
			if x == msg {
				return
			}
		}
		m[k] = append(m[k], msg)
	}
	// judge one concrete class assignment; returns "" or the evaluator's reason for giving up
	judge := func(classes map[string]g9Iv, isNZ map[string]bool) string {
		desc := func() string {
			var s []string
			for _, f := range table {
				s = append(s, f.Name+"="+classes[f.Name].String())
			}
			return strings.Join(s, ",")
		}
		out, bufs, err := cd.evalMarshal(fn, outPs[0], payPs[0], classes)
		if err != "" {
			return err
		}
		// envelope
		if len(out) != 3 || out[0].Kind != "in" || out[1] != (c08Rec{Kind: "tag", Num: env.Num, Typ: env.Wire}) || out[2].Kind != env.Codec {
			addP(problems, "envelope", fmt.Sprintf("for %s the result is %v, not out + tag(%d,%d) + %s(details)", desc(), out, env.Num, env.Wire, env.Codec))
			return ""
		}
		var det []c08Rec
		if out[2].Val != "nil" {
			d, ok := bufs[out[2].Val]
			if !ok {
				addP(problems, "envelope", fmt.Sprintf("the envelope value %s is not a buffer of field records", out[2].Val))
				return ""
			}
			det = d
		}
		emitted := map[string]bool{}
		for i := 0; i < len(det); i += 2 {
			if det[i].Kind != "tag" || i+1 >= len(det) || det[i+1].Kind == "tag" || det[i+1].Kind == "in" {
				addP(problems, "envelope", fmt.Sprintf("for %s the details are not a sequence of tag,value pairs: %v", desc(), det))
				return ""
			}
			pf := inner.byNum(det[i].Num)
			if pf == nil {
				addP(problems, "envelope", fmt.Sprintf("for %s a record is emitted under number %d, which the schema does not define (reserved: %v): %v", desc(), det[i].Num, inner.Reserved[det[i].Num], det))
				continue
			}
			f, carried := byName[pf.Name]
			if !carried {
				addP(problems, "envelope", fmt.Sprintf("for %s a record is emitted under number %d (schema field %s), which is not a Payload field: %v", desc(), det[i].Num, pf.Name, det))
				continue
			}
			want := fmt.Sprintf("tag(%d,%d) %s(F:%s)", f.Num, f.Wire, f.Codec, f.Name)
			got := det[i].String() + " " + det[i+1].String()
			if got != want {
				addP(problems, f.Name, fmt.Sprintf("for %s number %d carries %s, the schema requires %s", desc(), f.Num, got, want))
				continue
			}
			emitted[f.Name] = true
		}
		for _, f := range table {
			if isNZ[f.Name] && !emitted[f.Name] {
				addP(problems, f.Name, fmt.Sprintf("for %s the non-zero field is not encoded: details = %v", desc(), det))
			}
		}
		return ""
	}
	n := len(table)
	runs := 0
	for mask := 0; mask < 1<<n; mask++ {
		classes := map[string]g9Iv{}
		isNZ := map[string]bool{}
		for i, f := range table {
			if mask&(1<<i) != 0 {
				classes[f.Name], isNZ[f.Name] = nonzero(f), true
			} else {
				classes[f.Name] = g9Pt(0)
			}
		}
		runs++
		why := judge(classes, isNZ)
		if why == "" {
			continue
		}
		// a test splits a class: look for a concrete counterexample on the class boundaries
		var nz []c08Field
		for _, f := range table {
			if isNZ[f.Name] {
				nz = append(nz, f)
			}
		}
		still := ""
		for pm := 0; pm < 1<<len(nz); pm++ {
			pc := map[string]g9Iv{}
			for k, v := range classes {
				pc[k] = v
			}
			for i, f := range nz {
				pts := nonzero(f).points()
				pc[f.Name] = pts[(pm>>i)&1%len(pts)]
			}
			runs++
			if w := judge(pc, isNZ); w != "" {
				still = w
			}
		}
		key := "evaluation"
		if still == "" {
			still = why + " (no counterexample on the class boundaries)"
		}
		addP(undecided, key, still)
	}
	pos := c.P.Pos(fn.Pos())
	for _, k := range append([]string{"envelope"}, func() []string {
		var s []string
		for _, f := range table {
			s = append(s, f.Name)
		}
		return s
	}()...) {
		cons := "MarshalPayload:" + k
		switch {
		case len(problems[k]) > 0:
			sort.Strings(problems[k])
			c.Bad("C08.schema-encode", cons, pos, fmt.Sprintf("%d deviation(s) from the schema encoding, first: %s", len(problems[k]), problems[k][0]))
		case len(undecided) > 0:
			c.Unknown("C08.schema-encode", cons, "encoder left the modelled fragment: "+undecided["evaluation"][0])
		default:
			c.OK("C08.schema-encode", cons, fmt.Sprintf("schema encoding on all %d class assignments (%d evaluations)", 1<<n, runs))
		}
	}
	// the value reaches protowire unmodified: conversions on its way may only widen
	for _, f := range g9PkgFuncs(fn) {
		cd.c.Funcs[f.String()] = true
		eachInstr(f, func(in ssa.Instruction) {
			ci, ok := in.(*ssa.Call)
			if !ok {
				return
			}
			o := calleeObj(ci)
			if o == nil || o.Pkg() == nil || !(o.Pkg().Path() == c08PW && strings.HasPrefix(o.Name(), "Append") || o.Pkg() == fn.Pkg.Pkg) {
				return
			}
			for _, a := range callArgs(ci) {
				backSlice(a, sliceLocal, func(v ssa.Value) {
					if cv, ok := v.(*ssa.Convert); ok && g9Narrowing(cv) && len(fieldsIn(cv, cd.pay, sliceLocal)) > 0 {
						c.Bad("C08.schema-encode", fnName(f)+":narrowing", c.instrPos(cv), fmt.Sprintf("a Payload field value is narrowed (%s -> %s) before it is encoded: large values do not round-trip", cv.X.Type(), cv.Type()))
					}
				})
			}
		})
	}
}

// ---------------------------------------------------------------------------------------
// decoder

type c08Sc struct {
	Empty                  bool
	Num, Typ               int64
	TagErr, ValErr, DetErr bool
	Val                    *g9Iv
}

type c08Out struct {
	Undet    string
	Reject   bool
	Effects  map[string]string // Payload field -> stored expression
	Consumed []string
	RetSame  bool // outer: the Payload handed to the nested decoder is the one returned
}

func (o c08Out) String() string {
	v := "accepted"
	if o.Reject {
		v = "rejected"
	}
	var e []string
	for k, x := range o.Effects {
		e = append(e, k+"="+x)
	}
	sort.Strings(e)
	return fmt.Sprintf("%s, stores %v, protowire calls %v", v, e, o.Consumed)
}

func (cd *c08Codec) evalDecode(fn *ssa.Function, sc c08Sc) c08Out {
	out := c08Out{Effects: map[string]string{}}
	bps := g9ParamsOfType(fn, g9IsByteSlice)
	if len(bps) != 1 {
		out.Undet = "expected exactly one []byte parameter"
		return out
	}
	lenClass := func(err bool) g9Iv { // protowire contract: negative = error, otherwise a length
		if err {
			return g9Below(-1)
		}
		return g9AtLeast(0)
	}
	ivs := map[string]g9Iv{"NTAG": lenClass(sc.TagErr), "NVAL": lenClass(sc.ValErr), "len([IN])": g9AtLeast(1)}
	if sc.Empty {
		ivs["len([IN])"] = g9Pt(0)
	}
	if sc.Val != nil {
		ivs["VAL"] = *sc.Val
	}
	// one record per evaluation: the buffer handed to the next iteration (the slices feeding the
	// loop-carried phi that ConsumeTag reads) is empty. Other lengths stay undetermined.
	for _, t := range callsIn(fn, Ref{c08PW, "", "ConsumeTag"}) {
		if phi, ok := t.Common().Args[0].(*ssa.Phi); ok {
			for _, e := range phi.Edges {
				if sl, ok := e.(*ssa.Slice); ok {
					ivs["len(["+sl.Name()+"])"] = g9Pt(0)
				}
			}
		}
	}
	var effects []string
	fail, detArg0 := "", ""
	env := &AbsEnv{Effects: &effects, MaxSteps: 20000}
	env.Params = map[string]AVal{bps[0].Name(): aSym("IN")}
	for _, p := range fn.Params {
		if n := recvNamed(p.Type()); n != nil && n.Obj() == cd.pay.Obj() {
			env.Params[p.Name()] = aSym("&PAYLOAD")
		}
	}
	env.SymCmp = g9SymCmp(ivs, map[string]bool{"DETERR": true, "error!": true}, nil)
	env.Oracle = func(o *types.Func, args []AVal) (AVal, bool) {
		if o.Pkg() != nil && o.Pkg().Path() == c08PW {
			switch name := o.Name(); {
			case name == "ConsumeTag":
				out.Consumed = append(out.Consumed, "Tag")
				if sc.TagErr {
					return AVal{Tup: []AVal{aInt(0), aInt(0), aSym("NTAG")}}, true
				}
				return AVal{Tup: []AVal{aInt(sc.Num), aInt(sc.Typ), aSym("NTAG")}}, true
			case name == "ConsumeFieldValue" && len(args) == 3:
				n, ok1 := g9ConstInt(args[0])
				t, ok2 := g9ConstInt(args[1])
				if !ok1 || !ok2 {
					out.Consumed = append(out.Consumed, "FieldValue(?)")
				} else {
					out.Consumed = append(out.Consumed, fmt.Sprintf("FieldValue(%d,%d)", n, t))
				}
				return aSym("NVAL"), true
			case name == "ConsumeVarint" || name == "ConsumeBytes" || name == "ConsumeString" || name == "ConsumeFixed32" || name == "ConsumeFixed64":
				out.Consumed = append(out.Consumed, strings.TrimPrefix(name, "Consume"))
				return AVal{Tup: []AVal{aSym("VAL"), aSym("NVAL")}}, true
			case name == "ParseError":
				return aSym("error!"), true
			}
			fail = "protowire." + o.Name() + " is not modelled"
			return AVal{}, false
		}
		if o.Pkg() != nil && (o.Pkg().Path() == "fmt" && o.Name() == "Errorf" || o.Pkg().Path() == "errors" && o.Name() == "New") {
			return aSym("error!"), true
		}
		if fn != cd.details && o == fnObj(cd.details) && len(args) == 2 {
			out.Consumed = append(out.Consumed, "details("+args[1].String()+")")
			detArg0 = trimAmp(args[0].Sym)
			if sc.DetErr {
				return aSym("DETERR"), true
			}
			return AVal{Nil: true}, true
		}
		if f := cd.c.P.SSA.FuncValue(o); f != nil && f.Blocks != nil && f.Pkg == fn.Pkg {
			r, err := g9SubEval(f, env, args)
			if err != "" {
				fail = err
				return AVal{}, false
			}
			return r, true
		}
		return g9Opaque(o, args), true
	}
	res, err := absEval(fn, env)
	if fail != "" {
		err = fail
	}
	if err != "" {
		out.Undet = err
		return out
	}
	ei := errResultIndex(fn)
	if ei < 0 || ei >= len(res) {
		out.Undet = "no error result"
		return out
	}
	switch r := res[ei]; {
	case r.Nil:
	case r.Sym == "DETERR" || r.Sym == "error!" || cd.errVars[r.Sym]:
		out.Reject = true
	default:
		out.Undet = "the error result " + r.String() + " is neither nil nor a known non-nil error"
		return out
	}
	if ei > 0 && detArg0 != "" {
		out.RetSame = res[0].Sym == detArg0
	}
	for _, e := range effects {
		l, r, _ := strings.Cut(e, "=")
		if f, ok := strings.CutPrefix(l, "PAYLOAD."); ok {
			out.Effects[f] = r
		}
	}
	return out
}

var c08CopyForm = regexp.MustCompile(`^[A-Za-z]+\(\[(nil )?VAL\]\)$`)

func (cd *c08Codec) checkDecoder(fn *ssa.Function, table []c08Field, msg *g9ProtoMsg, isOuter bool) {
	c := cd.c
	pos := c.P.Pos(fn.Pos())
	name := fn.Name()
	byNum := map[int64]c08Field{}
	for _, f := range table {
		byNum[f.Num] = f
	}
	// numbers to probe: every schema field, every reserved number, every constant the decoder
	// compares the tag number with, and two numbers none of them uses
	nums := map[int64]bool{}
	maxN := int64(0)
	for _, f := range msg.Fields {
		nums[f.Num] = true
	}
	for r := range msg.Reserved {
		nums[r] = true
	}
	tags := callsIn(fn, Ref{c08PW, "", "ConsumeTag"})
	for _, f := range g9PkgFuncs(fn) {
		if isOuter && f == cd.details {
			continue
		}
		eachInstr(f, func(in ssa.Instruction) {
			bo, ok := in.(*ssa.BinOp)
			if !ok || (bo.Op != token.EQL && bo.Op != token.NEQ) {
				return
			}
			for _, pair := range [][2]ssa.Value{{bo.X, bo.Y}, {bo.Y, bo.X}} {
				if n := recvNamed(pair[0].Type()); n != nil && n.Obj().Pkg() != nil && n.Obj().Pkg().Path() == c08PW && n.Obj().Name() == "Number" {
					if k, ok := constInt(pair[1]); ok {
						nums[k] = true
					}
				}
			}
		})
	}
	for k := range nums {
		if k > maxN {
			maxN = k
		}
	}
	nums[maxN+1], nums[1<<29-1] = true, true
	var order []int64
	for k := range nums {
		order = append(order, k)
	}
	sort.Slice(order, func(i, j int) bool { return order[i] < order[j] })
	if len(tags) != 1 {
		c.Unknown("C08.decode-accept", name+":shape", fmt.Sprintf("expected one ConsumeTag call, found %d", len(tags)))
		return
	}
	noEffects := func(o c08Out) bool { return len(o.Effects) == 0 }
	// verdict helper: evaluate, and map (undetermined | wrong | right)
	type verdict struct {
		bad, undet []string
	}
	add := func(v *verdict, sc c08Sc, what string, ok func(c08Out) bool) {
		o := cd.evalDecode(fn, sc)
		desc := fmt.Sprintf("record(num=%d,wiretype=%d", sc.Num, sc.Typ)
		if sc.Val != nil {
			desc += ",value=" + sc.Val.String()
		}
		if sc.TagErr {
			desc = "record(tag malformed"
		}
		if sc.ValErr {
			desc += ",value truncated"
		}
		if sc.DetErr {
			desc += ",nested decoder fails"
		}
		if sc.Empty {
			desc = "(empty input"
		}
		desc += ")"
		if o.Undet != "" {
			// look for a concrete counterexample on the class boundaries before giving up
			if sc.Val != nil && len(sc.Val.points()) > 1 {
				for _, pt := range sc.Val.points() {
					p := pt
					s2 := sc
					s2.Val = &p
					if o2 := cd.evalDecode(fn, s2); o2.Undet == "" && !ok(o2) {
						v.bad = append(v.bad, fmt.Sprintf("%s must be %s but is %s", strings.Replace(desc, sc.Val.String(), p.String(), 1), what, o2))
						return
					}
				}
			}
			v.undet = append(v.undet, desc+": "+o.Undet)
			return
		}
		if !ok(o) {
			v.bad = append(v.bad, fmt.Sprintf("%s must be %s but is %s", desc, what, o))
		}
	}
	emit := func(rule, cons string, v verdict, okDetail string) {
		switch {
		case len(v.bad) > 0:
			c.Bad(rule, cons, pos, fmt.Sprintf("%d case(s), first: %s", len(v.bad), v.bad[0]))
		case len(v.undet) > 0:
			c.Unknown(rule, cons, "decoder left the modelled fragment: "+v.undet[0])
		default:
			c.OK(rule, cons, okDetail)
		}
	}
	valueOK := func(f c08Field, rhs string) bool {
		if f.Codec == "Bytes" || f.Codec == "String" {
			return rhs == "VAL" || c08CopyForm.MatchString(rhs)
		}
		return rhs == "VAL"
	}
	for _, n := range order {
		f, known := byNum[n]
		if !known {
			var v verdict
			for w := int64(0); w <= 5; w++ {
				want := []string{"Tag", fmt.Sprintf("FieldValue(%d,%d)", n, w)}
				add(&v, c08Sc{Num: n, Typ: w}, "skipped with ConsumeFieldValue of this tag and decoding continued", func(o c08Out) bool {
					return !o.Reject && noEffects(o) && strings.Join(o.Consumed, " ") == strings.Join(want, " ")
				})
			}
			what := "unknown number"
			if pf := msg.byNum(n); pf != nil {
				what = "schema field " + pf.Name + ", not part of Payload"
			} else if msg.Reserved[n] {
				what = "reserved number"
			}
			emit("C08.unknown-skip", fmt.Sprintf("%s:num=%d", name, n), v, what+": skipped under wire types 0..5")
			continue
		}
		cons := fmt.Sprintf("%s:field=%d(%s)", name, n, f.Name)
		// accepted classes
		var accept []*g9Iv
		var over *g9Iv
		switch {
		case f.Codec != "Varint" && f.Codec != "Fixed32" && f.Codec != "Fixed64":
			accept = []*g9Iv{nil}
		case f.GoType == "uint32":
			a, o := g9Range(0, 1<<32-1), g9Range(1<<32, 1<<64-1)
			accept, over = []*g9Iv{&a}, &o
		default:
			a := g9Range(0, 1<<64-1)
			accept = []*g9Iv{&a}
		}
		var va verdict
		for _, cl := range accept {
			add(&va, c08Sc{Num: n, Typ: f.Wire, Val: cl}, "consumed as "+f.Codec+" and stored unmodified into "+f.Name+" only", func(o c08Out) bool {
				if o.Reject {
					return false
				}
				if isOuter {
					return noEffects(o) && strings.Join(o.Consumed, " ") == "Tag "+f.Codec+" details(VAL)" && o.RetSame
				}
				return len(o.Effects) == 1 && valueOK(f, o.Effects[f.Name]) && strings.Join(o.Consumed, " ") == "Tag "+f.Codec
			})
		}
		emit("C08.decode-accept", cons, va, fmt.Sprintf("wire type %d, Consume%s, stored into %s", f.Wire, f.Codec, f.Name))
		if over != nil && f.Codec == "Varint" {
			var vr verdict
			add(&vr, c08Sc{Num: n, Typ: f.Wire, Val: over}, "rejected without touching the Payload", func(o c08Out) bool { return o.Reject && noEffects(o) })
			emit("C08.range", cons, vr, "every value above MaxUint32 is rejected")
		}
		var vw verdict
		for w := int64(0); w <= 5; w++ {
			if w != f.Wire {
				full := g9Range(0, 1<<64-1)
				add(&vw, c08Sc{Num: n, Typ: w, Val: &full}, "rejected (known field, wrong wire type) without touching the Payload", func(o c08Out) bool { return o.Reject && noEffects(o) })
			}
		}
		emit("C08.wiretype", cons, vw, fmt.Sprintf("wire types other than %d are rejected", f.Wire))
		var vt verdict
		add(&vt, c08Sc{Num: n, Typ: f.Wire, ValErr: true, Val: accept[0]}, "rejected without touching the Payload", func(o c08Out) bool { return o.Reject && noEffects(o) })
		if isOuter {
			add(&vt, c08Sc{Num: n, Typ: f.Wire, DetErr: true}, "rejected", func(o c08Out) bool { return o.Reject })
		}
		emit("C08.truncated", cons, vt, "negative length / nested error is rejected")
	}
	var vt, vu, ve verdict
	add(&vt, c08Sc{TagErr: true}, "rejected without touching the Payload", func(o c08Out) bool { return o.Reject && noEffects(o) })
	emit("C08.truncated", name+":tag", vt, "malformed tag is rejected")
	for w := int64(0); w <= 5; w++ {
		add(&vu, c08Sc{Num: maxN + 1, Typ: w, ValErr: true}, "rejected without touching the Payload", func(o c08Out) bool { return o.Reject && noEffects(o) })
	}
	emit("C08.truncated", name+":unknown-field", vu, "a truncated unknown field is rejected")
	add(&ve, c08Sc{Empty: true}, "accepted with no protowire call", func(o c08Out) bool { return !o.Reject && noEffects(o) && len(o.Consumed) == 0 })
	emit("C08.decode-accept", name+":empty-input", ve, "empty input decodes to the zero value")
}

// ---------------------------------------------------------------------------------------
// cursor discipline

func c08Consume(v ssa.Value) (*ssa.Call, bool) {
	call, idx := callOf(v)
	if call == nil {
		return nil, false
	}
	o := calleeObj(call)
	if o == nil || o.Pkg() == nil || o.Pkg().Path() != c08PW || !strings.HasPrefix(o.Name(), "Consume") {
		return nil, false
	}
	res := o.Type().(*types.Signature).Results()
	// the length is the last result
	if (res.Len() == 1 && idx == -1) || idx == res.Len()-1 {
		return call, true
	}
	return nil, false
}

func (cd *c08Codec) checkCursor(fn *ssa.Function) {
	c := cd.c
	name := fn.Name()
	tags := callsIn(fn, Ref{c08PW, "", "ConsumeTag"})
	bps := g9ParamsOfType(fn, g9IsByteSlice)
	if len(tags) != 1 || len(bps) != 1 {
		c.Unknown("C08.cursor", name+":shape", "expected one ConsumeTag call and one []byte parameter")
		return
	}
	tag := tags[0].(*ssa.Call)
	cur, ok := tag.Call.Args[0].(*ssa.Phi)
	var loop *natLoop
	if ok {
		for _, l := range naturalLoops(fn) {
			if l.Header == cur.Block() {
				loop = l
			}
		}
	}
	if loop == nil {
		c.Unknown("C08.cursor", name+":shape", "ConsumeTag does not read the loop-carried buffer of a decode loop (cursor handled elsewhere?)")
		return
	}
	geq0 := func(n ssa.Value) Guard {
		return gCmp("n >= 0", func(v ssa.Value) bool { return v == n }, isIntConst(0), func(op token.Token) (bool, bool) {
			switch op {
			case token.LSS:
				return true, false
			case token.GEQ:
				return true, true
			}
			return false, false
		})
	}
	ordinals := map[string]int{}
	for i, e := range cur.Edges {
		pred := cur.Block().Preds[i]
		if !loop.Body[pred] {
			c.Check(stripValue(e) == ssa.Value(bps[0]), "C08.cursor", name+":start", c.P.Pos(fn.Pos()), "the first iteration reads the input", "the decode loop does not start at the []byte input")
			continue
		}
		// walk the chain of slices back to the loop-carried buffer
		var calls []*ssa.Call
		v, why := e, ""
		var slices []*ssa.Slice
		for v != ssa.Value(cur) && why == "" {
			s, ok := v.(*ssa.Slice)
			if !ok || s.Low == nil || s.High != nil || s.Max != nil {
				why = "the next buffer is not of the form b[n:]"
				break
			}
			call, isLen := c08Consume(s.Low)
			if !isLen {
				why = "the buffer is advanced by " + exprString(s.Low) + ", which is not a length returned by protowire.Consume*"
				break
			}
			args := call.Call.Args
			if args[len(args)-1] != s.X {
				why = "the length returned by " + calleeObj(call).Name() + " is applied to a different slice than the one it measured"
				break
			}
			calls = append([]*ssa.Call{call}, calls...)
			slices = append(slices, s)
			v = s.X
		}
		kind := "?"
		if len(calls) > 0 {
			kind = calleeObj(calls[len(calls)-1]).Name()
		}
		key := name + ":advance:" + kind
		ordinals[key]++
		cons := fmt.Sprintf("%s#%d", key, ordinals[key])
		pos := c.instrPos(pred.Instrs[len(pred.Instrs)-1])
		if why == "" && (len(calls) != 2 || calls[0] != tag || calls[1] == tag) {
			why = fmt.Sprintf("an iteration must consume the tag and exactly one value; this path consumes %d length(s)", len(calls))
		}
		if why != "" {
			c.Bad("C08.cursor", cons, pos, why)
			continue
		}
		guarded := true
		for _, s := range slices {
			if ok, _, path := c.mustPass(fn, Sink{Instr: s}, geq0(s.Low)); !ok {
				guarded = false
				c.Bad("C08.cursor", cons, c.instrPos(s), "b[n:] is evaluated without the test n >= 0 having passed: a malformed record panics (slice bounds) instead of being rejected", path...)
			}
		}
		if guarded {
			c.OK("C08.cursor", cons, "b[n_tag:][n_val:], both guarded")
		}
	}
}

// ---------------------------------------------------------------------------------------
// no panic constructs

func (cd *c08Codec) checkNoPanic(root *ssa.Function) {
	c := cd.c
	fs := g9PkgFuncs(root)
	bad := 0
	for _, f := range fs {
		c.Funcs[f.String()] = true
		eachInstr(f, func(in ssa.Instruction) {
			cons, why, undecided := "", "", false
			switch x := in.(type) {
			case *ssa.Panic:
				cons, why = "panic", "explicit panic reachable while decoding attacker-controlled bytes"
			case *ssa.TypeAssert:
				if !x.CommaOk {
					cons, why = "type-assert", "single-result type assertion"
				}
			case *ssa.Slice:
				if _, isLen := c08Consume(x.Low); !(isLen && x.High == nil && x.Max == nil) && !(x.Low == nil && x.High == nil) {
					cons, why, undecided = "slice", "slicing other than b[n:] with n a protowire length: bounds not decided", true
				}
			case *ssa.IndexAddr:
				if _, isArr := x.X.Type().Underlying().(*types.Pointer); !isArr {
					cons, why, undecided = "index", "indexing a slice: bounds not decided", true
				} else if _, isK := constInt(x.Index); !isK {
					cons, why, undecided = "index", "non-constant array index: bounds not decided", true
				}
			case *ssa.Index:
				if _, isK := constInt(x.Index); !isK {
					cons, why, undecided = "index", "non-constant index: bounds not decided", true
				}
			case *ssa.SliceToArrayPointer:
				cons, why, undecided = "slice-to-array", "slice to array conversion: length not decided", true
			case *ssa.BinOp:
				if x.Op == token.QUO || x.Op == token.REM {
					if k, isK := constInt(x.Y); !isK || k == 0 {
						cons, why, undecided = "division", "division by a non-constant", true
					}
				}
			}
			if cons == "" {
				return
			}
			bad++
			key := fmt.Sprintf("%s:%s", fnName(f), cons)
			if undecided {
				c.Unknown("C08.no-panic", key, why+" ("+c.instrPos(in)+")")
			} else {
				c.Bad("C08.no-panic", key, c.instrPos(in), why)
			}
		})
	}
	if bad == 0 {
		c.OK("C08.no-panic", "decode-closure", fmt.Sprintf("%d function(s), no panic construct", len(fs)))
	}
}
