package main

import (
	"fmt"
	"go/token"
	"go/types"
	"sort"
	"strings"

	"golang.org/x/tools/go/ssa"
)

func init() {
	register(&Property{
		ID: "C44", Title: "The DNS responder answers only from authenticated data",
		Patterns:    []string{"."},
		Technique:   "who-may-write / who-may-call tables for the record maps, Add and QueryCert; provenance of record names, addresses, answers and certificate text; lower-casing of every map key; CFG guard on the certificate (TXT) arm; path-sensitive exploration over a finite abstract state for the NXDOMAIN decision, the Query table (type x haveV4 x haveV6) and the client gate table",
		LevelText:   "Structural necessary conditions on all paths: the record maps are written only by Add, seedSelf, clearRecords and the constructor; Add is called only from unlockedAddHostInfo with the peer certificate's name and the tunnel's certified addresses, seedSelf records only the node's own certificate name and addresses; every key used to read, write or delete a record is lower-cased; Query returns the IPv4 record only for A, the IPv6 record only for AAAA, nothing for other types, and reports the name as known iff either record exists; every answer is built from the Query / QueryCert result of that question; QueryCert is called only from parseQuery behind isSelfNebulaOrLocalhost(w.RemoteAddr()), which is true only for a parsable loopback address or one in the node's own overlay address table; certificate text comes only from the node's own certificate or from the certificate of a tunnel in the main hostmap; NXDOMAIN is set only with no answers and no known name, a known name reported by Query always suppresses it, and every question that can lead to NXDOMAIN consults name existence.",
		LevelNote:   "Not decided: miekg/dns parsing and serialisation; that unlockedAddHostInfo runs only for completed handshakes (C05/C10) and that vpnAddrs are the certified addresses (C09); concurrent reload of the responder; record removal when tunnels close.",
		Explanation: "K2 tables, K11 provenance, K1 on the TXT arm and the NXDOMAIN store, K8 tables by path-sensitive exploration (finite truth assignments to the atomic tests) on Query, isSelfNebulaOrLocalhost and parseQuery",
		Run:         runC44,
		Canaries: func(c *Ctx) []Canary {
			return g10FilterCanaries([]Canary{
				{Name: "records-from-lighthouse-reports", File: "lighthouse.go", Old: "func (lh *LightHouse) GetStaticHostList() map[netip.Addr]struct{} {", New: "func (lh *LightHouse) learnName(ds *dnsServer, name string, addrs []netip.Addr) { ds.Add(name, addrs) }\n\nfunc (lh *LightHouse) GetStaticHostList() map[netip.Addr]struct{} {", Rule: "C44.add"},
				{Name: "record-name-from-packet", File: "hostmap.go", Old: "\t\tremoteCert := hostinfo.ConnectionState.peerCert\n\t\tf.dnsServer.Add(remoteCert.Certificate.Name()+\".\", hostinfo.vpnAddrs)", New: "\t\tf.dnsServer.Add(hostinfo.vpnAddrs[0].String()+\".\", hostinfo.vpnAddrs)", Rule: "C44.add"},
				{Name: "map-written-by-query", File: "dns_server.go", Old: "\taddr4, haveV4 := d.dnsMap4[data]\n", New: "\taddr4, haveV4 := d.dnsMap4[data]\n\tif !haveV4 {\n\t\tdelete(d.dnsMap6, data)\n\t}\n", Rule: "C44.writers"},
				{Name: "lookup-not-lowercased", File: "dns_server.go", Old: "\tdata = strings.ToLower(data)\n\td.RLock()", New: "\td.RLock()", Rule: "C44.case"},
				{Name: "insert-not-lowercased", File: "dns_server.go", Old: "\thost = strings.ToLower(host)\n", New: "", Rule: "C44.case"},
				{Name: "address-query-answers-any-family", File: "dns_server.go", Old: "\tcase dns.TypeA:\n\t\tif haveV4 {\n\t\t\treturn addr4, nameExists\n\t\t}\n\tcase dns.TypeAAAA:\n\t\tif haveV6 {\n\t\t\treturn addr6, nameExists\n\t\t}\n", New: "\tcase dns.TypeA, dns.TypeAAAA:\n\t\tif haveV4 {\n\t\t\treturn addr4, nameExists\n\t\t}\n\t\tif haveV6 {\n\t\t\treturn addr6, nameExists\n\t\t}\n", Rule: "C44.query-table"},
				{Name: "name-exists-only-v4", File: "dns_server.go", Old: "\tnameExists := haveV4 || haveV6\n", New: "\tnameExists := haveV4\n", Rule: "C44.query-table"},
				{Name: "txt-gate-dropped", File: "dns_server.go", Old: "\t\t\tif !d.isSelfNebulaOrLocalhost(w.RemoteAddr().String()) {\n\t\t\t\treturn\n\t\t\t}\n", New: "", Rule: "C44.txt-gate"},
				{Name: "gate-accepts-any-private", File: "dns_server.go", Old: "\tif b.IsLoopback() {\n\t\treturn true\n\t}\n\n\tcs := d.certState()", New: "\tif b.IsLoopback() || b.IsPrivate() {\n\t\treturn true\n\t}\n\n\tcs := d.certState()", Rule: "C44.gate-table"},
				{Name: "gate-accepts-unparsable", File: "dns_server.go", Old: "\tb, err := netip.ParseAddr(a)\n\tif err != nil {\n\t\treturn false\n\t}\n\n\tif b.IsLoopback() {", New: "\tb, err := netip.ParseAddr(a)\n\tif err != nil {\n\t\treturn true\n\t}\n\n\tif b.IsLoopback() {", Rule: "C44.gate-table"},
				{Name: "nxdomain-ignores-known-name", File: "dns_server.go", Old: "\tif len(m.Answer) == 0 && !anyNameExists {", New: "\tif len(m.Answer) == 0 || !anyNameExists {", Rule: "C44.nxdomain"},
				{Name: "known-name-flag-reset-per-question", File: "dns_server.go", Old: "\t\t\tif nameExists {\n\t\t\t\tanyNameExists = true\n\t\t\t}\n", New: "\t\t\tanyNameExists = nameExists && ip.IsValid()\n", Rule: "C44.nxdomain"},
				{Name: "nxdomain-with-answers", File: "dns_server.go", Old: "\tif len(m.Answer) == 0 && !anyNameExists {", New: "\tif !anyNameExists {", Rule: "C44.nxdomain"},
				{Name: "cert-text-from-pending-handshakes", File: "dns_server.go", Old: "\thostinfo := d.hostMap.QueryVpnAddr(ip)\n\tif hostinfo == nil {\n\t\treturn \"\"\n\t}\n\n\tq := hostinfo.GetCert()", New: "\thostinfo := d.hostMap.QueryVpnAddr(ip)\n\tif hostinfo == nil {\n\t\treturn data\n\t}\n\n\tq := hostinfo.GetCert()", Rule: "C44.cert-source"},
				{Name: "answer-not-from-query", File: "dns_server.go", Old: "rr, err := dns.NewRR(fmt.Sprintf(\"%s %s %s\", q.Name, qType, ip))", New: "rr, err := dns.NewRR(fmt.Sprintf(\"%s %s %s\", q.Name, qType, w.RemoteAddr()))", Rule: "C44.answers"},
			})
		},
	})
}

func runC44(c *Ctx) {
	c.Rule("C44.writers", "K2: dnsMap4 / dnsMap6 are written only by Add, seedSelf, clearRecords and the constructor", 2)
	c.Rule("C44.add", "K2/K11: Add is referenced only from unlockedAddHostInfo, with the peer certificate's Name() (plus constants) and the tunnel's vpnAddrs; inside Add and seedSelf the record key and value come from those arguments / from the node's own certificate state", 4)
	c.Rule("C44.case", "K11: every key used to look up, update or delete dnsMap4 / dnsMap6 is lower-cased (strings.ToLower result, lower-case constants, concatenations of those, or selfHost which only holds such values)", 11)
	c.Rule("C44.query-table", "K8: Query returns (v4 record if A and present, v6 record if AAAA and present, zero otherwise; known = haveV4 || haveV6) for every type x haveV4 x haveV6", 12)
	c.Rule("C44.txt-gate", "K1/K2: QueryCert is called only from parseQuery and only behind isSelfNebulaOrLocalhost(w.RemoteAddr().String()) == true", 2)
	c.Rule("C44.gate-table", "K8: isSelfNebulaOrLocalhost can return true only when the client address parsed and is loopback or is contained in the node's own overlay address table (32 truth assignments)", 32)
	c.Rule("C44.cert-source", "K11: every non-constant string QueryCert returns is the MarshalJSON of the node's default certificate (behind myVpnAddrsTable.Contains(ip)) or of the certificate of hostMap.QueryVpnAddr(ip); both sources are present", 3)
	c.Rule("C44.answers", "K11: every record appended to m.Answer is dns.NewRR of a string formatted from the Query address (tested IsValid) or the QueryCert text of that question", 2)
	c.Rule("C44.nxdomain", "K1/K8: NXDOMAIN is stored only behind len(m.Answer)==0; on no explored path is it stored after Query reported a known name; every question that can lead to it consults name existence", 3)

	f4, f6, fSelf := c.Field("", "dnsServer", "dnsMap4"), c.Field("", "dnsServer", "dnsMap6"), c.Field("", "dnsServer", "selfHost")
	if f4 == nil || f6 == nil || fSelf == nil {
		return
	}
	funcs := c.moduleFuncs()
	isMap := func(v ssa.Value) *typesVar {
		switch {
		case loadsField(v, f4):
			return f4
		case loadsField(v, f6):
			return f6
		}
		return nil
	}
	// ---- writers (one reason per allowed writer)
	allow := map[string]string{
		"(*nebula.dnsServer).Add":          "records of authenticated peers (caller table below)",
		"(*nebula.dnsServer).seedSelf":     "the node's own record, from its own certificate state",
		"(*nebula.dnsServer).clearRecords": "drops everything when the responder is disabled",
		"nebula.newDnsServerFromConfig":    "constructor: empty maps",
	}
	for _, f := range []*typesVar{f4, f6} {
		bad, n := 0, 0
		for _, w := range fieldWriters(funcs, f) {
			if c.isTestHelperFile(w.Instr) {
				continue
			}
			n++
			if who := fnName(topFunc(w.Fn)); allow[who] == "" {
				bad++
				c.Bad("C44.writers", "dnsServer."+f.Name()+"<-"+who, c.instrPos(w.Instr), w.Kind+" of the record map outside "+strings.Join(g10Keys(allow), ", ")+": records no longer come only from authenticated certificates")
			}
		}
		if bad == 0 {
			c.OK("C44.writers", "dnsServer."+f.Name(), fmt.Sprintf("%d write site(s), all tabled", n))
		}
	}
	c44Add(c, funcs, isMap)
	c44Case(c, funcs, isMap, fSelf)
	c44QueryTable(c, f4, f6)
	c44Gate(c, funcs)
	c44CertSource(c)
	c44ParseQuery(c, funcs)
}

// ---- Add: callers, arguments, and what Add / seedSelf put in the maps
func c44Add(c *Ctx, funcs []*ssa.Function, isMap func(ssa.Value) *typesVar) {
	addRef := Ref{"", "dnsServer", "Add"}
	nameRef := Ref{"cert", "Certificate", "Name"}
	fPeer, fCert, fCS, fVpn := c.Field("", "ConnectionState", "peerCert"), c.Field("cert", "CachedCertificate", "Certificate"), c.Field("", "HostInfo", "ConnectionState"), c.Field("", "HostInfo", "vpnAddrs")
	n := 0
	for _, s := range callersOf(funcs, addRef) {
		if c.isTestHelperFile(s.Instr) {
			continue
		}
		who := fnName(topFunc(s.Fn))
		cons := fmt.Sprintf("%s:Add#%d", who, n)
		n++
		ci, isCall := s.Instr.(ssa.CallInstruction)
		if who != "(*nebula.HostMap).unlockedAddHostInfo" || !isCall || s.Kind != "call" {
			c.Bad("C44.add", cons, c.instrPos(s.Instr), "dnsServer.Add is referenced ("+s.Kind+") outside unlockedAddHostInfo, the one place a tunnel with an authenticated certificate enters the hostmap: names or addresses that were not certified can be served")
			continue
		}
		fn := s.Fn
		hi := ssa.Value(fn.Params[1])
		ofHost := func(v ssa.Value, chain ...*typesVar) bool { // v loads chain[n-1] of ... of chain[0] of hostinfo
			for i := len(chain) - 1; i >= 0; i-- {
				u, ok := stripValue(v).(*ssa.UnOp)
				if !ok || u.Op != token.MUL {
					return false
				}
				fa, ok := u.X.(*ssa.FieldAddr)
				if !ok || fieldOfAddr(fa) != chain[i] {
					return false
				}
				v = fa.X
			}
			return stripValue(v) == hi
		}
		a := callArgs(ci)
		// name: only constants and peerCert.Certificate.Name()
		okName, nNames, why := true, 0, ""
		backSlice(a[1], SliceOpts{StopAt: func(v ssa.Value) bool { _, isCall := v.(*ssa.Call); return isCall }}, func(v ssa.Value) {
			switch x := v.(type) {
			case *ssa.Call:
				if matchFunc(calleeObj(x), nameRef) && ofHost(callArgs(x)[0], fCS, fPeer, fCert) {
					nNames++
				} else {
					okName, why = false, "call "+exprString(x)
				}
			case *ssa.Parameter, *ssa.FreeVar, *ssa.Global:
				okName, why = false, exprString(v)
			case *ssa.UnOp:
				if x.Op == token.MUL {
					okName, why = false, "load "+exprString(v)
				}
			}
		})
		c.Check(okName && nNames == 1, "C44.add", cons+":name", c.instrPos(s.Instr), "hostinfo.ConnectionState.peerCert.Certificate.Name() and constants", "the record name is not (only) the Name() of the tunnel's peer certificate ("+why+")")
		c.Check(ofHost(a[2], fVpn), "C44.add", cons+":addresses", c.instrPos(s.Instr), "hostinfo.vpnAddrs", "the record addresses are not the tunnel's certified vpnAddrs ("+exprString(a[2])+")")
	}
	if n == 0 {
		c.Unknown("C44.add", "callers", "no call of dnsServer.Add found: records can never be learned, cannot decide")
	}
	// inside Add: key from host, value from addresses; inside seedSelf: from the own certificate state
	certState := Ref{"", "dnsServer", "certState"}
	fMine := c.Field("", "CertState", "myVpnAddrs")
	for _, spec := range []struct {
		ref   Ref
		key   func(fn *ssa.Function) func(ssa.Value) bool
		value func(fn *ssa.Function) func(ssa.Value) bool
		what  string
	}{
		{addRef,
			func(fn *ssa.Function) func(ssa.Value) bool {
				return func(v ssa.Value) bool { return v == ssa.Value(fn.Params[1]) }
			},
			func(fn *ssa.Function) func(ssa.Value) bool {
				return func(v ssa.Value) bool { return v == ssa.Value(fn.Params[2]) }
			},
			"the host and addresses arguments"},
		{Ref{"", "dnsServer", "seedSelf"},
			func(fn *ssa.Function) func(ssa.Value) bool {
				return func(v ssa.Value) bool {
					call, _ := callOf(v)
					if call == nil || !matchFunc(calleeObj(call), nameRef) {
						return false
					}
					def, _ := callOf(callArgs(call)[0])
					return def != nil && matchFunc(calleeObj(def), Ref{"", "CertState", "GetDefaultCertificate"}) && g10CallResult(callArgs(def)[0], -1, certState) != nil
				}
			},
			func(fn *ssa.Function) func(ssa.Value) bool {
				return func(v ssa.Value) bool {
					u, ok := v.(*ssa.UnOp)
					if !ok || u.Op != token.MUL {
						return false
					}
					fa, ok := u.X.(*ssa.FieldAddr)
					return ok && fieldOfAddr(fa) == fMine && g10CallResult(fa.X, -1, certState) != nil
				}
			},
			"the node's own default certificate name and myVpnAddrs"},
	} {
		fn := c.Func(spec.ref)
		if fn == nil {
			continue
		}
		isKey, isVal := spec.key(fn), spec.value(fn)
		through := SliceOpts{Transparent: func(call *ssa.Call) bool {
			return matchFunc(calleeObj(call), Ref{"strings", "", "ToLower"})
		}}
		ok, k, why := true, 0, ""
		eachInstr(fn, func(in ssa.Instruction) {
			mu, isM := in.(*ssa.MapUpdate)
			if !isM || isMap(mu.Map) == nil {
				return
			}
			k++
			if !derivesFrom(mu.Key, through, isKey) {
				ok, why = false, "key "+exprString(mu.Key)
			}
			if !derivesFrom(mu.Value, sliceLocal, isVal) {
				ok, why = false, "value "+exprString(mu.Value)
			}
		})
		c.Check(ok && k >= 2, "C44.add", spec.ref.Name+":records", c.P.Pos(fn.Pos()), fmt.Sprintf("%d record store(s), from %s", k, spec.what), fmt.Sprintf("%s stores a record that does not come from %s (%s; %d stores found)", spec.ref.Name, spec.what, why, k))
	}
}

// ---- case-insensitivity: every key of the two maps is lower-cased
func c44Case(c *Ctx, funcs []*ssa.Function, isMap func(ssa.Value) *typesVar, fSelf *typesVar) {
	var lower func(v ssa.Value, d int) bool
	lower = func(v ssa.Value, d int) bool {
		if d > 8 {
			return false
		}
		v = stripValue(v)
		switch x := v.(type) {
		case *ssa.Const:
			s, ok := constString(x)
			return ok && s == strings.ToLower(s)
		case *ssa.Call:
			return matchFunc(calleeObj(x), Ref{"strings", "", "ToLower"})
		case *ssa.BinOp:
			return x.Op == token.ADD && lower(x.X, d+1) && lower(x.Y, d+1)
		case *ssa.Phi:
			for _, e := range x.Edges {
				if e != ssa.Value(x) && !lower(e, d+1) {
					return false
				}
			}
			return true
		case *ssa.UnOp:
			return x.Op == token.MUL && loadsField(x, fSelf) // checked below: selfHost only holds lower-cased values
		}
		return false
	}
	ord := map[string]int{}
	check := func(fn *ssa.Function, in ssa.Instruction, m *typesVar, kind string, key ssa.Value) {
		if c.isTestHelperFile(in) {
			return
		}
		base := fnName(fn) + ":" + kind + ":" + m.Name()
		cons := fmt.Sprintf("%s#%d", base, ord[base])
		ord[base]++
		c.Check(lower(key, 0), "C44.case", cons, c.instrPos(in), "lower-cased key", "the key of this "+kind+" on "+m.Name()+" ("+exprString(key)+") is not lower-cased: names are no longer matched case-insensitively")
	}
	for _, fn := range funcs {
		eachInstr(fn, func(in ssa.Instruction) {
			switch x := in.(type) {
			case *ssa.Lookup:
				if m := isMap(x.X); m != nil {
					check(fn, in, m, "lookup", x.Index)
				}
			case *ssa.MapUpdate:
				if m := isMap(x.Map); m != nil {
					check(fn, in, m, "update", x.Key)
				}
			case ssa.CallInstruction:
				if builtinName(x) == "delete" {
					if m := isMap(x.Common().Args[0]); m != nil {
						check(fn, in, m, "delete", x.Common().Args[1])
					}
				}
			}
		})
	}
	okSelf, nSelf := true, 0
	for _, w := range fieldWriters(funcs, fSelf) {
		if st, ok := w.Instr.(*ssa.Store); ok && !c.isTestHelperFile(w.Instr) {
			nSelf++
			okSelf = okSelf && lower(st.Val, 0)
		}
	}
	c.Check(okSelf && nSelf > 0, "C44.case", "dnsServer.selfHost:stores", "dns_server.go", fmt.Sprintf("%d store(s), all lower-cased", nSelf), "selfHost is assigned a value that is not lower-cased while it is used as a record key")
}

// ---- Query: type x haveV4 x haveV6
func c44QueryTable(c *Ctx, f4, f6 *typesVar) {
	fn := c.Func(Ref{"", "dnsServer", "Query"})
	tA, tAAAA := c.ConstVal("github.com/miekg/dns", "TypeA"), c.ConstVal("github.com/miekg/dns", "TypeAAAA")
	if fn == nil || tA == nil || tAAAA == nil || len(fn.Params) != 3 {
		return
	}
	kA, _ := constantInt64(tA)
	kAAAA, _ := constantInt64(tAAAA)
	pQ := ssa.Value(fn.Params[1])
	rec := func(v ssa.Value) (*typesVar, int) { // (map field, tuple index) of a comma-ok lookup result
		ex, ok := stripValue(v).(*ssa.Extract)
		if !ok {
			return nil, 0
		}
		lk, ok := ex.Tuple.(*ssa.Lookup)
		if !ok || !lk.CommaOk {
			return nil, 0
		}
		switch {
		case loadsField(lk.X, f4):
			return f4, ex.Index
		case loadsField(lk.X, f6):
			return f6, ex.Index
		}
		return nil, 0
	}
	nRec := 0
	eachInstr(fn, func(in ssa.Instruction) {
		if v, ok := in.(ssa.Value); ok {
			if f, idx := rec(v); f != nil && idx == 1 {
				nRec++
			}
		}
	})
	if nRec < 2 {
		c.Unknown("C44.query-table", "Query", "the comma-ok lookups on dnsMap4 and dnsMap6 were not recognised: unrecognised shape, the table cannot be evaluated")
		return
	}
	for _, qt := range []struct {
		name string
		val  int64
	}{{"A", kA}, {"AAAA", kAAAA}, {"other", 0xffff}} {
		for _, have4 := range []bool{false, true} {
			for _, have6 := range []bool{false, true} {
				qt, have4, have6 := qt, have4, have6
				cons := fmt.Sprintf("Query:type=%s,haveV4=%v,haveV6=%v", qt.name, have4, have6)
				var got []string
				ex := &g10Explorer{Fn: fn,
					Decide: func(base ssa.Value, kind CondKind) (bool, bool) {
						if f, idx := rec(base); f != nil && idx == 1 {
							return map[*typesVar]bool{f4: have4, f6: have6}[f], true
						}
						if bo, ok := base.(*ssa.BinOp); ok && kind == CondCmp {
							var k int64
							var isK bool
							if stripValue(bo.X) == pQ {
								k, isK = constInt(bo.Y)
							} else if stripValue(bo.Y) == pQ {
								k, isK = constInt(bo.X)
							}
							if isK && bo.Op == token.EQL {
								return qt.val == k, true
							}
							if isK && bo.Op == token.NEQ {
								return qt.val != k, true
							}
						}
						return false, false
					}}
				ex.OnInstr = func(in ssa.Instruction, st *g10St) bool {
					ret, ok := in.(*ssa.Return)
					if !ok || len(ret.Results) != 2 {
						return true
					}
					addr, known := "other:"+exprString(retResult(ret, 0)), "?"
					if f, idx := rec(retResult(ret, 0)); f != nil && idx == 0 {
						addr = f.Name()
					} else if k, isK := stripValue(retResult(ret, 0)).(*ssa.Const); isK && k.Value == nil {
						addr = "zero"
					}
					if t, ok := ex.truth(retResult(ret, 1), CondBool, st); ok {
						known = fmt.Sprint(t)
					}
					got = append(got, addr+"/"+known)
					return true
				}
				if !ex.Run() {
					c.Unknown("C44.query-table", cons, "exploration budget exhausted")
					continue
				}
				want := "zero"
				if qt.name == "A" && have4 {
					want = f4.Name()
				} else if qt.name == "AAAA" && have6 {
					want = f6.Name()
				}
				want += "/" + fmt.Sprint(have4 || have6)
				sort.Strings(got)
				ok := len(got) > 0
				for _, g := range got {
					ok = ok && g == want
				}
				c.Check(ok, "C44.query-table", cons, c.P.Pos(fn.Pos()), "returns "+want, fmt.Sprintf("Query returns %v, documented %s (record/known)", got, want))
			}
		}
	}
}

// ---- the client gate of the certificate arm
func c44Gate(c *Ctx, funcs []*ssa.Function) {
	gate := Ref{"", "dnsServer", "isSelfNebulaOrLocalhost"}
	qc := Ref{"", "dnsServer", "QueryCert"}
	nCallers, bad := 0, 0
	for _, s := range callersOf(funcs, qc) {
		if c.isTestHelperFile(s.Instr) {
			continue
		}
		nCallers++
		if who := fnName(topFunc(s.Fn)); who != "(*nebula.dnsServer).parseQuery" || s.Kind != "call" {
			bad++
			c.Bad("C44.txt-gate", "QueryCert<-"+who, c.instrPos(s.Instr), "QueryCert is referenced outside parseQuery, the only place the client address is checked: certificate details can reach arbitrary clients")
		}
	}
	if bad == 0 {
		c.OK("C44.txt-gate", "QueryCert:callers", fmt.Sprintf("%d call site(s), all in parseQuery", nCallers))
	}
	if pq := c.Func(Ref{"", "dnsServer", "parseQuery"}); pq != nil && len(pq.Params) == 3 {
		w := ssa.Value(pq.Params[2])
		remote := func(v ssa.Value) bool { // w.RemoteAddr().String()
			s, _ := callOf(v)
			if s == nil || calleeObj(s) == nil || calleeObj(s).Name() != "String" {
				return false
			}
			ra, _ := callOf(callArgs(s)[0])
			return ra != nil && matchFunc(calleeObj(ra), Ref{"github.com/miekg/dns", "ResponseWriter", "RemoteAddr"}) && callArgs(ra)[0] == w
		}
		c.requireGuards("C44.txt-gate", pq, callSinks(pq, "QueryCert", callTo(qc)), "QueryCert",
			gBool("isSelfNebulaOrLocalhost(w.RemoteAddr().String())", true, -1, callTo(gate).withArg(1, remote)))
	}
	fn := c.Func(gate)
	if fn == nil || len(fn.Params) != 2 {
		return
	}
	pAddr := ssa.Value(fn.Params[1])
	fTable := c.Field("", "CertState", "myVpnAddrsTable")
	certState := Ref{"", "dnsServer", "certState"}
	ip := func(v ssa.Value) bool { // ParseAddr(SplitHostPort(addr)#0)#0
		pa := g10CallResult(v, 0, Ref{"net/netip", "", "ParseAddr"})
		return pa != nil && func() bool {
			sp := g10CallResult(pa.Call.Args[0], 0, Ref{"net", "", "SplitHostPort"})
			return sp != nil && stripValue(sp.Call.Args[0]) == pAddr
		}()
	}
	table := func(v ssa.Value) bool {
		u, ok := stripValue(v).(*ssa.UnOp)
		if !ok || u.Op != token.MUL {
			return false
		}
		fa, ok := u.X.(*ssa.FieldAddr)
		return ok && fieldOfAddr(fa) == fTable && g10CallResult(fa.X, -1, certState) != nil
	}
	// atom: which of the five documented tests a condition base is (-1: none)
	atom := func(base ssa.Value, kind CondKind) int {
		switch {
		case kind == CondNotNil && func() bool {
			pa := g10CallResult(base, 1, Ref{"net/netip", "", "ParseAddr"})
			return pa != nil && ip(ssa.Value(pa)) || pa != nil && func() bool {
				sp := g10CallResult(pa.Call.Args[0], 0, Ref{"net", "", "SplitHostPort"})
				return sp != nil && stripValue(sp.Call.Args[0]) == pAddr
			}()
		}():
			return 0 // parse error non-nil
		case kind == CondBool && func() bool {
			call, _ := callOf(base)
			return call != nil && matchFunc(calleeObj(call), Ref{"net/netip", "Addr", "IsLoopback"}) && ip(callArgs(call)[0])
		}():
			return 1
		case kind == CondNotNil && g10CallResult(base, -1, certState) != nil:
			return 2 // cert state non-nil
		case kind == CondNotNil && table(base):
			return 3 // table non-nil
		case kind == CondBool && func() bool {
			call, _ := callOf(base)
			if call == nil || !matchAny(calleeObj(call), bartContainsRefs) {
				return false
			}
			a := callArgs(call)
			return derivesFrom(a[0], sliceLocal, table) && ip(a[1])
		}():
			return 4
		}
		return -1
	}
	seenAtom := map[int]bool{}
	eachInstr(fn, func(in ssa.Instruction) {
		if v, ok := in.(ssa.Value); ok && g10IsBool(v.Type()) {
			seenAtom[atom(v, CondBool)] = true
		}
	})
	if seenAtom[1] && !seenAtom[4] {
		// the client address is looked up, but in another table than the node's own addresses
		other := ""
		eachInstr(fn, func(in ssa.Instruction) {
			call, ok := in.(*ssa.Call)
			if !ok || !matchAny(calleeObj(call), bartContainsRefs) {
				return
			}
			a := callArgs(call)
			if len(a) < 2 || !ip(a[1]) {
				return
			}
			backSlice(a[0], sliceLocal, func(x ssa.Value) {
				if u, ok := x.(*ssa.UnOp); ok && u.Op == token.MUL {
					if fa, ok := u.X.(*ssa.FieldAddr); ok && fieldOfAddr(fa) != fTable {
						if _, isNamed := fieldOfAddr(fa).Type().(*types.Pointer); isNamed {
							other = fieldOfAddr(fa).Name()
						}
					}
				}
			})
		})
		if other != "" {
			c.Bad("C44.gate-table", "isSelfNebulaOrLocalhost:own-address-table", c.P.Pos(fn.Pos()), "the gate looks the client address up in "+other+" instead of the table of the node's own overlay addresses: every client inside that table (e.g. any member of the overlay network) is handed certificate details")
			return
		}
	}
	if !seenAtom[1] || !seenAtom[4] {
		c.Unknown("C44.gate-table", "isSelfNebulaOrLocalhost", "the loopback test / the own-address-table test on the parsed client address were not recognised: unrecognised shape, the table cannot be evaluated")
		return
	}
	for mask := 0; mask < 32; mask++ {
		bit := func(i int) bool { return mask&(1<<i) != 0 }
		want := !bit(0) && (bit(1) || (bit(2) && bit(3) && bit(4)))
		cons := fmt.Sprintf("isSelfNebulaOrLocalhost:parseErr=%v,loopback=%v,state=%v,table=%v,contains=%v", bit(0), bit(1), bit(2), bit(3), bit(4))
		mayTrue, witness := false, []string(nil)
		ex := &g10Explorer{Fn: fn, Decide: func(base ssa.Value, kind CondKind) (bool, bool) {
			if a := atom(base, kind); a >= 0 {
				return bit(a), true
			}
			return false, false
		}}
		ex.OnInstr = func(in ssa.Instruction, st *g10St) bool {
			if ret, ok := in.(*ssa.Return); ok && len(ret.Results) == 1 {
				if t, known := ex.truth(retResult(ret, 0), CondBool, st); !known || t {
					mayTrue, witness = true, st.path()
				}
			}
			return true
		}
		if !ex.Run() {
			c.Unknown("C44.gate-table", cons, "exploration budget exhausted")
			continue
		}
		if mayTrue && !want {
			c.Bad("C44.gate-table", cons, c.P.Pos(fn.Pos()), "the gate can answer true for a client whose address did not parse / is neither loopback nor in the node's own overlay address table: certificate details are returned to other clients", witness...)
		} else {
			c.OK("C44.gate-table", cons, fmt.Sprintf("may be true: %v, documented: %v", mayTrue, want))
		}
	}
}

// ---- where the certificate text comes from
func c44CertSource(c *Ctx) {
	fn := c.Func(Ref{"", "dnsServer", "QueryCert"})
	if fn == nil || len(fn.Params) != 2 {
		return
	}
	fHM, fCert, fTable := c.Field("", "dnsServer", "hostMap"), c.Field("cert", "CachedCertificate", "Certificate"), c.Field("", "CertState", "myVpnAddrsTable")
	certState := Ref{"", "dnsServer", "certState"}
	data := ssa.Value(fn.Params[1])
	ipOf := func(v ssa.Value) bool {
		pa := g10CallResult(v, 0, Ref{"net/netip", "", "ParseAddr"})
		return pa != nil && derivesFrom(pa.Call.Args[0], sliceLocal, func(x ssa.Value) bool { return x == data })
	}
	n := 0
	for _, b := range fn.Blocks {
		ret, ok := b.Instrs[len(b.Instrs)-1].(*ssa.Return)
		if !ok || len(ret.Results) != 1 {
			continue
		}
		leaves := []ssa.Value{}
		var walk func(v ssa.Value)
		walk = func(v ssa.Value) {
			if phi, ok := v.(*ssa.Phi); ok {
				for _, e := range phi.Edges {
					walk(e)
				}
				return
			}
			leaves = append(leaves, v)
		}
		walk(ret.Results[0])
		for _, v := range leaves {
			if _, isC := v.(*ssa.Const); isC {
				continue
			}
			cons := fmt.Sprintf("QueryCert:return#%d", n)
			n++
			mj := g10CallResult(v, 0, Ref{"cert", "Certificate", "MarshalJSON"})
			if mj == nil {
				c.Bad("C44.cert-source", cons, c.instrPos(ret), "QueryCert returns "+exprString(v)+", which is not the JSON of a certificate: text that does not come from an authenticated certificate is served")
				continue
			}
			// the certificate marshalled: each source (through phis) is the own certificate, selected
			// only behind Contains(ip), or the certificate of the main hostmap's tunnel for ip
			own := c.g10Summ("myVpnAddrsTable.Contains(ip)", func(g10Res) Guard {
				return gBool("", true, -1, CallSpec{Refs: bartContainsRefs, Args: map[int]func(ssa.Value) bool{
					0: func(x ssa.Value) bool {
						return derivesFrom(x, sliceLocal, func(y ssa.Value) bool { return loadsField(y, fTable) })
					}, 1: ipOf}})
			})
			bad, kinds := "", map[string]bool{}
			var srcs func(v ssa.Value, at Sink, d int)
			srcs = func(v ssa.Value, at Sink, d int) {
				if phi, isPhi := v.(*ssa.Phi); isPhi && d < 4 {
					for k, e := range phi.Edges {
						srcs(e, Sink{Instr: phi, ViaPred: phi.Block().Preds[k]}, d+1)
					}
					return
				}
				switch {
				case isNilConst(v):
				case func() bool {
					def := g10CallResult(v, -1, Ref{"", "CertState", "GetDefaultCertificate"})
					return def != nil && g10CallResult(callArgs(def)[0], -1, certState) != nil
				}():
					kinds["own"] = true
					if ok, _, _ := c.mustPass(fn, at, own); !ok {
						bad = "the node's own certificate is returned without the queried address having been found in its own overlay address table"
					}
				case func() bool {
					u, isU := stripValue(v).(*ssa.UnOp)
					if !isU || u.Op != token.MUL {
						return false
					}
					fa, isF := u.X.(*ssa.FieldAddr)
					if !isF || fieldOfAddr(fa) != fCert {
						return false
					}
					gc := g10CallResult(fa.X, -1, Ref{"", "HostInfo", "GetCert"})
					if gc == nil {
						return false
					}
					q := g10CallResult(callArgs(gc)[0], -1, Ref{"", "HostMap", "QueryVpnAddr"})
					return q != nil && loadsField(callArgs(q)[0], fHM) && ipOf(callArgs(q)[1])
				}():
					kinds["peer"] = true
				default:
					bad = "the certificate text returned (" + exprString(v) + ") is neither the node's own certificate nor that of the tunnel the main hostmap holds for the queried address"
				}
			}
			srcs(callArgs(mj)[0], Sink{Instr: mj}, 0)
			c.Check(bad == "", "C44.cert-source", cons, c.instrPos(ret), "certificate source(s): "+setStr(kinds), bad)
			for k := range kinds {
				c.OK("C44.cert-source", "QueryCert:source:"+k, "present")
			}
		}
	}
}

// ---- parseQuery: answers and the NXDOMAIN decision
func c44ParseQuery(c *Ctx, funcs []*ssa.Function) {
	fn := c.Func(Ref{"", "dnsServer", "parseQuery"})
	fAns, fRcode, fQ := c.Field("github.com/miekg/dns", "Msg", "Answer"), c.Field("github.com/miekg/dns", "MsgHdr", "Rcode"), c.Field("github.com/miekg/dns", "Msg", "Question")
	nx := c.ConstVal("github.com/miekg/dns", "RcodeNameError")
	if fn == nil || fAns == nil || fRcode == nil || fQ == nil || nx == nil {
		return
	}
	query, qc := Ref{"", "dnsServer", "Query"}, Ref{"", "dnsServer", "QueryCert"}
	// answers
	nAns := 0
	for _, af := range funcs {
		af := af
		eachInstr(af, func(in ssa.Instruction) {
			st, ok := in.(*ssa.Store)
			if !ok || c.isTestHelperFile(in) {
				return
			}
			fa, ok := st.Addr.(*ssa.FieldAddr)
			if !ok || fieldOfAddr(fa) != fAns {
				return
			}
			cons := fmt.Sprintf("%s:answer#%d", af.Name(), nAns)
			nAns++
			// the appended elements: everything in the slice of the stored value that is not the old Answer
			var rrs []*ssa.Call
			other := ""
			backSlice(st.Val, SliceOpts{Transparent: func(call *ssa.Call) bool { return builtinName(call) == "append" },
				StopAt: func(v ssa.Value) bool {
					call, ok := v.(*ssa.Call)
					return ok && builtinName(call) == ""
				}}, func(v ssa.Value) {
				switch x := v.(type) {
				case *ssa.Call:
					if matchFunc(calleeObj(x), Ref{"github.com/miekg/dns", "", "NewRR"}) {
						rrs = append(rrs, x)
					} else if builtinName(x) == "" {
						other = exprString(x)
					}
				}
			})
			if len(rrs) != 1 || other != "" {
				c.Bad("C44.answers", cons, c.instrPos(in), fmt.Sprintf("a record that is not a dns.NewRR result is appended to the answer (%d NewRR, other source %q)", len(rrs), other))
				return
			}
			// the text of the RR: Sprintf whose operands include the Query address or the QueryCert text
			var src *ssa.Call
			srcKind := ""
			backSlice(rrs[0].Call.Args[0], sliceThrough, func(v ssa.Value) {
				if call := g10CallResult(v, 0, query); call != nil && srcKind == "" {
					if ex, ok := stripValue(v).(*ssa.Extract); ok && ex.Index == 0 {
						src, srcKind = call, "Query"
					}
				}
				if call := g10CallResult(v, -1, qc); call != nil && srcKind == "" {
					src, srcKind = call, "QueryCert"
				}
			})
			if src == nil {
				c.Bad("C44.answers", cons, c.instrPos(in), "the answer record is not formatted from the address Query returned or the text QueryCert returned: data that is not in the authenticated record maps is served")
				return
			}
			if srcKind == "Query" {
				valid := gBool("ip.IsValid()", true, -1, callTo(Ref{"net/netip", "Addr", "IsValid"}).withArg(0, func(v ssa.Value) bool { return g10CallResult(v, 0, query) == src }))
				ok, _, path := c.mustPass(af, Sink{Instr: in}, valid)
				if !ok {
					c.Bad("C44.answers", cons, c.instrPos(in), "an address answer is appended without Query having returned a valid address (no record of the requested type)", path...)
					return
				}
			}
			c.OK("C44.answers", cons, "dns.NewRR of the "+srcKind+" result")
		})
	}
	if nAns == 0 {
		c.Unknown("C44.answers", "parseQuery", "no store to m.Answer found: cannot decide")
	}
	// NXDOMAIN
	kNX, _ := constantInt64(nx)
	var sinks []Sink
	eachInstr(fn, func(in ssa.Instruction) {
		if st, ok := in.(*ssa.Store); ok {
			if fa, ok := st.Addr.(*ssa.FieldAddr); ok && fieldOfAddr(fa) == fRcode {
				if k, isK := constInt(st.Val); isK && k == kNX {
					sinks = append(sinks, Sink{Instr: in, Desc: "Rcode = NXDOMAIN"})
				}
			}
		}
	})
	if len(sinks) == 0 {
		c.Unknown("C44.nxdomain", "parseQuery:nxdomain", "no store of RcodeNameError found: cannot decide")
		return
	}
	isAnswer := func(v ssa.Value) bool { return loadsField(v, fAns) }
	okLen, _, path := c.g10MustPassAll(fn, sinks, g10LenGuard("len(m.Answer) == 0", isAnswer, true))
	if okLen {
		c.OK("C44.nxdomain", "parseQuery:nxdomain<-no-answers", "only with an empty answer section")
	} else {
		c.Bad("C44.nxdomain", "parseQuery:nxdomain<-no-answers", c.instrPos(sinks[0].Instr), "NXDOMAIN can be set although answers were produced (a certificate answer, or an address answer to another question)", path...)
	}
	// a known name reported by Query always suppresses NXDOMAIN (exploration; bit 0 = some Query said "known")
	direct := func(v ssa.Value) bool {
		ex, ok := stripValue(v).(*ssa.Extract)
		return ok && ex.Index == 1 && g10CallResult(v, 1, query) != nil
	}
	// one level: a module helper every return of which hands back Query's "known" result
	relays := func(call *ssa.Call) int {
		g := call.Call.StaticCallee()
		if g == nil || g.Blocks == nil || pkgPathOf(g) != nebulaMod || matchFunc(calleeObj(call), query) {
			return -1
		}
		for idx := 0; idx < g.Signature.Results().Len(); idx++ {
			if !g10IsBool(g.Signature.Results().At(idx).Type()) {
				continue
			}
			all, n := true, 0
			for _, b := range g.Blocks {
				if ret, ok := b.Instrs[len(b.Instrs)-1].(*ssa.Return); ok && idx < len(ret.Results) {
					n++
					ok2, _ := allEdges(retResult(ret, idx), direct)
					all = all && ok2
				}
			}
			if all && n > 0 {
				return idx
			}
		}
		return -1
	}
	exists := func(v ssa.Value) bool {
		if direct(v) {
			return true
		}
		call, i := callOf(v)
		if call == nil {
			return false
		}
		idx := relays(call)
		return idx >= 0 && (i == idx || (i == -1 && idx == 0))
	}
	var witness []string
	ex := &g10Explorer{Fn: fn, Track: exists,
		OnEdge: func(base ssa.Value, kind CondKind, truth bool, st *g10St) {
			if kind == CondBool && truth && exists(base) {
				st.bits |= 1
			}
		}}
	ex.OnInstr = func(in ssa.Instruction, st *g10St) bool {
		if call, ok := in.(*ssa.Call); ok && (matchFunc(calleeObj(call), query) || relays(call) >= 0) {
			for v := range st.vals { // a new evaluation: forget what the previous one said
				if e, isE := v.(*ssa.Extract); (isE && e.Tuple == ssa.Value(call)) || v == ssa.Value(call) {
					delete(st.vals, v)
				}
			}
		}
		for _, s := range sinks {
			if in == s.Instr && st.bits&1 != 0 && witness == nil {
				witness = st.path()
			}
		}
		return true
	}
	switch {
	case !ex.Run():
		c.Unknown("C44.nxdomain", "parseQuery:nxdomain<-no-known-name", "exploration budget exhausted")
	case witness != nil:
		c.Bad("C44.nxdomain", "parseQuery:nxdomain<-no-known-name", c.instrPos(sinks[0].Instr), "NXDOMAIN can be set on a path on which Query reported the name of some question as known: a known name lacking the requested record type is answered NXDOMAIN instead of an empty answer", witness...)
	default:
		c.OK("C44.nxdomain", "parseQuery:nxdomain<-no-known-name", fmt.Sprintf("%d abstract states explored, none stores NXDOMAIN after a known name", ex.Steps))
	}
	// every question that can lead to NXDOMAIN consults name existence
	loops := findRangeLoops(fn, func(v ssa.Value) bool { return loadsField(v, fQ) })
	if len(loops) != 1 {
		c.Unknown("C44.nxdomain", "parseQuery:every-question-consults-existence", fmt.Sprintf("expected one loop over m.Question, found %d: unrecognised shape", len(loops)))
		return
	}
	li := loops[0]
	consult := func(in ssa.Instruction) bool {
		if call, ok := in.(*ssa.Call); ok && (matchFunc(calleeObj(call), query) || relays(call) >= 0) {
			return true
		}
		lk, ok := in.(*ssa.Lookup)
		return ok && lk.CommaOk && (loadsField(lk.X, c.Field("", "dnsServer", "dnsMap4")) || loadsField(lk.X, c.Field("", "dnsServer", "dnsMap6")))
	}
	// from the body entry back to the loop header without a consultation
	blocked := map[Edge]bool{}
	for _, b := range fn.Blocks {
		for _, in := range b.Instrs {
			if consult(in) {
				for i := range b.Succs {
					blocked[Edge{b, i}] = true
				}
				break
			}
		}
	}
	prev := reachable(li.Body, blocked)
	skipped := false
	for _, p := range li.Header.Preds {
		if _, r := prev[p]; r && p != li.Header && li.Body.Dominates(p) {
			hasConsult := false
			for _, in := range p.Instrs {
				hasConsult = hasConsult || consult(in)
			}
			if !hasConsult {
				skipped = true
				c.Bad("C44.nxdomain", "parseQuery:every-question-consults-existence", c.instrPos(p.Instrs[len(p.Instrs)-1]), "a question can be processed without Query (or a record map lookup) being consulted for its name, yet NXDOMAIN is decided from the names seen so far: for a known name and a type other than A/AAAA the responder answers NXDOMAIN instead of an empty answer", c.blockPath(prev, p)...)
				break
			}
		}
	}
	if !skipped {
		c.OK("C44.nxdomain", "parseQuery:every-question-consults-existence", "every iteration over m.Question passes a Query call")
	}
}
