package main

import (
	"fmt"
	"go/constant"
	"go/token"
	"go/types"
	"sort"
	"strings"

	"golang.org/x/tools/go/ssa"
)

func init() {
	register(&Property{
		ID: "C38", Title: "Allow lists use longest-prefix semantics with a safe default",
		Patterns:    []string{"."},
		Technique:   "abstract interpretation of the two configuration folds (newAllowList, getAllowListInterfaces) over a finite domain - per entry: family x value x prefix-length class; the reachable abstract states are explored to a fixpoint and every transition and exit is compared with the documented summary (values seen, explicit default seen) -, provenance rules for the un-mapping of configured prefixes, CFG guard rules on the lookup methods (conjunction of global and per-range lists, nil lists, name rules), wiring rules on the constructors",
		LevelText:   "For every sequence of configured entries (all interleavings of IPv4/IPv6 entries, allow/deny values, default and non-default prefix lengths; exact over the abstraction, which is finite): each entry is inserted with its own value under its un-mapped prefix; a family without an explicit default gets exactly one 0/0 entry holding the opposite of its uniform value (allow when the family has no entry), a family with an explicit default gets none, and a family that mixes values without a default is refused; the two families do not influence each other; interface name rules are recorded with their own value and a rule set that mixes values is refused. On all paths: configured prefixes are un-mapped (and re-based from /96+n to /n) before insertion in both the global and the per-range tables; AllowList.Allow answers with the table lookup of its argument (nil list: allow); RemoteAllowList.Allow / AllowAll answer true only if the global list and the list of (every) matching inside range allow that same underlay address; getInsideAllowList answers nil only when there is no table or no matching range; AllowUnknownVpnAddr / LocalAllowList.Allow delegate to the global list; AllowName answers with the first matching rule's value, and with the negation of the first rule's value only after every rule failed to match; the constructors wire the parsed lists into the fields the lookups read and refuse when a per-range list is refused.",
		LevelNote:   "Not decided: longest-prefix lookup itself (github.com/gaissmai/bart Table.Insert / Lookup contract, including that Insert silently ignores invalid prefixes); lookup-side handling of IPv4-mapped addresses (callers pass un-mapped addresses: the udp listeners and the protobuf converters un-map - assumption, not checked here); entries taken by the handleKey callback (`interfaces`) are evaluated with the callback absent; regexp semantics of interface names; netip.ParsePrefix / config.AsBool contracts.",
		Explanation: "K8 generalised to folds (finite abstract state space explored to a fixpoint), K11 un-mapping provenance, K1 guard sets on the lookup methods, K7 sibling agreement v4/v6 by construction of the fold summary",
		Run:         runC38,
		Canaries: func(c *Ctx) []Canary {
			return []Canary{
				{Name: "implicit-default-same-as-values", File: "allow_list.go", Old: "tree.Insert(netip.PrefixFrom(netip.IPv4Unspecified(), 0), !rules4.allValues)", New: "tree.Insert(netip.PrefixFrom(netip.IPv4Unspecified(), 0), rules4.allValues)", Rule: "C38.fold"},
				{Name: "v6-default-from-v4-values", File: "allow_list.go", Old: "tree.Insert(netip.PrefixFrom(netip.IPv6Unspecified(), 0), !rules6.allValues)", New: "tree.Insert(netip.PrefixFrom(netip.IPv6Unspecified(), 0), !rules4.allValues)", Rule: "C38.fold"},
				{Name: "mixed-v6-without-default-accepted", File: "allow_list.go", Old: "\t\tif rules6.allValuesMatch {\n\t\t\ttree.Insert(netip.PrefixFrom(netip.IPv6Unspecified(), 0), !rules6.allValues)\n\t\t} else {\n\t\t\treturn nil, fmt.Errorf(\"config `%s` contains both true and false rules, but no default set for ::/0\", k)\n\t\t}\n", New: "\t\ttree.Insert(netip.PrefixFrom(netip.IPv6Unspecified(), 0), !rules6.allValues)\n", Rule: "C38.fold"},
				{Name: "explicit-default-overwritten", File: "allow_list.go", Old: "\tif !rules4.defaultSet {\n\t\tif rules4.allValuesMatch {", New: "\tif !rules4.defaultSet || rules4.allValuesMatch {\n\t\tif rules4.allValuesMatch {", Rule: "C38.fold"},
				{Name: "short-prefix-counts-as-default", File: "allow_list.go", Old: "\t\tif maskBits == 0 {\n\t\t\trules.defaultSet = true", New: "\t\tif maskBits <= 1 {\n\t\t\trules.defaultSet = true", Rule: "C38.fold"},
				{Name: "families-share-state", File: "allow_list.go", Old: "\t\tif ipNet.Addr().Is4() {\n\t\t\trules = &rules4\n\t\t} else {\n\t\t\trules = &rules6\n\t\t}\n", New: "\t\trules = &rules4\n\t\tif ipNet.Addr().Is6() && maskBits > 0 {\n\t\t\trules = &rules6\n\t\t}\n", Rule: "C38.fold"},
				{Name: "mismatch-compares-first-flag", File: "allow_list.go", Old: "\t\t\tif value != rules.allValues {\n\t\t\t\trules.allValuesMatch = false", New: "\t\t\tif value != rules.firstValue {\n\t\t\t\trules.allValuesMatch = false", Rule: "C38.fold"},
				{Name: "config-prefix-not-unmapped", File: "allow_list.go", Old: "\t\t\tipNet = netip.PrefixFrom(a.Unmap(), ipNet.Bits()-96)\n\t\t}\n\n\t\ttree.Insert(ipNet, value)", New: "\t\t\t_ = a\n\t\t}\n\n\t\ttree.Insert(ipNet, value)", Rule: "C38.mapped"},
				{Name: "range-prefix-not-unmapped", File: "allow_list.go", Old: "\t\t\tipNet = netip.PrefixFrom(a.Unmap(), ipNet.Bits()-96)\n\t\t}\n\n\t\tremoteAllowRanges.Insert(ipNet, allowList)", New: "\t\t\t_ = a\n\t\t}\n\n\t\tremoteAllowRanges.Insert(ipNet, allowList)", Rule: "C38.mapped"},
				{Name: "interfaces-mixed-accepted", File: "allow_list.go", Old: "\t\t\tif allow != allValues {\n\t\t\t\treturn nil, fmt.Errorf(\"config `%s.interfaces` values must all be the same true/false value\", k)\n\t\t\t}\n", New: "\t\t\t_ = allValues\n", Rule: "C38.fold"},
				{Name: "name-default-not-negated", File: "allow_list.go", Old: "\treturn !al.nameRules[0].Allow\n", New: "\treturn al.nameRules[0].Allow\n", Rule: "C38.names"},
				{Name: "name-match-returns-constant", File: "allow_list.go", Old: "\t\tif rule.Name.MatchString(name) {\n\t\t\treturn rule.Allow\n\t\t}", New: "\t\tif rule.Name.MatchString(name) {\n\t\t\treturn true\n\t\t}", Rule: "C38.names"},
				{Name: "remote-allow-inside-or-global", File: "allow_list.go", Old: "\tif !al.getInsideAllowList(vpnAddr).Allow(udpAddr) {\n\t\treturn false\n\t}\n\treturn al.AllowList.Allow(udpAddr)\n}", New: "\tif al.getInsideAllowList(vpnAddr).Allow(udpAddr) {\n\t\treturn true\n\t}\n\treturn al.AllowList.Allow(udpAddr)\n}", Rule: "C38.lookup"},
				{Name: "allowall-first-range-decides", File: "allow_list.go", Old: "\tfor _, vpnAddr := range vpnAddrs {\n\t\tif !al.getInsideAllowList(vpnAddr).Allow(udpAddr) {\n\t\t\treturn false\n\t\t}\n\t}\n\n\treturn true\n}", New: "\tfor i, vpnAddr := range vpnAddrs {\n\t\tif i > 0 {\n\t\t\tbreak\n\t\t}\n\t\tif !al.getInsideAllowList(vpnAddr).Allow(udpAddr) {\n\t\t\treturn false\n\t\t}\n\t}\n\n\treturn true\n}", Rule: "C38.lookup"},
				{Name: "inside-list-checked-against-vpn-address", File: "allow_list.go", Old: "\tif !al.getInsideAllowList(vpnAddr).Allow(udpAddr) {\n\t\treturn false\n\t}\n\treturn al.AllowList.Allow(udpAddr)\n}", New: "\tif !al.getInsideAllowList(vpnAddr).Allow(vpnAddr) {\n\t\treturn false\n\t}\n\treturn al.AllowList.Allow(udpAddr)\n}", Rule: "C38.lookup"},
				{Name: "inside-lookup-miss-on-hit", File: "allow_list.go", Old: "\t\tinside, ok := al.insideAllowLists.Lookup(vpnAddr)\n\t\tif ok {\n\t\t\treturn inside\n\t\t}", New: "\t\tinside, ok := al.insideAllowLists.Lookup(vpnAddr)\n\t\tif ok && inside == nil {\n\t\t\treturn inside\n\t\t}", Rule: "C38.lookup"},
				{Name: "refused-inside-list-skipped", File: "allow_list.go", Old: "\t\tallowList, err := newAllowList(fmt.Sprintf(\"%s.%s\", k, rawCIDR), rawValue, nil)\n\t\tif err != nil {\n\t\t\treturn nil, err\n\t\t}\n", New: "\t\tallowList, err := newAllowList(fmt.Sprintf(\"%s.%s\", k, rawCIDR), rawValue, nil)\n\t\tif err != nil {\n\t\t\tcontinue\n\t\t}\n", Rule: "C38.wiring"},
				{Name: "remote-ranges-not-wired", File: "allow_list.go", Old: "return &RemoteAllowList{AllowList: al, insideAllowLists: remoteAllowRanges}, nil", New: "_ = remoteAllowRanges\n\treturn &RemoteAllowList{AllowList: al}, nil", Rule: "C38.wiring"},
			}
		},
	})
}

var (
	c38Insert   = Ref{"github.com/gaissmai/bart", "Table", "Insert"}
	c38Lookup   = Ref{"github.com/gaissmai/bart", "Table", "Lookup"}
	c38Allow    = Ref{"", "AllowList", "Allow"}
	c38Inside   = Ref{"", "RemoteAllowList", "getInsideAllowList"}
	c38NewList  = Ref{"", "", "newAllowList"}
	c38ParsePfx = Ref{"net/netip", "", "ParsePrefix"}
	c38PfxFrom  = Ref{"net/netip", "", "PrefixFrom"}
	c38Unmap    = Ref{"net/netip", "Addr", "Unmap"}
)

func runC38(c *Ctx) {
	c.Rule("C38.fold", "K8 on folds: newAllowList and getAllowListInterfaces agree with the documented summary (per family: values seen, explicit default seen) on every reachable abstract state, transition and exit", 9)
	c.Rule("C38.mapped", "K11: every configured prefix that reaches a table is built from the un-mapped address, with the prefix length re-based for IPv4-mapped input", 4)
	c.Rule("C38.lookup", "K1: AllowList.Allow / LocalAllowList.Allow / AllowUnknownVpnAddr / RemoteAllowList.Allow / AllowAll / getInsideAllowList return what the documented conjunction of table lookups yields", 9)
	c.Rule("C38.names", "K1: AllowName returns the matching rule's value, the negated first rule's value only after all rules failed, and true only for a nil list / no rules", 3)
	c.Rule("C38.wiring", "K11/K1: the constructors store the parsed global list and per-range table in the fields the lookups read; per-range lists come from newAllowList of the same entry and a refused one refuses the whole list; interface rules reach LocalAllowList.nameRules", 8)
	c38FoldAllowList(c)
	c38FoldInterfaces(c)
	c38Mapped(c)
	c38Lookups(c)
	c38Names(c)
	c38Wiring(c)
}

// ---------------------------------------------------------------------------------------
// folds

func c38ReportFold(c *Ctx, fnShort string, tags []string, n int, complaints []string, err string, pos string) {
	if err != "" {
		for _, t := range tags {
			c.Unknown("C38.fold", fnShort+":"+t, "left the supported fragment: "+err)
		}
		return
	}
	by := map[string][]string{}
	for _, m := range complaints {
		tag, text := m, ""
		if i := strings.Index(m, ": "); i >= 0 {
			tag, text = m[:i], m[i+2:]
		}
		if len(by[tag]) < 3 {
			by[tag] = append(by[tag], text)
		}
	}
	known := map[string]bool{}
	for _, t := range tags {
		known[t] = true
		if len(by[t]) > 0 {
			c.Bad("C38.fold", fnShort+":"+t, pos, strings.Join(by[t], "; "))
		} else {
			c.OK("C38.fold", fnShort+":"+t, fmt.Sprintf("%d reachable abstract (state, summary) pairs agree", n))
		}
	}
	for t, ms := range by {
		if !known[t] {
			c.Bad("C38.fold", fnShort+":"+t, pos, strings.Join(ms, "; "))
		}
	}
}

// one configured entry, abstractly: family, value, prefix-length class
type c38Entry struct {
	v4   bool
	val  bool
	bits int64 // 0 (default), 1 (shortest non-default), 32/128 (host)
}

func (e c38Entry) String() string {
	f := "v6"
	if e.v4 {
		f = "v4"
	}
	return fmt.Sprintf("%s/%d=%v", f, e.bits, e.val)
}

// per-family reference summary: "TFD" flags (true seen, false seen, default seen)
type c38Fam struct{ t, f, d bool }

func c38Spec(s string) (v4, v6 c38Fam) {
	get := func(p string) c38Fam {
		return c38Fam{strings.Contains(p, "T"), strings.Contains(p, "F"), strings.Contains(p, "D")}
	}
	parts := strings.SplitN(s, "|", 2)
	return get(parts[0]), get(parts[1])
}

func (f c38Fam) str() string {
	s := ""
	if f.t {
		s += "T"
	}
	if f.f {
		s += "F"
	}
	if f.d {
		s += "D"
	}
	return s
}

func (f c38Fam) describe() string {
	var v []string
	if f.t {
		v = append(v, "allow")
	}
	if f.f {
		v = append(v, "deny")
	}
	s := "{" + strings.Join(v, ",") + "}"
	if f.d {
		s += "+default"
	}
	return s
}

func c38FoldAllowList(c *Ctx) {
	fn := c.Func(c38NewList)
	tags := []string{"entry-inserted-with-own-value", "valid-entries-accepted", "mixed-without-default-refused", "implicit-default-is-opposite", "explicit-default-kept", "result-is-the-filled-table"}
	if fn == nil {
		return
	}
	fold, why := g6FindFold(fn)
	if fold == nil || fold.Next == nil || len(fn.Params) != 3 {
		c38ReportFold(c, "newAllowList", tags, 0, nil, "not a single range-over-map fold: "+why, "")
		return
	}
	var inputs []c38Entry
	for _, v4 := range []bool{true, false} {
		for _, val := range []bool{true, false} {
			host := int64(128)
			if v4 {
				host = 32
			}
			for _, b := range []int64{0, 1, host} {
				inputs = append(inputs, c38Entry{v4, val, b})
			}
		}
	}
	handler := fn.Params[2].Name()
	env := func(i int) *AbsEnv {
		var e c38Entry
		if i >= 0 {
			e = inputs[i]
		}
		return &AbsEnv{
			// the handleKey callback is absent (its keys are not allow-list entries)
			Params: map[string]AVal{handler: {Nil: true}},
			Oracle: func(o *types.Func, a []AVal) (AVal, bool) {
				switch {
				case matchFunc(o, Ref{"config", "", "AsBool"}):
					return AVal{Tup: []AVal{aBool(e.val), aBool(true)}}, true
				case matchFunc(o, c38ParsePfx):
					return AVal{Tup: []AVal{aSym("pfx"), {Nil: true}}}, true
				case matchFunc(o, c38PfxFrom) && len(a) == 2:
					return aSym("PrefixFrom(" + a[0].String() + "," + a[1].String() + ")"), true
				case matchFunc(o, Ref{"net/netip", "", "IPv4Unspecified"}):
					return aSym("zero4"), true
				case matchFunc(o, Ref{"net/netip", "", "IPv6Unspecified"}):
					return aSym("zero6"), true
				case matchFunc(o, Ref{"net/netip", "Addr", "Is4"}):
					return aBool(e.v4), true
				case matchFunc(o, Ref{"net/netip", "Addr", "Is6"}):
					return aBool(!e.v4), true
				case matchFunc(o, Ref{"net/netip", "Addr", "Is4In6"}):
					return aBool(false), true // entries written in mapped form: C38.mapped
				case matchFunc(o, c38Insert):
					return aSym("void"), true
				case o.Pkg() != nil && o.Pkg().Path() == "net/netip" && len(a) == 1:
					return symAccessor(o, a)
				}
				return AVal{}, false
			},
			SymCmp: func(op token.Token, x, y AVal) (bool, bool) {
				// prefix length of the entry against a constant
				if strings.HasSuffix(x.Sym, ".Bits()") && y.isConst() {
					return constant.Compare(constant.MakeInt64(e.bits), op, y.K), true
				}
				if strings.HasSuffix(y.Sym, ".Bits()") && x.isConst() {
					return constant.Compare(x.K, op, constant.MakeInt64(e.bits)), true
				}
				return false, false
			},
		}
	}
	inserts := func(r *g6Run) []g6CallRec {
		var out []g6CallRec
		for _, cr := range r.Calls {
			if matchFunc(cr.Callee, c38Insert) && len(cr.Args) == 3 {
				out = append(out, cr)
			}
		}
		return out
	}
	tree := ""
	noteTree := func(s string) bool {
		if tree == "" {
			tree = s
		}
		return tree == s
	}
	sp := &g6FoldSpec{
		NIn: len(inputs),
		Env: env,
		Pre: func(fn *ssa.Function) map[ssa.Value]AVal {
			pre := map[ssa.Value]AVal{}
			eachInstr(fn, func(in ssa.Instruction) {
				// the raw value is a map (anything else is refused up front)
				if ta, ok := in.(*ssa.TypeAssert); ok && ta.CommaOk && ta.X == ssa.Value(fn.Params[1]) {
					pre[ta] = AVal{Tup: []AVal{aSym("rawMap"), aBool(true)}}
				}
			})
			return pre
		},
		Elem: func(i int) AVal {
			return AVal{Tup: []AVal{aBool(i >= 0), aSym("rawCIDR"), aSym("rawValue")}}
		},
		Init: "|",
		Step: func(spec string, i int) string {
			v4, v6 := c38Spec(spec)
			e := inputs[i]
			f := &v6
			if e.v4 {
				f = &v4
			}
			if e.val {
				f.t = true
			} else {
				f.f = true
			}
			if e.bits == 0 {
				f.d = true
			}
			return v4.str() + "|" + v6.str()
		},
		OnIter: func(i int, r *g6Run, ret []AVal, before, after string) []string {
			e := inputs[i]
			var out []string
			if ret != nil {
				return []string{fmt.Sprintf("valid-entries-accepted: the well-formed entry %v is refused while the list so far is v4%s v6%s", e, c38Spec3(before, true), c38Spec3(before, false))}
			}
			ins := inserts(r)
			if len(ins) != 1 {
				return []string{fmt.Sprintf("entry-inserted-with-own-value: entry %v leads to %d table insertions, expected one", e, len(ins))}
			}
			if !noteTree(ins[0].Args[0].String()) {
				out = append(out, "result-is-the-filled-table: entries are inserted into different tables")
			}
			if !strings.Contains(ins[0].Args[1].String(), "pfx") {
				out = append(out, fmt.Sprintf("entry-inserted-with-own-value: entry %v is inserted under a prefix that does not come from its key (%s)", e, ins[0].Args[1]))
			}
			if !ins[0].Args[2].isConst() || constant.BoolVal(ins[0].Args[2].K) != e.val {
				out = append(out, fmt.Sprintf("entry-inserted-with-own-value: entry %v is inserted with value %v", e, ins[0].Args[2]))
			}
			return out
		},
		OnExit: func(r *g6Run, ret []AVal, spec string) []string {
			v4, v6 := c38Spec(spec)
			hist := "v4" + v4.describe() + " v6" + v6.describe()
			var out []string
			if len(ret) != 2 {
				return []string{"result-is-the-filled-table: unexpected result arity"}
			}
			mixed := func(f c38Fam) bool { return f.t && f.f && !f.d }
			refused := !ret[1].Nil
			wantRefused := mixed(v4) || mixed(v6)
			if refused != wantRefused {
				if wantRefused {
					out = append(out, "mixed-without-default-refused: a list with "+hist+" is accepted although a family mixes allow and deny without a default")
				} else {
					out = append(out, "valid-entries-accepted: a list with "+hist+" is refused")
				}
			}
			if refused {
				return out
			}
			defaults := map[string][]AVal{}
			for _, in := range inserts(r) {
				if !noteTree(in.Args[0].String()) {
					out = append(out, "result-is-the-filled-table: the implicit default goes into a different table than the entries")
				}
				defaults[in.Args[1].String()] = append(defaults[in.Args[1].String()], in.Args[2])
			}
			for _, fam := range []struct {
				name, key string
				f         c38Fam
			}{{"IPv4", "PrefixFrom(zero4,0)", v4}, {"IPv6", "PrefixFrom(zero6,0)", v6}} {
				got := defaults[fam.key]
				delete(defaults, fam.key)
				if fam.f.d {
					if len(got) > 0 {
						out = append(out, fmt.Sprintf("explicit-default-kept: with %s the explicit %s default is overwritten by an implicit one (%v)", hist, fam.name, got[0]))
					}
					continue
				}
				want := !fam.f.t // uniform allow -> default deny; uniform deny or no entry -> default allow
				if len(got) != 1 || !got[0].isConst() || constant.BoolVal(got[0].K) != want {
					out = append(out, fmt.Sprintf("implicit-default-is-opposite: with %s the %s default must be %v, inserted: %v", hist, fam.name, want, got))
				}
			}
			for k := range defaults {
				out = append(out, "implicit-default-is-opposite: unexpected table entry "+k+" at the end")
			}
			if ret[0].Sym == "" || r.mem[trimAmp(ret[0].Sym)+".cidrTree"].String() != tree {
				out = append(out, "result-is-the-filled-table: the returned AllowList does not hold the table the entries were inserted into")
			}
			return out
		},
	}
	n, complaints, err := g6ExploreFold(fold, sp)
	c.Note("newAllowList: %d reachable abstract (state, summary) pairs, %d entry classes", n, len(inputs))
	c38ReportFold(c, "newAllowList", tags, n, complaints, err, c.P.Pos(fn.Pos()))
}

func c38Spec3(spec string, v4 bool) string {
	a, b := c38Spec(spec)
	if v4 {
		return a.describe()
	}
	return b.describe()
}

func c38FoldInterfaces(c *Ctx) {
	fn := c.Func(Ref{"", "", "getAllowListInterfaces"})
	tags := []string{"rule-recorded-with-own-value", "mixed-values-refused", "uniform-values-accepted"}
	if fn == nil {
		return
	}
	fold, why := g6FindFold(fn)
	if fold == nil || fold.Next == nil || len(fn.Params) != 2 {
		c38ReportFold(c, "getAllowListInterfaces", tags, 0, nil, "not a single range-over-map fold: "+why, "")
		return
	}
	fAllow := c.Field("", "AllowListNameRule", "Allow")
	if fAllow == nil {
		return
	}
	env := func(i int) *AbsEnv {
		return &AbsEnv{Oracle: func(o *types.Func, a []AVal) (AVal, bool) {
			switch {
			case matchFunc(o, Ref{"config", "", "AsBool"}):
				return AVal{Tup: []AVal{aBool(i == 1), aBool(true)}}, true
			case matchFunc(o, Ref{"regexp", "", "Compile"}), matchFunc(o, Ref{"regexp", "", "MustCompile"}):
				return AVal{Tup: []AVal{aSym("re"), {Nil: true}}}, true
			}
			return AVal{}, false
		}}
	}
	sp := &g6FoldSpec{
		NIn: 2, // deny, allow
		Env: env,
		Pre: func(fn *ssa.Function) map[ssa.Value]AVal {
			pre := map[ssa.Value]AVal{}
			eachInstr(fn, func(in ssa.Instruction) {
				if ta, ok := in.(*ssa.TypeAssert); ok && ta.CommaOk && ta.X == ssa.Value(fn.Params[1]) {
					pre[ta] = AVal{Tup: []AVal{aSym("rawRules"), aBool(true)}}
				}
			})
			return pre
		},
		Elem: func(i int) AVal { return AVal{Tup: []AVal{aBool(i >= 0), aSym("name"), aSym("rawAllow")}} },
		Init: "",
		Step: func(spec string, i int) string {
			f := c38Fam{t: strings.Contains(spec, "T"), f: strings.Contains(spec, "F")}
			if i == 1 {
				f.t = true
			} else {
				f.f = true
			}
			return f.str()
		},
		OnIter: func(i int, r *g6Run, ret []AVal, before, after string) []string {
			mixed := len(after) == 2
			if ret != nil {
				if !mixed {
					return []string{fmt.Sprintf("uniform-values-accepted: a rule with value %v is refused after rules with values {%s}", i == 1, before)}
				}
				if len(ret) != 2 || ret[1].Nil {
					return []string{"mixed-values-refused: the loop stops on a mixed rule set without an error"}
				}
				return nil
			}
			var out []string
			if mixed {
				out = append(out, fmt.Sprintf("mixed-values-refused: a rule with value %v is accepted after rules with values {%s}", i == 1, before))
			}
			rec := false
			for k, v := range r.mem {
				if strings.HasSuffix(k, "]."+fAllow.Name()) && v.isConst() && constant.BoolVal(v.K) == (i == 1) {
					rec = true
				}
			}
			if !rec {
				out = append(out, fmt.Sprintf("rule-recorded-with-own-value: a rule with value %v is not appended with that value", i == 1))
			}
			return out
		},
		OnExit: func(r *g6Run, ret []AVal, spec string) []string {
			if len(ret) != 2 || !ret[1].Nil {
				return []string{"uniform-values-accepted: the rule set {" + spec + "} is refused at the end"}
			}
			if len(spec) == 2 {
				return []string{"mixed-values-refused: a rule set mixing allow and deny is accepted"}
			}
			return nil
		},
	}
	n, complaints, err := g6ExploreFold(fold, sp)
	c.Note("getAllowListInterfaces: %d reachable abstract (state, summary) pairs", n)
	c38ReportFold(c, "getAllowListInterfaces", tags, n, complaints, err, c.P.Pos(fn.Pos()))
}

// ---------------------------------------------------------------------------------------
// un-mapping of configured prefixes

func c38Mapped(c *Ctx) {
	// values a value is built from, looking one level into nebula helpers through their results
	// (so that `ipNet = unmapPrefix(ipNet)` is seen like the inlined construction)
	sources := func(v ssa.Value, visit func(x ssa.Value, in *ssa.Function)) {
		var walk func(v ssa.Value, fn *ssa.Function, depth int)
		walk = func(v ssa.Value, fn *ssa.Function, depth int) {
			backSlice(v, sliceThrough, func(x ssa.Value) {
				visit(x, fn)
				if call, ok := x.(*ssa.Call); ok && depth < 2 {
					if cal := call.Call.StaticCallee(); cal != nil && cal.Blocks != nil && strings.HasPrefix(pkgPathOf(cal), nebulaMod) {
						for _, r := range g6Returns(cal) {
							for i := range r.Results {
								walk(retResult(r, i), cal, depth+1)
							}
						}
					}
				}
			})
		}
		walk(v, nil, 0)
	}
	for _, ref := range []Ref{c38NewList, {"", "", "getRemoteAllowRanges"}} {
		fn := c.Func(ref)
		if fn == nil {
			continue
		}
		n := 0
		for i, ins := range callsIn(fn, c38Insert) {
			a := callArgs(ins)
			if len(a) != 3 || !derivesFrom(a[1], sliceThrough, isCallTo(c38ParsePfx)) {
				continue // the implicit defaults are built from the unspecified address
			}
			n++
			cons := fmt.Sprintf("%s:configured-prefix#%d", ref.Name, i)
			unmapped := false
			type built struct {
				call *ssa.Call
				in   *ssa.Function
			}
			var builders []built
			sources(a[1], func(x ssa.Value, in *ssa.Function) {
				if isCallTo(c38Unmap)(x) {
					unmapped = true
				}
				if call, ok := x.(*ssa.Call); ok && matchFunc(calleeObj(call), c38PfxFrom) && derivesFrom(call.Call.Args[0], sliceThrough, isCallTo(c38Unmap)) {
					if in == nil {
						in = fn
					}
					builders = append(builders, built{call, in})
				}
			})
			c.Check(unmapped, "C38.mapped", cons+":unmapped", c.instrPos(ins), "the inserted prefix is built from Addr().Unmap()", "a configured prefix reaches the table without being un-mapped: an entry written as ::ffff:a.b.c.d/n lands in the IPv6 half and never matches the IPv4 addresses the lookups pass")
			if !unmapped {
				continue
			}
			if len(builders) == 0 {
				c.Unknown("C38.mapped", cons+":length-rebased", "the un-mapped prefix is not built with netip.PrefixFrom: unrecognised shape")
				continue
			}
			// the prefix length must be re-based when the address was un-mapped: PrefixFrom(v4 address,
			// 96+n) is an invalid prefix, which bart's Insert silently ignores
			rebased := true
			for _, b := range builders {
				ok := derivesFrom(b.call.Call.Args[1], sliceLocal, func(y ssa.Value) bool {
					bo, isB := y.(*ssa.BinOp)
					if !isB || bo.Op != token.SUB {
						return false
					}
					k, isK := constInt(bo.Y)
					return isK && k == 96
				})
				// or the construction is reached only for addresses known (not) to be mapped
				for _, blk := range b.in.Blocks {
					ifi, isIf := blk.Instrs[len(blk.Instrs)-1].(*ssa.If)
					if !isIf || !blk.Dominates(b.call.Block()) || blk == b.call.Block() {
						continue
					}
					cd := normCond(ifi.Cond)
					if cc, _ := callOf(cd.Base); cc != nil && cd.Kind == CondBool {
						if o := calleeObj(cc); matchFunc(o, Ref{"net/netip", "Addr", "Is4In6"}) || matchFunc(o, Ref{"net/netip", "Addr", "Is4"}) {
							ok = true
						}
					}
				}
				rebased = rebased && ok
			}
			c.Check(rebased, "C38.mapped", cons+":length-rebased", c.instrPos(ins), "the prefix length is re-based (or the mapped case is split off)", "the un-mapped address is combined with the original prefix length: for an entry written in IPv4-mapped form (::ffff:10.0.0.0/104) this yields an invalid prefix that the table silently drops - the rule is lost and the family default applies instead")
		}
		if n == 0 {
			c.Unknown("C38.mapped", ref.Name, "no table insertion of a configured prefix found")
		}
	}
}

// ---------------------------------------------------------------------------------------
// lookups

func c38Lookups(c *Ctx) {
	fTree := c.Field("", "AllowList", "cidrTree")
	fGlobalR := c.Field("", "RemoteAllowList", "AllowList")
	fGlobalL := c.Field("", "LocalAllowList", "AllowList")
	fInside := c.Field("", "RemoteAllowList", "insideAllowLists")
	if fTree == nil || fGlobalR == nil || fGlobalL == nil || fInside == nil {
		return
	}
	param := func(fn *ssa.Function, i int) func(ssa.Value) bool {
		return func(v ssa.Value) bool { return i < len(fn.Params) && g6IsParamValue(v, fn.Params[i]) }
	}
	fieldOfRecv := func(fn *ssa.Function, f *types.Var) func(ssa.Value) bool {
		return func(v ssa.Value) bool {
			u, ok := stripValue(v).(*ssa.UnOp)
			if !ok || u.Op != token.MUL {
				return false
			}
			fa, ok := u.X.(*ssa.FieldAddr)
			return ok && fieldOfAddr(fa) == f && g6IsParamValue(fa.X, fn.Params[0])
		}
	}
	// delegate: every return is `true` under a nil receiver, or exactly the call cs
	delegate := func(ref Ref, what string, cs func(fn *ssa.Function) (CallSpec, int)) {
		fn := c.Func(ref)
		if fn == nil {
			return
		}
		spec, idx := cs(fn)
		nilRecv := gValNil("receiver == nil", param(fn, 0))
		ok := true
		for i, r := range g6Returns(fn) {
			v := retResult(r, 0)
			cons := fmt.Sprintf("%s.%s:return#%d", ref.Recv, ref.Name, i)
			if bv, isC := boolConst(v); isC {
				if !bv {
					continue // refusing more is not what this property is about
				}
				pass, _, path := c.mustPass(fn, Sink{Instr: r}, nilRecv)
				if !pass {
					ok = false
					c.Bad("C38.lookup", cons, c.instrPos(r), "answers allow without consulting the list although the list is not nil", path...)
				}
				continue
			}
			if !matchCallValue(v, spec, idx) {
				ok = false
				c.Bad("C38.lookup", cons, c.instrPos(r), "the answer is not "+what)
			}
		}
		if ok {
			c.OK("C38.lookup", ref.Recv+"."+ref.Name, "every answer is "+what+" (nil list: allow)")
		}
	}
	delegate(c38Allow, "the table lookup of the address argument", func(fn *ssa.Function) (CallSpec, int) {
		return callTo(c38Lookup).withArg(0, fieldOfRecv(fn, fTree)).withArg(1, param(fn, 1)), 0
	})
	delegate(Ref{"", "LocalAllowList", "Allow"}, "the global list's answer for the address argument", func(fn *ssa.Function) (CallSpec, int) {
		return callTo(c38Allow).withArg(0, fieldOfRecv(fn, fGlobalL)).withArg(1, param(fn, 1)), -1
	})
	delegate(Ref{"", "RemoteAllowList", "AllowUnknownVpnAddr"}, "the global list's answer for the address argument", func(fn *ssa.Function) (CallSpec, int) {
		return callTo(c38Allow).withArg(0, fieldOfRecv(fn, fGlobalR)).withArg(1, param(fn, 1)), -1
	})
	// conjunctions
	insideOf := func(fn *ssa.Function, vpn func(ssa.Value) bool, udp int) CallSpec {
		return callTo(c38Allow).withArg(0, func(v ssa.Value) bool {
			call, _ := callOf(v)
			if call == nil || !matchFunc(calleeObj(call), c38Inside) {
				return false
			}
			a := callArgs(call)
			return g6IsParamValue(a[0], fn.Params[0]) && vpn(a[1])
		}).withArg(1, param(fn, udp))
	}
	conj := func(fn *ssa.Function, name string, conjuncts map[string]CallSpec) {
		names := make([]string, 0, len(conjuncts))
		for k := range conjuncts {
			names = append(names, k)
		}
		sort.Strings(names)
		for _, cn := range names {
			cs := conjuncts[cn]
			ok := true
			for i, s := range boolReturns(fn, 0, true) {
				r := s.Instr.(*ssa.Return)
				// the value answered on this edge (short-circuit && materialises as a phi)
				v := retResult(r, 0)
				if phi, isPhi := v.(*ssa.Phi); isPhi && s.ViaPred != nil {
					for k, p := range phi.Block().Preds {
						if p == s.ViaPred {
							v = phi.Edges[k]
						}
					}
				}
				if matchCallValue(v, cs, -1) {
					continue
				}
				if _, isC := boolConst(v); !isC {
					isOther := false
					for _, on := range names {
						if matchCallValue(v, conjuncts[on], -1) {
							isOther = true
						}
					}
					if !isOther {
						ok = false
						c.Bad("C38.lookup", fmt.Sprintf("%s:return#%d<-%s", name, i, cn), c.instrPos(r), "the answer is neither a constant nor one of the two list answers for the underlay address")
						continue
					}
				}
				pass, _, path := c.mustPass(fn, s, gBool(cn, true, -1, cs))
				if !pass {
					ok = false
					c.Bad("C38.lookup", fmt.Sprintf("%s:return#%d<-%s", name, i, cn), c.instrPos(r), "can answer allow although "+cn+" did not allow the underlay address", path...)
				}
			}
			if ok {
				c.OK("C38.lookup", name+"<-"+cn, "required on every path to an allowing answer")
			}
		}
	}
	if fn := c.Func(Ref{"", "RemoteAllowList", "Allow"}); fn != nil && len(fn.Params) == 3 {
		conj(fn, "RemoteAllowList.Allow", map[string]CallSpec{
			"the global list":                 callTo(c38Allow).withArg(0, fieldOfRecv(fn, fGlobalR)).withArg(1, param(fn, 2)),
			"the list of the overlay's range": insideOf(fn, param(fn, 1), 2),
		})
	}
	if fn := c.Func(Ref{"", "RemoteAllowList", "AllowAll"}); fn != nil && len(fn.Params) == 3 {
		conj(fn, "RemoteAllowList.AllowAll", map[string]CallSpec{
			"the global list": callTo(c38Allow).withArg(0, fieldOfRecv(fn, fGlobalR)).withArg(1, param(fn, 2)),
		})
		loops := findRangeLoops(fn, param(fn, 1))
		trues := boolReturns(fn, 0, true)
		if len(loops) != 1 || len(trues) == 0 {
			c.Unknown("C38.lookup", "RemoteAllowList.AllowAll<-every overlay address", fmt.Sprintf("expected one loop over the overlay addresses and an allowing return, found %d / %d", len(loops), len(trues)))
		} else {
			elem := func(v ssa.Value) bool {
				return derivesFrom(v, sliceLocal, func(x ssa.Value) bool {
					ia, ok := x.(*ssa.IndexAddr)
					return ok && g6IsParamValue(ia.X, fn.Params[1])
				})
			}
			c.forAllGuard("C38.lookup", "RemoteAllowList.AllowAll<-every overlay address", fn, loops[0], trues, gBool("the range list of that overlay address allows", true, -1, insideOf(fn, elem, 2)))
			okEnter := true
			for _, s := range trues {
				if av, _ := c.avoidsCut(fn, nil, s.Instr, func(in ssa.Instruction) bool { return in.Block() == loops[0].Header }); av {
					okEnter = false
				}
			}
			c.Check(okEnter, "C38.lookup", "RemoteAllowList.AllowAll:loop-always-entered", c.P.Pos(fn.Pos()), "every allowing answer went through the loop", "AllowAll can answer allow without looking at the overlay addresses' range lists")
		}
	}
	if fn := c.Func(c38Inside); fn != nil && len(fn.Params) == 2 {
		look := callTo(c38Lookup).withArg(0, fieldOfRecv(fn, fInside)).withArg(1, param(fn, 1))
		miss := gAny("no table, or no range contains the overlay address",
			gValNil("no per-range table", fieldOfRecv(fn, fInside)),
			gBool("lookup missed", false, 1, look))
		ok := true
		for i, r := range g6Returns(fn) {
			v := retResult(r, 0)
			cons := fmt.Sprintf("RemoteAllowList.getInsideAllowList:return#%d", i)
			if isNilConst(v) {
				pass, _, path := c.mustPass(fn, Sink{Instr: r}, miss)
				if !pass {
					ok = false
					c.Bad("C38.lookup", cons, c.instrPos(r), "answers `no range list` (which allows everything) although a configured range may contain the overlay address", path...)
				}
				continue
			}
			if !matchCallValue(v, look, 0) {
				ok = false
				c.Bad("C38.lookup", cons, c.instrPos(r), "the list returned is not the per-range table's entry for the overlay address")
			}
		}
		if ok {
			c.OK("C38.lookup", "RemoteAllowList.getInsideAllowList", "nil only on a miss; otherwise the table's entry for the overlay address")
		}
	}
}

func c38Names(c *Ctx) {
	fn := c.Func(Ref{"", "LocalAllowList", "AllowName"})
	fRules := c.Field("", "LocalAllowList", "nameRules")
	fAllow := c.Field("", "AllowListNameRule", "Allow")
	fName := c.Field("", "AllowListNameRule", "Name")
	if fn == nil || fRules == nil || fAllow == nil || fName == nil || len(fn.Params) != 2 {
		return
	}
	match := Ref{"regexp", "Regexp", "MatchString"}
	loops := findRangeLoops(fn, isFieldLoad(fRules))
	if len(loops) != 1 {
		c.Unknown("C38.names", "AllowName", fmt.Sprintf("expected one loop over nameRules, found %d", len(loops)))
		return
	}
	// the element under test: the local copy (or element address) the loop body reads
	allowOf := func(v ssa.Value) (base ssa.Value, ok bool) {
		u, isU := stripValue(v).(*ssa.UnOp)
		if !isU || u.Op != token.MUL {
			return nil, false
		}
		fa, isF := u.X.(*ssa.FieldAddr)
		if !isF || fieldOfAddr(fa) != fAllow {
			return nil, false
		}
		return fa.X, true
	}
	noRules := gAny("nil list or no rules",
		gValNil("receiver == nil", func(v ssa.Value) bool { return g6IsParamValue(v, fn.Params[0]) }),
		gCmp("len(nameRules) == 0", isLenOf(isFieldLoad(fRules)), isIntConst(0), mustEqual))
	okTrue, okMatch, okDefault := true, true, true
	nMatch, nDefault := 0, 0
	for i, r := range g6Returns(fn) {
		v := retResult(r, 0)
		cons := fmt.Sprintf("LocalAllowList.AllowName:return#%d", i)
		if _, isC := boolConst(v); isC {
			pass, _, path := c.mustPass(fn, Sink{Instr: r}, noRules)
			if !pass {
				okTrue = false
				c.Bad("C38.names", cons, c.instrPos(r), "answers with a constant although name rules exist: the answer must be a rule's value or the negated first value", path...)
			}
			continue
		}
		if base, ok := allowOf(v); ok {
			// first matching rule's value
			nMatch++
			g := gBool("this rule's pattern matches the name", true, -1, callTo(match).withArg(0, func(x ssa.Value) bool {
				u, isU := stripValue(x).(*ssa.UnOp)
				if !isU {
					return false
				}
				fa, isF := u.X.(*ssa.FieldAddr)
				return isF && fieldOfAddr(fa) == fName && fa.X == base
			}).withArg(1, func(x ssa.Value) bool { return g6IsParamValue(x, fn.Params[1]) }))
			pass, _, path := c.mustPass(fn, Sink{Instr: r}, g)
			inLoop := loops[0].Body.Dominates(r.Block())
			if !pass || !inLoop {
				okMatch = false
				c.Bad("C38.names", cons, c.instrPos(r), "a rule's value is returned without that rule's pattern having matched the name", path...)
			}
			continue
		}
		if u, isU := stripValue(v).(*ssa.UnOp); isU && u.Op == token.NOT {
			if base, ok := allowOf(u.X); ok {
				ia, isI := base.(*ssa.IndexAddr)
				k, isK := int64(-1), false
				if isI {
					k, isK = constInt(ia.Index)
				}
				if isI && isK && k == 0 && loadsField(ia.X, fRules) {
					nDefault++
					// reached only after every rule failed to match
					sub := NewCtx(c.Prop, c.Tier, c.Seed)
					sub.P = c.P
					sub.forAllGuard("x", "x", fn, loops[0], []Sink{{Instr: r, Desc: "default answer"}}, gBool("pattern does not match", false, -1, callTo(match)))
					entered, _ := c.avoidsCut(fn, nil, r, func(in ssa.Instruction) bool { return in.Block() == loops[0].Header })
					if len(sub.Obs) != 1 || sub.Obs[0].Verdict != Discharged || entered {
						okDefault = false
						c.Bad("C38.names", cons, c.instrPos(r), "the default answer is reachable although some rule may match the name (or without running the rules)")
					}
					continue
				}
			}
		}
		okDefault = false
		c.Bad("C38.names", cons, c.instrPos(r), "the answer is neither a matching rule's value nor the negation of the first rule's value: with uniform rules the default must be the opposite value")
	}
	if okTrue {
		c.OK("C38.names", "AllowName:constant-only-without-rules", "constant answers only for a nil list / no rules")
	}
	if okMatch && nMatch > 0 {
		c.OK("C38.names", "AllowName:matching-rule-value", fmt.Sprintf("%d return(s) of the matching rule's own value", nMatch))
	} else if nMatch == 0 {
		c.Bad("C38.names", "AllowName:matching-rule-value", c.P.Pos(fn.Pos()), "no return of the matching rule's value found")
	}
	if okDefault && nDefault > 0 {
		c.OK("C38.names", "AllowName:default-is-negated-first-value", "after all rules failed: !nameRules[0].Allow")
	} else if nDefault == 0 && okDefault {
		c.Bad("C38.names", "AllowName:default-is-negated-first-value", c.P.Pos(fn.Pos()), "no default answer of the form !nameRules[0].Allow found")
	}
}

// ---------------------------------------------------------------------------------------
// constructors

func c38Wiring(c *Ctx) {
	fGlobalR := c.Field("", "RemoteAllowList", "AllowList")
	fInside := c.Field("", "RemoteAllowList", "insideAllowLists")
	fRulesL := c.Field("", "LocalAllowList", "nameRules")
	fGlobalL := c.Field("", "LocalAllowList", "AllowList")
	fromCfg := Ref{"", "", "newAllowListFromConfig"}
	ranges := Ref{"", "", "getRemoteAllowRanges"}
	storedFrom := func(fn *ssa.Function, f *types.Var, src Ref) bool {
		sts := g6StoresToField(fn, f)
		if len(sts) == 0 {
			return false
		}
		for _, st := range sts {
			if !matchCallValue(st.Val, callTo(src), 0) {
				return false
			}
		}
		return true
	}
	if fn := c.Func(Ref{"", "", "NewRemoteAllowListFromConfig"}); fn != nil && fGlobalR != nil && fInside != nil {
		c.Check(storedFrom(fn, fGlobalR, fromCfg), "C38.wiring", "NewRemoteAllowListFromConfig:AllowList", c.P.Pos(fn.Pos()), "the parsed global list", "RemoteAllowList.AllowList is not the list parsed from the configuration: the global remote allow list is not applied")
		c.Check(storedFrom(fn, fInside, ranges), "C38.wiring", "NewRemoteAllowListFromConfig:insideAllowLists", c.P.Pos(fn.Pos()), "the parsed per-range table", "RemoteAllowList.insideAllowLists is not the table parsed from the configuration: per-overlay-range remote allow lists are not applied")
		c.requireGuards("C38.wiring", fn, successReturns(fn, 1), "success", gErrNil("global list parsed", callTo(fromCfg)), gErrNil("per-range lists parsed", callTo(ranges)))
	}
	if fn := c.Func(ranges); fn != nil {
		loops := findRangeLoops(fn, func(v ssa.Value) bool { _, ok := v.Type().Underlying().(*types.Map); return ok })
		ins := callsIn(fn, c38Insert)
		if len(loops) != 1 || len(ins) != 1 {
			c.Unknown("C38.wiring", "getRemoteAllowRanges", fmt.Sprintf("expected one loop over the configured ranges with one insertion, found %d / %d", len(loops), len(ins)))
		} else {
			a := callArgs(ins[0])
			nl, idx := callOf(a[2])
			same := false
			if nl != nil && idx == 0 && matchFunc(calleeObj(nl), c38NewList) {
				// list parsed from the value, prefix parsed from the key of the same map entry
				var valNext, keyNext ssa.Value
				backSlice(callArgs(nl)[1], sliceLocal, func(x ssa.Value) {
					if ex, ok := x.(*ssa.Extract); ok && ex.Index == 2 {
						valNext = ex.Tuple
					}
				})
				backSlice(a[1], sliceThrough, func(x ssa.Value) {
					if ex, ok := x.(*ssa.Extract); ok && ex.Index == 1 {
						if _, isN := ex.Tuple.(*ssa.Next); isN {
							keyNext = ex.Tuple
						}
					}
				})
				same = valNext != nil && valNext == keyNext
			}
			c.Check(same, "C38.wiring", "getRemoteAllowRanges:range->list", c.instrPos(ins[0]), "each range holds the list parsed from its own value", "a per-range entry is not (range key -> newAllowList(range value)): overlay ranges get the wrong list or none")
			c.forAllGuard("C38.wiring", "getRemoteAllowRanges:refused-list-refuses", fn, loops[0], successReturns(fn, 1), gErrNil("the range's list was accepted", callTo(c38NewList)))
		}
	}
	if fn := c.Func(Ref{"", "", "NewLocalAllowListFromConfig"}); fn != nil && fRulesL != nil && fGlobalL != nil {
		c.Check(storedFrom(fn, fGlobalL, fromCfg), "C38.wiring", "NewLocalAllowListFromConfig:AllowList", c.P.Pos(fn.Pos()), "the parsed list", "LocalAllowList.AllowList is not the list parsed from the configuration")
		ok := false
		for _, call := range callsIn(fn, fromCfg) {
			a := callArgs(call)
			mc, _ := stripValue(a[len(a)-1]).(*ssa.MakeClosure)
			h := g6FuncArg(a[len(a)-1])
			if mc == nil || h == nil {
				continue
			}
			for _, gi := range callsIn(h, Ref{"", "", "getAllowListInterfaces"}) {
				for _, st := range g6Stores(h) {
					fv, isFV := st.Addr.(*ssa.FreeVar)
					if !isFV || !matchCallValue(st.Val, callTo(Ref{"", "", "getAllowListInterfaces"}), 0) {
						continue
					}
					_ = gi
					for i, b := range mc.Bindings {
						if i < len(h.FreeVars) && h.FreeVars[i] == fv {
							for _, fs := range g6StoresToField(fn, fRulesL) {
								if g6LoadOfCell(fs.Val, b) {
									ok = true
								}
							}
						}
					}
				}
			}
		}
		c.Check(ok, "C38.wiring", "NewLocalAllowListFromConfig:nameRules", c.P.Pos(fn.Pos()), "the rules parsed by the `interfaces` handler", "LocalAllowList.nameRules is not what getAllowListInterfaces parsed: interface name rules are not applied")
	}
}
