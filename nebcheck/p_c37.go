package main

import (
	"fmt"
	"go/constant"
	"go/token"
	"go/types"
	"sort"
	"strings"

	"golang.org/x/tools/go/ssa"
)

func init() {
	register(&Property{
		ID: "C37", Title: "Remote address lists are deduplicated and deterministically ordered",
		Patterns:    []string{"."},
		Technique:   "must-pass-through rules on the readers of RemoteList.addrs/relays (rebuild first) and on Rebuild (collect when dirty, always sort, flag cleared only after collecting), who-marks-dirty closure over every writer of a field the collector reads, accumulator/provenance rules on unlockedCollect (starts empty, every source field feeds it, every address passes the blocked test), finite truth table of the sort comparator (preferred x family x private x address order x port order) against the documented order, CFG rules on the in-place de-duplication and on the relay map round trip",
		LevelText:   "Structural necessary conditions on all paths: every reader of the address / relay list rebuilds first and passes its preferred ranges through; Rebuild collects whenever the dirty flag is set, always sorts after collecting and clears the flag only on paths that collect; every function that writes something the collector reads (cache entries, learned / reported slots, relay lists, DNS results holder, blocked list, owner addresses, filter) marks the list dirty itself or all its RemoteList callers do; the DNS refresher invokes its change callback after publishing a new result set and the callback marks the list dirty; the collector starts from an empty list, reads every source field, and admits an address only after the blocked test on that same address; lists of two or more addresses are always sorted with a comparator whose complete truth table equals preferred < IPv6 < public IPv4 < private IPv4 < address < port, then compacted by a loop comparing whole adjacent elements and truncated; relays go through a map keyed by address (filled from all relays, list reset in between) and are sorted by address order afterwards.",
		LevelNote:   "Not decided: set equality of the collected list with the union of the sources beyond field coverage (the per-source filters are C36); index arithmetic of the in-place compaction loop (only its comparison, its position after the sort and the final truncation are checked); sort.Slice / slices.SortFunc / netip.Addr.Compare contracts; locking (C34); within the preferred group the order v6 < public v4 < private v4 is taken from the code, the statement leaves it open.",
		Explanation: "K1 readers/Rebuild, K2 dirty-marking closure, K11 collector provenance, K8 comparator tables (576 abstract inputs), K14 map iteration followed by sort, K1 on isPreferred",
		Run:         runC37,
		Canaries: func(c *Ctx) []Canary {
			return []Canary{
				{Name: "copyaddrs-without-rebuild", File: "remote_list.go", Old: "\tr.Rebuild(preferredRanges)\n\n\tr.RLock()\n\tdefer r.RUnlock()\n\tc := make([]netip.AddrPort, len(r.addrs))", New: "\tr.RLock()\n\tdefer r.RUnlock()\n\tc := make([]netip.AddrPort, len(r.addrs))", Rule: "C37.readers"},
				{Name: "sort-only-when-dirty", File: "remote_list.go", Old: "\t\tr.unlockedCollect()\n\t\tr.shouldRebuild = false\n\t}\n\n\t// Always re-sort, preferredRanges can change via HUP\n\tr.unlockedSort(preferredRanges)\n", New: "\t\tr.unlockedCollect()\n\t\tr.shouldRebuild = false\n\t\tr.unlockedSort(preferredRanges)\n\t}\n", Rule: "C37.rebuild"},
				{Name: "flag-cleared-without-collect", File: "remote_list.go", Old: "\tif r.shouldRebuild {\n\t\tr.unlockedCollect()\n\t\tr.shouldRebuild = false\n\t}\n", New: "\tif r.shouldRebuild && len(r.cache) > 0 {\n\t\tr.unlockedCollect()\n\t}\n\tr.shouldRebuild = false\n", Rule: "C37.rebuild"},
				{Name: "foreach-ignores-preferred-ranges", File: "remote_list.go", Old: "func (r *RemoteList) ForEach(preferredRanges []netip.Prefix, forEach forEachFunc) {\n\tr.Rebuild(preferredRanges)", New: "func (r *RemoteList) ForEach(preferredRanges []netip.Prefix, forEach forEachFunc) {\n\tr.Rebuild(nil)", Rule: "C37.rebuild"},
				{Name: "learned-address-does-not-mark-dirty", File: "remote_list.go", Old: "func (r *RemoteList) unlockedSetLearnedV4(ownerVpnIp netip.Addr, to *V4AddrPort) {\n\tr.shouldRebuild = true\n", New: "func (r *RemoteList) unlockedSetLearnedV4(ownerVpnIp netip.Addr, to *V4AddrPort) {\n", Rule: "C37.dirty"},
				{Name: "block-remote-does-not-mark-dirty", File: "remote_list.go", Old: "\t// Mark the next interaction must recollect/dedupe\n\tr.shouldRebuild = true\n}", New: "}", Rule: "C37.dirty"},
				{Name: "dns-change-not-announced", File: "remote_list.go", Old: "\t\t\t\t\tr.ips.Store(&netipAddrs)\n\t\t\t\t\tonUpdate()\n", New: "\t\t\t\t\tr.ips.Store(&netipAddrs)\n", Rule: "C37.dns-dirty"},
				{Name: "collect-keeps-previous-list", File: "remote_list.go", Old: "\taddrs := r.addrs[:0]\n", New: "\taddrs := r.addrs\n", Rule: "C37.collect"},
				{Name: "v6-reported-not-collected", File: "remote_list.go", Old: "\t\t\tfor _, v := range c.v6.reported {\n\t\t\t\tif v == nil {\n\t\t\t\t\tcontinue\n\t\t\t\t}\n\t\t\t\tu := protoV6AddrPortToNetAddrPort(v)\n\t\t\t\tif !r.unlockedIsBad(u) {\n\t\t\t\t\taddrs = append(addrs, u)\n\t\t\t\t}\n\t\t\t}\n", New: "", Rule: "C37.collect"},
				{Name: "learned-v6-skips-blocked-test", File: "remote_list.go", Old: "\t\t\t\tu := protoV6AddrPortToNetAddrPort(c.v6.learned)\n\t\t\t\tif !r.unlockedIsBad(u) {\n\t\t\t\t\taddrs = append(addrs, u)\n\t\t\t\t}\n", New: "\t\t\t\tu := protoV6AddrPortToNetAddrPort(c.v6.learned)\n\t\t\t\taddrs = append(addrs, u)\n", Rule: "C37.blocked"},
				{Name: "two-element-list-not-sorted", File: "remote_list.go", Old: "\tif n < 2 {\n\t\treturn\n\t}\n", New: "\tif n < 3 {\n\t\treturn\n\t}\n", Rule: "C37.sort"},
				{Name: "private-v4-before-public", File: "remote_list.go", Old: "\t\t\tcase !aPrivate && bPrivate:\n\t\t\t\t// If i is a public ip (not private) and j is a private ip, i is less then j\n\t\t\t\treturn true\n\n\t\t\tcase aPrivate && !bPrivate:\n\t\t\t\t// If j is public (not private) then i is private due to the else, i is not less than j\n\t\t\t\treturn false\n", New: "\t\t\tcase !aPrivate && bPrivate:\n\t\t\t\treturn false\n\n\t\t\tcase aPrivate && !bPrivate:\n\t\t\t\treturn true\n", Rule: "C37.order-table"},
				{Name: "port-order-not-strict", File: "remote_list.go", Old: "\t\t\treturn a.Port() < b.Port()\n", New: "\t\t\treturn a.Port() <= b.Port()\n", Rule: "C37.order-table"},
				{Name: "dedup-by-address-only", File: "remote_list.go", Old: "\t\tif r.addrs[a] != r.addrs[b] {\n", New: "\t\tif r.addrs[a].Addr() != r.addrs[b].Addr() {\n", Rule: "C37.dedup"},
				{Name: "dedup-before-sort", File: "remote_list.go", Old: "\t// Sort it\n\tsort.Slice(r.addrs, lessFunc)\n\n\t// Deduplicate\n\ta, b := 0, 1\n\tfor b < n {\n\t\tif r.addrs[a] != r.addrs[b] {\n\t\t\ta++\n\t\t\tif a != b {\n\t\t\t\tr.addrs[a], r.addrs[b] = r.addrs[b], r.addrs[a]\n\t\t\t}\n\t\t}\n\t\tb++\n\t}\n\n\tr.addrs = r.addrs[:a+1]\n", New: "\t// Deduplicate\n\ta, b := 0, 1\n\tfor b < n {\n\t\tif r.addrs[a] != r.addrs[b] {\n\t\t\ta++\n\t\t\tif a != b {\n\t\t\t\tr.addrs[a], r.addrs[b] = r.addrs[b], r.addrs[a]\n\t\t\t}\n\t\t}\n\t\tb++\n\t}\n\n\tr.addrs = r.addrs[:a+1]\n\tsort.Slice(r.addrs, lessFunc)\n", Rule: "C37.dedup"},
				{Name: "relays-not-reset-before-refill", File: "remote_list.go", Old: "\tr.relays = r.relays[:0]\n\tfor relay := range dedupedRelays {", New: "\tfor relay := range dedupedRelays {", Rule: "C37.relays"},
				{Name: "relays-left-in-map-order", File: "remote_list.go", Old: "\tslices.SortFunc(r.relays, func(a, b netip.Addr) int {\n\t\treturn a.Compare(b)\n\t})\n", New: "", Rule: "C37.relays"},
				{Name: "preferred-test-negated", File: "remote_list.go", Old: "\t\tif p.Contains(ip) {\n\t\t\treturn true\n\t\t}\n\t}\n\treturn false\n}", New: "\t\tif !p.Contains(ip) {\n\t\t\treturn true\n\t\t}\n\t}\n\treturn false\n}", Rule: "C37.preferred"},
			}
		},
	})
}

var (
	c37Rebuild = Ref{"", "RemoteList", "Rebuild"}
	c37Collect = Ref{"", "RemoteList", "unlockedCollect"}
	c37Sort    = Ref{"", "RemoteList", "unlockedSort"}
	// orderings the address list may be sorted with: index comparator (less(i,j) bool) or element
	// comparator (cmp(a,b) int); both are decided by the same truth table
	c37SortCalls = []Ref{{"sort", "", "Slice"}, {"sort", "", "SliceStable"}, {"slices", "", "SortFunc"}, {"slices", "", "SortStableFunc"}}
	c37Compact   = []Ref{{"slices", "", "Compact"}, {"slices", "", "CompactFunc"}}
)

func runC37(c *Ctx) {
	c.Rule("C37.readers", "K1: every function that reads RemoteList.addrs / RemoteList.relays (outside the two builders) has rebuilt the list first on every path - itself, or each of its callers before the call", 4)
	c.Rule("C37.rebuild", "K1/K11: Rebuild sorts before every return, collects before sorting whenever the dirty flag is set, clears the flag only on paths that collect; only Rebuild calls the collector; preferred ranges flow reader -> Rebuild -> unlockedSort", 9)
	c.Rule("C37.dirty", "K2: every write to a field the collector reads is covered by a store shouldRebuild=true in the same function on every path through the write, or by every RemoteList-internal caller", 18)
	c.Rule("C37.dns-dirty", "K1: the background resolver calls its change callback after publishing a new result set, and every callback passed to NewHostnameResults marks the list dirty", 2)
	c.Rule("C37.collect", "K11: the collector's accumulators start empty and every source field (v4/v6 learned and reported, relay lists, resolved addresses) feeds them", 8)
	c.Rule("C37.blocked", "K1: every address appended by the collector passed !unlockedIsBad on that same address", 5)
	c.Rule("C37.sort", "K1: unlockedSort returns without sorting the addresses only when there are fewer than two", 1)
	c.Rule("C37.order-table", "K8: the address comparator equals preferred < IPv6 < public IPv4 < private IPv4 < address < port on all feasible abstract inputs; the relay comparator equals address order", 2)
	c.Rule("C37.dedup", "K1: after the sort a loop compares whole adjacent elements and the list is truncated (or slices.Compact is applied) before every return", 2)
	c.Rule("C37.relays", "K14/K11: relays are rebuilt from the keys of a map filled from every relay, onto a reset list, and sorted after the map iteration on every path", 3)
	c.Rule("C37.preferred", "K1: isPreferred returns true only for an address some preferred range contains and false only after every range was tested", 2)

	rl := c.NamedType("", "RemoteList")
	fAddrs, fRelays, fDirty := c.Field("", "RemoteList", "addrs"), c.Field("", "RemoteList", "relays"), c.Field("", "RemoteList", "shouldRebuild")
	rebuild, collect, sortFn := c.Func(c37Rebuild), c.Func(c37Collect), c.Func(c37Sort)
	if rl == nil || fAddrs == nil || fRelays == nil || fDirty == nil || rebuild == nil || collect == nil || sortFn == nil {
		return
	}
	var funcs []*ssa.Function
	for _, fn := range c.moduleFuncs() {
		if !strings.HasSuffix(c.fileOf(topFunc(fn).Pos()), "_tester.go") {
			funcs = append(funcs, fn)
		}
	}
	rebuilders := c37Readers(c, funcs, rl, fAddrs, fRelays, rebuild, collect, sortFn)
	c37RebuildRules(c, funcs, rl, fDirty, rebuild, collect, rebuilders)
	c37Dirty(c, funcs, fDirty, collect)
	c37DNS(c, funcs, fDirty)
	c37CollectRules(c, collect, fAddrs, fRelays)
	c37SortRules(c, sortFn, fAddrs, fRelays)
	c37Preferred(c)
}

// ---------------------------------------------------------------------------------------
// readers

// c37Readers returns the methods that always rebuild (Rebuild itself and the RemoteList methods
// every return of which is preceded by Rebuild on the receiver).
func c37Readers(c *Ctx, funcs []*ssa.Function, rl *types.Named, fAddrs, fRelays *types.Var, rebuild, collect, sortFn *ssa.Function) []Ref {
	rebuilders := []Ref{c37Rebuild}
	for changed := true; changed; { // fixpoint: a method that always calls a rebuilder on its receiver is one
		changed = false
		for _, fn := range funcs {
			ref, isDecl := g6RefOf(fn)
			if !isDecl || !g6RecvIs(fn, rl) || fn == rebuild || fn.Parent() != nil || matchAny(fnObj(fn), rebuilders) || len(callsIn(fn, rebuilders...)) == 0 {
				continue
			}
			recv := fn.Params[0]
			onRecv := func(in ssa.Instruction) bool {
				return g6IsCallTo(rebuilders...)(in) && g6IsParamValue(callArgs(in.(*ssa.Call))[0], recv)
			}
			// a nil receiver has no list to rebuild (CopyAddrs documents the nil case)
			skip, _ := passEdges(fn, gValNil("receiver == nil", func(v ssa.Value) bool { return g6IsParamValue(v, recv) }))
			all := true
			for _, r := range g6Returns(fn) {
				if av, _ := c.g6Avoids(fn, nil, r, onRecv, skip); av {
					all = false
				}
			}
			if all {
				rebuilders = append(rebuilders, ref)
				changed = true
			}
		}
	}
	// builders: reading the lists is their job
	builders := map[*ssa.Function]string{
		collect: "recycles the backing arrays (x[:0]) while producing the new lists",
		sortFn:  "sorts and de-duplicates the lists in place, under the write lock taken by Rebuild",
	}
	// a helper of a builder (the sort comparator extracted into a method, a half of the collector): a method every
	// reference to which is a plain call on the builder's own receiver, made from a builder or from such a helper. It reads
	// the lists only while they are being built. 1 = yes; 2 = referenced only from builders, but not only by such calls
	helperMemo := map[*ssa.Function]int{}
	var builderHelper func(fn *ssa.Function, depth int) int
	builderHelper = func(fn *ssa.Function, depth int) int {
		if v, ok := helperMemo[fn]; ok {
			return v
		}
		helperMemo[fn] = 0
		ref, isDecl := g6RefOf(fn)
		if !isDecl || fn.Parent() != nil || !g6RecvIs(fn, rl) || depth >= 3 {
			return 0
		}
		n, res := 0, 1
		for _, cs := range callersOf(funcs, ref) {
			if c.isTestHelperFile(cs.Instr) {
				continue
			}
			n++
			top := topFunc(cs.Fn)
			if builders[top] == "" && builderHelper(top, depth+1) != 1 {
				return 0
			}
			ci, isCall := cs.Instr.(*ssa.Call)
			if cs.Kind != "call" || !isCall || len(callArgs(ci)) == 0 || !fix3SameReceiverCall(cs.Fn, callArgs(ci)[0]) {
				res = 2
			}
		}
		if n == 0 {
			return 0
		}
		helperMemo[fn] = res
		return res
	}
	for _, fn := range funcs {
		if builders[topFunc(fn)] != "" {
			continue
		}
		for _, fld := range []*types.Var{fAddrs, fRelays} {
			sites := g6FieldReadSites(fn, fld)
			if len(sites) == 0 {
				continue
			}
			cons := fnName(fn) + ":" + fld.Name()
			switch builderHelper(topFunc(fn), 0) {
			case 1:
				c.OK("C37.readers", cons, fmt.Sprintf("%d read(s) in a helper that runs only while unlockedCollect / unlockedSort build the list (every reference is a call on the builder's receiver)", len(sites)))
				continue
			case 2:
				c.Unknown("C37.readers", cons, "the list is read in a function referenced only from unlockedCollect / unlockedSort, but not only by plain calls on their receiver (method value, go, defer, other receiver): cannot order the read against Rebuild")
				continue
			}
			direct := true
			for _, s := range sites {
				fa := g6FieldAddrOfSite(s, fld)
				cut := func(in ssa.Instruction) bool {
					ci, ok := in.(*ssa.Call)
					if !ok || !matchAny(calleeObj(ci), rebuilders) {
						return false
					}
					a := callArgs(ci)
					return fa == nil || sameVar(a[0], fa.X) || exprString(a[0]) == exprString(fa.X)
				}
				if av, _ := c.avoidsCut(fn, nil, s, cut); av {
					direct = false
				}
			}
			if direct {
				c.OK("C37.readers", cons, fmt.Sprintf("%d read(s), each after a rebuild of the same list", len(sites)))
				continue
			}
			// reader by contract: every chain of callers rebuilt before calling (CopyRelays <- StartRelays
			// <- handleOutbound: the handshake loop reads the address list first)
			anyRebuild := func(in ssa.Instruction) bool {
				ci, ok := in.(*ssa.Call)
				return ok && matchAny(calleeObj(ci), rebuilders)
			}
			var viaCallers func(f *ssa.Function, depth int) (ok bool, n int, why string, pos string, path []string)
			viaCallers = func(f *ssa.Function, depth int) (bool, int, string, string, []string) {
				ref, isDecl := g6RefOf(f)
				if !isDecl {
					return false, 0, "the list is read inside a closure of " + fnName(topFunc(f)) + " without a rebuild in it", "", nil
				}
				var callers []CallSite
				for _, cs := range callersOf(funcs, ref) {
					if !c.isTestHelperFile(cs.Instr) {
						callers = append(callers, cs)
					}
				}
				if len(callers) == 0 {
					return false, 0, fnName(f) + " does not rebuild and has no caller that could", "", nil
				}
				total := 0
				for _, cs := range callers {
					if cs.Kind != "call" {
						return false, 0, fnName(f) + " is started as " + cs.Kind + " from " + fnName(cs.Fn) + ": cannot order it against Rebuild", c.instrPos(cs.Instr), nil
					}
					av, path := c.avoidsCut(cs.Fn, nil, cs.Instr, anyRebuild)
					if !av {
						total++
						continue
					}
					if depth >= 3 {
						return false, 0, fnName(cs.Fn) + " reaches the call of " + fnName(f) + " without having rebuilt the list (CopyAddrs/ForEach/Len/Rebuild)", c.instrPos(cs.Instr), path
					}
					ok, n, why, pos, p2 := viaCallers(cs.Fn, depth+1)
					if !ok {
						if pos == "" {
							pos, p2 = c.instrPos(cs.Instr), path
						}
						return false, 0, fnName(cs.Fn) + " reaches the call of " + fnName(f) + " without having rebuilt the list; " + why, pos, p2
					}
					total += n
				}
				return true, total, "", "", nil
			}
			if fn.Parent() != nil {
				c.Unknown("C37.readers", cons, "the list is read inside a closure without a rebuild in it: cannot order the read against Rebuild")
				continue
			}
			ok, n, why, pos, path := viaCallers(fn, 0)
			switch {
			case ok:
				c.OK("C37.readers", cons, fmt.Sprintf("reader by contract: %d call chain(s), each with a rebuilding call before the read", n))
			default:
				if pos == "" {
					pos = c.instrPos(sites[0])
				}
				c.Bad("C37.readers", cons, pos, fmt.Sprintf("%s reads %s without rebuilding first: the list can be stale, unsorted or contain duplicates (%s)", fnName(fn), fld.Name(), why), path...)
			}
		}
	}
	return rebuilders
}

// ---------------------------------------------------------------------------------------
// Rebuild

func c37RebuildRules(c *Ctx, funcs []*ssa.Function, rl *types.Named, fDirty *types.Var, rebuild, collect *ssa.Function, rebuilders []Ref) {
	// Rebuild may be a locking wrapper around one helper method holding its body; single steps (collect, sort) may live
	// in helper methods called on the same receiver: a helper every return of which is preceded by the step counts as the
	// step (x_fix3_helpers.go). The rules below are decided on the function that holds the body.
	core, wrappers := fix3RebuildCore(c, rebuild, rl, c37Sort, c37Collect)
	mSort, mCollect := fix3NewMust(c, rl, c37Sort), fix3NewMust(c, rl, c37Collect)
	isSort, isCollect := mSort.event(core), mCollect.event(core)
	directSort := g6IsCallTo(c37Sort)
	bad := false
	for _, r := range g6Returns(core) {
		if av, path := c.avoidsCut(core, nil, r, isSort); av {
			bad = true
			c.Bad("C37.rebuild", "Rebuild:always-sorts", c.instrPos(r), "Rebuild can return without unlockedSort: a change of the preferred ranges (or a fresh collection) is handed to readers unsorted and with duplicates", path...)
			break
		}
	}
	if !bad {
		c.OK("C37.rebuild", "Rebuild:always-sorts", "every return is preceded by unlockedSort")
	}
	// dirty => collect, before the sort
	clean, nTests := passEdges(core, gValBool("list not dirty", false, isFieldLoad(fDirty)))
	var sorts, collects []ssa.Instruction
	eachInstr(core, func(in ssa.Instruction) {
		if isSort(in) {
			sorts = append(sorts, in)
		}
		if mCollect.may(in) {
			collects = append(collects, in)
		}
	})
	if len(sorts) == 0 {
		c.Unknown("C37.rebuild", "Rebuild:collect-when-dirty", "unlockedSort call not found")
	}
	for i, s := range sorts {
		cons := fmt.Sprintf("Rebuild:collect-when-dirty#%d", i)
		if !directSort(s) && mCollect.may(s) {
			c.Unknown("C37.rebuild", cons, "the sort is made by a helper that also collects: the order of flag test, collection and sort is not decided across the call")
			continue
		}
		av, path := c.g6Avoids(core, nil, s, isCollect, clean)
		c.Check(!av, "C37.rebuild", cons, c.instrPos(s), fmt.Sprintf("the sort is reached without collecting only over the not-dirty edge (%d flag test(s))", nTests),
			"Rebuild reaches unlockedSort without unlockedCollect although the dirty flag may be set: readers get the previous list ("+strings.Join(path, "->")+")")
	}
	// collect is followed by the sort (its map iterations leave the list in random order): after every call from which the
	// collector is reachable, every path to a return sorts - or the helper called sorts after its own collection
	var sortFollows func(fn *ssa.Function, at ssa.Instruction, depth int) bool
	sortFollows = func(fn *ssa.Function, at ssa.Instruction, depth int) bool {
		ev := mSort.event(fn)
		ok := true
		for _, r := range g6Returns(fn) {
			if av, _ := c.avoidsCut(fn, at, r, ev); av {
				ok = false
			}
		}
		if ok || g6IsCallTo(c37Collect)(at) || depth >= 3 {
			return ok
		}
		h := mSort.helper(fn, at)
		if h == nil {
			return false
		}
		n := 0
		inside := true
		eachInstr(h, func(in ssa.Instruction) {
			if mCollect.may(in) {
				n++
				if !sortFollows(h, in, depth+1) {
					inside = false
				}
			}
		})
		return inside && n > 0
	}
	for i, cc := range collects {
		c.Check(sortFollows(core, cc, 0), "C37.rebuild", fmt.Sprintf("Rebuild:sort-after-collect#%d", i), c.instrPos(cc), "every path from the collector to a return sorts", "the freshly collected list (map iteration order, duplicates) can be returned without sorting")
	}
	// flag cleared only after collecting (any function)
	nClear := 0
	for _, fn := range funcs {
		for _, st := range g6StoresToField(fn, fDirty) {
			if bv, isC := boolConst(st.Val); !isC || bv {
				continue
			}
			if root, _ := addrRoot(st.Addr); isFreshAllocDeep(root) && fn != rebuild {
				continue
			}
			nClear++
			// (before or after the store: both happen under the write lock)
			c.Check(c.g6CoveredBy(fn, st, mCollect.event(fn)), "C37.rebuild", fnName(fn)+":flag-cleared-only-with-collect", c.instrPos(st), "every path that clears the flag collects", "the dirty flag is cleared on a path that does not collect: pending cache changes are never reflected in the list")
		}
	}
	if nClear == 0 {
		c.Unknown("C37.rebuild", "flag-cleared-only-with-collect", "no store shouldRebuild=false found")
	}
	// only Rebuild collects: directly, or through helper methods every reference to which is a call on the same receiver
	// from Rebuild's body / from such a helper (the sort-after-collect rule above starts at those calls)
	var collectorCaller func(fn *ssa.Function, depth int) bool
	collectorCaller = func(fn *ssa.Function, depth int) bool {
		if topFunc(fn) == core {
			return true
		}
		ref, isDecl := g6RefOf(fn)
		if !isDecl || fn.Parent() != nil || depth >= 3 || !g6RecvIs(fn, rl) {
			return false
		}
		n := 0
		for _, cs := range callersOf(funcs, ref) {
			if c.isTestHelperFile(cs.Instr) {
				continue
			}
			n++
			if cs.Kind != "call" || mCollect.helper(cs.Fn, cs.Instr) != fn || !collectorCaller(cs.Fn, depth+1) {
				return false
			}
		}
		return n > 0
	}
	refC, _ := g6RefOf(collect)
	for _, cs := range callersOf(funcs, refC) {
		if c.isTestHelperFile(cs.Instr) {
			continue
		}
		c.Check(cs.Kind == "call" && collectorCaller(cs.Fn, 0), "C37.rebuild", "unlockedCollect<-"+fnName(cs.Fn), c.instrPos(cs.Instr), "called from Rebuild (which sorts afterwards)", "the collector is invoked outside Rebuild: its unsorted, duplicate-carrying result becomes readable")
	}
	// preferred ranges: reader param -> Rebuild (-> its body) -> unlockedSort; the wrappers hand their parameter through
	// unchanged (condition of fix3RebuildCore)
	prefT := rebuild.Params[1].Type()
	effSorts := effectiveCalls(core, c37Sort, 3)
	for _, s := range effSorts {
		a := s.Args
		c.Check(len(a) > 1 && a[1] != nil && derivesFrom(a[1], sliceLocal, func(x ssa.Value) bool { return x == ssa.Value(core.Params[1]) }), "C37.rebuild", "Rebuild:ranges->unlockedSort", c.instrPos(s.In), "Rebuild's parameter", "unlockedSort is not given the preferred ranges Rebuild was called with")
	}
	isWrapperOrCore := func(fn *ssa.Function) bool {
		if fn == core {
			return true
		}
		for _, w := range wrappers {
			if fn == w {
				return true
			}
		}
		return false
	}
	for _, fn := range funcs {
		if !g6RecvIs(fn, rl) || fn == rebuild || isWrapperOrCore(fn) {
			continue
		}
		ref, ok := g6RefOf(fn)
		if !ok || !matchAny(fnObj(fn), rebuilders) {
			continue
		}
		_ = ref
		for i, rc := range callsIn(fn, rebuilders...) {
			a := callArgs(rc)
			fromParam := derivesFrom(a[1], sliceLocal, func(x ssa.Value) bool {
				p, isP := x.(*ssa.Parameter)
				return isP && p.Parent() == fn && types.Identical(p.Type(), prefT)
			})
			c.Check(fromParam, "C37.rebuild", fmt.Sprintf("%s:ranges->Rebuild#%d", fnName(fn), i), c.instrPos(rc), "the caller's preferred ranges", "the list is rebuilt with something other than the preferred ranges the reader was given: preferred addresses are not ordered first")
		}
	}
}

// ---------------------------------------------------------------------------------------
// dirty marking

func c37IsDirtyStore(fDirty *types.Var) func(ssa.Instruction) bool {
	return func(in ssa.Instruction) bool { return storesFieldBool(in, fDirty, true) }
}

// c37DirtyMarks: a store shouldRebuild=true, or a call / deferred call of a function (helper
// method, function literal) every return of which is preceded by such a store.
func c37DirtyMarks(c *Ctx, funcs []*ssa.Function, fDirty *types.Var) func(ssa.Instruction) bool {
	direct := c37IsDirtyStore(fDirty)
	helpers := map[*ssa.Function]bool{}
	for _, fn := range funcs {
		if len(g6StoresToField(fn, fDirty)) == 0 {
			continue
		}
		all := true
		for _, r := range g6Returns(fn) {
			if av, _ := c.avoidsCut(fn, nil, r, direct); av {
				all = false
			}
		}
		helpers[fn] = all
	}
	return func(in ssa.Instruction) bool {
		if direct(in) {
			return true
		}
		ci, ok := in.(ssa.CallInstruction)
		if !ok {
			return false
		}
		if _, isGo := in.(*ssa.Go); isGo {
			return false
		}
		if f := ci.Common().StaticCallee(); f != nil && helpers[f] {
			return true
		}
		return false
	}
}

func c37Dirty(c *Ctx, funcs []*ssa.Function, fDirty *types.Var, collect *ssa.Function) {
	// the struct types that make up the collector's input, and why
	inputTypes := []struct{ name, why string }{
		{"RemoteList", "holds the per-owner cache, the DNS result holder, the blocked list, the owner addresses and the filter"},
		{"cache", "per-owner entry: v4 / v6 / relay sub-caches"},
		{"cacheV4", "learned and reported IPv4 addresses"},
		{"cacheV6", "learned and reported IPv6 addresses"},
		{"cacheRelay", "reported relays"},
	}
	named := map[*types.TypeName]bool{}
	var typs []*types.Named
	for _, t := range inputTypes {
		if n := c.NamedType("", t.name); n != nil {
			named[n.Obj()] = true
			typs = append(typs, n)
		}
	}
	// inputs = fields of those types the collector (and what it calls in the package) reads and does not produce
	produced := map[string]bool{}
	if len(typs) > 0 {
		for f := range fieldsWrittenBy(collect, typs[0]) {
			produced[f] = true
		}
	}
	readers := reachableFuncs([]*ssa.Function{collect}, func(f *ssa.Function) bool { return pkgPathOf(f) == nebulaMod })
	var inputs []*types.Var
	for _, n := range typs {
		read := map[string]bool{}
		for _, f := range readers {
			for k := range fieldsReadBy(f, n) {
				read[k] = true
			}
		}
		var names []string
		for k := range read {
			names = append(names, k)
		}
		sort.Strings(names)
		for _, k := range names {
			if n == typs[0] && produced[k] {
				continue // addrs / relays: outputs (recycled backing arrays)
			}
			if v := c.Field("", n.Obj().Name(), k); v != nil {
				inputs = append(inputs, v)
			}
		}
	}
	if len(inputs) < 10 {
		c.Unknown("C37.dirty", "inputs", fmt.Sprintf("only %d collector input fields found (13 confirmed by reading): the collector changed shape", len(inputs)))
	}
	isDirty := c37DirtyMarks(c, funcs, fDirty)
	var covered func(fn *ssa.Function, site ssa.Instruction, depth int) (bool, string)
	covered = func(fn *ssa.Function, site ssa.Instruction, depth int) (bool, string) {
		if c.g6CoveredBy(fn, site, isDirty) {
			return true, ""
		}
		// the write is made on behalf of the callers only inside the RemoteList implementation
		// (the unlockedGetOrMake* / unlockedSetHostnamesResults contract: "the caller must dirty")
		recv := (*types.Named)(nil)
		if fn.Signature.Recv() != nil {
			recv = recvNamed(fn.Signature.Recv().Type())
		}
		ref, ok := g6RefOf(fn)
		if depth >= 3 || recv == nil || !named[recv.Obj()] || !ok {
			return false, fnName(fn) + " does not mark the list dirty"
		}
		var callers []CallSite
		for _, cs := range callersOf(funcs, ref) {
			if !c.isTestHelperFile(cs.Instr) {
				callers = append(callers, cs)
			}
		}
		if len(callers) == 0 {
			return false, fnName(fn) + " does not mark the list dirty and has no caller that could"
		}
		for _, cs := range callers {
			if cs.Kind != "call" && cs.Kind != "defer" {
				return false, fnName(fn) + " is referenced as a " + cs.Kind + " in " + fnName(cs.Fn)
			}
			if ok, why := covered(cs.Fn, cs.Instr, depth+1); !ok {
				return false, fnName(fn) + " leaves it to its callers; " + why + " (" + c.instrPos(cs.Instr) + ")"
			}
		}
		return true, ""
	}
	for _, f := range inputs {
		owner := ""
		for _, n := range typs {
			if st, ok := n.Underlying().(*types.Struct); ok {
				for i := 0; i < st.NumFields(); i++ {
					if st.Field(i) == f {
						owner = n.Obj().Name()
					}
				}
			}
		}
		byFn := map[*ssa.Function][]WriteSite{}
		var order []*ssa.Function
		for _, w := range fieldWriters(funcs, f) {
			if c.isTestHelperFile(w.Instr) {
				continue
			}
			if root := c37WriteRoot(w.Instr); isFreshAllocDeep(root) {
				continue // constructor: the object is not yet visible, a new list starts empty and clean
			}
			if byFn[w.Fn] == nil {
				order = append(order, w.Fn)
			}
			byFn[w.Fn] = append(byFn[w.Fn], w)
		}
		for _, fn := range order {
			cons := fmt.Sprintf("%s:%s.%s", fnName(fn), owner, f.Name())
			okAll, why, pos := true, "", ""
			for _, w := range byFn[fn] {
				if w.Kind == "addr-escape" {
					c.Unknown("C37.dirty", cons, "the address of the field escapes at "+c.instrPos(w.Instr)+": writers cannot be enumerated")
					okAll = false
					continue
				}
				if ok, y := covered(fn, w.Instr, 0); !ok {
					okAll, why, pos = false, y, c.instrPos(w.Instr)
				}
			}
			if why != "" {
				c.Bad("C37.dirty", cons, pos, fmt.Sprintf("%s.%s feeds the collector, but this write can complete without shouldRebuild being set: readers keep getting the list built before the change (%s)", owner, f.Name(), why))
			} else if okAll {
				c.OK("C37.dirty", cons, fmt.Sprintf("%d write(s), list marked dirty on every path", len(byFn[fn])))
			}
		}
	}
}

// c37WriteRoot: the object a write site modifies.
func c37WriteRoot(in ssa.Instruction) ssa.Value {
	var addr ssa.Value
	switch x := in.(type) {
	case *ssa.Store:
		addr = x.Addr
	case *ssa.MapUpdate:
		addr = stripLoad(x.Map)
	case ssa.CallInstruction:
		if a := callArgs(x); len(a) > 0 {
			addr = stripLoad(a[0])
		}
	}
	if addr == nil {
		return nil
	}
	for {
		root, _ := addrRoot(addr)
		if u, ok := root.(*ssa.UnOp); ok && u.Op == token.MUL {
			if _, isF := u.X.(*ssa.FieldAddr); isF {
				addr = u.X
				continue
			}
			if _, isI := u.X.(*ssa.IndexAddr); isI {
				addr = u.X
				continue
			}
		}
		return root
	}
}

func c37DNS(c *Ctx, funcs []*ssa.Function, fDirty *types.Var) {
	refCtor := Ref{"", "", "NewHostnameResults"}
	ctor := c.Func(refCtor)
	fIps := c.Field("", "hostnamesResults", "ips")
	if ctor == nil || fIps == nil {
		return
	}
	cbIdx := -1
	for i, p := range ctor.Params {
		if sig, ok := p.Type().Underlying().(*types.Signature); ok && sig.Params().Len() == 0 && sig.Results().Len() == 0 {
			if cbIdx >= 0 {
				c.Unknown("C37.dns-dirty", "callback", "NewHostnameResults has more than one func() parameter: change callback ambiguous")
				return
			}
			cbIdx = i
		}
	}
	if cbIdx < 0 {
		c.Unknown("C37.dns-dirty", "callback", "NewHostnameResults has no func() parameter: change callback not found")
		return
	}
	cb := ctor.Params[cbIdx]
	isCbCall := func(fn *ssa.Function) func(ssa.Instruction) bool {
		return func(in ssa.Instruction) bool {
			call, ok := in.(*ssa.Call)
			if !ok || call.Call.IsInvoke() {
				return false
			}
			v := call.Call.Value
			if g6IsParamValue(v, cb) {
				return true
			}
			// captured: load of the free variable bound to the cell holding the parameter
			u, ok := v.(*ssa.UnOp)
			if !ok || u.Op != token.MUL {
				return false
			}
			fv, ok := u.X.(*ssa.FreeVar)
			if !ok || fn.Parent() == nil {
				return false
			}
			bound := false
			eachInstr(fn.Parent(), func(pi ssa.Instruction) {
				mc, ok := pi.(*ssa.MakeClosure)
				if !ok || mc.Fn != ssa.Value(fn) {
					return
				}
				for i, b := range mc.Bindings {
					if i < len(fn.FreeVars) && fn.FreeVars[i] == fv {
						if vals := storesInto(b); len(vals) == 1 && vals[0] == ssa.Value(cb) {
							bound = true
						}
					}
				}
			})
			return bound
		}
	}
	n := 0
	for _, w := range fieldWriters(funcs, fIps) {
		if w.Kind != "atomic" || c.isTestHelperFile(w.Instr) || topFunc(w.Fn) != ctor {
			if w.Kind == "atomic" && !c.isTestHelperFile(w.Instr) {
				c.Bad("C37.dns-dirty", "ips<-"+fnName(w.Fn), c.instrPos(w.Instr), "the resolved address set is replaced outside NewHostnameResults: nothing marks the owning list dirty")
			}
			continue
		}
		if root := c37WriteRoot(w.Instr); isFreshAllocDeep(root) {
			continue // initial set published before the object is handed out; addStaticRemotes installs it (C37.dirty on hr)
		}
		n++
		cut := isCbCall(w.Fn)
		ok := true
		for _, r := range g6Returns(w.Fn) {
			if av, _ := c.avoidsCut(w.Fn, w.Instr, r, cut); av {
				ok = false
			}
		}
		if av, _ := c.avoidsCut(w.Fn, w.Instr, w.Instr, cut); av {
			ok = false
		}
		c.Check(ok, "C37.dns-dirty", fnName(w.Fn)+":publish->callback", c.instrPos(w.Instr), "the change callback runs after every publication", "a new DNS result set is published without the change callback: the owning list is not rebuilt and keeps the old addresses")
	}
	if n == 0 {
		c.Unknown("C37.dns-dirty", "publish", "no publication of a refreshed result set found in NewHostnameResults")
	}
	nCalls := 0
	for _, cs := range callersOf(funcs, refCtor) {
		if c.isTestHelperFile(cs.Instr) || cs.Kind != "call" {
			continue
		}
		nCalls++
		cons := "callback@" + fnName(cs.Fn)
		a := callArgs(cs.Instr.(ssa.CallInstruction))
		cbFn := g6FuncArg(a[cbIdx])
		if cbFn == nil {
			c.Bad("C37.dns-dirty", cons, c.instrPos(cs.Instr), "the change callback is not a function literal / declared function that marks the list dirty")
			continue
		}
		ok := true
		for _, r := range g6Returns(cbFn) {
			if av, _ := c.avoidsCut(cbFn, nil, r, c37DirtyMarks(c, funcs, fDirty)); av {
				ok = false
			}
		}
		c.Check(ok, "C37.dns-dirty", cons, c.instrPos(cs.Instr), "stores shouldRebuild=true on every path", "the DNS change callback can return without marking the list dirty")
	}
	if nCalls == 0 {
		c.Unknown("C37.dns-dirty", "callback", "no caller of NewHostnameResults found")
	}
}

// ---------------------------------------------------------------------------------------
// collector

func c37CollectRules(c *Ctx, collect *ssa.Function, fAddrs, fRelays *types.Var) {
	type src struct {
		typ, field string
	}
	want := map[*types.Var][]src{
		fAddrs:  {{"cacheV4", "learned"}, {"cacheV4", "reported"}, {"cacheV6", "learned"}, {"cacheV6", "reported"}},
		fRelays: {{"cacheRelay", "relay"}},
	}
	getAddrs := Ref{"", "hostnamesResults", "GetAddrs"}
	fBad := c.Field("", "RemoteList", "badRemotes")
	// the accumulators are followed through helpers they are threaded through (`addrs = r.appendUnlessBad(addrs, u)`,
	// `addrs, relays = r.collectV4(c, addrs, relays)`): see x_fix3_helpers.go
	w := fix3NewWalker()
	for _, fld := range []*types.Var{fAddrs, fRelays} {
		stores := g6StoresToField(collect, fld)
		if len(stores) == 0 {
			c.Unknown("C37.collect", "unlockedCollect:"+fld.Name(), "the collector no longer stores the list: unrecognised shape")
			continue
		}
		chain := &fix3Chain{}
		startsEmpty, unknown := true, ""
		for _, st := range stores {
			chain.merge(fix3ChainOf(w, st.Val))
		}
		for _, b := range chain.Bases {
			switch {
			case g6ZeroLen(b):
			case derivesFrom(b, sliceLocal, func(x ssa.Value) bool { return loadsField(x, fld) }):
				startsEmpty = false
			default:
				unknown = exprString(b)
			}
		}
		if unknown == "" && len(chain.Opaque) > 0 {
			unknown = "a helper that is not understood (" + chain.Opaque[0] + ")"
		}
		switch {
		case !startsEmpty:
			c.Bad("C37.collect", "unlockedCollect:"+fld.Name()+":starts-empty", c.instrPos(stores[0]), "the new "+fld.Name()+" list is accumulated onto the previous one: removed, replaced and blocked entries stay in the list forever")
		case unknown != "":
			c.Unknown("C37.collect", "unlockedCollect:"+fld.Name()+":starts-empty", "accumulator starts from "+unknown+": unrecognised shape")
		default:
			c.OK("C37.collect", "unlockedCollect:"+fld.Name()+":starts-empty", fmt.Sprintf("%d append(s) onto an empty slice", len(chain.Sites)))
		}
		seen := map[*types.Var]bool{}
		dns := false
		for _, site := range chain.Sites {
			c.Funcs[site.Append.Parent().String()] = true
			for _, v := range g6AppendedValues(site.Append) {
				// `append(dst, src...)` copies every element of src: the spread slice is the appended value
				fix3BackSliceUp(site, v, sliceThrough, func(x ssa.Value) {
					switch f := x.(type) {
					case *ssa.FieldAddr:
						seen[fieldOfAddr(f)] = true
					case *ssa.Field:
						seen[fieldOfVal(f)] = true
					}
					if isCallTo(getAddrs)(x) {
						dns = true
					}
				})
			}
		}
		for _, s := range want[fld] {
			f := c.Field("", s.typ, s.field)
			if f == nil {
				continue
			}
			cons := fmt.Sprintf("unlockedCollect:%s<-%s.%s", fld.Name(), s.typ, s.field)
			if !seen[f] && unknown != "" {
				// part of the accumulation was not understood: the source may feed the list there
				c.Unknown("C37.collect", cons, fmt.Sprintf("%s.%s is not seen to reach the %s list, but the list is partly built by %s: cannot decide", s.typ, s.field, fld.Name(), unknown))
				continue
			}
			c.Check(seen[f], "C37.collect", cons, c.P.Pos(collect.Pos()), "feeds the list", fmt.Sprintf("%s.%s no longer reaches the %s list: addresses from that source are never candidates", s.typ, s.field, fld.Name()))
		}
		if fld == fAddrs {
			if !dns && unknown != "" {
				c.Unknown("C37.collect", "unlockedCollect:addrs<-hostnamesResults.GetAddrs", "DNS-resolved static addresses are not seen to reach the address list, but the list is partly built by "+unknown+": cannot decide")
			} else {
				c.Check(dns, "C37.collect", "unlockedCollect:addrs<-hostnamesResults.GetAddrs", c.P.Pos(collect.Pos()), "feeds the list", "DNS-resolved static addresses no longer reach the address list")
			}
			// blocked test on the very address appended: where the append lives, or - when the appended value is a
			// parameter of a helper - in a caller, on the argument
			for i, site := range chain.Sites {
				cons := fmt.Sprintf("%s:addrs-append#%d<-address not blocked", fnName(collect), i)
				vals := g6AppendedValues(site.Append)
				okAll := len(vals) > 0
				var where []string
				for _, val := range vals {
					levels := fix3Levels(site, val)
					mk := func(lv fix3Level) Guard {
						lval := lv.Val
						// directly, or through a one-level helper (`if r.admit(u) {...}`) whose summary is decided
						return c.g6ViaHelper("address not blocked", func(v ssa.Value) bool { return sameVar(v, lval) }, func(isVal func(ssa.Value) bool) Guard {
							return fix3NotBlocked("address not blocked", fBad, isVal)
						})
					}
					pass, dead, at, path := fix3PassAtSomeLevel(c, levels, mk)
					if pass {
						where = append(where, at)
						continue
					}
					okAll = false
					unrecognised := false
					if fBad != nil {
						for _, lv := range levels {
							lval := lv.Val
							if fix3ComparesWithElemOf(lv.Fn, func(v ssa.Value) bool { return sameVar(v, lval) }, fBad) {
								unrecognised = true
							}
						}
					}
					switch {
					case unrecognised:
						c.Unknown("C37.blocked", cons, "the address is compared with the blocked list in a form that is not recognised (expected !unlockedIsBad(address) / !slices.Contains(badRemotes, address) in front of the append): cannot decide")
					case dead:
						c.Unknown("C37.blocked", cons, "guard test not found and sink unreachable: unrecognised shape")
					default:
						c.Bad("C37.blocked", cons, c.instrPos(site.Root()), fmt.Sprintf("append to addrs (%s) is reachable without passing the test %q on the appended address", site.String(), "address not blocked"), path...)
					}
				}
				if okAll {
					c.OK("C37.blocked", cons, fmt.Sprintf("every path to the %s passes the test (in %s)", site.String(), strings.Join(where, ", ")))
				}
			}
		}
	}
}

// ---------------------------------------------------------------------------------------
// sort / dedup / relays

func c37SortRules(c *Ctx, fn *ssa.Function, fAddrs, fRelays *types.Var) {
	sortOf := func(f *types.Var) func(ssa.Instruction) bool {
		return func(in ssa.Instruction) bool {
			ci, ok := in.(*ssa.Call)
			return ok && matchAny(calleeObj(ci), c37SortCalls) && len(callArgs(ci)) == 2 && loadsField(stripValue(callArgs(ci)[0]), f)
		}
	}
	var addrSorts, relaySorts []*ssa.Call
	eachInstr(fn, func(in ssa.Instruction) {
		if sortOf(fAddrs)(in) {
			addrSorts = append(addrSorts, in.(*ssa.Call))
		}
		if sortOf(fRelays)(in) {
			relaySorts = append(relaySorts, in.(*ssa.Call))
		}
	})
	// ---- lists of >= 2 addresses are always sorted
	short := Guard{Name: "fewer than two addresses", Match: func(cd Cond, _ *ssa.If) (bool, bool) {
		if cd.Kind != CondCmp {
			return false, false
		}
		bo := cd.Base.(*ssa.BinOp)
		op := bo.Op
		isLen := isLenOf(isFieldLoad(fAddrs))
		var k int64
		var ok bool
		switch {
		case isLen(bo.X):
			k, ok = constInt(bo.Y)
		case isLen(bo.Y):
			k, ok = constInt(bo.X)
			op = swapOp(op)
		}
		if !ok {
			return false, false
		}
		if cd.Neg {
			op = negOp(op)
		}
		switch {
		case op == token.LSS && k <= 2, op == token.LEQ && k <= 1, op == token.EQL && (k == 0 || k == 1):
			return true, true // the true side implies len < 2
		case op == token.GEQ && k <= 2, op == token.GTR && k <= 1:
			return true, false
		}
		return false, false
	}}
	shortEdges, _ := passEdges(fn, short)
	okSorted := len(addrSorts) > 0
	if !okSorted {
		c.Bad("C37.sort", "unlockedSort:addrs-sorted", c.P.Pos(fn.Pos()), "no sort of r.addrs (sort.Slice / slices.SortFunc) found in unlockedSort")
	}
	for _, r := range g6Returns(fn) {
		if !okSorted {
			break
		}
		if av, path := c.g6Avoids(fn, nil, r, sortOf(fAddrs), shortEdges); av {
			okSorted = false
			c.Bad("C37.sort", "unlockedSort:addrs-sorted", c.instrPos(r), "unlockedSort can return with two or more addresses without having sorted them", path...)
		}
	}
	if okSorted {
		c.OK("C37.sort", "unlockedSort:addrs-sorted", "unsorted return only with fewer than two addresses")
	}
	// ---- comparator tables
	for i, sc := range addrSorts {
		c37OrderTable(c, fmt.Sprintf("unlockedSort:addrs-comparator#%d", i), sc, false)
	}
	for i, sc := range relaySorts {
		c37OrderTable(c, fmt.Sprintf("unlockedSort:relays-comparator#%d", i), sc, true)
	}
	// ---- dedup after the sort
	if len(addrSorts) > 0 {
		sc := addrSorts[0]
		loops := naturalLoops(fn)
		elemOfAddrs := func(v ssa.Value) bool {
			u, ok := v.(*ssa.UnOp)
			if !ok || u.Op != token.MUL {
				return false
			}
			ia, ok := u.X.(*ssa.IndexAddr)
			return ok && loadsField(ia.X, fAddrs)
		}
		isCompact := func(in ssa.Instruction) bool {
			ci, ok := in.(*ssa.Call)
			return ok && matchAny(calleeObj(ci), c37Compact) && loadsField(callArgs(ci)[0], fAddrs)
		}
		nCmp := 0
		eachInstr(fn, func(in ssa.Instruction) {
			bo, ok := in.(*ssa.BinOp)
			if ok && (bo.Op == token.NEQ || bo.Op == token.EQL) && elemOfAddrs(bo.X) && elemOfAddrs(bo.Y) && inAnyLoop(loops, bo.Block()) {
				// only comparisons that can run after the sort count
				if av, _ := c.avoidsCut(fn, sc, bo, func(ssa.Instruction) bool { return false }); av {
					if before, _ := c.avoidsCut(fn, nil, bo, func(x ssa.Instruction) bool { return x == ssa.Instruction(sc) }); !before {
						nCmp++
					}
				}
			}
			if isCompact(in) {
				if before, _ := c.avoidsCut(fn, nil, in, func(x ssa.Instruction) bool { return x == ssa.Instruction(sc) }); !before {
					nCmp++
				}
			}
		})
		c.Check(nCmp > 0, "C37.dedup", "unlockedSort:adjacent-whole-element-compare", c.instrPos(sc), fmt.Sprintf("%d comparison(s) of whole list elements in a loop that runs only after the sort", nCmp),
			"no loop after the sort compares whole adjacent list elements (address and port): duplicates survive, or entries that differ only in the port are dropped, or the compaction runs on an unsorted list")
		isTrunc := func(in ssa.Instruction) bool {
			st, ok := in.(*ssa.Store)
			if !ok {
				return false
			}
			fa, ok := st.Addr.(*ssa.FieldAddr)
			if !ok || fieldOfAddr(fa) != fAddrs {
				return false
			}
			if sl, ok := st.Val.(*ssa.Slice); ok {
				return loadsField(sl.X, fAddrs) && sl.High != nil
			}
			call, _ := callOf(st.Val)
			return call != nil && isCompact(call)
		}
		okT := true
		for _, r := range g6Returns(fn) {
			if av, path := c.avoidsCut(fn, sc, r, isTrunc); av {
				okT = false
				c.Bad("C37.dedup", "unlockedSort:truncated-after-compaction", c.instrPos(r), "after sorting, unlockedSort can return without cutting the list down to its de-duplicated prefix: duplicates stay readable at the tail", path...)
				break
			}
		}
		if okT {
			c.OK("C37.dedup", "unlockedSort:truncated-after-compaction", "every path from the sort to a return re-slices r.addrs")
		}
	}
	// ---- relays: map round trip, reset, sorted after the iteration
	var ranges []*ssa.Range
	var updates []*ssa.MapUpdate
	eachInstr(fn, func(in ssa.Instruction) {
		switch x := in.(type) {
		case *ssa.Range:
			if _, isMap := x.X.Type().Underlying().(*types.Map); isMap {
				ranges = append(ranges, x)
			}
		case *ssa.MapUpdate:
			updates = append(updates, x)
		}
	})
	if len(ranges) == 0 {
		c.Unknown("C37.relays", "unlockedSort:map-iteration", "no map iteration found: relay de-duplication changed shape")
		return
	}
	for i, rg := range ranges {
		ok := len(relaySorts) > 0
		for _, r := range g6Returns(fn) {
			if av, _ := c.avoidsCut(fn, rg, r, sortOf(fRelays)); av {
				ok = false
			}
		}
		c.Check(ok, "C37.relays", fmt.Sprintf("unlockedSort:sorted-after-map-iteration#%d", i), c.instrPos(rg), "every path from the map iteration to a return sorts r.relays", "relays produced by iterating a map can be returned without sorting: the relay order changes from rebuild to rebuild")
	}
	stores := g6StoresToField(fn, fRelays)
	isReset := func(in ssa.Instruction) bool {
		st, ok := in.(*ssa.Store)
		if !ok {
			return false
		}
		fa, ok := st.Addr.(*ssa.FieldAddr)
		return ok && fieldOfAddr(fa) == fRelays && g6ZeroLen(st.Val)
	}
	fromMapKey := func(v ssa.Value) (*ssa.Range, bool) {
		var found *ssa.Range
		backSlice(v, sliceLocal, func(x ssa.Value) {
			if ex, ok := x.(*ssa.Extract); ok && ex.Index == 1 {
				if nx, ok := ex.Tuple.(*ssa.Next); ok {
					if rg, ok := nx.Iter.(*ssa.Range); ok {
						found = rg
					}
				}
			}
		})
		return found, found != nil
	}
	nApp, okKeys, okBase, why := 0, true, true, ""
	for _, st := range stores {
		appends, bases := g6AppendChain(st.Val)
		if len(appends) == 0 {
			continue
		}
		for _, ap := range appends {
			nApp++
			for _, v := range g6AppendedValues(ap) {
				rg, ok := fromMapKey(v)
				if !ok {
					okKeys, why = false, "a relay appended at "+c.instrPos(ap)+" is not a key of the de-duplication map"
					continue
				}
				// the map was filled from every relay of the list
				filled := false
				for _, mu := range updates {
					if mu.Map == rg.X && derivesFrom(mu.Key, sliceLocal, func(x ssa.Value) bool {
						ia, ok := x.(*ssa.IndexAddr)
						return ok && loadsField(ia.X, fRelays)
					}) {
						filled = true
						// the list must not have been reset before the map was filled
						for _, rs := range stores {
							if isReset(rs) {
								if av, _ := c.avoidsCut(fn, rs, mu, func(ssa.Instruction) bool { return false }); av {
									okKeys, why = false, "r.relays is emptied before the de-duplication map is filled from it: all relays are lost"
								}
							}
						}
					}
				}
				if !filled {
					okKeys, why = false, "the de-duplication map is not filled from the elements of r.relays"
				}
			}
		}
		for _, b := range bases {
			switch {
			case g6ZeroLen(b):
			case loadsField(b, fRelays):
				if av, _ := c.avoidsCut(fn, nil, b.(ssa.Instruction), isReset); av {
					okBase = false
				}
			default:
				okBase = false
			}
		}
	}
	if nApp == 0 {
		c.Unknown("C37.relays", "unlockedSort:relays-from-map-keys", "no append to r.relays found: relay de-duplication changed shape")
		return
	}
	c.Check(okKeys, "C37.relays", "unlockedSort:relays-from-map-keys", c.P.Pos(fn.Pos()), "every relay written back is a key of a map filled from all of r.relays", why)
	c.Check(okBase, "C37.relays", "unlockedSort:relays-reset-before-refill", c.P.Pos(fn.Pos()), "the de-duplicated keys are appended onto an emptied list", "the de-duplicated relays are appended onto the old list instead of an emptied one: every relay appears twice (and more after each rebuild)")
}

// c37OrderTable evaluates the comparator passed to a sort call over all feasible abstract inputs.
// Atoms per side: preferred, IPv4, private; plus the address order and the port order of the pair.
func c37OrderTable(c *Ctx, cons string, sc *ssa.Call, relays bool) {
	args := callArgs(sc)
	cmpFn := g6FuncArg(args[1])
	if cmpFn == nil || len(cmpFn.Params) != 2 || cmpFn.Blocks == nil {
		c.Unknown("C37.order-table", cons, "comparator is not a function literal or declared function with two parameters")
		return
	}
	c.Funcs[cmpFn.String()] = true
	res := cmpFn.Signature.Results()
	isLess := res.Len() == 1 && types.Identical(res.At(0).Type(), types.Typ[types.Bool])
	p0, p1 := cmpFn.Params[0].Name(), cmpFn.Params[1].Name()
	side := func(s string) int {
		h0, h1 := strings.Contains(s, "§0"), strings.Contains(s, "§1")
		switch {
		case h0 && !h1:
			return 0
		case h1 && !h0:
			return 1
		}
		return -1
	}
	sign := func(i int) int {
		switch {
		case i < 0:
			return -1
		case i > 0:
			return 1
		}
		return 0
	}
	bools := []bool{false, true}
	var diffs []string
	n := 0
	eval := func(pref, is4, priv [2]bool, addrRel, portRel int) {
		n++
		pairRel := func(a0, a1 string, rel int) (int, bool) {
			s0, s1 := side(a0), side(a1)
			switch {
			case s0 == 0 && s1 == 1:
				return rel, true
			case s0 == 1 && s1 == 0:
				return -rel, true
			case s0 >= 0 && s0 == s1:
				return 0, true
			}
			return 0, false
		}
		var env *AbsEnv
		inlineDepth := 0
		env = &AbsEnv{Params: map[string]AVal{p0: aSym("§0"), p1: aSym("§1")}, OpaqueCalls: true,
			Oracle: func(o *types.Func, a []AVal) (AVal, bool) {
				if matchFunc(o, Ref{"", "", "isPreferred"}) && len(a) == 2 {
					if s := side(a[0].String()); s >= 0 {
						return aBool(pref[s]), true
					}
					return AVal{}, false
				}
				// the comparator (or a part of it) extracted into a named function / method of the module: evaluated in
				// place, its parameters bound to the abstract arguments; leaving the fragment there leaves it here
				if o.Pkg() != nil && strings.HasPrefix(o.Pkg().Path(), nebulaMod) {
					h := c.P.SSA.FuncValue(o)
					if h == nil || h.Blocks == nil || len(h.Params) != len(a) || inlineDepth >= 3 {
						return AVal{}, false
					}
					sub := *env
					sub.Params = map[string]AVal{}
					sub.MaxSteps = 0
					pre := map[ssa.Value]AVal{}
					for i, p := range h.Params {
						pre[p] = a[i]
					}
					inlineDepth++
					out, err := g6AbsEval(h, &sub, pre)
					inlineDepth--
					if err != "" || len(out) == 0 {
						return AVal{}, false
					}
					c.Funcs[h.String()] = true
					if len(out) == 1 {
						return out[0], true
					}
					return AVal{Tup: out}, true
				}
				if o.Pkg() == nil || o.Pkg().Path() != "net/netip" || len(a) == 0 {
					return AVal{}, false
				}
				s := side(a[0].String())
				recv := ""
				if r := o.Type().(*types.Signature).Recv(); r != nil {
					if nn := recvNamed(r.Type()); nn != nil {
						recv = nn.Obj().Name()
					}
				}
				switch o.Name() {
				case "Is4":
					if s >= 0 {
						return aBool(is4[s]), true
					}
				case "Is6":
					if s >= 0 {
						return aBool(!is4[s]), true
					}
				case "IsPrivate":
					if s >= 0 {
						return aBool(priv[s]), true
					}
				case "Compare", "Less":
					if len(a) != 2 {
						return AVal{}, false
					}
					rel := addrRel
					if recv == "AddrPort" && rel == 0 {
						rel = portRel
					}
					r, ok := pairRel(a[0].String(), a[1].String(), rel)
					if !ok {
						return AVal{}, false
					}
					if o.Name() == "Less" {
						return aBool(r < 0), true
					}
					return aInt(int64(r)), true
				case "Addr", "Port":
					return symAccessor(o, a)
				}
				return AVal{}, false
			},
			SymCmp: func(op token.Token, a, b AVal) (bool, bool) {
				if !strings.HasSuffix(a.Sym, ".Port()") || !strings.HasSuffix(b.Sym, ".Port()") {
					return false, false
				}
				r, ok := pairRel(a.Sym, b.Sym, portRel)
				if !ok {
					return false, false
				}
				return constant.Compare(constant.MakeInt64(int64(r)), op, constant.MakeInt64(0)), true
			}}
		out, err := g6AbsEval(cmpFn, env, nil)
		if err != "" || len(out) != 1 || !out[0].isConst() {
			diffs = append(diffs, "!"+err)
			return
		}
		// documented order
		want := 0
		if relays {
			want = addrRel
		} else {
			key := func(s int) [3]int {
				var k [3]int
				if !pref[s] {
					k[0] = 1 // preferred ranges first
				}
				if is4[s] {
					k[1] = 1 // IPv6 before IPv4
				}
				if is4[0] && is4[1] && priv[s] {
					k[2] = 1 // public IPv4 before private IPv4
				}
				return k
			}
			ka, kb := key(0), key(1)
			for i := 0; i < 3 && want == 0; i++ {
				want = sign(ka[i] - kb[i])
			}
			if want == 0 {
				want = addrRel // then by address
			}
			if want == 0 {
				want = portRel // then by port
			}
		}
		got := 0
		if isLess {
			if constant.BoolVal(out[0].K) {
				got = -1
			}
			if want > 0 {
				want = 0 // less() only distinguishes "before" from "not before"
			}
		} else {
			v, _ := constantInt64(out[0].K)
			got = sign(int(v))
		}
		if got != want && len(diffs) < 4 {
			desc := func(s int) string {
				return fmt.Sprintf("{preferred=%v v4=%v private=%v}", pref[s], is4[s], priv[s])
			}
			diffs = append(diffs, fmt.Sprintf("a%s b%s addr%s port%s: comparator says %d, documented order %d", desc(0), desc(1), relStr(addrRel), relStr(portRel), got, want))
		}
	}
	if relays {
		for rel := -1; rel <= 1; rel++ {
			eval([2]bool{}, [2]bool{}, [2]bool{}, rel, 0)
		}
	} else {
		for _, ap := range bools {
			for _, bp := range bools {
				for _, a4 := range bools {
					for _, b4 := range bools {
						for _, apr := range bools {
							for _, bpr := range bools {
								for ar := -1; ar <= 1; ar++ {
									for pr := -1; pr <= 1; pr++ {
										// one address has one set of attributes
										if ar == 0 && (ap != bp || a4 != b4 || apr != bpr) {
											continue
										}
										// netip orders every IPv4 address before every IPv6 address
										if (a4 && !b4 && ar != -1) || (!a4 && b4 && ar != 1) {
											continue
										}
										eval([2]bool{ap, bp}, [2]bool{a4, b4}, [2]bool{apr, bpr}, ar, pr)
									}
								}
							}
						}
					}
				}
			}
		}
	}
	for _, d := range diffs {
		if strings.HasPrefix(d, "!") {
			c.Unknown("C37.order-table", cons, "comparator left the supported fragment: "+d[1:])
			return
		}
	}
	c.Check(len(diffs) == 0, "C37.order-table", cons, c.P.Pos(cmpFn.Pos()), fmt.Sprintf("%d feasible abstract inputs agree with the documented order", n), strings.Join(diffs, "; "))
}

// ---------------------------------------------------------------------------------------
// isPreferred

func c37Preferred(c *Ctx) {
	fn := c.Func(Ref{"", "", "isPreferred"})
	if fn == nil || len(fn.Params) != 2 {
		return
	}
	ip, ranges := fn.Params[0], fn.Params[1]
	contains := func(want bool) Guard {
		return gBool(fmt.Sprintf("range.Contains(ip) == %v", want), want, -1, callTo(Ref{"net/netip", "Prefix", "Contains"}).withArg(1, func(v ssa.Value) bool { return g6IsParamValue(v, ip) }))
	}
	c.requireGuards("C37.preferred", fn, boolReturns(fn, 0, true), "return-true", contains(true))
	loops := findRangeLoops(fn, func(v ssa.Value) bool { return g6IsParamValue(v, ranges) })
	if len(loops) != 1 {
		c.Unknown("C37.preferred", "isPreferred:return-false", fmt.Sprintf("expected one loop over the preferred ranges, found %d", len(loops)))
		return
	}
	c.forAllGuard("C37.preferred", "isPreferred:return-false", fn, loops[0], boolReturns(fn, 0, false), contains(false))
}
