package main

import (
	"fmt"
	"go/constant"
	"go/token"
	"go/types"
	"sort"
	"strings"

	"golang.org/x/tools/go/ssa"
)

func init() {
	register(&Property{
		ID: "C16", Title: "Firewall verdicts follow the rule semantics",
		Patterns:    []string{"."},
		Technique:   "path-sensitive symbolic propagation of each rule-table builder and of its matcher (Drop, AddRule / FirewallTable.match, firewallPort, FirewallCA, FirewallRule + isAny, firewallLocalCIDR, parsePort, inConns) with helpers and closures inlined; the slots a builder writes (by field object and key term) are compared with the slots the matcher consults, per abstract case of the rule / packet; who-may-insert table for the conntrack map",
		LevelText:   "Writer/reader agreement of the rule table, decided on every path (loops: up to 3 iterations): Drop allows an untracked packet if and only if the table of the packet's direction matched, and tracks exactly those; a rule of protocol k is stored in the table that packets of protocol k consult (ICMP and ICMPv6 share one, `any` rules are consulted for every packet) and in no other; ports are stored under every key of the inclusive range and looked up under the local (inbound) / remote (outbound) port, the fragment key or the any key, ICMP always under the any key, with the special keys agreeing between parsePort, AddRule and the matcher; CA constraints are stored under ca_sha / ca_name (or `any` only when both are empty) and looked up by the certificate's issuer fingerprint / its signer's name; group lists, host and remote CIDR are stored in the slots the matcher reads, the `any` shortcut exactly for the documented wildcards, group rules match only when every listed group is present; local CIDR defaults follow default_local_cidr_any / unsafe networks; conntrack entries are only created by Drop after a rule match.",
		LevelNote:   "Not decided: equivalence with a reference evaluator over concrete nested maps / bart tables (prefix containment, map semantics), rule sets combined over many AddRule calls beyond slot agreement, YAML conversion (C22), conntrack revalidation after reload. Loops are followed for up to 3 iterations; aliasing between distinct map keys is ignored.",
		Explanation: "K7 writer/reader agreement by K8-style path tables over AddRule, FirewallTable.match, firewallPort.addRule/match, parsePort, FirewallCA.addRule/match, FirewallRule.addRule/isAny/match, firewallLocalCIDR.addRule/match; K1 both directions on Drop; K2 on FirewallConntrack.Conns and addConn",
		Run:         runC16,
		Canaries: func(c *Ctx) []Canary {
			return []Canary{
				{Name: "icmpv6-rules-stored-under-any-proto", File: "firewall.go", Old: "\tcase firewall.ProtoICMP, firewall.ProtoICMPv6:\n\t\t//ICMP traffic doesn't have ports", New: "\tcase firewall.ProtoICMPv6:\n\t\tfp = ft.AnyProto\n\tcase firewall.ProtoICMP:\n\t\t//ICMP traffic doesn't have ports", Rule: "C16.proto-table"},
				{Name: "any-proto-rules-skipped-for-udp", File: "firewall.go", Old: "\tif ft.AnyProto.match(p, incoming, c, caPool) {\n\t\treturn true\n\t}\n\n\tswitch p.Protocol {", New: "\tif p.Protocol != firewall.ProtoUDP && ft.AnyProto.match(p, incoming, c, caPool) {\n\t\treturn true\n\t}\n\n\tswitch p.Protocol {", Rule: "C16.proto-table"},
				{Name: "port-range-end-excluded", File: "firewall.go", Old: "for i := startPort; i <= endPort; i++ {", New: "for i := startPort; i < endPort; i++ {", Rule: "C16.port-table"},
				{Name: "outbound-matches-local-port", File: "firewall.go", Old: "\t} else {\n\t\tport = int32(p.RemotePort)\n\t}", New: "\t} else {\n\t\tport = int32(p.LocalPort)\n\t}", Rule: "C16.port-table"},
				{Name: "fragment-key-mismatch", File: "firewall.go", Old: "\tif s == \"fragment\" {\n\t\treturn firewall.PortFragment, firewall.PortFragment, nil\n\t}", New: "\tif s == \"fragment\" {\n\t\treturn firewall.PortAny, firewall.PortAny, nil\n\t}", Rule: "C16.port-table"},
				{Name: "ca-sha-looked-up-by-name", File: "firewall.go", Old: "if t, ok := fc.CAShas[c.Certificate.Issuer()]; ok {", New: "if t, ok := fc.CAShas[c.Certificate.Name()]; ok {", Rule: "C16.ca-table"},
				{Name: "ca-constrained-rule-also-any", File: "firewall.go", Old: "\tif caSha == \"\" && caName == \"\" {\n\t\tif fc.Any == nil {", New: "\tif caSha == \"\" || caName == \"\" {\n\t\tif fc.Any == nil {", Rule: "C16.ca-table"},
				{Name: "groups-any-of", File: "firewall.go", Old: "\t\t\tif _, ok := c.InvertedGroups[g]; !ok {\n\t\t\t\tfound = false\n\t\t\t\tbreak\n\t\t\t}\n\n\t\t\tfound = true", New: "\t\t\tif _, ok := c.InvertedGroups[g]; ok {\n\t\t\t\tfound = true\n\t\t\t\tbreak\n\t\t\t}", Rule: "C16.rule-table"},
				{Name: "host-any-not-a-wildcard", File: "firewall.go", Old: "\tif host == \"any\" {\n\t\treturn true\n\t}\n\n\tif cidr == \"any\" {", New: "\tif cidr == \"any\" {", Rule: "C16.rule-table"},
				{Name: "host-rule-keyed-by-cidr", File: "firewall.go", Old: "\t\tfr.Hosts[host] = nlc", New: "\t\tfr.Hosts[cidr] = nlc", Rule: "C16.rule-table"},
				{Name: "local-cidr-default-always-any", File: "firewall.go", Old: "if len(f.unsafeNetworks) == 0 || f.defaultLocalCIDRAny {", New: "if len(f.unsafeNetworks) >= 0 || f.defaultLocalCIDRAny {", Rule: "C16.local-cidr"},
				{Name: "local-cidr-matches-remote-address", File: "firewall.go", Old: "\treturn flc.LocalCIDR.Contains(p.LocalAddr)", New: "\treturn flc.LocalCIDR.Contains(p.RemoteAddr)", Rule: "C16.local-cidr"},
				{Name: "outbound-packet-checked-against-inbound-rules", File: "firewall.go", Old: "\ttable := f.OutRules\n\tif incoming {\n\t\ttable = f.InRules\n\t}\n\n\t// We now know which firewall table to check against\n\tif !table.match(fp, incoming, h.ConnectionState.peerCert, caPool) {\n\t\tf.metrics(incoming).droppedNoRule.Inc(1)", New: "\ttable := f.InRules\n\n\t// We now know which firewall table to check against\n\tif !table.match(fp, incoming, h.ConnectionState.peerCert, caPool) {\n\t\tf.metrics(incoming).droppedNoRule.Inc(1)", Rule: "C16.drop"},
				{Name: "tracked-before-rule-match", File: "firewall.go", Old: "\t// We now know which firewall table to check against\n\tif !table.match(fp, incoming, h.ConnectionState.peerCert, caPool) {\n\t\tf.metrics(incoming).droppedNoRule.Inc(1)", New: "\tf.addConn(fp, incoming)\n\t// We now know which firewall table to check against\n\tif !table.match(fp, incoming, h.ConnectionState.peerCert, caPool) {\n\t\tf.metrics(incoming).droppedNoRule.Inc(1)", Rule: "C16.track"},
				{Name: "outbound-allowed-without-rule", File: "firewall.go", Old: "\tif !table.match(fp, incoming, h.ConnectionState.peerCert, caPool) {", New: "\tif incoming && !table.match(fp, incoming, h.ConnectionState.peerCert, caPool) {", Rule: "C16.drop"},
				{Name: "missing-entry-counts-as-tracked", File: "firewall.go", Old: "\tif !ok {\n\t\tconntrack.Unlock()\n\t\treturn false\n\t}", New: "\tif !ok {\n\t\tconntrack.Unlock()\n\t\treturn localCache != nil\n\t}", Rule: "C16.conntrack"},
				{Name: "conntrack-seeded-on-reload", File: "interface.go", Old: "\t\tfw.Conntrack = conntrack\n", New: "\t\tfw.Conntrack = conntrack\n\t\tfw.Conntrack.Conns[firewall.Packet{}] = &conn{}\n", Rule: "C16.conntrack"},
			}
		},
	})
}

// c16V collects the first counter-example path of one obligation.
type c16V struct {
	bad *g1Path
	why string
	n   int
	rel g1M // which unfollowed helpers could hide the missing test (nil: any)
}

func (v *c16V) fail(p *g1Path, why string) {
	if v.bad == nil {
		v.bad, v.why = p, why
	}
}

func (c *Ctx) c16Report(rule, cons string, fn *ssa.Function, v *c16V, ok string) {
	c.g1Verdict(rule, cons, fn, v.bad, v.why, v.n, ok, v.rel)
}

// c16Params names the parameters positionally (string parameters cannot be told apart by type);
// the order is the builder chain's calling convention, checked argument by argument at each call.
func (c *Ctx) c16Params(rule string, fn *ssa.Function, names ...string) []string {
	if fn == nil {
		return nil
	}
	if len(fn.Params) != len(names) {
		c.Unknown(rule, fnName(fn)+":signature", fmt.Sprintf("%d parameters, expected %d: signature changed", len(fn.Params), len(names)))
		return nil
	}
	return names
}

func c16Roots(v []*g1Val, names ...string) bool {
	if len(v) < len(names) {
		return false
	}
	for i, n := range names {
		if n != "" && !g1MRoot(n)(v[i]) {
			return false
		}
	}
	return true
}

func c16Done(p *g1Path) bool { return !p.Panic && !p.ResNonNil(0) }

// slot: the lvalue a receiver term lives in - the term itself when it is a symbolic selection, or
// the place an object built on this path was stored to.
func c16Slot(p *g1Path, recv *g1Val) *g1Val {
	r := g1Strip(recv)
	if r.K != g1KObj {
		return r
	}
	for i := len(p.Evs) - 1; i >= 0; i-- {
		if e := p.Evs[i]; e.Kind == "store" && g1Strip(e.Val).key == r.key {
			return e.LV
		}
	}
	return r
}

func runC16(c *Ctx) {
	c.Rule("C16.drop", "K1 both ways: Drop returns nil for an untracked packet iff FirewallTable.match of the packet's direction (InRules when incoming, else OutRules; same packet, direction, peer certificate, CA pool) returned true", 3)
	c.Rule("C16.track", "K1: addConn(packet, incoming) is called on every rule-allowed path and only there", 2)
	c.Rule("C16.conntrack", "K2/K8: FirewallConntrack.Conns gets entries only in addConn (called only by Drop) and empty in NewFirewall; inConns reports a flow only when the routine cache or Conns holds the packet", 3)
	c.Rule("C16.proto-table", "K7: AddRule stores protocol k in the table FirewallTable.match consults for packets of protocol k; the any-protocol table is consulted for every packet; no other table is", 3)
	c.Rule("C16.port-table", "K7: firewallPort.addRule writes every key of [start,end]; firewallPort.match reads the local/remote port by direction, the fragment key or the any key, ICMP the any key; special keys agree between parsePort, AddRule and match", 5)
	c.Rule("C16.ca-table", "K7: FirewallCA.addRule writes Any iff no CA constraint, CAShas[ca_sha], CANames[ca_name]; match reads Any, CAShas[issuer], CANames[signer name]", 3)
	c.Rule("C16.rule-table", "K7/K8: FirewallRule.addRule writes Any exactly for the documented wildcards, else Groups / Hosts[host] / CIDR[prefix]; match reads Any, every group list (all listed groups present), Hosts[cert name], CIDR supernets of the remote address", 4)
	c.Rule("C16.local-cidr", "K8: firewallLocalCIDR.addRule sets Any for `any` or for the default when there are no unsafe networks / default_local_cidr_any, else inserts the assigned networks / the given prefix; match is Any or Contains(LocalAddr)", 3)
	c16Drop(c)
	c16Conntrack(c)
	anyKey, fragKey := c16ParsePort(c)
	c16ProtoTable(c, anyKey)
	c16PortTable(c, anyKey, fragKey)
	c16CATable(c)
	c16RuleTable(c)
	c16LocalCIDR(c)
}

// ---------------------------------------------------------------------------------------

func c16Drop(c *Ctx) {
	m := g1ExploreDrop(c, "C16.drop")
	if m == nil {
		return
	}
	addConn, match := Ref{"", "Firewall", "addConn"}, Ref{"", "FirewallTable", "match"}
	var only, conv, dir, trk, trkOnly c16V
	for _, p := range m.paths {
		if p.Panic {
			continue
		}
		mv, mi := p.Lit(m.match)
		matched := mi >= 0 && mv
		stray := ""
		for _, e := range p.Calls(match) {
			if !m.match(e.Res) {
				stray = "; the call " + e.Res.String() + " does not count (table / packet / direction / peer certificate / pool arguments differ)"
			}
		}
		if mi >= 0 {
			dir.n++
			recv := p.Lits[mi].Atom.Args[0]
			if (m.inTable(recv) && !p.LitIs(m.incoming, true)) || (m.outTable(recv) && !p.LitIs(m.incoming, false)) {
				dir.fail(p, "the rule table consulted is not the one of the packet's direction (InRules for incoming, OutRules for outgoing): "+recv.String())
			}
		}
		tracked := p.LitIs(m.conn, true)
		if m.allowing(p) {
			only.n++
			if !tracked && !matched {
				only.fail(p, "Drop can return nil for an untracked packet although no FirewallTable.match returned true"+stray)
			}
			if !tracked && matched {
				trk.n++
				ok := false
				for _, e := range p.Calls(addConn) {
					ok = ok || (e.NLits > mi && len(e.Args) >= 3 && g1MRoot("F")(e.Args[0]) && m.pkt(e.Args[1]) && m.incoming(e.Args[2]))
				}
				if !ok {
					trk.fail(p, "a packet allowed by a rule is not tracked: addConn(packet, incoming) is not called after the match")
				}
			}
		} else if matched {
			conv.fail(p, "Drop refuses a packet although its address tests passed and a rule matched")
		}
		if matched {
			conv.n++
		}
		for _, e := range p.Calls(addConn) {
			trkOnly.n++
			if !matched || e.NLits <= mi {
				trkOnly.fail(p, "a flow is entered into conntrack on a path where no rule has matched: later packets of the flow are allowed without any rule")
			}
		}
	}
	c.c16Report("C16.drop", "Drop:allow=>tracked-or-rule-match", m.fn, &only, "every allowing path saw inConns or a rule match")
	c.c16Report("C16.drop", "Drop:rule-match=>allow", m.fn, &conv, "a rule match is never followed by a refusal")
	c.c16Report("C16.drop", "Drop:table-of-direction", m.fn, &dir, "InRules iff incoming")
	c.c16Report("C16.track", "Drop:rule-allowed=>addConn", m.fn, &trk, "tracked after the match")
	c.c16Report("C16.track", "Drop:addConn=>rule-allowed", m.fn, &trkOnly, "tracking only after a match")
}

func c16Conntrack(c *Ctx) {
	funcs := c.moduleFuncs()
	fConns := c.Field("", "FirewallConntrack", "Conns")
	fCT := c.Field("", "Firewall", "Conntrack")
	if fConns == nil || fCT == nil {
		return
	}
	// enclosing function -> why it may put an entry into (or replace) the conntrack map
	inserters := map[string]string{
		"(*nebula.Firewall).addConn": "records a flow that a rule just allowed (C16.track)",
		"nebula.NewFirewall":         "starts with an empty map",
	}
	n, bad := 0, 0
	for _, w := range fieldWriters(funcs, fConns) {
		if c.isTestHelperFile(w.Instr) || w.Kind == "map-delete" || w.Kind == "clear" {
			continue // forgetting a flow only sends its next packet back to the rules
		}
		n++
		if nm := fnName(topFunc(w.Fn)); inserters[nm] == "" {
			// a new unexported same-package function all of whose callers are tabled is a part of them
			if ok, owner := c.fix6PartOfTabled(funcs, w.Fn, PkgPath(""), func(n string) bool { return inserters[n] != "" }); ok {
				c.Note("C16.conntrack: %s writes Conns and is only called by %s: counted as part of it", nm, owner)
				continue
			}
			bad++
			c.Bad("C16.conntrack", "Conns<-"+nm, c.instrPos(w.Instr), w.Kind+" into the conntrack map outside addConn: the flow is allowed from then on without any rule having matched")
		}
	}
	if bad == 0 {
		if n == 0 {
			c.Unknown("C16.conntrack", "Conns", "no insertion site found")
		} else {
			c.OK("C16.conntrack", "Conns", fmt.Sprintf("%d insertion sites, all tabled", n))
		}
	}
	k := 0
	for _, s := range callersOf(funcs, Ref{"", "Firewall", "addConn"}) {
		if c.isTestHelperFile(s.Instr) {
			continue
		}
		k++
		nm := fnName(topFunc(s.Fn))
		isDrop := nm == "(*nebula.Firewall).Drop"
		if !isDrop && s.Kind == "call" {
			// a new unexported helper that only Drop calls is a part of Drop (C16.track follows it in place)
			isDrop, _ = c.fix6PartOfTabled(funcs, s.Fn, PkgPath(""), func(n string) bool { return n == "(*nebula.Firewall).Drop" })
		}
		c.Check(isDrop, "C16.conntrack", "addConn<-"+nm, c.instrPos(s.Instr), "only Drop tracks flows", "addConn is called outside Drop: a flow is tracked that no rule allowed")
	}
	if k == 0 {
		c.Unknown("C16.conntrack", "addConn", "no caller found")
	}
	// inConns says "tracked" only when one of the two stores holds the packet
	fn := c.Func(Ref{"", "Firewall", "inConns"})
	if fn == nil {
		return
	}
	roles := c.g1Roles("C16.conntrack", fn, map[string]func(types.Type) bool{"F": g1TNamed("", "Firewall", true), "PKT": g1TNamed("firewall", "Packet", false), "CACHE": g1TNamed("firewall", "ConntrackCache", false)})
	if roles == nil {
		return
	}
	// no helper inlining here: purge / evict / logging only multiply the paths. The one exception is a
	// same-package helper that can reach the atom (FirewallTable.match): it is a block of inConns that
	// was extracted (the old-rules-version revalidation), so it is followed as if written in place.
	sym := &g1Sym{Stop: []Ref{{"", "FirewallTable", "match"}}, ForkResults: true}
	sym.Inline = fix6InlineReaching(sym)
	paths := c.g1Explore("C16.conntrack", sym, fn, roles...)
	// nothing is inlined here, so every helper is "unfollowed": only one that is handed the packet or the
	// cache could hide the membership test (TimerWheel.Purge, evict, logging are not)
	v := c16V{rel: g1MOr(g1MRoot("PKT"), g1MRoot("CACHE"))}
	inCache := g1MHas(g1MRoot("CACHE"), g1MRoot("PKT"))
	inMap := g1MHas(g1MField(fConns, g1MField(fCT, g1MRoot("F"))), g1MRoot("PKT"))
	for _, p := range paths {
		if r, ok := p.ResBool(0); !p.Panic && (!ok || r) {
			v.n++
			if !p.LitIs(inCache, true) && !p.LitIs(inMap, true) {
				v.fail(p, "inConns can report a tracked flow although neither the routine cache nor Conntrack.Conns holds the packet")
			}
		}
	}
	c.c16Report("C16.conntrack", "inConns:true=>entry-exists", fn, &v, "tracked only with an entry")
}

// c16ParsePort returns the keys parsePort produces for "any" and "fragment".
func c16ParsePort(c *Ctx) (anyKey, fragKey constant.Value) {
	fn := c.Func(Ref{"", "", "parsePort"})
	roles := c.c16Params("C16.port-table", fn, "S")
	if roles == nil {
		return nil, nil
	}
	paths := c.g1Explore("C16.port-table", &g1Sym{}, fn, roles...)
	word := func(w string) constant.Value {
		var k constant.Value
		var v c16V
		for _, p := range paths {
			if !p.LitIs(g1MEq(g1MRoot("S"), g1MStr(w)), true) || len(p.Res) != 3 {
				continue
			}
			v.n++
			a, b := p.Res[0], p.Res[1]
			if a.K != g1KConst || b.K != g1KConst || !constant.Compare(a.C, tokEQL, b.C) || !p.ResNil(2) || (k != nil && !constant.Compare(k, tokEQL, a.C)) {
				v.fail(p, fmt.Sprintf("parsePort(%q) does not return one constant key for both ends of the range and a nil error", w))
				continue
			}
			k = a.C
		}
		c.c16Report("C16.port-table", "parsePort:"+w, fn, &v, fmt.Sprintf("port word %q -> key %v", w, k))
		return k
	}
	return word("any"), word("fragment")
}

// ---------------------------------------------------------------------------------------
// protocol -> table

func c16ProtoTable(c *Ctx, anyKey constant.Value) {
	add := c.Func(Ref{"", "Firewall", "AddRule"})
	mat := c.Func(Ref{"", "FirewallTable", "match"})
	fIn, fOut := c.Field("", "Firewall", "InRules"), c.Field("", "Firewall", "OutRules")
	fProto := c.Field("firewall", "Packet", "Protocol")
	protoNames := []string{"ProtoAny", "ProtoTCP", "ProtoUDP", "ProtoICMP", "ProtoICMPv6"}
	protos := map[string]constant.Value{}
	for _, n := range protoNames {
		protos[n] = c.ConstVal("firewall", n)
	}
	roles := c.c16Params("C16.proto-table", add, "F", "INCOMING", "PROTO", "START", "END", "GROUPS", "HOST", "CIDR", "LOCALCIDR", "CANAME", "CASHA")
	if add == nil || mat == nil || fIn == nil || fOut == nil || fProto == nil || roles == nil || anyKey == nil {
		if anyKey == nil {
			c.Unknown("C16.proto-table", "AddRule:any-key", "the any-port key could not be derived from parsePort")
		}
		return
	}
	portAdd, portMatch := Ref{"", "firewallPort", "addRule"}, Ref{"", "firewallPort", "match"}
	// ---- writer
	W := map[string]*types.Var{} // protocol constant name -> table field
	var wv c16V
	for _, p := range c.g1Explore("C16.proto-table", &g1Sym{Stop: []Ref{portAdd}}, add, roles...) {
		if p.Panic {
			continue
		}
		pinned := ""
		excluded := 0
		for _, n := range protoNames {
			if v, i := p.Lit(g1MEq(g1MRoot("PROTO"), g1MConst(protos[n]))); i >= 0 && v {
				pinned = n
			} else if i >= 0 {
				excluded++
			}
		}
		evs := p.Calls(portAdd)
		if pinned == "" {
			if len(evs) > 0 || !p.ResNonNil(0) || excluded != len(protoNames) {
				wv.fail(p, "AddRule accepts a protocol that is none of the firewall.Proto* constants (or stores a rule without having decided the protocol)")
			}
			continue
		}
		wv.n++
		if len(evs) != 1 {
			wv.fail(p, fmt.Sprintf("AddRule makes %d firewallPort.addRule calls for protocol %s, expected exactly one", len(evs), pinned))
			continue
		}
		e := evs[0]
		recv := g1Strip(e.Args[0])
		if recv.K != g1KField || g1Strip(recv.Args[0]).K != g1KField || !g1MRoot("F")(g1Strip(recv.Args[0]).Args[0]) {
			wv.fail(p, "the port table AddRule writes is not a field of f.InRules / f.OutRules: "+recv.String())
			continue
		}
		dirF, tblF := g1Strip(recv.Args[0]).Obj, recv.Obj.(*types.Var)
		if (dirF == types.Object(fIn)) != p.LitIs(g1MRoot("INCOMING"), true) || (dirF == types.Object(fOut)) != p.LitIs(g1MRoot("INCOMING"), false) {
			wv.fail(p, "an incoming rule is not stored in InRules / an outgoing one not in OutRules")
		}
		if prev, ok := W[pinned]; ok && prev != tblF {
			wv.fail(p, "protocol "+pinned+" is stored in different tables on different paths")
		}
		W[pinned] = tblF
		wantPorts := []g1M{g1MRoot("START"), g1MRoot("END")}
		if pinned == "ProtoICMP" || pinned == "ProtoICMPv6" {
			wantPorts = []g1M{g1MConst(anyKey), g1MConst(anyKey)} // ICMP has no ports: always the any key
		}
		if len(e.Args) != 10 || !g1MRoot("F")(e.Args[1]) || !wantPorts[0](e.Args[2]) || !wantPorts[1](e.Args[3]) || !c16Roots(e.Args[4:], "GROUPS", "HOST", "CIDR", "LOCALCIDR", "CANAME", "CASHA") {
			wv.fail(p, "AddRule does not hand its rule fields to firewallPort.addRule in order (ports: start,end or the any key for ICMP): "+e.Res.String())
		}
		if !g1MIs(e.Res)(p.Res[0]) {
			wv.fail(p, "AddRule does not return the builder's error")
		}
	}
	c.c16Report("C16.proto-table", "AddRule:protocol->table", add, &wv, "each protocol constant is stored in one table of the rule's direction")
	if len(W) != len(protoNames) {
		c.Unknown("C16.proto-table", "AddRule:protocol->table:complete", fmt.Sprintf("only %d of %d protocol constants are stored", len(W), len(protoNames)))
		return
	}
	// ---- reader
	mroles := c.g1Roles("C16.proto-table", mat, map[string]func(types.Type) bool{"FT": g1TNamed("", "FirewallTable", true), "P": g1TNamed("firewall", "Packet", false), "INCOMING": g1TBool, "C": g1TNamed("cert", "CachedCertificate", true), "CAPOOL": g1TNamed("cert", "CAPool", true)})
	if mroles == nil {
		return
	}
	pm := func(tbl *types.Var) g1M {
		return g1MCall([]Ref{portMatch}, g1MField(tbl, g1MRoot("FT")), g1MRoot("P"), g1MRoot("INCOMING"), g1MRoot("C"), g1MRoot("CAPOOL"))
	}
	anyPM := g1MCall([]Ref{portMatch})
	proto := g1MField(fProto, g1MRoot("P"))
	var rt, rf c16V
	for _, p := range c.g1Explore("C16.proto-table", &g1Sym{Stop: []Ref{portMatch}, ForkResults: true}, mat, mroles...) {
		r, ok := p.ResBool(0)
		if p.Panic || !ok {
			continue
		}
		pinned := ""
		open := []string{}
		for _, n := range protoNames[1:] {
			if v, i := p.Lit(g1MEq(proto, g1MConst(protos[n]))); i >= 0 && v {
				pinned = n
			} else if i < 0 {
				open = append(open, n)
			}
		}
		if r {
			rt.n++
			hit := p.LastTrue(anyPM)
			if hit == nil || !(pm(W["ProtoAny"])(hit) || (pinned != "" && pm(W[pinned])(hit))) {
				rt.fail(p, fmt.Sprintf("FirewallTable.match returns true from a table that rules of the packet's protocol (%s) are not stored in, or with other arguments: %s", pinned, hit))
			}
			continue
		}
		rf.n++
		if !p.LitIs(pm(W["ProtoAny"]), false) {
			rf.fail(p, "FirewallTable.match returns false without having consulted the any-protocol rules")
		}
		if pinned != "" && !p.LitIs(pm(W[pinned]), false) {
			rf.fail(p, "FirewallTable.match returns false for a "+pinned+" packet without having consulted the table "+pinned+" rules are stored in ("+W[pinned].Name()+")")
		}
		if pinned == "" && len(open) > 0 {
			rf.fail(p, "FirewallTable.match returns false without looking at the packet's protocol: rules for "+strings.Join(open, ",")+" are never consulted on this path")
		}
	}
	c.c16Report("C16.proto-table", "FirewallTable.match:true=>stored-table", mat, &rt, "a match comes from the protocol's own table or the any-protocol table")
	c.c16Report("C16.proto-table", "FirewallTable.match:false=>all-consulted", mat, &rf, "a refusal has consulted both")
}

// ---------------------------------------------------------------------------------------
// ports

func c16PortTable(c *Ctx, anyKey, fragKey constant.Value) {
	add := c.g1Func(Ref{"", "firewallPort", "addRule"})
	mat := c.g1Func(Ref{"", "firewallPort", "match"})
	roles := c.c16Params("C16.port-table", add, "FP", "F", "START", "END", "GROUPS", "HOST", "CIDR", "LOCALCIDR", "CANAME", "CASHA")
	if add == nil || mat == nil || roles == nil || anyKey == nil || fragKey == nil {
		return
	}
	caAdd, caMatch := Ref{"", "FirewallCA", "addRule"}, Ref{"", "FirewallCA", "match"}
	// ---- writer: one FirewallCA.addRule per key start, start+1, ... and the loop ends beyond end
	var wv c16V
	keyK := func(k int) g1M { // START + k
		if k == 0 {
			return g1MRoot("START")
		}
		return g1MBinOp(token.ADD, g1MRoot("START"), g1MInt(int64(k)), false)
	}
	for _, p := range c.g1Explore("C16.port-table", &g1Sym{Stop: []Ref{caAdd}}, add, roles...) {
		if !c16Done(p) {
			continue
		}
		wv.n++
		evs := p.Calls(caAdd)
		for k, e := range evs {
			slot := c16Slot(p, e.Args[0])
			if !g1MIndex(g1MRoot("FP"), keyK(k))(slot) {
				wv.fail(p, fmt.Sprintf("the %d. rule copy is stored under key %s, expected startPort+%d", k+1, slot, k))
			}
			if len(e.Args) != 8 || !c16Roots(e.Args[1:], "F", "GROUPS", "HOST", "CIDR", "LOCALCIDR", "CANAME", "CASHA") {
				wv.fail(p, "firewallPort.addRule does not hand the rule fields to FirewallCA.addRule in order: "+e.Res.String())
			}
		}
		// the loop was left because start+n > end (or the last key reached end), after n >= 1 keys
		n := len(evs)
		if n == 0 || !(p.LitIs(g1MLss(g1MRoot("END"), keyK(n)), true) || p.LitIs(g1MEq(keyK(n-1), g1MRoot("END")), true) || p.LitIs(g1MLss(keyK(n-1), g1MRoot("END")), false)) {
			wv.fail(p, fmt.Sprintf("firewallPort.addRule can finish after %d keys without startPort+%d > endPort: the range [start,end] is not covered inclusively", len(evs), len(evs)))
		}
	}
	c.c16Report("C16.port-table", "firewallPort.addRule:keys=[start,end]", add, &wv, "every key of the inclusive range receives the rule")
	// ---- reader
	mroles := c.g1Roles("C16.port-table", mat, map[string]func(types.Type) bool{"FP": g1TNamed("", "firewallPort", false), "P": g1TNamed("firewall", "Packet", false), "INCOMING": g1TBool, "C": g1TNamed("cert", "CachedCertificate", true), "CAPOOL": g1TNamed("cert", "CAPool", true)})
	fProto, fFrag := c.Field("firewall", "Packet", "Protocol"), c.Field("firewall", "Packet", "Fragment")
	fLP, fRP := c.Field("firewall", "Packet", "LocalPort"), c.Field("firewall", "Packet", "RemotePort")
	kICMP, kICMP6 := c.ConstVal("firewall", "ProtoICMP"), c.ConstVal("firewall", "ProtoICMPv6")
	if mroles == nil || fProto == nil || fFrag == nil || fLP == nil || fRP == nil || kICMP == nil || kICMP6 == nil {
		return
	}
	P := g1MRoot("P")
	cam := func(key g1M) g1M {
		return g1MCall([]Ref{caMatch}, g1MIndex(g1MRoot("FP"), key), P, g1MRoot("C"), g1MRoot("CAPOOL"))
	}
	anyCam := g1MCall([]Ref{caMatch})
	var rt, rf c16V
	for _, p := range c.g1Explore("C16.port-table", &g1Sym{Stop: []Ref{caMatch}, ForkResults: true}, mat, mroles...) {
		r, ok := p.ResBool(0)
		if p.Panic || !ok {
			continue
		}
		if p.LitIs(g1MEq(g1MRoot("FP"), g1MNil), true) {
			continue // no port table at all
		}
		isICMP := p.LitIs(g1MEq(g1MField(fProto, P), g1MConst(kICMP)), true) || p.LitIs(g1MEq(g1MField(fProto, P), g1MConst(kICMP6)), true)
		notICMP := p.LitIs(g1MEq(g1MField(fProto, P), g1MConst(kICMP)), false) && p.LitIs(g1MEq(g1MField(fProto, P), g1MConst(kICMP6)), false)
		keys := []g1M{g1MConst(anyKey)}
		desc := "the any key"
		switch {
		case isICMP:
		case notICMP && p.LitIs(g1MField(fFrag, P), true):
			keys = append(keys, g1MConst(fragKey))
			desc += " and the fragment key"
		case notICMP && p.LitIs(g1MField(fFrag, P), false) && p.LitIs(g1MRoot("INCOMING"), true):
			keys = append(keys, g1MField(fLP, P))
			desc += " and the local port"
		case notICMP && p.LitIs(g1MField(fFrag, P), false) && p.LitIs(g1MRoot("INCOMING"), false):
			keys = append(keys, g1MField(fRP, P))
			desc += " and the remote port"
		default:
			rf.fail(p, "firewallPort.match decides without having established protocol class (ICMP or not), fragment flag and direction")
			continue
		}
		if r {
			rt.n++
			hit := p.LastTrue(anyCam)
			okHit := false
			for _, k := range keys {
				okHit = okHit || (hit != nil && cam(k)(hit))
			}
			if !okHit {
				rt.fail(p, fmt.Sprintf("firewallPort.match returns true from an entry other than %s: %s", desc, hit))
			}
			continue
		}
		rf.n++
		for _, k := range keys {
			if !p.LitIs(cam(k), false) {
				rf.fail(p, "firewallPort.match returns false without having consulted "+desc)
			}
		}
	}
	c.c16Report("C16.port-table", "firewallPort.match:true=>key-of-packet", mat, &rt, "a match comes from the packet's port key or the any key")
	c.c16Report("C16.port-table", "firewallPort.match:false=>keys-consulted", mat, &rf, "a refusal has consulted them")
}

// ---------------------------------------------------------------------------------------
// CA constraints

func c16CATable(c *Ctx) {
	add := c.Func(Ref{"", "FirewallCA", "addRule"})
	mat := c.Func(Ref{"", "FirewallCA", "match"})
	fAny, fShas, fNames := c.Field("", "FirewallCA", "Any"), c.Field("", "FirewallCA", "CAShas"), c.Field("", "FirewallCA", "CANames")
	fCert := c.Field("cert", "CachedCertificate", "Certificate")
	roles := c.c16Params("C16.ca-table", add, "FC", "F", "GROUPS", "HOST", "CIDR", "LOCALCIDR", "CANAME", "CASHA")
	if add == nil || mat == nil || fAny == nil || fShas == nil || fNames == nil || fCert == nil || roles == nil {
		return
	}
	ruleAdd, ruleMatch := Ref{"", "FirewallRule", "addRule"}, Ref{"", "FirewallRule", "match"}
	FC := g1MRoot("FC")
	sAny, sSha, sName := g1MField(fAny, FC), g1MIndex(g1MField(fShas, FC), g1MRoot("CASHA")), g1MIndex(g1MField(fNames, FC), g1MRoot("CANAME"))
	noSha, noName := g1MEq(g1MRoot("CASHA"), g1MStr("")), g1MEq(g1MRoot("CANAME"), g1MStr(""))
	var wv c16V
	for _, p := range c.g1Explore("C16.ca-table", &g1Sym{Stop: []Ref{ruleAdd}}, add, roles...) {
		if !c16Done(p) {
			continue
		}
		wv.n++
		want := map[string]g1M{}
		switch {
		case p.LitIs(noSha, true) && p.LitIs(noName, true):
			want["Any"] = sAny
		default:
			if p.LitIs(noSha, false) {
				want["CAShas[ca_sha]"] = sSha
			}
			if p.LitIs(noName, false) {
				want["CANames[ca_name]"] = sName
			}
			if !(p.LitIs(noSha, false) || p.LitIs(noSha, true)) || !(p.LitIs(noName, false) || p.LitIs(noName, true)) {
				wv.fail(p, "FirewallCA.addRule finishes without having looked at both ca_sha and ca_name")
			}
		}
		got := map[string]bool{}
		for _, e := range p.Calls(ruleAdd) {
			slot := c16Slot(p, e.Args[0])
			name := ""
			for n, m := range want {
				if m(slot) {
					name = n
				}
			}
			if name == "" {
				wv.fail(p, "the rule is stored in "+slot.String()+", which a rule with these CA constraints must not reach (Any only without constraints; CAShas by ca_sha; CANames by ca_name)")
			}
			got[name] = true
			if len(e.Args) != 6 || !c16Roots(e.Args[1:], "F", "GROUPS", "HOST", "CIDR", "LOCALCIDR") {
				wv.fail(p, "FirewallCA.addRule does not hand the rule fields to FirewallRule.addRule in order: "+e.Res.String())
			}
		}
		for n := range want {
			if !got[n] {
				wv.fail(p, "the rule is not stored in "+n+" although its CA constraints require it")
			}
		}
	}
	c.c16Report("C16.ca-table", "FirewallCA.addRule:slots", add, &wv, "Any iff unconstrained; CAShas[ca_sha]; CANames[ca_name]")
	// ---- reader
	mroles := c.g1Roles("C16.ca-table", mat, map[string]func(types.Type) bool{"FC": g1TNamed("", "FirewallCA", true), "P": g1TNamed("firewall", "Packet", false), "C": g1TNamed("cert", "CachedCertificate", true), "CAPOOL": g1TNamed("cert", "CAPool", true)})
	if mroles == nil {
		return
	}
	peer := g1MField(fCert, g1MRoot("C"))
	signer := g1MCall([]Ref{{"cert", "CAPool", "GetCAForCert"}}, g1MRoot("CAPOOL"), peer)
	signerOK := g1MEq(g1MExtract(signer, 1), g1MNil)
	rAny := g1MField(fAny, FC)
	rSha := g1MIndex(g1MField(fShas, FC), g1MCall([]Ref{certM("Issuer")}, peer))
	rName := g1MIndex(g1MField(fNames, FC), g1MCall([]Ref{certM("Name")}, g1MField(fCert, g1MExtract(signer, 0))))
	rm := func(recv g1M) g1M { return g1MCall([]Ref{ruleMatch}, recv, g1MRoot("P"), g1MRoot("C")) }
	anyRM := g1MCall([]Ref{ruleMatch})
	var rt, rf c16V
	for _, p := range c.g1Explore("C16.ca-table", &g1Sym{Stop: []Ref{ruleMatch}, ForkResults: true}, mat, mroles...) {
		r, ok := p.ResBool(0)
		if p.Panic || !ok || p.LitIs(g1MEq(FC, g1MNil), true) {
			continue
		}
		if r {
			rt.n++
			hit := p.LastTrue(anyRM)
			if hit == nil || !(rm(rAny)(hit) || rm(rSha)(hit) || (rm(rName)(hit) && p.LitIs(signerOK, true))) {
				rt.fail(p, fmt.Sprintf("FirewallCA.match returns true from a rule set other than Any, CAShas[peer certificate issuer] or CANames[name of the peer certificate's CA]: %s", hit))
			}
			continue
		}
		rf.n++
		if !p.LitIs(rm(rAny), false) {
			rf.fail(p, "FirewallCA.match returns false without having consulted the unconstrained rules (Any)")
		}
		if !p.LitIs(rm(rSha), false) && !p.LitIs(g1MHas(g1MField(fShas, FC), g1MCall([]Ref{certM("Issuer")}, peer)), false) {
			rf.fail(p, "FirewallCA.match returns false without having consulted CAShas[issuer]")
		}
		if !p.LitIs(rm(rName), false) && !p.LitIs(signerOK, false) {
			rf.fail(p, "FirewallCA.match returns false without having consulted CANames[signer name]")
		}
	}
	c.c16Report("C16.ca-table", "FirewallCA.match:true=>slot-of-certificate", mat, &rt, "a match comes from Any, the issuer's or the signer name's rules")
	c.c16Report("C16.ca-table", "FirewallCA.match:false=>all-consulted", mat, &rf, "a refusal has consulted all three")
}

// ---------------------------------------------------------------------------------------
// groups / host / remote CIDR

func c16RuleTable(c *Ctx) {
	add := c.Func(Ref{"", "FirewallRule", "addRule"})
	mat := c.Func(Ref{"", "FirewallRule", "match"})
	fAny, fHosts, fGroups, fCIDR := c.Field("", "FirewallRule", "Any"), c.Field("", "FirewallRule", "Hosts"), c.Field("", "FirewallRule", "Groups"), c.Field("", "FirewallRule", "CIDR")
	fgG, fgL := c.Field("", "firewallGroups", "Groups"), c.Field("", "firewallGroups", "LocalCIDR")
	fCert, fInv := c.Field("cert", "CachedCertificate", "Certificate"), c.Field("cert", "CachedCertificate", "InvertedGroups")
	fRem := c.Field("firewall", "Packet", "RemoteAddr")
	roles := c.c16Params("C16.rule-table", add, "FR", "F", "GROUPS", "HOST", "CIDR", "LOCALCIDR")
	if add == nil || mat == nil || fAny == nil || fHosts == nil || fGroups == nil || fCIDR == nil || fgG == nil || fgL == nil || fCert == nil || fInv == nil || fRem == nil || roles == nil {
		return
	}
	lcAdd, lcMatch := Ref{"", "firewallLocalCIDR", "addRule"}, Ref{"", "firewallLocalCIDR", "match"}
	FR := g1MRoot("FR")
	G, H, CI := g1MRoot("GROUPS"), g1MRoot("HOST"), g1MRoot("CIDR")
	noG, noH, noC := g1MEq(g1MBuiltin("len", G), g1MInt(0)), g1MEq(H, g1MStr("")), g1MEq(CI, g1MStr(""))
	someG := g1MLss(g1MInt(0), g1MBuiltin("len", G))
	anyG := g1MCall([]Ref{{"slices", "", "Contains"}}, G, g1MStr("any"))
	anyH, anyC := g1MEq(H, g1MStr("any")), g1MEq(CI, g1MStr("any"))
	// three-valued reference of the documented wildcard rule on the decisions of a path
	is := func(p *g1Path, m g1M, want bool) bool {
		if p.LitIs(m, want) {
			return true
		}
		// len(groups)==0 and 0<len(groups) decide each other
		return false
	}
	empty := func(p *g1Path, want bool) bool { return is(p, noG, want) || is(p, someG, !want) }
	wildcard := func(p *g1Path) (val, known bool) {
		if is(p, anyG, true) || is(p, anyH, true) || is(p, anyC, true) || (empty(p, true) && is(p, noH, true) && is(p, noC, true)) {
			return true, true
		}
		// host == "" decides host == "any" (and likewise cidr)
		hNot := is(p, anyH, false) || is(p, noH, true)
		cNot := is(p, anyC, false) || is(p, noC, true)
		gNot := is(p, anyG, false)
		if gNot && hNot && cNot && (empty(p, false) || is(p, noH, false) || is(p, noC, false)) {
			return false, true
		}
		return false, false
	}
	lcArgs := func(e g1Event) bool {
		return len(e.Args) == 3 && g1MRoot("F")(e.Args[1]) && g1MRoot("LOCALCIDR")(e.Args[2])
	}
	var wAny, wSel c16V
	for _, p := range c.g1Explore("C16.rule-table", &g1Sym{Stop: []Ref{lcAdd}}, add, roles...) {
		if !c16Done(p) {
			continue
		}
		wc, known := wildcard(p)
		evs := p.Calls(lcAdd)
		onAny := 0
		for _, e := range evs {
			if g1MField(fAny, FR)(c16Slot(p, e.Args[0])) {
				onAny++
			}
			if !lcArgs(e) {
				wSel.fail(p, "FirewallRule.addRule does not hand (f, local_cidr) to firewallLocalCIDR.addRule: "+e.Res.String())
			}
		}
		if !known {
			wAny.fail(p, "FirewallRule.addRule decides whether the rule is a wildcard without the documented tests (no selector at all, groups containing `any`, host `any`, cidr `any`)")
			continue
		}
		if wc {
			wAny.n++
			if onAny != 1 || len(evs) != 1 || len(p.Stores(g1MOr(g1MField(fGroups, FR), g1MIndex(g1MField(fHosts, FR), g1MAny)))) > 0 || len(p.Calls(g1BartInsert...)) > 0 {
				wAny.fail(p, "a wildcard rule (no selector / groups with `any` / host any / cidr any) is not stored in FirewallRule.Any alone")
			}
			continue
		}
		wSel.n++
		if onAny > 0 {
			wAny.fail(p, "a rule with selectors and no wildcard is stored in FirewallRule.Any: it matches every peer")
		}
		recvOf := func(x *g1Val) bool { // x received the local-CIDR part of this rule
			for _, e := range evs {
				if g1MIs(x)(e.Args[0]) {
					return true
				}
			}
			return false
		}
		if empty(p, false) {
			ok := false
			for _, e := range p.Stores(g1MField(fGroups, FR)) {
				// append(fr.Groups, &firewallGroups{Groups: groups, LocalCIDR: x})
				if !g1MBuiltin("append", g1MField(fGroups, FR))(e.Val) || len(e.Val.Args) != 2 || e.Val.Args[1].K != g1KCall || len(e.Val.Args[1].Args) == 0 {
					continue
				}
				el := p.Content(g1Index(e.Val.Args[1].Args[0], g1Int(0)))
				if g1Strip(el).K == g1KObj && G(p.Content(g1Field(el, fgG))) && recvOf(p.Content(g1Field(el, fgL))) {
					ok = true
				}
			}
			if !ok {
				wSel.fail(p, "a rule with a group list is not appended to FirewallRule.Groups as {Groups: groups, LocalCIDR: <the rule's local CIDR>}")
			}
		}
		if is(p, noH, false) {
			st := p.Stores(g1MIndex(g1MField(fHosts, FR), H))
			if len(st) != 1 || !recvOf(st[0].Val) {
				wSel.fail(p, "a rule with a host is not stored under FirewallRule.Hosts[host]")
			}
		}
		if is(p, noC, false) {
			ok := false
			for _, e := range p.Calls(g1BartInsert...) {
				ok = ok || (len(e.Args) == 3 && g1MField(fCIDR, FR)(e.Args[0]) && g1MExtract(g1MCall([]Ref{{"net/netip", "", "ParsePrefix"}}, CI), 0)(e.Args[1]) && recvOf(e.Args[2]))
			}
			if !ok {
				wSel.fail(p, "a rule with a remote cidr is not inserted into FirewallRule.CIDR under ParsePrefix(cidr)")
			}
		}
	}
	c.c16Report("C16.rule-table", "FirewallRule.addRule:wildcard<=>Any", add, &wAny, "Any is written exactly for the documented wildcards")
	c.c16Report("C16.rule-table", "FirewallRule.addRule:selectors->slots", add, &wSel, "groups, host and cidr land in Groups / Hosts[host] / CIDR[prefix]")
	// ---- reader
	mroles := c.g1Roles("C16.rule-table", mat, map[string]func(types.Type) bool{"FR": g1TNamed("", "FirewallRule", true), "P": g1TNamed("firewall", "Packet", false), "C": g1TNamed("cert", "CachedCertificate", true)})
	if mroles == nil {
		return
	}
	P, C := g1MRoot("P"), g1MRoot("C")
	lm := func(recv g1M) g1M { return g1MCall([]Ref{lcMatch}, recv, P, C) }
	anyLM := g1MCall([]Ref{lcMatch})
	certName := g1MCall([]Ref{certM("Name")}, g1MField(fCert, C))
	hostSlot := g1MIndex(g1MField(fHosts, FR), certName)
	supernets := g1MCall([]Ref{{"github.com/gaissmai/bart", "Table", "Supernets"}}, g1MField(fCIDR, FR), c17HostRoute(g1MField(fRem, P)))
	var rt, rf c16V
	// the for-all loop over a group list (or the whole loop over the group lists) may live in a
	// same-package helper: it is followed, loops included, and recognised by its decisions below
	msym := &g1Sym{Stop: []Ref{lcMatch}, ForkResults: true, MaxPaths: 200000} // a helper activation has its own loop budget: more paths than the in-place form
	msym.Inline = fix6InlineLoops(msym)
	for _, p := range c.g1Explore("C16.rule-table", msym, mat, mroles...) {
		r, ok := p.ResBool(0)
		if p.Panic || !ok || p.LitIs(g1MEq(FR, g1MNil), true) {
			continue
		}
		if r {
			rt.n++
			hit := p.LastTrue(anyLM)
			if hit == nil || !g1MRoot("P")(hit.Args[1]) || !g1MRoot("C")(hit.Args[2]) {
				rt.fail(p, fmt.Sprintf("FirewallRule.match returns true without a firewallLocalCIDR.match(…, packet, certificate) having returned true: %s", hit))
				continue
			}
			recv := g1Strip(hit.Args[0])
			switch {
			case g1MField(fAny, FR)(recv), hostSlot(recv):
			case g1MBuiltin("yield", supernets, nil, g1MInt(1))(recv):
			case g1MField(fgL, g1MIndex(g1MField(fGroups, FR), g1MAny))(recv):
				// all listed groups: sg.Groups[0..n-1] are all in the certificate and n is the length
				sg := recv.Args[0]
				n := 0
				for p.LitIs(g1MHas(g1MField(fInv, C), g1MIndex(g1MField(fgG, g1MIs(sg)), g1MInt(int64(n)))), true) {
					n++
				}
				if n == 0 || !p.LitIs(g1MLss(g1MInt(int64(n)), g1MBuiltin("len", g1MField(fgG, g1MIs(sg)))), false) {
					rt.fail(p, fmt.Sprintf("a group rule matches after only %d of its listed groups were found in the certificate (the list was not exhausted): every listed group must be present", n))
				}
			default:
				rt.fail(p, "FirewallRule.match returns true from a local-CIDR entry that is none of Any, a Groups element, Hosts[certificate name] or a CIDR supernet of the remote address: "+recv.String())
			}
			continue
		}
		rf.n++
		var miss []string
		if !p.LitIs(lm(g1MField(fAny, FR)), false) {
			miss = append(miss, "Any")
		}
		if !p.LitIs(lm(hostSlot), false) && !p.LitIs(g1MHas(g1MField(fHosts, FR), certName), false) && !p.LitIs(g1MEq(g1MField(fHosts, FR), g1MNil), true) {
			miss = append(miss, "Hosts[certificate name]")
		}
		exhausted := false
		for n := 0; n < 8; n++ {
			exhausted = exhausted || p.LitIs(g1MLss(g1MInt(int64(n)), g1MBuiltin("len", g1MField(fGroups, FR))), false)
		}
		if !exhausted {
			miss = append(miss, "every Groups element")
		}
		if !p.LitIs(g1MBuiltin("iter-more", supernets), false) {
			miss = append(miss, "every CIDR supernet of the remote address")
		}
		if len(miss) > 0 {
			sort.Strings(miss)
			rf.fail(p, "FirewallRule.match returns false without having consulted "+strings.Join(miss, ", "))
		}
	}
	c.c16Report("C16.rule-table", "FirewallRule.match:true=>slot-of-peer", mat, &rt, "a match comes from Any, a fully satisfied group list, the certificate name's host entry or a supernet of the remote address")
	c.c16Report("C16.rule-table", "FirewallRule.match:false=>all-consulted", mat, &rf, "a refusal has consulted all four selector kinds")
}

// ---------------------------------------------------------------------------------------
// local CIDR

func c16LocalCIDR(c *Ctx) {
	add := c.Func(Ref{"", "firewallLocalCIDR", "addRule"})
	mat := c.Func(Ref{"", "firewallLocalCIDR", "match"})
	fAny, fLC := c.Field("", "firewallLocalCIDR", "Any"), c.Field("", "firewallLocalCIDR", "LocalCIDR")
	fUnsafe, fAssigned, fDefault := c.Field("", "Firewall", "unsafeNetworks"), c.Field("", "Firewall", "assignedNetworks"), c.Field("", "Firewall", "defaultLocalCIDRAny")
	fLoc := c.Field("firewall", "Packet", "LocalAddr")
	roles := c.c16Params("C16.local-cidr", add, "FLC", "F", "LOCALCIDR")
	if add == nil || mat == nil || fAny == nil || fLC == nil || fUnsafe == nil || fAssigned == nil || fDefault == nil || fLoc == nil || roles == nil {
		return
	}
	FLC, F, L := g1MRoot("FLC"), g1MRoot("F"), g1MRoot("LOCALCIDR")
	isAny, isEmpty := g1MEq(L, g1MStr("any")), g1MEq(L, g1MStr(""))
	noUnsafe := g1MEq(g1MBuiltin("len", g1MField(fUnsafe, F)), g1MInt(0))
	defAny := g1MField(fDefault, F)
	parsed := g1MCall([]Ref{{"net/netip", "", "ParsePrefix"}}, L)
	var wv c16V
	for _, p := range c.g1Explore("C16.local-cidr", &g1Sym{}, add, roles...) {
		if !c16Done(p) {
			continue
		}
		wv.n++
		setsAny := false
		for _, e := range p.Stores(g1MField(fAny, FLC)) {
			setsAny = setsAny || g1MBool(true)(e.Val)
		}
		var ins []g1Event
		for _, e := range p.Calls(g1BartInsert...) {
			if len(e.Args) >= 2 && g1MField(fLC, FLC)(e.Args[0]) {
				ins = append(ins, e)
			}
		}
		wantAny := p.LitIs(isAny, true) || (p.LitIs(isEmpty, true) && (p.LitIs(noUnsafe, true) || p.LitIs(defAny, true)))
		switch {
		case setsAny && !wantAny:
			wv.fail(p, "local CIDR is set to match any address although local_cidr is neither `any` nor (empty with no unsafe networks / default_local_cidr_any)")
		case wantAny && (!setsAny || len(ins) > 0):
			wv.fail(p, "local_cidr any / the any default does not set firewallLocalCIDR.Any")
		case wantAny:
		case p.LitIs(isEmpty, true):
			// default with unsafe networks present: exactly the assigned networks, all of them
			if !p.LitIs(noUnsafe, false) || !p.LitIs(defAny, false) {
				wv.fail(p, "the restricted default is used without unsafe networks being present and default_local_cidr_any being off")
			}
			for k, e := range ins {
				if !g1MIndex(g1MField(fAssigned, F), g1MInt(int64(k)))(e.Args[1]) {
					wv.fail(p, "the default local CIDR inserts something other than the node's assigned networks: "+e.Args[1].String())
				}
			}
			if !p.LitIs(g1MLss(g1MInt(int64(len(ins))), g1MBuiltin("len", g1MField(fAssigned, F))), false) {
				wv.fail(p, "the default local CIDR does not cover every assigned network")
			}
		default:
			if !p.LitIs(isAny, false) || !p.LitIs(isEmpty, false) || !p.LitIs(g1MEq(g1MExtract(parsed, 1), g1MNil), true) || len(ins) != 1 || !g1MExtract(parsed, 0)(ins[0].Args[1]) {
				wv.fail(p, "an explicit local_cidr is not inserted as ParsePrefix(local_cidr) (after it parsed)")
			}
		}
	}
	c.c16Report("C16.local-cidr", "firewallLocalCIDR.addRule", add, &wv, "any / default / explicit prefix are stored as documented")
	mroles := c.g1Roles("C16.local-cidr", mat, map[string]func(types.Type) bool{"FLC": g1TNamed("", "firewallLocalCIDR", true), "P": g1TNamed("firewall", "Packet", false)})
	if mroles == nil {
		return
	}
	contains := g1MCall(bartContainsRefs, g1MField(fLC, FLC), g1MField(fLoc, g1MRoot("P")))
	var rt, rf c16V
	for _, p := range c.g1Explore("C16.local-cidr", &g1Sym{ForkResults: true}, mat, mroles...) {
		r, ok := p.ResBool(0)
		if p.Panic || !ok || p.LitIs(g1MEq(FLC, g1MNil), true) {
			continue
		}
		if r {
			rt.n++
			if !p.LitIs(g1MField(fAny, FLC), true) && !p.LitIs(contains, true) {
				rt.fail(p, "firewallLocalCIDR.match returns true although neither Any is set nor LocalCIDR contains the packet's local address")
			}
		} else {
			rf.n++
			if !p.LitIs(g1MField(fAny, FLC), false) || !p.LitIs(contains, false) {
				rf.fail(p, "firewallLocalCIDR.match returns false without Any being unset and LocalCIDR not containing the packet's local address")
			}
		}
	}
	c.c16Report("C16.local-cidr", "firewallLocalCIDR.match:true", mat, &rt, "Any or Contains(LocalAddr)")
	c.c16Report("C16.local-cidr", "firewallLocalCIDR.match:false", mat, &rf, "neither")
}
