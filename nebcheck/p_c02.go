package main

import (
	"fmt"
	"go/token"
	"sort"
	"strings"

	"golang.org/x/tools/go/ssa"
)

func init() {
	register(&Property{
		ID: "C02", Title: "Tampered certificates are rejected",
		Patterns:  []string{"./cert/..."},
		Technique: "field coverage of the signed / fingerprinted buffers, writer-verifier layout agreement, provenance of decoded details from the signed bytes, dominating in-band-key refusal, provenance of the alternate fingerprint",
		LevelText: "Structural necessary conditions decided on all paths for both certificate versions: every decoded identity field is inside the bytes the signature covers (v1: every detailsV1 field is re-serialised by getRawDetails, which both signer and verifier use; v2: details are decoded from the very rawDetails value that is stored and verified, and the verified buffer is rawDetails|curve|publicKey with the layout the signer wrote), the fingerprint additionally covers the signature, a passed-in public key excludes an in-band one, Copy() copies every field, and the only alternate signature form accepted is p256.Swap of the original on a copy.",
		LevelNote: "Not decided: injectivity of protobuf/ASN.1 encodings (that a flipped bit changes a decoded value), signature unforgeability, p256.Swap arithmetic.",
		Explanation: "K6 field coverage (getRawDetails, Copy, Fingerprint), K7 layout agreement marshalForSigning vs CheckSignature, K11 provenance (details <- unmarshalDetails(rawDetails), message <- getRawDetails, alternate fingerprint chain), K1 in-band key refusal",
		Run:       runC02,
		Canaries: func(c *Ctx) []Canary {
			return []Canary{
				{Name: "v2-fingerprint-omits-signature", File: "cert/cert_v2.go", Old: "\tcopy(b[len(c.rawDetails)+1+len(c.publicKey):], c.signature)\n", New: "", Rule: "C02.fingerprint"},
				{Name: "v2-verify-skips-curve-byte", File: "cert/cert_v2.go", Old: "\tb := make([]byte, len(c.rawDetails)+1+len(c.publicKey))\n\tcopy(b, c.rawDetails)\n\tb[len(c.rawDetails)] = byte(c.curve)\n\tcopy(b[len(c.rawDetails)+1:], c.publicKey)\n\n\tswitch c.curve {", New: "\tb := make([]byte, len(c.rawDetails)+1+len(c.publicKey))\n\tcopy(b, c.rawDetails)\n\tcopy(b[len(c.rawDetails)+1:], c.publicKey)\n\n\tswitch c.curve {", Rule: "C02.signed"},
				{Name: "v1-rawdetails-drops-isCA", File: "cert/cert_v1.go", Old: "\t\tIsCA:      c.details.isCA,\n\t\tCurve:     c.details.curve,\n\t}\n\n\tfor _, ipNet := range c.details.networks {", New: "\t\tCurve:     c.details.curve,\n\t}\n\n\tfor _, ipNet := range c.details.networks {", Rule: "C02.signed"},
				{Name: "v2-accepts-inband-key-with-passed-key", File: "cert/cert_v2.go", Old: "\t\tif input.PeekASN1Tag(TagCertPublicKey) {\n\t\t\treturn nil, ErrCertPubkeyPresent\n\t\t}\n", New: "\t\tinput.SkipOptionalASN1(TagCertPublicKey)\n", Rule: "C02.inband-key"},
				{Name: "v2-copy-forgets-curve", File: "cert/cert_v2.go", Old: "\t\tcurve:      c.curve,\n\t\tpublicKey:  make([]byte, len(c.publicKey)),", New: "\t\tpublicKey:  make([]byte, len(c.publicKey)),", Rule: "C02.copy"},
				{Name: "alt-fingerprint-of-original-sig", File: "cert/cert.go", Old: "b, err := p256.Swap(nc.Signature())", New: "b, err := p256.Normalize(nc.Signature())", Rule: "C02.twin"},
			}
		},
	})
}

func runC02(c *Ctx) {
	c.Rule("C02.signed", "K6/K7/K11: the bytes the verifier checks contain every identity field: v1 getRawDetails reads every detailsV1 field and both marshalForSigning and CheckSignature serialise it; v2 verifies rawDetails|curve|publicKey with the signer's layout and decodes details from the same rawDetails", 6)
	c.Rule("C02.fingerprint", "K6: the fingerprint covers the signed bytes and the signature (v2: 4 fields; v1: Marshal() = getRawDetails + signature)", 2)
	c.Rule("C02.inband-key", "K1: when a public key is passed in (handshake form) an in-band key is refused before the passed key is used", 2)
	c.Rule("C02.copy", "K6: Copy() reads and writes every field of the certificate and its details", 2)
	c.Rule("C02.twin", "K11/K1: the alternate fingerprint is Fingerprint() of a Copy() whose signature was replaced by p256.Swap(Signature()), only for P-256", 4)

	v1 := c.NamedType("cert", "certificateV1")
	d1 := c.NamedType("cert", "detailsV1")
	v2 := c.NamedType("cert", "certificateV2")
	d2 := c.NamedType("cert", "detailsV2")
	if v1 == nil || d1 == nil || v2 == nil || d2 == nil {
		return
	}
	// ---- v1: getRawDetails covers detailsV1
	if fn := c.Func(Ref{"cert", "certificateV1", "getRawDetails"}); fn != nil {
		read := fieldsReadBy(fn, d1)
		var missing []string
		for _, f := range structFields(d1) {
			if !read[f] {
				missing = append(missing, f)
			}
		}
		c.Check(len(missing) == 0, "C02.signed", "v1:getRawDetails-covers-detailsV1", c.P.Pos(fn.Pos()), "reads "+setStr(read), "decoded identity field(s) not included in the signed serialisation: "+strings.Join(missing, ","))
	}
	msgFromRaw := func(v ssa.Value) bool {
		return derivesFrom(v, sliceThrough, isCallTo(Ref{"cert", "certificateV1", "getRawDetails"}))
	}
	if fn := c.Func(Ref{"cert", "certificateV1", "marshalForSigning"}); fn != nil {
		ok := true
		n := 0
		for _, s := range successReturns(fn, 1) {
			n++
			ok = ok && msgFromRaw(retResult(s.Instr.(*ssa.Return), 0))
		}
		c.Check(ok && n > 0, "C02.signed", "v1:marshalForSigning<-getRawDetails", c.P.Pos(fn.Pos()), "signed message is the serialised raw details", "v1 signing message does not derive from getRawDetails()")
	}
	if fn := c.Func(Ref{"cert", "certificateV1", "CheckSignature"}); fn != nil {
		c02VerifyCalls(c, fn, "v1", msgFromRaw, v1)
	}
	// ---- v2 layout
	var signLayout, verifyLayout []string
	if fn := c.Func(Ref{"cert", "certificateV2", "marshalForSigning"}); fn != nil {
		for _, s := range successReturns(fn, 1) {
			buf := stripValue(retResult(s.Instr.(*ssa.Return), 0))
			ws := bufferWrites(fn, buf)
			fs := map[string]bool{}
			for _, w := range ws {
				signLayout = append(signLayout, w.Off+"<-"+w.Src)
				for f := range fieldsIn(w.SrcVal, v2, sliceLocal) {
					fs[f] = true
				}
			}
			ok := fs["rawDetails"] && fs["curve"] && fs["publicKey"]
			c.Check(ok, "C02.signed", "v2:marshalForSigning-covers", c.instrPos(s.Instr), "message built from "+setStr(fs), "v2 signing message is missing one of rawDetails/curve/publicKey: has "+setStr(fs))
			// rawDetails must be this certificate's details.Marshal()
			raw := fieldsWrittenBy(fn, v2)["rawDetails"]
			c.Check(raw != nil && derivesFrom(raw, sliceLocal, isCallTo(Ref{"cert", "detailsV2", "Marshal"})), "C02.signed", "v2:rawDetails<-details.Marshal", c.P.Pos(fn.Pos()), "rawDetails is the serialised details", "rawDetails is not set from details.Marshal() before signing")
		}
	}
	if fn := c.Func(Ref{"cert", "certificateV2", "CheckSignature"}); fn != nil {
		var bufs []ssa.Value
		isMsg := func(v ssa.Value) bool {
			v = stripValue(v)
			for _, b := range bufs {
				if b == v {
					return true
				}
			}
			if _, ok := v.(*ssa.MakeSlice); ok {
				bufs = append(bufs, v)
				return true
			}
			return false
		}
		c02VerifyCalls(c, fn, "v2", isMsg, v2)
		for _, buf := range bufs {
			ws := bufferWrites(fn, buf)
			fs := map[string]bool{}
			for _, w := range ws {
				verifyLayout = append(verifyLayout, w.Off+"<-"+w.Src)
				for f := range fieldsIn(w.SrcVal, v2, sliceLocal) {
					fs[f] = true
				}
			}
			ok := fs["rawDetails"] && fs["curve"] && fs["publicKey"]
			c.Check(ok, "C02.signed", "v2:CheckSignature-covers", c.P.Pos(fn.Pos()), "verified message built from "+setStr(fs), "v2 verified message is missing one of rawDetails/curve/publicKey: has "+setStr(fs))
		}
	}
	sort.Strings(signLayout)
	sort.Strings(verifyLayout)
	if len(signLayout) > 0 && len(verifyLayout) > 0 {
		c.Check(strings.Join(signLayout, " | ") == strings.Join(verifyLayout, " | "), "C02.signed", "v2:layout-agreement", "cert/cert_v2.go", "signer and verifier build the same layout: "+strings.Join(signLayout, " | "),
			"signer layout ["+strings.Join(signLayout, " | ")+"] differs from verifier layout ["+strings.Join(verifyLayout, " | ")+"]")
	}
	// ---- v2 unmarshal: details decoded from the stored rawDetails
	if fn := c.Func(Ref{"cert", "", "unmarshalCertificateV2"}); fn != nil {
		w := fieldsWrittenBy(fn, v2)
		det, raw := w["details"], w["rawDetails"]
		ok := false
		if det != nil && raw != nil {
			rawBase := stripValue(raw)
			ok = derivesFrom(det, sliceLocal, func(x ssa.Value) bool {
				call, _ := callOf(x)
				if call == nil || !matchFunc(calleeObj(call), Ref{"cert", "", "unmarshalDetails"}) {
					return false
				}
				return stripValue(call.Call.Args[0]) == rawBase || exprString(call.Call.Args[0]) == exprString(raw)
			})
		}
		c.Check(ok, "C02.signed", "v2:details<-unmarshalDetails(rawDetails)", c.P.Pos(fn.Pos()), "decoded details come from the stored (signed) rawDetails", "decoded details do not come from the same bytes that are stored as rawDetails and verified")
		for _, f := range []string{"curve", "publicKey", "signature"} {
			c.Check(w[f] != nil, "C02.signed", "v2:unmarshal-sets-"+f, c.P.Pos(fn.Pos()), "set", "field not set by the decoder")
		}
	}
	// ---- fingerprints
	if fn := c.Func(Ref{"cert", "certificateV2", "Fingerprint"}); fn != nil {
		fs := map[string]bool{}
		n := 0
		eachInstr(fn, func(in ssa.Instruction) {
			if call, ok := in.(*ssa.Call); ok && matchFunc(calleeObj(call), Ref{"crypto/sha256", "", "Sum256"}) {
				n++
				for _, w := range bufferWrites(fn, stripValue(call.Call.Args[0])) {
					for f := range fieldsIn(w.SrcVal, v2, sliceLocal) {
						fs[f] = true
					}
				}
			}
		})
		ok := n == 1 && fs["rawDetails"] && fs["curve"] && fs["publicKey"] && fs["signature"]
		c.Check(ok, "C02.fingerprint", "v2:Fingerprint-covers", c.P.Pos(fn.Pos()), "hash input built from "+setStr(fs), "v2 fingerprint does not cover rawDetails, curve, publicKey and signature: covers "+setStr(fs))
	}
	if fn := c.Func(Ref{"cert", "certificateV1", "Fingerprint"}); fn != nil {
		ok := false
		eachInstr(fn, func(in ssa.Instruction) {
			if call, isC := in.(*ssa.Call); isC && matchFunc(calleeObj(call), Ref{"crypto/sha256", "", "Sum256"}) {
				ok = derivesFrom(call.Call.Args[0], sliceLocal, isCallTo(Ref{"cert", "certificateV1", "Marshal"}))
			}
		})
		m := c.Func(Ref{"cert", "certificateV1", "Marshal"})
		if m != nil {
			rd := fieldsReadBy(m, v1)
			ok = ok && rd["signature"] && len(callsIn(m, Ref{"cert", "certificateV1", "getRawDetails"})) > 0
		}
		c.Check(ok, "C02.fingerprint", "v1:Fingerprint-covers", c.P.Pos(fn.Pos()), "sha256(Marshal()) with Marshal = getRawDetails + signature", "v1 fingerprint no longer hashes Marshal() (details + signature)")
	}
	// ---- in-band key refusal
	if fn := c.Func(Ref{"cert", "", "unmarshalCertificateV2"}); fn != nil {
		pk := fn.Params[1]
		var sinks []Sink
		eachInstr(fn, func(in ssa.Instruction) {
			if call, ok := in.(*ssa.Call); ok && builtinName(call) == "copy" && stripValue(call.Call.Args[1]) == pk {
				sinks = append(sinks, Sink{Instr: call, Desc: "use of the passed-in key"})
			}
		})
		c.requireGuards("C02.inband-key", fn, sinks, "use-passed-key",
			gBool("no in-band public key (PeekASN1Tag false)", false, -1, callTo(Ref{"golang.org/x/crypto/cryptobyte", "String", "PeekASN1Tag"})))
	}
	if fn := c.Func(Ref{"cert", "", "unmarshalCertificateV1"}); fn != nil {
		pk := fn.Params[1]
		var sinks []Sink
		eachInstr(fn, func(in ssa.Instruction) {
			if call, ok := in.(*ssa.Call); ok && builtinName(call) == "copy" && stripValue(call.Call.Args[1]) == pk {
				sinks = append(sinks, Sink{Instr: call, Desc: "use of the passed-in key"})
			}
		})
		rawPK := c.Field("cert", "RawNebulaCertificateDetails", "PublicKey")
		c.requireGuards("C02.inband-key", fn, sinks, "use-passed-key",
			gCmp("len(rc.Details.PublicKey) == 0", isLenOf(func(v ssa.Value) bool { return loadsField(v, rawPK) }), isIntConst(0), func(op token.Token) (bool, bool) {
				switch op {
				case token.NEQ, token.GTR:
					return true, false
				case token.EQL, token.LEQ:
					return true, true
				}
				return false, false
			}))
	}
	// ---- Copy coverage
	for _, pair := range []struct {
		recv string
		t, d *namedPair
	}{{"certificateV1", &namedPair{v1, d1}, nil}, {"certificateV2", &namedPair{v2, d2}, nil}} {
		fn := c.Func(Ref{"cert", pair.recv, "Copy"})
		if fn == nil {
			continue
		}
		var missing []string
		for _, n := range []*namedTy{{pair.t.a}, {pair.t.b}} {
			rd, wr := fieldsReadBy(fn, n.n), fieldsWrittenBy(fn, n.n)
			for _, f := range structFields(n.n) {
				if !rd[f] {
					missing = append(missing, n.n.Obj().Name()+"."+f+"(not read)")
				}
				if _, ok := wr[f]; !ok {
					if f == "details" { // nested struct written field by field
						continue
					}
					missing = append(missing, n.n.Obj().Name()+"."+f+"(not written)")
				}
			}
		}
		c.Check(len(missing) == 0, "C02.copy", pair.recv+".Copy", c.P.Pos(fn.Pos()), "every field copied", "Copy() does not copy: "+strings.Join(missing, ", "))
	}
	// ---- alternate fingerprint chain
	if fn := c.Func(Ref{"cert", "", "CalculateAlternateFingerprint"}); fn != nil {
		fromCopy := func(v ssa.Value) bool { return derivesFrom(v, sliceLocal, isCallTo(certM("Copy"))) }
		swaps := callsIn(fn, Ref{"cert/p256", "", "Swap"})
		okSwap := len(swaps) == 1
		for _, s := range swaps {
			call, _ := callOf(s.Common().Args[0])
			okSwap = okSwap && call != nil && matchFunc(calleeObj(call), certM("Signature")) && fromCopy(callArgs(call)[0])
		}
		c.Check(okSwap, "C02.twin", "Swap(copy.Signature())", c.P.Pos(fn.Pos()), "p256.Swap applied to the copy's signature", "alternate form is not p256.Swap of the certificate's own signature")
		sets := callsIn(fn, Ref{"cert", "certificateV1", "setSignature"}, Ref{"cert", "certificateV2", "setSignature"})
		okSet := len(sets) >= 2
		for _, s := range sets {
			a := callArgs(s)
			okSet = okSet && fromCopy(a[0]) && derivesFrom(a[1], sliceLocal, isCallTo(Ref{"cert/p256", "", "Swap"}))
		}
		c.Check(okSet, "C02.twin", "setSignature(copy, swapped)", c.P.Pos(fn.Pos()), fmt.Sprintf("%d setSignature calls on the copy with the swapped signature", len(sets)), "setSignature is not applied to the copy with the swapped signature for every version")
		// non-empty result only from copy.Fingerprint(), guarded by curve == P256 and the error checks
		var sinks []Sink
		okRet := true
		for _, s := range successReturns(fn, 1) {
			r := retResult(s.Instr.(*ssa.Return), 0)
			if str, ok := constString(r); ok && str == "" {
				continue
			}
			call, _ := callOf(r)
			if call == nil || !matchFunc(calleeObj(call), certM("Fingerprint")) || !fromCopy(callArgs(call)[0]) {
				okRet = false
			}
			sinks = append(sinks, s)
		}
		c.Check(okRet && len(sinks) > 0, "C02.twin", "result<-copy.Fingerprint()", c.P.Pos(fn.Pos()), "non-empty result is the copy's fingerprint", "a non-empty alternate fingerprint that is not Fingerprint() of the modified copy")
		c.requireGuards("C02.twin", fn, sinks, "nonempty-result",
			gCmp("curve == P256", isCallTo(certM("Curve")), func(v ssa.Value) bool { k, ok := constInt(v); return ok && k == 1 }, mustEqual),
			gErrNil("Swap ok", callTo(Ref{"cert/p256", "", "Swap"})))
	}
}

type namedPair struct{ a, b *typesNamed }
type namedTy struct{ n *typesNamed }

// c02VerifyCalls: every signature verification primitive in fn is applied to a message for which
// isMsg holds, and to the certificate's own signature field.
func c02VerifyCalls(c *Ctx, fn *ssa.Function, ver string, isMsg func(ssa.Value) bool, cert *typesNamed) {
	n := 0
	eachInstr(fn, func(in ssa.Instruction) {
		call, ok := in.(*ssa.Call)
		if !ok {
			return
		}
		o := calleeObj(call)
		switch {
		case matchFunc(o, Ref{"crypto/ed25519", "", "Verify"}):
			n++
			okM := isMsg(call.Call.Args[1])
			okS := fieldsIn(call.Call.Args[2], cert, sliceLocal)["signature"]
			c.Check(okM && okS, "C02.signed", ver+":ed25519.Verify-args", c.instrPos(call), "verifies the signed serialisation against c.signature", "ed25519.Verify is not applied to (signed serialisation, c.signature)")
		case matchFunc(o, Ref{"crypto/ecdsa", "", "VerifyASN1"}):
			n++
			okM := derivesFrom(call.Call.Args[1], sliceLocal, func(x ssa.Value) bool {
				h, _ := callOf(x)
				return h != nil && matchFunc(calleeObj(h), Ref{"crypto/sha256", "", "Sum256"}) && isMsg(h.Call.Args[0])
			})
			okS := fieldsIn(call.Call.Args[2], cert, sliceLocal)["signature"]
			c.Check(okM && okS, "C02.signed", ver+":ecdsa.VerifyASN1-args", c.instrPos(call), "verifies sha256(signed serialisation) against c.signature", "ecdsa.VerifyASN1 is not applied to (sha256(signed serialisation), c.signature)")
		}
	})
	if n < 2 {
		c.Bad("C02.signed", ver+":verify-primitives", c.P.Pos(fn.Pos()), fmt.Sprintf("expected ed25519.Verify and ecdsa.VerifyASN1 in CheckSignature, found %d verification calls", n))
	}
	// true is returned only as the result of a verification primitive
	for i, s := range boolReturns(fn, 0, true) {
		r := retResult(s.Instr.(*ssa.Return), 0)
		call, _ := callOf(r)
		ok := call != nil && (matchFunc(calleeObj(call), Ref{"crypto/ed25519", "", "Verify"}) || matchFunc(calleeObj(call), Ref{"crypto/ecdsa", "", "VerifyASN1"}))
		c.Check(ok, "C02.signed", fmt.Sprintf("%s:CheckSignature-true#%d", ver, i), c.instrPos(s.Instr), "true only from a verification primitive", "CheckSignature can return true without a verification primitive deciding it")
	}
}
